(* Properties/C11.v — part.Tree is a correct, persistent ordered map.
   Only statements closed by `exact`, with their assumptions printed.
   Model: Part/Model.v (mechanism level). abs = entry list of the tree (Part/Sem.v ents),
   specification = Base/OrdMap.v. *)
From SV Require Import Base.Bytes Base.OrdMap Part.Model Part.Sem Part.Insert Part.Delete Part.Query Part.Refine Part.Cow Part.Traverse Part.Shape.
Open Scope N_scope.

(* the abstraction of a well-formed tree is a strictly sorted association list *)
Theorem C11_abs_sorted : forall r, wf_root r -> om_sorted (abs_root r).
Proof. exact abs_sorted. Qed.
Print Assumptions C11_abs_sorted.

(* Insert / Modify / InsertWatch / ModifyWatch: invariant (key consistency, sorted children,
   size = number of entries) preserved; new contents = om_insert; returned old value = om_get;
   stored value = mod(old, new) resp. new. For all keys (empty, prefixes of each other) and trees. *)
Theorem C11_modify_refines : forall x md key v,
  txn_ok x ->
  let '(x', old, nv, _) := txn_modify x md key v in
  txn_ok x' /\
  abs_txn x' = om_insert key nv (abs_txn x) /\
  old = om_get key (abs_txn x) /\
  nv = match old with Some o => new_val md v o | None => v end.
Proof. exact txn_modify_refines. Qed.
Print Assumptions C11_modify_refines.

(* Delete (incl. removeChild promotion/demotion/merge): invariant preserved, contents = om_delete,
   returned old value = om_get *)
Theorem C11_delete_refines : forall x key,
  txn_ok x ->
  let '(x', old) := txn_delete x key in
  txn_ok x' /\ abs_txn x' = om_delete key (abs_txn x) /\ old = om_get key (abs_txn x).
Proof. exact txn_delete_refines. Qed.
Print Assumptions C11_delete_refines.

(* Get on a Tree or Txn *)
Theorem C11_get_refines : forall r rw key, wf_root r -> fst (root_get r rw key) = om_get key (abs_root r).
Proof. exact root_get_refines. Qed.
Print Assumptions C11_get_refines.

(* full iteration (Iterator.All of Tree.Iterator / Txn.Iterator / Txn.All) is exactly the sorted list *)
Theorem C11_iteration_refines : forall r, wf_root r -> iter_all (new_iterator r) = abs_root r.
Proof. exact iter_all_refines. Qed.
Print Assumptions C11_iteration_refines.

(* Len: part of txn_ok / tree_ok (size = length of the abstraction); Tree.Txn, Clone, Commit keep it *)
Theorem C11_commit_clone_txn_ok : forall x t next,
  (txn_ok x -> tree_ok (snd (txn_commit x)) /\ abs_tree (snd (txn_commit x)) = abs_txn x /\
               txn_ok (fst (txn_commit x)) /\ abs_txn (fst (txn_commit x)) = abs_txn x) /\
  (txn_ok x -> tree_ok (snd (txn_clone x)) /\ abs_tree (snd (txn_clone x)) = abs_txn x /\
               txn_ok (fst (txn_clone x)) /\ abs_txn (fst (txn_clone x)) = abs_txn x) /\
  (tree_ok t -> txn_ok (tree_txn t next) /\ abs_txn (tree_txn t next) = abs_tree t).
Proof. exact (fun x t next => conj (txn_commit_ok x) (conj (txn_clone_ok x) (tree_txn_ok t next))). Qed.
Print Assumptions C11_commit_clone_txn_ok.

(* all histories inside a transaction: any sequence of inserts, modifies, deletes and id bumps
   (Clone / Iterator / Prefix / LowerBound / All) — induction, no bounds *)
Theorem C11_history_refines : forall ops x, txn_ok x ->
  txn_ok (fold_left wstep ops x) /\ abs_txn (fold_left wstep ops x) = fold_left mstep ops (abs_txn x).
Proof. exact history_refines. Qed.
Print Assumptions C11_history_refines.

(* all chains of committed transactions *)
Theorem C11_chain_refines : forall txns t next, tree_ok t ->
  Forall tree_ok (run_txns t next txns) /\ map abs_tree (run_txns t next txns) = run_abs (abs_tree t) txns.
Proof. exact chain_refines. Qed.
Print Assumptions C11_chain_refines.

(* persistence over histories (model level): the versions produced so far are a prefix of
   what any continuation produces *)
Theorem C11_chain_persistent : forall txns0 txns1 t next,
  exists later, run_txns t next (txns0 ++ txns1) = run_txns t next txns0 ++ later.
Proof. exact chain_persistent. Qed.
Print Assumptions C11_chain_persistent.

(* ---- copy-on-write discipline (what makes the persistence of the pure model valid for the Go heap):
   a txn mutates in place (cloneNode = identity) only nodes whose id equals its own id ... *)
Theorem C11_cow_inplace_only_own : forall c s t w, t <> c_tid c ->
  fst (fst (clone_hdr c s t w)) = c_tid c /\ s_ws (snd (clone_hdr c s t w)) = s_ws (record w s).
Proof. exact clone_hdr_inplace_only. Qed.
Print Assumptions C11_cow_inplace_only_own.

(* ... every node in a txn's tree has id <= the txn id, preserved by Insert/Modify/Delete ... *)
Theorem C11_cow_ids_bounded : forall x md key v,
  (txn_ids_ok x -> txn_ids_ok (fst (fst (fst (txn_modify x md key v)))) /\
                   t_tid (fst (fst (fst (txn_modify x md key v)))) = t_tid x) /\
  (txn_ids_ok x -> txn_ids_ok (fst (txn_delete x key)) /\ t_tid (fst (txn_delete x key)) = t_tid x).
Proof. exact (fun x md key v => conj (txn_modify_ids x md key v) (txn_delete_ids x key)). Qed.
Print Assumptions C11_cow_ids_bounded.

(* ... every root handed out (Clone, Iterator/Prefix/LowerBound/All = bump, Commit) reaches only ids
   strictly below the txn id from then on, and a txn begun from a committed tree starts above all its ids ... *)
Theorem C11_cow_published : forall x t next,
  (txn_ids_ok x -> published (bump x) (t_root x) /\ txn_ids_ok (bump x)) /\
  (txn_ids_ok x -> tree_ids_ok (snd (txn_clone x)) /\ txn_ids_ok (fst (txn_clone x))) /\
  (txn_ids_ok x -> tree_ids_ok (snd (txn_commit x)) /\ txn_ids_ok (fst (txn_commit x))) /\
  (tree_ids_ok t -> txn_ids_ok (tree_txn t next) /\ published (tree_txn t next) (tr_root t)) /\
  (forall x' r, t_tid x <= t_tid x' -> published x r -> published x' r).
Proof.
  exact (fun x t next => conj (bump_publishes x) (conj (clone_publishes x) (conj (commit_publishes x)
          (conj (tree_txn_ids t next) (fun x' r => published_mono x x' r))))).
Qed.
Print Assumptions C11_cow_published.

(* ... hence no node (inner node or leaf) of a published root is ever mutated in place *)
Theorem C11_cow_published_never_mutated : forall x r, published x r ->
  match r with None => True | Some n => no_inplace (txn_ctx x) n end.
Proof. exact published_never_mutated. Qed.
Print Assumptions C11_cow_published_never_mutated.

(* Prefix (Tree.Prefix / Txn.Prefix): the iterator yields exactly the entries whose key starts with q, in order
   (q empty, ending inside a compressed path, at an inner node, at a leaf, or matching nothing) *)
Theorem C11_prefix_refines : forall r rw q, wf_root r ->
  iter_all (fst (root_prefix r rw q)) = om_prefix q (abs_root r).
Proof. exact root_prefix_refines. Qed.
Print Assumptions C11_prefix_refines.

(* LowerBound (incl. the node256 variant and traverseToMin): exactly the entries with key >= k, in order *)
Theorem C11_lowerbound_refines : forall r k, wf_root r ->
  iter_all (root_lowerbound r k) = om_lower_bound k (abs_root r).
Proof. exact root_lowerbound_refines. Qed.
Print Assumptions C11_lowerbound_refines.

(* Iterator.Next (the edge-stack loop, explicit fuel) pops exactly the head of what Iterator.All yields *)
Theorem C11_next_agrees_all : forall it,
  match iter_next it with
  | (Some kv, it') => iter_all it = kv :: iter_all it'
  | (None, it') => iter_all it = [] /\ iter_all it' = []
  end.
Proof. exact iter_next_agrees_all. Qed.
Print Assumptions C11_next_agrees_all.

(* shape part of the invariant (what validateTree asserts): kind tag = capacity class of the child count
   (4: <=4, 16: 5..16, 48: 17..48, 256: >=49) and no leafless inner node with fewer than two children; preserved by
   Insert/Modify (promotion) and Delete (removeChild demotion / merge) *)
Theorem C11_shape_preserved : forall x md key v,
  match t_root x with None => True | Some n => wfk [] n end -> shape_root (t_root x) ->
  shape_root (t_root (fst (fst (fst (txn_modify x md key v))))) /\ shape_root (t_root (fst (txn_delete x key))).
Proof. exact txn_shape_preserved. Qed.
Print Assumptions C11_shape_preserved.

(* non-vacuity: the fresh tree satisfies the invariant, and a concrete history with keys that are
   prefixes of each other, the empty key, and a delete that merges nodes runs as specified *)
Example C11_nonvacuous :
  tree_ok (fst (tree_new false 1)) /\
  abs_txn (fold_left wstep [WIns [1;2] 10; WIns [] 11; WIns [1] 12; WIns [1;2;3] 13; WBump; WDel [1]; WMod [1;2] 5 mod_fun]
                     (tree_txn (fst (tree_new false 1)) 2))
  = [([], 11); ([1;2], 75); ([1;2;3], 13)].
Proof. split; [exact (proj1 (tree_new_ok false 1))|vm_compute; reflexivity]. Qed.

(* ---- the pointer-heap model of the write path (Part/Heap.v): nodes and leaves are cells of a heap,
   Txn.cloneNode returns its argument for IN-PLACE mutation exactly when node.txnID = txn.txnID and
   otherwise allocates a shallow copy (children and leaf shared with the original); delete's
   single-child merge allocates child.clone(false). What the tree-valued model above cannot express
   is proved here: the in-place writes of a transaction never hit a cell reachable from any other
   tree, clone, iterator or snapshot — of any lineage, whatever the ids. *)
From SV Require Part.Heap Part.HeapBase Part.HeapMod Part.HeapDel Part.HeapProofs.
Module C11_Heap.
Import SV.Part.Heap SV.Part.HeapBase SV.Part.HeapMod SV.Part.HeapDel SV.Part.HeapProofs.

(* the computed denotation (fuel = number of cells) is the relational one *)
Theorem C11_heap_den_is_rep : forall h a t, rep h a t -> den h a = Some t.
Proof. exact rep_den. Qed.
Print Assumptions C11_heap_den_is_rep.

(* (a) REFINEMENT: Insert/Modify/InsertWatch/ModifyWatch and Delete on the heap compute exactly what
   Part/Model.v computes on the denoted tree (root tree incl. all txnIDs and watch channels, size,
   watch state, returned old value / new value / watch) and preserve the invariant.
   hinv: 0 < txn id; the root represents a tree whose cells are frozen (leaves; inner nodes with
   id < txn id; all satisfying P) or owned (id = txn id, an unshared tree, all in x_own).
   Pext: P holds of the addresses not yet allocated. *)
Theorem C11_heap_refines_tree : forall (P : nat -> Prop) h x md key v, hinv P h x -> @Pext P h ->
  (let '(h', x', old, nv, w) := htxn_modify h x md key v in
   hinv P h' x' /\ (habs h' x', old, nv, w) = txn_modify (habs h x) md key v) /\
  (let '(h', x', old) := htxn_delete h x key in
   hinv P h' x' /\ (habs h' x', old) = txn_delete (habs h x) key).
Proof. exact heap_refines_tree. Qed.
Print Assumptions C11_heap_refines_tree.

(* (b) OWNERSHIP: a cell reachable from the txn's root carries the txn id iff the txn allocated AND
   stamped it since its id was last bumped (x_own); Insert/Modify/Delete overwrite only such cells
   and otherwise only append *)
Theorem C11_inplace_writes_only_owned : forall (P : nat -> Prop) h x md key v, hinv P h x -> @Pext P h ->
  (forall a, reach_root h (x_root x) a -> (cell_tid (hget h a) = x_tid x <-> In a (x_own x))) /\
  (let '(h', x', _, _, _) := htxn_modify h x md key v in
   (length h <= length h')%nat /\ x_own x' = own_after x h h' /\ x_tid x' = x_tid x /\
   forall a, (a < length h)%nat -> ~ In a (x_own x) -> nth_error h' a = nth_error h a) /\
  (let '(h', x', _) := htxn_delete h x key in
   (length h <= length h')%nat /\ (x_own x' = own_after x h h' \/ h' = h /\ x' = x) /\ x_tid x' = x_tid x /\
   forall a, (a < length h)%nat -> ~ In a (x_own x) -> nth_error h' a = nth_error h a).
Proof. exact inplace_writes_only_owned. Qed.
Print Assumptions C11_inplace_writes_only_owned.

(* ... where "allocated since the bump" alone is NOT the right own-set: the clone made by the merge
   branches keeps the child's older id (and leaves report id 0) although this txn allocated them *)
Theorem C11_own_is_not_all_allocated_refuted :
  exists (h : heap) (x : htxn) (k : bytes) (a : nat),
    hinv (fun _ => True) h x /\
    let '(h', x', _) := htxn_delete h x k in
    reach_root h' (x_root x') a /\ (length h <= a < length h')%nat /\
    cell_tid (hget h' a) <> x_tid x' /\ cell_tid (hget h' a) <> 0 /\ ~ In a (x_own x').
Proof. exact own_is_not_all_allocated. Qed.
Print Assumptions C11_own_is_not_all_allocated_refuted.

(* the system of two live transactions and all handed-out roots on one heap: the invariant holds
   initially (empty heap, New(), two transactions) and is preserved by every step of either
   transaction: Insert/Modify/Delete, Clone/Iterator/Prefix/LowerBound/All (id bump, root handed
   out), Commit (tree handed out, id bump), abandon + Tree.Txn on ANY handed-out tree (the new
   txn takes that tree's nextTxnID: two live transactions may carry the same id) *)
Theorem C11_heap_system_invariant :
  SInv sys0 /\ (forall s s', SInv s -> sstep s s' -> SInv s') /\ (forall s, ssteps sys0 s -> SInv s).
Proof. exact (conj SInv_sys0 (conj sstep_inv reachable_SInv)). Qed.
Print Assumptions C11_heap_system_invariant.

(* (c) PERSISTENCE: over any interleaving of operations of the two transactions, every root handed
   out before (committed tree, clone, iterator root) stays handed out and denotes the same tree, as
   does every node below it (Prefix / LowerBound start nodes, iterator edge stacks); more generally
   every address r of the heap that reaches no owned cell denotes the same tree *)
Theorem C11_persistence_all_trees : forall s s', SInv s -> ssteps s s' ->
  SInv s' /\
  (forall t, In t (s_pubs s) -> In t (s_pubs s') /\ habs_tree (s_heap s') t = habs_tree (s_heap s) t /\
     forall r, reach_root (s_heap s) (hr_root t) r -> den (s_heap s') r = den (s_heap s) r) /\
  (forall r t, rep (s_heap s) r t -> safe s r -> den (s_heap s') r = den (s_heap s) r).
Proof. exact persistence_all_trees. Qed.
Print Assumptions C11_persistence_all_trees.

(* the other live transaction (begun from the same or from a different tree) is not disturbed either *)
Theorem C11_other_txn_isolated : forall h a b ps h' a' ps', SInv (mkSys h a b ps) -> tstep h a ps h' a' ps' ->
  habs h' b = habs h b.
Proof. exact other_txn_isolated. Qed.
Print Assumptions C11_other_txn_isolated.

(* (d) the seeded shallow-clone bug: the single-child merge of delete rewriting the child's prefix
   in place when the PARENT is owned (instead of child.clone(false)) changes an earlier snapshot:
   keys "a","ab","ac","b"; Commit; the same Txn deletes "ab" then "a". The real code does not. *)
Theorem C11_shallow_child_merge_refuted :
  exists (h : heap) (x : htxn) (snap : htree) (k1 k2 : bytes),
    hinv (fun _ => True) h x /\ pub_ok h (x_own x) [] snap /\
    (let '(h1, x1, _) := htxn_delete_bug h x k1 in
     let '(h2, _, _) := htxn_delete_bug h1 x1 k2 in
     den_root h2 (hr_root snap) <> den_root h (hr_root snap)) /\
    (let '(h1, x1, _) := htxn_delete h x k1 in
     let '(h2, _, _) := htxn_delete h1 x1 k2 in
     den_root h2 (hr_root snap) = den_root h (hr_root snap)).
Proof. exact shallow_child_merge_refuted. Qed.
Print Assumptions C11_shallow_child_merge_refuted.

(* 0 < txn id in the invariant is necessary: leaves report txnID 0, so a txn with id 0 (Tree.New
   before the nextTxnID = 1 fix) mutates a leaf of an earlier tree in place *)
Theorem C11_txn_id_zero_refuted :
  exists (h : heap) (x : htxn) (snap : option nat) (k : bytes) (v : N),
    x_tid x = 0 /\ x_own x = [] /\
    den_root (fst (fst (fst (fst (htxn_modify h x None k v))))) snap <> den_root h snap.
Proof. exact txn_id_zero_refuted. Qed.
Print Assumptions C11_txn_id_zero_refuted.

(* non-vacuity: keys "a","ab","ac","b", Commit (tree t1), Delete "ab" through the same Txn, Commit
   (tree t2): both states satisfy the invariant, t1 and t2 have different roots and share cells,
   and both denotations are as expected after the delete *)
Definition nv_ops : list (bool * act) :=
  [(false, AIns ka 1); (false, AIns kab 2); (false, AIns kac 3); (false, AIns kb 4); (false, ACommit);
   (false, ADel kab); (false, ACommit)].
Example C11_heap_nonvacuous :
  let s1 := srun (firstn 5 nv_ops) sys0 in let s2 := srun nv_ops sys0 in
  SInv s1 /\ SInv s2 /\ ssteps s1 s2 /\
  exists t1 t2 r1 r2 a, In t1 (s_pubs s1) /\ In t2 (s_pubs s2) /\ hr_root t1 = Some r1 /\ hr_root t2 = Some r2 /\
    r1 <> r2 /\ reach (s_heap s2) r1 a /\ reach (s_heap s2) r2 a /\
    den (s_heap s2) r1 = den (s_heap s1) r1 /\
    option_map node_entries (den (s_heap s2) r1) = Some [(ka, 1); (kab, 2); (kac, 3); (kb, 4)] /\
    option_map node_entries (den (s_heap s2) r2) = Some [(ka, 1); (kac, 3); (kb, 4)].
Proof.
  cbv zeta.
  assert (A : ssteps sys0 (srun (firstn 5 nv_ops) sys0)) by apply srun_ssteps.
  assert (B : ssteps (srun (firstn 5 nv_ops) sys0) (srun nv_ops sys0)).
  { rewrite <- (firstn_skipn 5 nv_ops) at 2. unfold srun. rewrite fold_left_app. apply srun_ssteps. }
  split; [apply reachable_SInv; exact A|]. split; [apply reachable_SInv; eapply ssteps_trans; eauto|]. split; [exact B|].
  exists (nth 0 (s_pubs (srun (firstn 5 nv_ops) sys0)) tree0), (nth 0 (s_pubs (srun nv_ops sys0)) tree0), 6%nat, 8%nat, 4%nat.
  split; [apply nth_In; vm_compute; lia|]. split; [apply nth_In; vm_compute; lia|].
  split; [vm_compute; reflexivity|]. split; [vm_compute; reflexivity|]. split; [discriminate|].
  split; [apply (addrs_reach 20); vm_compute; tauto|]. split; [apply (addrs_reach 20); vm_compute; tauto|].
  split; [vm_compute; reflexivity|]. split; vm_compute; reflexivity.
Qed.

(* the hypotheses of (a) and (b) are satisfiable by a non-trivial state: a live transaction of a
   branching two-transaction history that owns cells and shares frozen cells with handed-out trees *)
Example C11_heap_hinv_nonvacuous :
  let h := s_heap HeapExample.s_end in let x := s_b HeapExample.s_end in
  hinv (fun _ => True) h x /\ @Pext (fun _ => True) h /\ x_own x <> [] /\ x_root x <> None /\ (length h = 27)%nat.
Proof.
  cbv zeta. destruct HeapExample.reachable_mid_end as (_ & _ & _ & (_ & HB & _)).
  split; [eapply hinv_P_impl; [exact HB|auto]|]. split; [intros y _; exact I|].
  split; [vm_compute; discriminate|]. split; [vm_compute; discriminate|]. vm_compute. reflexivity.
Qed.
End C11_Heap.

(* ==================================================================================================
   part/node.go child layouts (node4/16/48/256) at array level: Part/Layout.v, engine layout. *)
(* C11_layout_snippet.v — ready to append to coq/theories/Properties/C11.v (engine `layout`).
   The physical child layouts of part's node4/node16/node48/node256 (Part/Layout.v, mechanism
   level: keys array with stale slots, node48 index, children slots) refine the byte-sorted child
   list + kind tag that Part/Model.v works with. Append as is: the Require line below may stay in the
   middle of Properties/C11.v (tested: C11.v ++ this file compiles, 40 x "Closed under the global context");
   keeping it here avoids shadowing names used by the earlier statements. *)
From SV Require Import Base.Bytes Part.Model Part.Layout Part.LayoutBase Part.LayoutKeyed Part.Layout48 Part.Layout256
  Part.LayoutProofs Part.LayoutClauses Part.LayoutRoot Part.LayoutLink Part.LayoutRefuted.
Close Scope N_scope.

(* the well-formedness invariant determines size, sortedness, byte range, capacity and kind *)
Theorem C11_layout_wf_abs : forall l, LWF l ->
  good (l_abs l) /\ l_size l = length (l_abs l) /\ l_size l <= l_cap l /\
  (l_kind l = 4 \/ l_kind l = 16 \/ l_kind l = 48 \/ l_kind l = 256)%N.
Proof. exact LWF_abs. Qed.
Print Assumptions C11_layout_wf_abs.

(* the slot-wise reading of LWF (which LayoutProofs.v defines through canonical forms) *)
Theorem C11_layout_wf_clauses : forall l, LWF l ->
  let ks := l_abs l in
  ssorted ks /\ Forall (fun k => (k < 256)%N) ks /\ l_size l = length ks /\ l_size l <= l_cap l /\
  length (l_children l) = l_cap l /\
  (l_kind l <> 256%N ->
     (forall i, i < l_size l -> child_at (l_children l) i = Some (nth i ks 0%N)) /\
     (forall i, l_size l <= i -> child_at (l_children l) i = None)) /\
  (l_kind l = 4%N \/ l_kind l = 16%N ->
     length (l_keys l) = l_cap l /\
     (forall i, i < l_size l -> key_at (l_keys l) i = nth i ks 0%N) /\
     exists m, forall i, l_size l <= i < l_cap l -> key_at (l_keys l) i = if i <? l_size l + m then 255%N else 0%N) /\
  (l_kind l = 48%N ->
     length (l_index l) = 256 /\
     forall k i, (k < 256)%N ->
       (nth (N.to_nat k) (l_index l) 0 = S i <-> i < l_size l /\ child_at (l_children l) i = Some k)) /\
  (l_kind l = 256%N ->
     forall k, (k < 256)%N -> child_at (l_children l) (N.to_nat k) = if memb k ks then Some k else None).
Proof. exact LWF_clauses. Qed.
Print Assumptions C11_layout_wf_clauses.

(* the empty node4 and the node4s built by Txn.modify's prefix split (fresh arrays) are well-formed *)
Theorem C11_layout_new_node4 : forall lf ks, good ks -> length ks <= 4 ->
  LWF (new_node4 lf ks) /\ l_abs (new_node4 lf ks) = ks.
Proof. exact LWF_new_node4. Qed.
Print Assumptions C11_layout_new_node4.

(* header.find: all four kinds, stale slots included (node4 ignores the size) *)
Theorem C11_layout_find : forall l key, LWF l -> (key < 256)%N -> (l_find l key = true <-> In key (l_abs l)).
Proof. exact l_find_iff. Qed.
Print Assumptions C11_layout_find.

(* header.findIndex: found iff present; index = number of smaller children (the insertion position)
   for node4/16/48 (node4's unrolled scan over stale slots, node48's index hit or binary search);
   node256 returns int(key) *)
Theorem C11_layout_findIndex : forall l key, LWF l -> (key < 256)%N ->
  (fst (l_findIndex l key) = true <-> In key (l_abs l)) /\
  (l_kind l <> 256%N -> snd (l_findIndex l key) = length (filter (fun x => (x <? key)%N) (l_abs l))) /\
  (l_kind l = 256%N -> snd (l_findIndex l key) = N.to_nat key).
Proof. exact l_findIndex_iff. Qed.
Print Assumptions C11_layout_findIndex.

(* header.promote keeps the child list *)
Theorem C11_layout_promote : forall l, LWF l -> l_kind l <> 256%N -> 1 <= l_size l ->
  LWF (l_promote l) /\ l_abs (l_promote l) = l_abs l /\ l_leaf (l_promote l) = l_leaf l /\
  l_kind (l_promote l) = (if l_kind l =? 4 then 16 else if l_kind l =? 16 then 48 else 256)%N.
Proof. exact l_promote_correct. Qed.
Print Assumptions C11_layout_promote.

(* Txn.insert on the parent of a new child: findIndex, promotion exactly when size + 1 > cap, insert *)
Theorem C11_layout_add : forall l k, LWF l -> (k < 256)%N -> memb k (l_abs l) = false ->
  LWF (l_add l k) /\ l_abs (l_add l k) = ins k (l_abs l) /\ l_leaf (l_add l k) = l_leaf l /\
  l_size (l_add l k) = S (l_size l) /\ l_kind (l_add l k) = add_kind (l_kind l) (l_size l).
Proof. exact l_add_correct. Qed.
Print Assumptions C11_layout_add.

(* Txn.delete of a child that is a leaf: findIndex + removeChild; collapse into the last child when the
   node has 2 children and no leaf, demotions at 49 / 17 / 5, otherwise remove in the (cloned) arrays *)
Theorem C11_layout_del : forall l k, LWF l -> LOcc l -> (k < 256)%N -> memb k (l_abs l) = true ->
  if (l_size l =? 2) && negb (l_leaf l)
  then exists c, l_del l k = LCollapsed (Some c) /\ rem k (l_abs l) = [c]
  else exists l', l_del l k = LNode l' /\ LWF l' /\ l_abs l' = rem k (l_abs l) /\ l_leaf l' = l_leaf l /\
                  l_size l' = l_size l - 1 /\ l_kind l' = del_kind (l_kind l) (l_size l).
Proof. exact l_del_correct. Qed.
Print Assumptions C11_layout_del.

(* the invariant (well-formed + occupancy bounds of the kinds) is inductive *)
Theorem C11_layout_inv_preserved : forall l k, LInv l -> (k < 256)%N ->
  LInv (l_add l k) /\ (forall l', l_del l k = LNode l' -> LInv l').
Proof. exact (fun l k H Hk => conj (LInv_add l k H Hk) (fun l' => LInv_del l l' k H Hk)). Qed.
Print Assumptions C11_layout_inv_preserved.

(* closed world: every root reachable from the empty tree by Insert/Delete of the empty key and of
   1-byte keys (the trees of the `layout` engine) is well-formed and within the occupancy bounds, and
   (leaf present, child keys) evolves like a flag and a sorted set *)
Theorem C11_layout_root_history : forall ops r, RInv r -> Forall rop_ok ops ->
  RInv (fold_left r_step ops r) /\ r_abs (fold_left r_step ops r) = fold_left s_step ops (r_abs r).
Proof. exact r_history. Qed.
Print Assumptions C11_layout_root_history.

(* link to Part/Model.v: the child-adding branch of modify_node and remove_child compute the same
   (child key list, kind tag) as the layout model *)
Theorem C11_layout_link_add : forall c md fk v s kd t p w lf ch b rest key l,
  LWF l -> (b < 256)%N ->
  l_kind l = kd -> l_abs l = ch_keys ch -> l_leaf l = opt_some lf ->
  memb b (l_abs l) = false ->
  strip p key = Some (b :: rest) ->
  exists t2 w2 nl,
    m_node (modify_node c md fk v s (Inner kd t p w lf ch) key)
      = Inner (l_kind (l_add l b)) t2 p w2 lf (ch_insert b nl ch) /\
    ch_keys (ch_insert b nl ch) = l_abs (l_add l b) /\
    l_leaf (l_add l b) = opt_some lf.
Proof. exact link_add. Qed.
Print Assumptions C11_layout_link_add.

Theorem C11_layout_link_del : forall c s kd t p w lf ch b l,
  LWF l -> LOcc l -> (b < 256)%N ->
  l_kind l = kd -> l_abs l = ch_keys ch -> l_leaf l = opt_some lf ->
  memb b (l_abs l) = true ->
  match l_del l b with
  | LNode l' =>
    exists t' w' s' ip,
      remove_child c s kd t p w lf ch b = (Inner (l_kind l') t' p w' lf (ch_remove b ch), s', ip) /\
      ch_keys (ch_remove b ch) = l_abs l' /\ l_leaf l' = opt_some lf
  | LCollapsed (Some x) =>
    exists xn, ch_find x ch = Some xn /\ remove_child c s kd t p w lf ch b = (merge_child p xn, record w s, false)
  | LCollapsed None => False
  end.
Proof. exact link_del. Qed.
Print Assumptions C11_layout_link_del.

(* seeded-style variants refuted by witnesses *)
Theorem C11_layout_remove_noclear_refuted : exists l idx key,
  LInv l /\ idx < l_size l /\
  l_find (l_remove_noclear l idx) key = true /\ ~ In key (l_abs (l_remove_noclear l idx)).
Proof. exact remove_noclear_refuted. Qed.
Print Assumptions C11_layout_remove_noclear_refuted.

Theorem C11_layout_remove48_noindex_refuted : exists l idx key,
  LInv l /\ l_kind l = 48%N /\ l_findIndex l key = (true, idx) /\
  l_find (l_remove48_noindex l idx) key = true /\ ~ In key (l_abs (l_remove48_noindex l idx)).
Proof. exact remove48_noindex_refuted. Qed.
Print Assumptions C11_layout_remove48_noindex_refuted.

(* hypotheses are satisfiable: a node48 with 18 children reached by 18 adds from the empty node4
   (two promotions) satisfies the invariant, and deleting from it is the non-collapse case *)
Example C11_layout_nonvacuous :
  LInv node48_0_17 /\ l_kind node48_0_17 = 48%N /\ l_abs node48_0_17 = map N.of_nat (seq 0 18) /\
  memb 7%N (l_abs node48_0_17) = true /\ memb 200%N (l_abs node48_0_17) = false /\
  (l_size node48_0_17 =? 2) && negb (l_leaf node48_0_17) = false.
Proof.
  split; [apply LInv_fold; [exact LInv_empty | apply bytes_seq; lia] |].
  vm_compute. repeat split; reflexivity.
Qed.
