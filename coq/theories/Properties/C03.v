(* Properties/C03.v — Write operations behave like a keyed map with documented results.
   Model: Table/Model.v (modify / delete / step). *)
From SV Require Import Base.Bytes Base.OrdMap Table.Model Table.Proofs.
Open Scope N_scope.

(* Insert / Modify / CompareAndSwap return the previous object or its absence *)
Theorem C03_write_returns_previous : forall g m p t t' old e, modify g m p t = (t', (old, e)) ->
  old = om_get (p_id p) (t_primary t) \/ (e = ENotFound /\ old = None).
Proof. exact modify_result. Qed.
Print Assumptions C03_write_returns_previous.

(* the documented errors of CompareAndSwap for a guard revision > 0 *)
Theorem C03_cas_errors : forall g m p t t' old e, 0 < g -> modify g m p t = (t', (old, e)) ->
  match om_get (p_id p) (t_primary t) with
  | None => e = ENotFound /\ old = None
  | Some o => old = Some o /\ (if o_rev o =? g then e = EOk else e = ERevMismatch)
  end.
Proof. exact modify_guard_spec. Qed.
Print Assumptions C03_cas_errors.

(* a rejected operation changes nothing: the whole table state (contents, every index,
   revision, graveyard, trackers, initializers) is identical *)
Theorem C03_rejected_changes_nothing : forall g m p t t' old e,
  modify g m p t = (t', (old, e)) -> e <> EOk -> t' = t.
Proof. exact modify_rejected_identity. Qed.
Print Assumptions C03_rejected_changes_nothing.

(* a successful write is the keyed-map insert of the new object at the next revision *)
Theorem C03_write_refines_map_insert : forall g m p t t' old e,
  modify g m p t = (t', (old, e)) -> e = EOk ->
  t_rev t' = t_rev t + 1 /\
  t_primary t' = om_insert (p_id p) (new_object m p t) (t_primary t) /\
  o_rev (new_object m p t) = t_rev t' /\
  t_trackers t' = t_trackers t /\ t_init t' = t_init t.
Proof. exact modify_ok_spec. Qed.
Print Assumptions C03_write_refines_map_insert.

(* Delete / CompareAndDelete: previous object returned; absent key and revision mismatch
   change nothing; otherwise keyed-map delete *)
Theorem C03_delete_refines_map_delete : forall g id t t' old e, delete g id t = (t', (old, e)) ->
  old = om_get id (t_primary t) /\
  match om_get id (t_primary t) with
  | None => e = EOk /\ t' = t
  | Some o =>
    if (0 <? g) && negb (o_rev o =? g)
    then e = ERevMismatch /\ t' = t
    else e = EOk /\ t_rev t' = t_rev t + 1 /\ t_primary t' = om_delete id (t_primary t)
  end.
Proof. exact delete_spec. Qed.
Print Assumptions C03_delete_refines_map_delete.

(* known finding K3: a guard revision of 0 is not compared at all *)
Theorem C03_K3_guard0_unguarded : forall m p t, modify 0 m p t = modify_with reindex 0 m p t /\
  exists t' old, modify 0 false (mkP [97] 1 [] [] [] []) empty_table = (t', (old, EOk)).
Proof. intros. split; [reflexivity|]. eexists; eexists; reflexivity. Qed.
Print Assumptions C03_K3_guard0_unguarded.

(* ==== history level (Table/Inv4.v) ================================================================ *)
From SV Require Import KeyEnc.Model Table.InvDefs Table.Inv Table.Inv2 Table.Inv4.

(* reads in the same transaction see its own earlier writes: after a successful Insert / Modify /
   CompareAndSwap (write_op: Table/Inv4.v) on a locked table of the open transaction, Get through the
   transaction returns the new object, the table revision is the object's, the previous object was
   returned, and the committed root is untouched *)
Theorem C03_txn_reads_own_write : forall d o tab g m p es old t prev,
  write_op o = Some (tab, g, m, p) ->
  d_txn d = Some (es, old) -> nth_error es tab = Some (t, true) ->
  snd (step d o) = OutWrite prev EOk ->
  let d' := fst (step d o) in
  let obj := new_object m p t in
  prev = om_get (p_id p) (t_primary t) /\
  o_rev obj = t_rev t + 1 /\
  snd (step d' (OQuery STxn tab (QGet IPrimary (p_id p)))) = OutGet (Some obj) /\
  snd (step d' (OQuery STxn tab QRev)) = OutNum (o_rev obj) /\
  d_root d' = d_root d.
Proof. exact read_own_write. Qed.
Print Assumptions C03_txn_reads_own_write.

(* Insert on a locked table always succeeds and is read back *)
Theorem C03_insert_then_get : forall d tab p es old t,
  d_txn d = Some (es, old) -> nth_error es tab = Some (t, true) ->
  snd (step (fst (step d (OInsert tab p))) (OQuery STxn tab (QGet IPrimary (p_id p))))
  = OutGet (Some (mkO p (t_rev t + 1))).
Proof. exact insert_then_get. Qed.
Print Assumptions C03_insert_then_get.

(* ... and leaves what Get returns for every other key as it was *)
Theorem C03_write_frames_other_keys : forall d o tab g m p es old t k,
  write_op o = Some (tab, g, m, p) ->
  d_txn d = Some (es, old) -> nth_error es tab = Some (t, true) -> om_sorted (t_primary t) -> k <> p_id p ->
  snd (step (fst (step d o)) (OQuery STxn tab (QGet IPrimary k))) = snd (step d (OQuery STxn tab (QGet IPrimary k))).
Proof. exact write_frames_other_keys. Qed.
Print Assumptions C03_write_frames_other_keys.

(* a write (Insert, Modify, CompareAndSwap, Delete, CompareAndDelete: write_tab) on a table the open
   transaction does not hold is rejected with ErrTableNotLockedForWriting and changes nothing at all *)
Theorem C03_write_not_locked : forall d o tab es old t, write_tab o = Some tab ->
  d_txn d = Some (es, old) -> nth_error es tab = Some (t, false) -> step d o = (d, OutWrite None ENotLocked).
Proof. exact write_not_locked. Qed.
Print Assumptions C03_write_not_locked.

(* ... and without an open transaction (committed / aborted) with ErrTransactionClosed *)
Theorem C03_write_closed : forall d o tab, write_tab o = Some tab -> d_txn d = None ->
  step d o = (d, OutWrite None EClosed).
Proof. exact write_closed. Qed.
Print Assumptions C03_write_closed.

(* refinement: under ANY list of write operations (Insert, Modify, CompareAndSwap, Delete,
   CompareAndDelete, DeleteAll: wop / apply_wop / run_wops) the abstraction
     abs_state t = (t_rev t, [(id, (value, revision)) | object in primary order])
   evolves exactly as the keyed-map specification (spec_wop / spec_run over Base/OrdMap: om_get,
   om_insert, om_delete with a revision counter), with the documented results (previous value,
   ErrObjectNotFound, ErrRevisionNotEqual) — for every table whose primary index is keyed by the
   objects' own keys (keys_ok, part of TInv) *)
Theorem C03_writes_refine_keyed_map : forall ws t, keys_ok t ->
  spec_run (abs_state t) ws = (abs_state (fst (run_wops t ws)), map abs_res (snd (run_wops t ws))).
Proof. exact wops_refine. Qed.
Print Assumptions C03_writes_refine_keyed_map.

(* the operations of a write transaction on one of its locked tables ARE run_wops on that table
   entry: other entries and the committed root are untouched, outputs are the operations' results *)
Theorem C03_txn_writes_are_table_writes : forall ws d tab es old t,
  d_txn d = Some (es, old) -> nth_error es tab = Some (t, true) ->
  let t' := fst (run_wops t ws) in
  let d' := fst (run d (map (op_of_wop tab) ws)) in
  exists es', d_txn d' = Some (es', old) /\ nth_error es' tab = Some (t', true) /\
    (forall i, i <> tab -> nth_error es' i = nth_error es i) /\ d_root d' = d_root d /\
    snd (run d (map (op_of_wop tab) ws)) =
      map (fun wx => out_of_wop (fst wx) (snd wx)) (combine ws (snd (run_wops t ws))).
Proof. exact txn_wops. Qed.
Print Assumptions C03_txn_writes_are_table_writes.

(* a Delete in a write transaction returns the previous object (or its absence), and the key reads as
   absent afterwards in the same transaction *)
Theorem C03_txn_reads_own_delete : forall d tab id es old t,
  d_txn d = Some (es, old) -> nth_error es tab = Some (t, true) -> om_sorted (t_primary t) ->
  snd (step d (ODelete tab id)) = OutWrite (om_get id (t_primary t)) EOk /\
  snd (step (fst (step d (ODelete tab id))) (OQuery STxn tab (QGet IPrimary id))) = OutGet None.
Proof. exact read_own_delete. Qed.
Print Assumptions C03_txn_reads_own_delete.

Example C03_nonvacuous : exists t' old, modify 1 false (mkP [97] 2 [] [] [] [])
   (fst (modify 0 false (mkP [97] 1 [] [] [] []) empty_table)) = (t', (old, EOk)) /\ old <> None.
Proof. eexists; eexists; split; [vm_compute; reflexivity|discriminate]. Qed.

Example C03_history_nonvacuous :
  let d := fst (run (init_db 2) [OBegin [0%nat]]) in
  snd (run d [OInsert 0 (mkP [97] 1 [] [] [] []); OQuery STxn 0 (QGet IPrimary [97]); OInsert 1 (mkP [97] 1 [] [] [] [])])
  = [OutWrite None EOk; OutGet (Some (mkO (mkP [97] 1 [] [] [] []) 1)); OutWrite None ENotLocked] /\
  spec_run (abs_state empty_table) [WInsert (mkP [97] 1 [] [] [] []); WModify (mkP [97] 2 [] [] [] []); WCas 1 (mkP [97] 5 [] [] [] []); WDeleteAll]
  = ((3, []), [(None, EOk); (Some (1, 1), EOk); (Some (3, 2), ERevMismatch); (None, EOk)]).
Proof. split; vm_compute; reflexivity. Qed.
