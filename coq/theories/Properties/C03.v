(* Properties/C03.v — Write operations behave like a keyed map with documented results.
   Model: Table/Model.v (modify / delete / step). *)
From SV Require Import Base.Bytes Base.OrdMap Table.Model Table.Proofs.
Open Scope N_scope.

(* Insert / Modify / CompareAndSwap return the previous object or its absence *)
Theorem C03_write_returns_previous : forall g m p t t' old e, modify g m p t = (t', (old, e)) ->
  old = om_get (p_id p) (t_primary t) \/ (e = ENotFound /\ old = None).
Proof. exact modify_result. Qed.
Print Assumptions C03_write_returns_previous.

(* the documented errors of CompareAndSwap for a guard revision > 0 *)
Theorem C03_cas_errors : forall g m p t t' old e, 0 < g -> modify g m p t = (t', (old, e)) ->
  match om_get (p_id p) (t_primary t) with
  | None => e = ENotFound /\ old = None
  | Some o => old = Some o /\ (if o_rev o =? g then e = EOk else e = ERevMismatch)
  end.
Proof. exact modify_guard_spec. Qed.
Print Assumptions C03_cas_errors.

(* a rejected operation changes nothing: the whole table state (contents, every index,
   revision, graveyard, trackers, initializers) is identical *)
Theorem C03_rejected_changes_nothing : forall g m p t t' old e,
  modify g m p t = (t', (old, e)) -> e <> EOk -> t' = t.
Proof. exact modify_rejected_identity. Qed.
Print Assumptions C03_rejected_changes_nothing.

(* a successful write is the keyed-map insert of the new object at the next revision *)
Theorem C03_write_refines_map_insert : forall g m p t t' old e,
  modify g m p t = (t', (old, e)) -> e = EOk ->
  t_rev t' = t_rev t + 1 /\
  t_primary t' = om_insert (p_id p) (new_object m p t) (t_primary t) /\
  o_rev (new_object m p t) = t_rev t' /\
  t_trackers t' = t_trackers t /\ t_init t' = t_init t.
Proof. exact modify_ok_spec. Qed.
Print Assumptions C03_write_refines_map_insert.

(* Delete / CompareAndDelete: previous object returned; absent key and revision mismatch
   change nothing; otherwise keyed-map delete *)
Theorem C03_delete_refines_map_delete : forall g id t t' old e, delete g id t = (t', (old, e)) ->
  old = om_get id (t_primary t) /\
  match om_get id (t_primary t) with
  | None => e = EOk /\ t' = t
  | Some o =>
    if (0 <? g) && negb (o_rev o =? g)
    then e = ERevMismatch /\ t' = t
    else e = EOk /\ t_rev t' = t_rev t + 1 /\ t_primary t' = om_delete id (t_primary t)
  end.
Proof. exact delete_spec. Qed.
Print Assumptions C03_delete_refines_map_delete.

(* known finding K3: a guard revision of 0 is not compared at all *)
Theorem C03_K3_guard0_unguarded : forall m p t, modify 0 m p t = modify_with reindex 0 m p t /\
  exists t' old, modify 0 false (mkP [97] 1 [] [] [] []) empty_table = (t', (old, EOk)).
Proof. intros. split; [reflexivity|]. eexists; eexists; reflexivity. Qed.
Print Assumptions C03_K3_guard0_unguarded.

Example C03_nonvacuous : exists t' old, modify 1 false (mkP [97] 2 [] [] [] [])
   (fst (modify 0 false (mkP [97] 1 [] [] [] []) empty_table)) = (t', (old, EOk)) /\ old <> None.
Proof. eexists; eexists; split; [vm_compute; reflexivity|discriminate]. Qed.
