(* Properties/C04.v — All indexes agree with the table contents (first layer).
   The Agree invariant and the exactness of every query kind are in Table/Agree.v (in progress);
   this file will quote them. *)
From SV Require Import Base.Bytes Base.OrdMap Table.Model Table.Proofs.
Open Scope N_scope.

(* primary-index queries are the keyed-map queries on the contents *)
Theorem C04_primary_queries_partial : forall key t,
  q_get IPrimary key t = om_get key (t_primary t) /\
  q_list IPrimary key t = match om_get key (t_primary t) with Some o => [o] | None => [] end /\
  q_prefix IPrimary key t = vals (om_prefix key (t_primary t)) /\
  q_lower_bound IPrimary key t = vals (om_lower_bound key (t_primary t)) /\
  q_all t = vals (t_primary t).
Proof. intros; repeat split. Qed.
Print Assumptions C04_primary_queries_partial.

Example C04_nonvacuous :
  q_list INn [1] (fst (modify 0 false (mkP [98] 2 [] [[1]] [] [])
                  (fst (modify 0 false (mkP [97] 1 [] [[1]; [0]] [] []) empty_table))))
  = [mkO (mkP [97] 1 [] [[1]; [0]] [] []) 1; mkO (mkP [98] 2 [] [[1]] [] []) 2].
Proof. vm_compute. reflexivity. Qed.
