(* Properties/C04.v — All indexes agree with the table contents (first layer).
   The Agree invariant and the exactness of every query kind are in Table/Agree.v (in progress);
   this file will quote them. *)
From SV Require Import Base.Bytes Base.OrdMap Table.Model Table.Proofs.
Open Scope N_scope.

(* primary-index queries are the keyed-map queries on the contents *)
Theorem C04_primary_queries_partial : forall key t,
  q_get IPrimary key t = om_get key (t_primary t) /\
  q_list IPrimary key t = match om_get key (t_primary t) with Some o => [o] | None => [] end /\
  q_prefix IPrimary key t = vals (om_prefix key (t_primary t)) /\
  q_lower_bound IPrimary key t = vals (om_lower_bound key (t_primary t)) /\
  q_all t = vals (t_primary t).
Proof. intros; repeat split. Qed.
Print Assumptions C04_primary_queries_partial.

Example C04_nonvacuous :
  q_list INn [1] (fst (modify 0 false (mkP [98] 2 [] [[1]] [] [])
                  (fst (modify 0 false (mkP [97] 1 [] [[1]; [0]] [] []) empty_table))))
  = [mkO (mkP [97] 1 [] [[1]; [0]] [] []) 1; mkO (mkP [98] 2 [] [[1]] [] []) 2].
Proof. vm_compute. reflexivity. Qed.

(* ======================================================================================= *)
(* Second layer: the Agree invariant and query exactness through every index               *)
(* (Table/AgreeN.v, Table/AgreeLpm.v, Table/Agree.v, Table/AgreeRun.v, Table/Queries.v,    *)
(*  Table/Refuted.v).                                                                      *)
(* ======================================================================================= *)
From SV Require Import KeyEnc.Model KeyEnc.Proofs Table.InvDefs Table.Inv Table.Inv2 Table.Inv3
  Table.AgreeDefs Table.AgreeLpm Table.AgreeN Table.Agree Table.AgreeRun Table.Queries Table.Refuted.
From Coq Require Import Sorted.

(* ---- reindex (part_index.go partIndexTxn.reindex), extensionally ---------------------------- *)
(* The entries of the new object are inserted under each of its keys, the entries under keys of
   the old object that are not keys of the new one are removed, everything else is untouched;
   sortedness is kept. Duplicates in key lists, empty key lists, no old object (revision 0) and
   no new object (revision 0 = delete) are covered. *)
Theorem C04_reindex_spec : forall unique keys idKey old new t K o', om_sorted t ->
  om_sorted (reindex unique keys idKey old new t) /\
  (In (K, o') (reindex unique keys idKey old new t) <->
    (o_rev new <> 0 /\ o' = new /\ exists k, In k (keys (o_data new)) /\ K = ikey unique idKey k) \/
    (In (K, o') t /\
     ~ (o_rev new <> 0 /\ exists k, In k (keys (o_data new)) /\ K = ikey unique idKey k) /\
     ~ (o_rev old <> 0 /\ exists k, In k (keys (o_data old)) /\ K = ikey unique idKey k))).
Proof. exact reindex_sorted_spec. Qed.
Print Assumptions C04_reindex_spec.

(* ---- Agree: every secondary index describes exactly the live objects --------------------------- *)
Theorem C04_agree_empty : Agree empty_table.
Proof. exact Agree_empty. Qed.
Print Assumptions C04_agree_empty.

(* insert / Modify / CompareAndSwap, accepted or rejected; the user owes the documented
   well-formedness of the unique indexes of the result *)
Theorem C04_modify_preserves_agree : forall g m p t, TInv t -> Agree t ->
  u_wf (fst (modify g m p t)) -> lu_wf (fst (modify g m p t)) ->
  Agree (fst (modify g m p t)).
Proof. exact modify_agree. Qed.
Print Assumptions C04_modify_preserves_agree.

(* the same, the obligation stated on the new object only: none of its unique keys is a key of
   another live object *)
Theorem C04_modify_preserves_agree_new : forall g m p t, TInv t -> Agree t ->
  new_respects p_u (new_object m p t) t -> new_respects p_lu (new_object m p t) t ->
  Agree (fst (modify g m p t)).
Proof. exact modify_agree'. Qed.
Print Assumptions C04_modify_preserves_agree_new.

(* Delete / CompareAndDelete, accepted or rejected: no obligation *)
Theorem C04_delete_preserves_agree : forall g id t, TInv t -> Agree t -> Agree (fst (delete g id t)).
Proof. exact delete_agree. Qed.
Print Assumptions C04_delete_preserves_agree.

Theorem C04_delete_all_preserves_agree : forall t, TInv t -> Agree t -> rev_bound (delete_all t) ->
  Agree (delete_all t).
Proof. exact delete_all_agree. Qed.
Print Assumptions C04_delete_all_preserves_agree.

(* after any sequence of operations of the database model (run_wf: revisions below 2^64 and
   well-formed unique indexes at every step) every table value reachable anywhere - committed
   root, open write transaction, snapshots - satisfies the core invariant and Agree *)
Theorem C04_reachable_agree : forall n ops t,
  run_wf (init_db n) ops -> in_db (fst (run (init_db n) ops)) t -> TInv t /\ Agree t.
Proof. exact reachable_agree. Qed.
Print Assumptions C04_reachable_agree.

(* the pre-fix KeySet.Exists (true for the empty key on the empty set) broke it *)
Theorem C04_old_exists_refuted :
  exists t id, n_agree t /\ ~ n_agree (fst (delete_with reindex_old 0 id t)).
Proof. exact reindex_empty_key_refuted. Qed.
Print Assumptions C04_old_exists_refuted.

(* ---- non-unique index ------------------------------------------------------------------------------ *)
(* List = exactly the live objects having the key, each once, in primary-key order (pk_short =
   the guard of known finding K1: escaped primary keys shorter than 256 bytes) *)
Theorem C04_list_nonunique : forall t key, TInv t -> n_agree t -> pk_short t ->
  q_list INn key t = filter (has_key key) (vals (t_primary t)).
Proof. exact q_list_n_exact. Qed.
Print Assumptions C04_list_nonunique.

Theorem C04_list_nonunique_members : forall t key, TInv t -> n_agree t -> pk_short t ->
  NoDup (q_list INn key t) /\ StronglySorted by_pk (q_list INn key t) /\
  forall o, In o (q_list INn key t) <-> live t o /\ In key (p_n (o_data o)).
Proof. exact q_list_n_members. Qed.
Print Assumptions C04_list_nonunique_members.

Theorem C04_get_nonunique : forall t key, TInv t -> n_agree t -> pk_short t ->
  q_get INn key t = hd_error (filter (has_key key) (vals (t_primary t))).
Proof. exact q_get_n_exact. Qed.
Print Assumptions C04_get_nonunique.

(* Prefix / LowerBound: every live object having a qualifying key, once, paired with its smallest
   qualifying key, in ascending (key, primary key) order *)
Theorem C04_prefix_nonunique : forall t p, TInv t -> n_agree t -> pk_short t ->
  exists L : list (bytes * object),
    q_prefix INn p t = map snd L /\
    NoDup (q_prefix INn p t) /\
    (forall o, In o (q_prefix INn p t) <-> live t o /\ exists k, In k (p_n (o_data o)) /\ has_prefix k p = true) /\
    (forall k o, In (k, o) L <-> live t o /\ least_key (fun k => has_prefix k p = true) (p_n (o_data o)) k) /\
    StronglySorted entry_lt L.
Proof. exact q_prefix_n_exact. Qed.
Print Assumptions C04_prefix_nonunique.

Theorem C04_lower_bound_nonunique : forall t key, TInv t -> n_agree t -> pk_short t ->
  exists L : list (bytes * object),
    q_lower_bound INn key t = map snd L /\
    NoDup (q_lower_bound INn key t) /\
    (forall o, In o (q_lower_bound INn key t) <-> live t o /\ exists k, In k (p_n (o_data o)) /\ ~ lex_lt k key) /\
    (forall k o, In (k, o) L <-> live t o /\ least_key (fun k => ~ lex_lt k key) (p_n (o_data o)) k) /\
    StronglySorted entry_lt L.
Proof. exact q_lower_bound_n_exact. Qed.
Print Assumptions C04_lower_bound_nonunique.

(* ---- unique index ---------------------------------------------------------------------------------- *)
Theorem C04_get_unique : forall t k o, u_agree t ->
  (q_get IU k t = Some o <-> live t o /\ In k (p_u (o_data o))).
Proof. exact q_get_u_exact. Qed.
Print Assumptions C04_get_unique.

Theorem C04_list_unique : forall t k, u_agree t ->
  (length (q_list IU k t) <= 1)%nat /\
  forall o, In o (q_list IU k t) <-> live t o /\ In k (p_u (o_data o)).
Proof. exact q_list_u_exact. Qed.
Print Assumptions C04_list_unique.

Theorem C04_prefix_unique : forall t p, u_agree t ->
  exists L, q_prefix IU p t = map snd L /\ om_sorted L /\
    forall K o, In (K, o) L <-> has_prefix K p = true /\ In K (p_u (o_data o)) /\ live t o.
Proof. exact q_prefix_u_exact. Qed.
Print Assumptions C04_prefix_unique.

Theorem C04_lower_bound_unique : forall t k, u_agree t ->
  exists L, q_lower_bound IU k t = map snd L /\ om_sorted L /\
    forall K o, In (K, o) L <-> ~ lex_lt K k /\ In K (p_u (o_data o)) /\ live t o.
Proof. exact q_lower_bound_u_exact. Qed.
Print Assumptions C04_lower_bound_unique.

(* ---- primary index, All, NumObjects -------------------------------------------------------------- *)
Theorem C04_get_primary : forall t k o, TInv t ->
  (q_get IPrimary k t = Some o <-> live t o /\ p_id (o_data o) = k).
Proof. exact q_get_primary_exact. Qed.
Print Assumptions C04_get_primary.

Theorem C04_all : forall t, TInv t ->
  StronglySorted by_pk (q_all t) /\ forall o, In o (q_all t) <-> live t o.
Proof. exact q_all_exact. Qed.
Print Assumptions C04_all.

Theorem C04_num_objects : forall t, TInv t ->
  NoDup (q_all t) /\ q_num t = N.of_nat (length (q_all t)).
Proof. exact q_num_objects. Qed.
Print Assumptions C04_num_objects.

(* ---- longest-prefix-match indexes ---------------------------------------------------------------- *)
Theorem C04_lpm_queries_are : forall d tab u q t,
  run_query d tab (QLList u q) t = (if negb (Nat.eqb (length q) 16) then OutNone else OutObjs (ql_list u q t)) /\
  run_query d tab (QLGet u q) t = (if negb (Nat.eqb (length q) 16) then OutNone else OutGet (ql_get u q t)) /\
  run_query d tab (QLPrefix u q) t = OutObjs (l_objs (l_prefix q (lpm_idx u t))) /\
  run_query d tab (QLLowerBound u q) t = OutObjs (l_objs (l_lower_bound q (lpm_idx u t))).
Proof. exact run_query_ql. Qed.
Print Assumptions C04_lpm_queries_are.

(* Get / List: the live objects having the longest stored prefix covering the key, in primary-key
   order; nothing if no stored prefix covers it *)
Theorem C04_lpm_list : forall u q t, TInv t -> Agree t ->
  (forall k, longest_cover u t q k -> ql_list u q t = filter (has_lkey u k) (vals (t_primary t))) /\
  ((forall k, ~ covers u t q k) -> ql_list u q t = []) /\
  ql_get u q t = hd_error (ql_list u q t).
Proof. exact ql_list_exact. Qed.
Print Assumptions C04_lpm_list.

Theorem C04_lpm_list_unique : forall q t, Agree t -> lu_wf t -> (length (ql_list true q t) <= 1)%nat.
Proof. exact ql_list_unique_le1. Qed.
Print Assumptions C04_lpm_list_unique.

(* Prefix / LowerBound: one result per (prefix, object) pair with qualifying prefix, in
   (prefix bits, primary key) order *)
Theorem C04_lpm_prefix : forall u q t, Agree t ->
  let F := l_flat (l_prefix q (lpm_idx u t)) in
  l_objs (l_prefix q (lpm_idx u t)) = map snd F /\ StronglySorted flat_lt F /\
  forall k pk o, In (k, pk, o) F <->
    (bits_prefix q k = true /\ In k (lpm_keys u (o_data o)) /\ pk = p_id (o_data o) /\ live t o).
Proof. exact ql_prefix_exact. Qed.
Print Assumptions C04_lpm_prefix.

Theorem C04_lpm_lower_bound : forall u q t, Agree t ->
  let F := l_flat (l_lower_bound q (lpm_idx u t)) in
  l_objs (l_lower_bound q (lpm_idx u t)) = map snd F /\ StronglySorted flat_lt F /\
  forall k pk o, In (k, pk, o) F <->
    (bits_ltb k q = false /\ In k (lpm_keys u (o_data o)) /\ pk = p_id (o_data o) /\ live t o).
Proof. exact ql_lower_bound_exact. Qed.
Print Assumptions C04_lpm_lower_bound.

(* ---- end to end: exactness on every reachable table ------------------------------------------------ *)
Theorem C04_reachable_list_nonunique : forall n ops t key,
  run_wf (init_db n) ops -> in_db (fst (run (init_db n) ops)) t -> pk_short t ->
  q_list INn key t = filter (has_key key) (vals (t_primary t)).
Proof. exact reachable_q_list_n. Qed.
Print Assumptions C04_reachable_list_nonunique.

(* the hypotheses TInv / Agree / pk_short / u_wf / lu_wf are satisfiable by a non-empty table *)
Example C04_nonvacuous_invariants :
  TInv nv_table /\ Agree nv_table /\ pk_short nv_table /\ u_wf nv_table /\ lu_wf nv_table /\
  live nv_table (mkO nv_payload 1).
Proof. exact agree_nonvacuous. Qed.

(* ---- the key set of an object at the level where Go distinguishes a nil Key from the empty one (Table/KeySetNil.v):
   built the usual way (index.String per string, NewKeySet) it holds exactly the given strings, in order - which is
   what lets Table/Model.v take an object's keys as a list of byte strings; before 4c2d0ee (D17) a set starting with
   the empty string held nothing *)
From SV Require Import Table.KeySetNil.
Theorem C04_keyset_holds_its_keys : forall ss, foreach (new_keyset (map index_string ss)) = ss.
Proof. exact keyset_holds_its_keys. Qed.
Print Assumptions C04_keyset_holds_its_keys.

Theorem C04_keyset_nil_head_refuted :
  exists ss, ss = [[]; [120]]%N /\ foreach (new_keyset_old (map index_string ss)) = [].
Proof. exact keyset_nil_head_refuted. Qed.
Print Assumptions C04_keyset_nil_head_refuted.
