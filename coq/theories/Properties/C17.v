(* Properties/C17.v — part.Map and part.Set are persistent, model-exact and round-trip.
   Model: MapSet/Model.v (three representations of a Map, MapTxn, Set, codecs as ordered pair lists,
   the register-file machine of branching histories). `abs`/`sabs` map a value to the mathematical
   ordered map (Base/OrdMap.v); `minv`: an API-built tree holds >= 2 entries; `ins_all` = a run of
   writes in order (later write wins, `assoc_last`). Only statements closed by `exact`. *)
From SV Require Import Base.Bytes Base.OrdMap MapSet.Model MapSet.OrdLemmas MapSet.Proofs MapSet.SetProofs
  MapSet.Machine MapSet.Summary MapSet.Refuted MapSet.RecycleModel MapSet.RecycleProofs.
Open Scope N_scope.

(* the representation invariant is established by the zero value and preserved by every operation *)
Theorem C17_map_invariant :
  minv MEmpty /\
  (forall m k v, minv m -> minv (mset m k v)) /\
  (forall m k, minv m -> minv (mdelete m k)) /\
  (forall m hm, minv m -> NoDup (map fst hm) -> minv (fromMap m hm)) /\
  (forall m ops, minv m -> minv (tcommit (fold_left apply_txop ops (mtxn m)))) /\
  (forall l, NoDup (map fst l) -> minv (mdecode_json l) /\ minv (mdecode_yaml l)) /\
  (forall l, minv_weak (mdecode_json l) /\ minv_weak (mdecode_yaml l)) /\
  (forall m, minv m -> om_sorted (abs m)).
Proof. exact map_invariant. Qed.
Print Assumptions C17_map_invariant.

(* every mutator is the mathematical operation on abs; a transaction is the fold of its operations,
   also when it is used again after a Commit; decoding inserts in order *)
Theorem C17_map_ops_exact :
  (forall m k v, abs (mset m k v) = om_insert k v (abs m)) /\
  (forall m k, abs (mdelete m k) = om_delete k (abs m)) /\
  (forall m hm, abs (fromMap m hm) = ins_all hm (abs m)) /\
  (forall m ops, abs (tcommit (fold_left apply_txop ops (mtxn m))) = fold_left spec_txop ops (abs m)) /\
  (forall m ops1 ops2, abs (tcommit (fold_left apply_txop ops2 (fold_left apply_txop ops1 (mtxn m)))) =
                       fold_left spec_txop ops2 (abs (tcommit (fold_left apply_txop ops1 (mtxn m))))) /\
  (forall l, abs (mdecode_json l) = ins_all l [] /\ abs (mdecode_yaml l) = ins_all l []).
Proof. exact map_ops_exact. Qed.
Print Assumptions C17_map_ops_exact.

(* a later write to a key wins over an earlier one; other keys are untouched *)
Theorem C17_later_write_wins :
  (forall m k v k', minv m -> mget (mset m k v) k' = if bytes_eqb k' k then Some v else mget m k') /\
  (forall m k k', minv m -> mget (mdelete m k) k' = if bytes_eqb k' k then None else mget m k') /\
  (forall m hm k, minv m ->
     mget (fromMap m hm) k = match assoc_last k hm with Some v => Some v | None => mget m k end) /\
  (forall m hm k v, minv m -> NoDup (map fst hm) -> In (k, v) hm -> mget (fromMap m hm) k = Some v) /\
  (forall m hm k, minv m -> ~ In k (map fst hm) -> mget (fromMap m hm) k = mget m k) /\
  (forall l k, mget (mdecode_json l) k = assoc_last k l /\ mget (mdecode_yaml l) k = assoc_last k l) /\
  (forall l1 k v l2, ~ In k (map fst l2) -> assoc_last k (l1 ++ (k, v) :: l2) = Some v).
Proof. exact later_write_wins. Qed.
Print Assumptions C17_later_write_wins.

(* the iteration order of the Go hash map given to FromMap is irrelevant *)
Theorem C17_frommap_order_irrelevant : forall m hm hm',
  minv m -> NoDup (map fst hm) -> NoDup (map fst hm') -> (forall p, In p hm <-> In p hm') ->
  abs (fromMap m hm) = abs (fromMap m hm').
Proof. exact fromMap_order_irrelevant. Qed.
Print Assumptions C17_frommap_order_irrelevant.

(* Get, Len, All, Prefix, LowerBound agree with abs; iteration is in strictly ascending bytewise key
   order; a consumer that breaks early has seen a prefix of it *)
Theorem C17_map_reads_consistent :
  (forall m k, mget m k = om_get k (abs m)) /\
  (forall m, mlen m = N.of_nat (length (abs m))) /\
  (forall m, mall m = abs m) /\
  (forall m p, mprefix m p = om_prefix p (abs m)) /\
  (forall m from, mlower m from = om_lower_bound from (abs m)) /\
  (forall m lim, take lim (mall m) = firstn lim (abs m)) /\
  (forall m, minv m -> om_sorted (mall m)) /\
  (forall m p, minv m -> om_sorted (mprefix m p)) /\
  (forall m from, minv m -> om_sorted (mlower m from) /\
     forall e, In e (mlower m from) <-> In e (abs m) /\ bytes_ltb (fst e) from = false).
Proof. exact map_reads_consistent. Qed.
Print Assumptions C17_map_reads_consistent.

(* the reads of a MapTxn after any sequence of its writes *)
Theorem C17_txn_reads_consistent : forall m ops,
  let t := fold_left apply_txop ops (mtxn m) in
  let a := fold_left spec_txop ops (abs m) in
  (forall k, tget t k = om_get k a) /\ tlen t = N.of_nat (length a) /\ tall t = a /\
  (forall p, tprefix t p = om_prefix p a) /\ (forall from, tlower t from = om_lower_bound from a) /\
  (forall k, snd (tdelete t k) = true <-> om_get k a <> None) /\
  (minv m -> om_sorted a).
Proof. exact txn_reads_consistent. Qed.
Print Assumptions C17_txn_reads_consistent.

(* EqualKeys / SlowEqual decide equality of the key sets / of the contents, under the invariant
   (necessary: C17_equality_needs_invariant); under it equal contents even mean equal representation *)
Theorem C17_map_equality_decides :
  (forall m o, minv m -> minv o -> (mequalKeys m o = true <-> om_keys (abs m) = om_keys (abs o))) /\
  (forall m o, minv m -> minv o -> (mslowEqual m o = true <-> abs m = abs o)) /\
  (forall m o, minv m -> minv o -> abs m = abs o -> m = o).
Proof. exact map_equality_decides. Qed.
Print Assumptions C17_map_equality_decides.

Theorem C17_equality_needs_invariant : exists m o,
  minv_weak m /\ minv_weak o /\ mequalKeys m o = true /\ mslowEqual m o = true /\ om_keys (abs m) <> om_keys (abs o).
Proof. exact equalkeys_needs_invariant_refuted. Qed.
Print Assumptions C17_equality_needs_invariant.

(* decoding a hand-made list with duplicate keys leaves the invariant (an encoding never has any) *)
Theorem C17_decode_duplicates_leave_invariant : exists l o,
  abs (mdecode_json l) = abs o /\ minv o /\ mequalKeys (mdecode_json l) o = false /\ mslowEqual (mdecode_json l) o = false.
Proof. exact decode_duplicates_leave_invariant. Qed.
Print Assumptions C17_decode_duplicates_leave_invariant.

(* JSON / YAML: decoding the encoding of a value gives that very value back *)
Theorem C17_map_roundtrip :
  (forall m, minv m -> mdecode_json (mencode m) = m /\ mdecode_yaml (mencode m) = m) /\
  (forall m, minv_weak m -> abs (mdecode_json (mencode m)) = abs m /\ abs (mdecode_yaml (mencode m)) = abs m).
Proof. exact map_roundtrip. Qed.
Print Assumptions C17_map_roundtrip.

Theorem C17_set_invariant :
  (forall tb, sinv (SNone tb)) /\ (forall l, sinv (snew l)) /\
  (forall s k v, sinv s -> sinv (sset s k v)) /\ (forall s k, sinv s -> sinv (sdelete s k)) /\
  (forall s s2, sinv s -> sinv s2 -> sinv (sunion s s2)) /\
  (forall s s2, sinv s -> sinv (sdifference s s2)) /\
  (forall l, sinv (sdecode_json l) /\ sinv (sdecode_yaml l)).
Proof. exact set_invariant. Qed.
Print Assumptions C17_set_invariant.

(* Set operations on sabs (key -> stored element): Union writes s2 over s, Difference removes s2's keys *)
Theorem C17_set_ops_exact :
  (forall l, sabs (snew l) = ins_all l []) /\
  (forall s k v, sabs (sset s k v) = om_insert k v (sabs s)) /\
  (forall s k, sabs (sdelete s k) = om_delete k (sabs s)) /\
  (forall s s2, sinv s2 -> sabs (sunion s s2) = ins_all (sabs s2) (sabs s)) /\
  (forall s s2 k, sinv s -> sinv s2 ->
     om_get k (sabs (sunion s s2)) = match om_get k (sabs s2) with Some v => Some v | None => om_get k (sabs s) end) /\
  (forall s s2, sabs (sdifference s s2) = del_all (om_keys (sabs s2)) (sabs s)) /\
  (forall s s2 k, sinv s -> sinv s2 ->
     om_get k (sabs (sdifference s s2)) = match om_get k (sabs s2) with Some _ => None | None => om_get k (sabs s) end) /\
  (forall s k, shas s k = match om_get k (sabs s) with Some _ => true | None => false end) /\
  (forall s, slen s = N.of_nat (length (sabs s))) /\
  (forall s, sall s = sabs s) /\
  (forall l, sabs (sdecode_json l) = ins_all l [] /\ sabs (sdecode_yaml l) = ins_all l []).
Proof. exact set_ops_exact. Qed.
Print Assumptions C17_set_ops_exact.

(* Set.Equal decides equality of the key sets (unconditionally); sets round-trip *)
Theorem C17_set_equal_roundtrip :
  (forall s o, sequal s o = true <-> om_keys (sabs s) = om_keys (sabs o)) /\
  (forall s, sinv s -> sabs (sdecode_json (sencode s)) = sabs s /\ sabs (sdecode_yaml (sencode s)) = sabs s).
Proof. exact set_equal_roundtrip. Qed.
Print Assumptions C17_set_equal_roundtrip.

(* persistence over branching histories: executing any further operations (on any registers) leaves
   every existing Map/Set register — representation and contents — unchanged; all reachable values
   satisfy the invariants *)
Theorem C17_persistence : forall st ops,
  (forall i m, rget (maps st) i = Some m ->
     rget (maps (run st ops)) i = Some m /\ abs (getm (run st ops) i) = abs m) /\
  (forall i s, rget (sets st) i = Some s ->
     rget (sets (run st ops)) i = Some s /\ sabs (gets (run st ops) i) = sabs s) /\
  (st_inv st -> Forall op_ok ops -> st_inv (run st ops)).
Proof. exact persistence. Qed.
Print Assumptions C17_persistence.

(* the machine's operations write their specified result into a fresh register *)
Theorem C17_machine_results : forall st,
  (forall d s k v, rget (maps st) d = None ->
     abs (getm (step st (OMSet d s k v)) d) = om_insert k v (abs (getm st s))) /\
  (forall d s k, rget (maps st) d = None ->
     abs (getm (step st (OMDel d s k)) d) = om_delete k (abs (getm st s))) /\
  (forall d s hm, rget (maps st) d = None ->
     abs (getm (step st (OMFrom d s hm)) d) = ins_all (hm_of_list hm) (abs (getm st s))) /\
  (forall d t x, rget (maps st) d = None -> rget (txns st) t = Some x ->
     abs (getm (step st (OTCommit d t)) d) = x) /\
  (forall d a b, rget (sets st) d = None -> st_inv st ->
     sabs (gets (step st (OSUnion d a b)) d) = ins_all (sabs (gets st b)) (sabs (gets st a))) /\
  (forall d a b, rget (sets st) d = None ->
     sabs (gets (step st (OSDiff d a b)) d) = del_all (om_keys (sabs (gets st b))) (sabs (gets st a))).
Proof. exact machine_results. Qed.
Print Assumptions C17_machine_results.

(* the pre-fix FromMap (singleton inserted after the entries of hm, seeded/D5) violates "hm wins" *)
Theorem C17_D5_frommap_singleton_last_refuted : exists m hm k v,
  minv m /\ NoDup (map fst hm) /\ In (k, v) hm /\ mget (fromMap_old m hm) k <> Some v.
Proof. exact frommap_singleton_last_refuted. Qed.
Print Assumptions C17_D5_frommap_singleton_last_refuted.

(* mechanism level (MapSet/RecycleModel.v: Txn objects as mutable heap cells, Tree.prevTxn pointers,
   Tree.Txn() reusing the offered object): with MapTxn.Commit calling Txn.commit (the code as it is)
   every Map register and every MapTxn shows exactly what the pure machine shows, for every sequence of
   Map.Set / Map.Delete / Map.Txn / MapTxn.Set / MapTxn.Delete / MapTxn.Commit over branching versions *)
Theorem C17_txn_recycling_refines_pure : forall ops, Forall (fun o => txn_op o = true) ops ->
  forall i t, xobs_map (xrun false ms0 ops) i = rget (maps (run st0 ops)) i /\
              xobs_txn (xrun false ms0 ops) t = rget (txns (run st0 ops)) t.
Proof. exact recycle_refines_pure. Qed.
Print Assumptions C17_txn_recycling_refines_pure.

(* with MapTxn.Commit calling Txn.Commit (before fix b3f1606, seeded/D6) it does not *)
Theorem C17_D6_recycling_old_refuted : exists ops t,
  Forall (fun o => txn_op o = true) ops /\
  xobs_txn (xrun true ms0 ops) t <> rget (txns (run st0 ops)) t.
Proof. exact recycle_old_refuted. Qed.
Print Assumptions C17_D6_recycling_old_refuted.

(* non-vacuity: the invariants hold of non-trivial values in all three representations, reached by the
   machine from the empty state through representation switches in both directions *)
Example C17_nonvacuous :
  let ops := [OMSet 1 0 [97] 1; OMSet 2 1 [] 2; OMFrom 3 1 [([97], 3); ([98], 4)]; OMDel 4 2 [97]; OMDel 5 4 [];
              OMTxn 6 3; OTSet 6 [99] 5; OTCommit 7 6; OSNew 8 [([1], 1); ([2], 2)]; OSDiff 9 8 8; OSUnion 10 9 8] in
  let st := run st0 ops in
  st_inv st /\ Forall op_ok ops /\
  getm st 1 = MSingle [97] 1 /\ getm st 2 = MTree [([], 2); ([97], 1)] /\ getm st 3 = MTree [([97], 3); ([98], 4)] /\
  getm st 4 = MSingle [] 2 /\ getm st 5 = MEmpty /\ getm st 7 = MTree [([97], 3); ([98], 4); ([99], 5)] /\
  gets st 9 = STree [] /\ gets st 10 = STree [([1], 1); ([2], 2)].
Proof.
  intros ops st. assert (Hok : Forall op_ok ops) by (repeat constructor).
  split; [exact (run_inv ops st0 st0_inv Hok)|]. split; [exact Hok|]. vm_compute. repeat split.
Qed.
