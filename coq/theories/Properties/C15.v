(* Properties/C15.v — Reconciler status write-back never misreports or clobbers.
   Only statements closed by `exact`, with their assumptions printed. *)
From Coq Require Import List NArith Bool.
From SV Require Import Reconciler.Retries Reconciler.Model Reconciler.RetriesProofs Reconciler.CommitProofs Reconciler.RoundProofs.
Import ListNotations.
Open Scope N_scope.

(* the exact effect of one iteration of commitStatus: no other key is touched; either nothing is written,
   or the object still at the reconciled revision gets the new status (CompareAndSwap), or — when the
   fallback applies — the CURRENT object gets the new status; a retry is queued iff the operation had
   failed and the status write happened. In every case only the status component changes. *)
Theorem C15_commit_effect : forall fixed efb now t q r t' q', keyed t ->
  commit_one fixed efb now (t, q) r = (t', q') -> commit_effect fixed efb now t q r t' q'.
Proof. exact commit_one_spec. Qed.
Print Assumptions C15_commit_effect.

(* the fallback applies exactly when the status is Pending with the reconciled id, or (fix 8844901) the
   result is a retry (rev <> origRev) and the object still carries our Error status *)
Theorem C15_fallback_condition : forall efb cur r, fallback_ok efb cur r = true <->
  (o_kind cur = Pending /\ o_sid cur = r_id r) \/ (efb = true /\ o_kind cur = Error /\ r_rev r <> r_orig r).
Proof. exact fallback_ok_spec. Qed.
Print Assumptions C15_fallback_condition.

(* a result is applied only if the object is unchanged (reconciled revision), or Pending with the
   reconciled id, or still carrying our Error status on a retry *)
Theorem C15_applied_only_if_unchanged : forall fixed efb now t q r t' q', keyed t ->
  commit_one fixed efb now (t, q) r = (t', q') -> slot_of t' (o_pk (r_obj r)) <> slot_of t (o_pk (r_obj r)) ->
  exists cur rv, t_live t (o_pk (r_obj r)) = Some (cur, rv) /\
    (rv = r_rev r \/ (o_kind cur = Pending /\ o_sid cur = r_id r) \/
     (efb = true /\ o_kind cur = Error /\ r_rev r <> r_orig r)).
Proof. exact commit_one_applies_only_if. Qed.
Print Assumptions C15_applied_only_if_unchanged.

(* deleted meanwhile (or never there): nothing is written, no re-creation, no retry queued *)
Theorem C15_deleted_object_not_recreated : forall fixed efb now t q r t' q', keyed t ->
  commit_one fixed efb now (t, q) r = (t', q') -> not_live t (o_pk (r_obj r)) ->
  (forall k, slot_of t' k = slot_of t k) /\ t_rev t' = t_rev t /\ q' = q.
Proof. exact commit_one_never_inserts. Qed.
Print Assumptions C15_deleted_object_not_recreated.

(* a retry is queued only if the Error status was written *)
Theorem C15_retry_only_if_status_written : forall fixed efb now t q r t' q', keyed t ->
  commit_one fixed efb now (t, q) r = (t', q') -> q' <> q -> r_ok r = false /\ t_rev t' = t_rev t + 1.
Proof. exact commit_one_retry_only_if_written. Qed.
Print Assumptions C15_retry_only_if_status_written.

(* a whole commitStatus changes nothing but the status: every key keeps its payload version, deleted and
   absent keys stay as they are (results = objects identified by their revision, one per key) *)
Theorem C15_commit_changes_status_only : forall fixed efb now res t q t' q', keyed t -> res_consistent t res ->
  commit_status_gen fixed efb now t q res = (t', q') ->
  keyed t' /\ (forall k, payload t' k = payload t k) /\ (forall k, not_live t k -> slot_of t' k = slot_of t k).
Proof. exact commit_status_status_only. Qed.
Print Assumptions C15_commit_changes_status_only.

(* after a commit nothing is lost: an object whose result was dropped (changed meanwhile) is still ahead
   of the change cursor, a failed one has a queued retry for exactly the written revision *)
Theorem C15_dropped_result_reconciled_again : forall D c now res t q t' q',
  keyed t -> uniq q -> NoDup (map (fun r => o_pk (r_obj r)) res) ->
  (forall r, In r res -> r_orig r <= t_rev t) ->
  (forall pk, covered D t c res q pk) -> commit_status now t q res = (t', q') ->
  forall pk, covered D t' c [] q' pk.
Proof. exact commit_status_covers. Qed.
Print Assumptions C15_dropped_result_reconciled_again.

(* objects that are not pending/refreshing are never passed to Update from the change stream *)
Theorem C15_single_skips_non_pending : forall rs snap c rest e q res nrec lastrev,
  c_del c = false -> is_pending (c_obj c) = false ->
  single rs snap (c :: rest) e q res nrec lastrev = single rs snap rest e q res nrec (c_rev c).
Proof. exact single_skips. Qed.
Print Assumptions C15_single_skips_non_pending.

(* Prune gating (only in rounds whose table is initialized, with All(snapshot)) is part of round_gen
   (Model.v) by construction: the Prune call is emitted under `tinit && (prune || ext)` with
   live_contents snap. It is not stated as a theorem; it is enforced on the implementation by the
   independent oracles !BAD:C15:prune-before-init and !BAD:C15:prune-incomplete on every run. *)

Example C15_nonvacuous :
  keyed (t_insert (t_empty false) (mkObj 1 1 Pending 1)) /\
  res_consistent (t_insert (t_empty false) (mkObj 1 1 Pending 1)) [mkRes (mkObj 1 1 Pending 1) 1 1 1 false].
Proof.
  split.
  - apply keyed_insert. intros k o r H. discriminate.
  - split; [repeat constructor; intros []|]. intros r [Hr|[]] cur Hl. subst r. vm_compute in Hl. injection Hl as H. subst cur. reflexivity.
Qed.
