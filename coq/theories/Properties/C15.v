(* Properties/C15.v — Reconciler status write-back never misreports or clobbers.
   Only statements closed by `exact`, with their assumptions printed. *)
From Coq Require Import List NArith Bool.
From SV Require Import Reconciler.Retries Reconciler.Model Reconciler.RetriesProofs Reconciler.CommitProofs Reconciler.RoundProofs.
Import ListNotations.
Open Scope N_scope.

(* the exact effect of one iteration of commitStatus: no other key is touched; either nothing is written,
   or the object still at the reconciled revision gets the new status (CompareAndSwap), or — when the
   fallback applies — the CURRENT object gets the new status; a retry is queued iff the operation had
   failed and the status write happened. In every case only the status component changes. *)
Theorem C15_commit_effect : forall fixed efb now t q r t' q', keyed t ->
  commit_one fixed efb now (t, q) r = (t', q') -> commit_effect fixed efb now t q r t' q'.
Proof. exact commit_one_spec. Qed.
Print Assumptions C15_commit_effect.

(* the fallback applies exactly when the status is Pending with the reconciled id, or (fix 8844901) the
   result is a retry (rev <> origRev) and the object still carries our Error status *)
Theorem C15_fallback_condition : forall efb cur r, fallback_ok efb cur r = true <->
  (o_kind cur = Pending /\ o_sid cur = r_id r) \/ (efb = true /\ o_kind cur = Error /\ r_rev r <> r_orig r).
Proof. exact fallback_ok_spec. Qed.
Print Assumptions C15_fallback_condition.

(* a result is applied only if the object is unchanged (reconciled revision), or Pending with the
   reconciled id, or still carrying our Error status on a retry *)
Theorem C15_applied_only_if_unchanged : forall fixed efb now t q r t' q', keyed t ->
  commit_one fixed efb now (t, q) r = (t', q') -> slot_of t' (o_pk (r_obj r)) <> slot_of t (o_pk (r_obj r)) ->
  exists cur rv, t_live t (o_pk (r_obj r)) = Some (cur, rv) /\
    (rv = r_rev r \/ (o_kind cur = Pending /\ o_sid cur = r_id r) \/
     (efb = true /\ o_kind cur = Error /\ r_rev r <> r_orig r)).
Proof. exact commit_one_applies_only_if. Qed.
Print Assumptions C15_applied_only_if_unchanged.

(* deleted meanwhile (or never there): nothing is written, no re-creation, no retry queued *)
Theorem C15_deleted_object_not_recreated : forall fixed efb now t q r t' q', keyed t ->
  commit_one fixed efb now (t, q) r = (t', q') -> not_live t (o_pk (r_obj r)) ->
  (forall k, slot_of t' k = slot_of t k) /\ t_rev t' = t_rev t /\ q' = q.
Proof. exact commit_one_never_inserts. Qed.
Print Assumptions C15_deleted_object_not_recreated.

(* a retry is queued only if the Error status was written *)
Theorem C15_retry_only_if_status_written : forall fixed efb now t q r t' q', keyed t ->
  commit_one fixed efb now (t, q) r = (t', q') -> q' <> q -> r_ok r = false /\ t_rev t' = t_rev t + 1.
Proof. exact commit_one_retry_only_if_written. Qed.
Print Assumptions C15_retry_only_if_status_written.

(* a whole commitStatus changes nothing but the status: every key keeps its payload version, deleted and
   absent keys stay as they are (results = objects identified by their revision, one per key) *)
Theorem C15_commit_changes_status_only : forall fixed efb now res t q t' q', keyed t -> res_consistent t res ->
  commit_status_gen fixed efb now t q res = (t', q') ->
  keyed t' /\ (forall k, payload t' k = payload t k) /\ (forall k, not_live t k -> slot_of t' k = slot_of t k).
Proof. exact commit_status_status_only. Qed.
Print Assumptions C15_commit_changes_status_only.

(* after a commit nothing is lost: an object whose result was dropped (changed meanwhile) is still ahead
   of the change cursor, a failed one has a queued retry for exactly the written revision *)
Theorem C15_dropped_result_reconciled_again : forall D c now res t q t' q',
  keyed t -> uniq q -> NoDup (map (fun r => o_pk (r_obj r)) res) ->
  (forall r, In r res -> r_orig r <= t_rev t) ->
  (forall pk, covered D t c res q pk) -> commit_status now t q res = (t', q') ->
  forall pk, covered D t' c [] q' pk.
Proof. exact commit_status_covers. Qed.
Print Assumptions C15_dropped_result_reconciled_again.

(* objects that are not pending/refreshing are never passed to Update from the change stream *)
Theorem C15_single_skips_non_pending : forall rs snap c rest e q res nrec lastrev,
  c_del c = false -> is_pending (c_obj c) = false ->
  single rs snap (c :: rest) e q res nrec lastrev = single rs snap rest e q res nrec (c_rev c).
Proof. exact single_skips. Qed.
Print Assumptions C15_single_skips_non_pending.

(* Prune gating (only in rounds whose table is initialized, with All(snapshot)) is part of round_gen
   (Model.v) by construction: the Prune call is emitted under `tinit && (prune || ext)` with
   live_contents snap. It is not stated as a theorem; it is enforced on the implementation by the
   independent oracles !BAD:C15:prune-before-init and !BAD:C15:prune-incomplete on every run. *)

Example C15_nonvacuous :
  keyed (t_insert (t_empty false) (mkObj 1 1 Pending 1 0)) /\
  res_consistent (t_insert (t_empty false) (mkObj 1 1 Pending 1 0)) [mkRes (mkObj 1 1 Pending 1 0) 1 1 1 false].
Proof.
  split.
  - apply keyed_insert. intros k o r H. discriminate.
  - split; [repeat constructor; intros []|]. intros r [Hr|[]] cur Hl. subst r. vm_compute in Hl. injection Hl as H. subst cur. split; reflexivity.
Qed.

(* ------------------------------------------------------------------ rev_identifies discharged (Reconciler/StatusOnly.v) *)
From SV Require Import Reconciler.TableWf Reconciler.RoundInv Reconciler.Runs Reconciler.StatusOnly.

(* round_trace names the intermediate states of a round: (tr_e1, tr_q1, tr_res1) after the change-stream
   phase, (tr_t1, tr_q2) after the first commitStatus, (tr_e3, tr_q3, tr_res2) after the retry phase,
   (tr_t2, tr_q4) after the second commitStatus — and these are the stages round goes through *)
Theorem C15_round_trace_is_round : forall cf e s, let tr := round_trace cf e s in
  (exists nrec1 lastrev1 nrec3,
     phase1 cf (e_tab e) (changes_of (e_tab e) (k_cursor s)) e (k_ret s) = (tr_e1 tr, tr_q1 tr, tr_res1 tr, nrec1, lastrev1) /\
     process_retries (N.to_nat (cf_rs cf)) (cf_rs cf) (e_tab e) (set_tab (tr_e1 tr) (tr_t1 tr)) (tr_q2 tr) [] nrec1 =
       (tr_e3 tr, tr_q3 tr, tr_res2 tr, nrec3)) /\
  commit_status (e_now (tr_e1 tr)) (e_tab (tr_e1 tr)) (tr_q1 tr) (tr_res1 tr) = (tr_t1 tr, tr_q2 tr) /\
  commit_status (e_now (tr_e3 tr)) (e_tab (tr_e3 tr)) (tr_q3 tr) (tr_res2 tr) = (tr_t2 tr, tr_q4 tr) /\
  e_tab (fst (round cf e s)) = tr_t2 tr /\ k_ret (snd (round cf e s)) = tr_q4 tr.
Proof. exact round_trace_spec. Qed.
Print Assumptions C15_round_trace_is_round.

(* (a) the hypotheses of C15_commit_changes_status_only hold at both status commits of every round of every
   run (single or batch mode, any round size/backoff, any fault oracle, any user writes between rounds or
   from inside operations, any timing): the table is keyed, result keys are pairwise distinct, and every
   committed result (obj, rev) identifies the object version the table holds at revision rev *)
Theorem C15_results_identify_versions : forall cf st, reach cf st ->
  let tr := round_trace cf (fst st) (snd st) in
  (keyed (e_tab (tr_e1 tr)) /\ res_consistent (e_tab (tr_e1 tr)) (tr_res1 tr)) /\
  (keyed (e_tab (tr_e3 tr)) /\ res_consistent (e_tab (tr_e3 tr)) (tr_res2 tr)).
Proof. exact results_identify_versions. Qed.
Print Assumptions C15_results_identify_versions.

(* the invariant behind (a), inductive over reach: full_inv plus "status ids identify payload versions and
   every queued update retry still identifies its version" (StatusOnly.sinv) *)
Theorem C15_status_invariant_reachable : forall cf st, reach cf st -> c15_inv (fst st) (snd st).
Proof. exact c15_inv_reach. Qed.
Print Assumptions C15_status_invariant_reachable.

(* a whole commitStatus on identified results leaves the statuses-erased table (keys in slot order with the
   payload version AND the other writers' data o_aux of the live object, None for a deleted one) exactly as
   it was: the status write-back leaves other writers' data alone *)
Theorem C15_commit_preserves_erased_table : forall fixed efb now res t q t' q', keyed t -> res_consistent t res ->
  commit_status_gen fixed efb now t q res = (t', q') -> erase t' = erase t.
Proof. exact commit_status_erase. Qed.
Print Assumptions C15_commit_preserves_erased_table.

(* (b) unconditionally, for every reachable state and the round executed from it: the table moves by user
   writes of the registered hooks (do_write on keys in K) during the change-stream phase, by a status-only
   change (same erased table — payloads and other writers' data —, deleted/absent keys untouched) at the first commitStatus, by user writes of
   hooks during the retry phase, by a status-only change at the second commitStatus — and that is the table
   after the round. Every payload change in a round is a do_write. *)
Theorem C15_round_commits_change_only_statuses : forall cf st, reach cf st ->
  forall e' s', round cf (fst st) (snd st) = (e', s') ->
  let tr := round_trace cf (fst st) (snd st) in
  let K := hook_keys (fst st) in
  user_writes_in K (e_tab (fst st)) (e_tab (tr_e1 tr)) /\
  status_only (e_tab (tr_e1 tr)) (tr_t1 tr) /\
  user_writes_in K (tr_t1 tr) (e_tab (tr_e3 tr)) /\
  status_only (e_tab (tr_e3 tr)) (e_tab e').
Proof. exact round_commits_change_only_statuses. Qed.
Print Assumptions C15_round_commits_change_only_statuses.

(* per key over the whole round: a key no registered hook writes to keeps its payload version; if it was
   deleted or absent it stays exactly as it was (no resurrection) *)
Theorem C15_round_keeps_unhooked_payloads : forall cf st, reach cf st ->
  forall e' s', round cf (fst st) (snd st) = (e', s') ->
  forall pk, ~ hook_keys (fst st) pk ->
    payload (e_tab e') pk = payload (e_tab (fst st)) pk /\
    (not_live (e_tab (fst st)) pk -> slot_of (e_tab e') pk = slot_of (e_tab (fst st)) pk).
Proof. exact round_keeps_unhooked_payloads. Qed.
Print Assumptions C15_round_keeps_unhooked_payloads.

(* with no hook registered, a whole round changes statuses only *)
Theorem C15_round_without_hooks_changes_only_statuses : forall cf st, reach cf st -> e_hooks (fst st) = [] ->
  forall e' s', round cf (fst st) (snd st) = (e', s') -> status_only (e_tab (fst st)) (e_tab e').
Proof. exact round_without_hooks_changes_only_statuses. Qed.
Print Assumptions C15_round_without_hooks_changes_only_statuses.

(* non-vacuity: a reachable state (two puts, a fault, a hook that puts a new version of key 2 from inside the
   first Update of key 1) whose round commits two change-stream results — the payload of key 2 changes
   2 -> 3 by the hook's user write, the commits change nothing in the erased table — and the reachable state
   one round later whose round commits a change-stream result and a retry result *)
Example C15_status_only_nonvacuous :
  reach ex_cf ex_st0 /\ reach ex_cf ex_st1 /\
  (let tr := round_trace ex_cf (fst ex_st0) (snd ex_st0) in
   map (fun r => (o_pk (r_obj r), o_ver (r_obj r), r_rev r, r_ok r)) (tr_res1 tr) = [(1, 1, 1, false); (2, 2, 2, true)] /\
   tr_res2 tr = [] /\
   erase (e_tab (fst ex_st0)) = [(1, Some (1, 0)); (2, Some (2, 0))] /\
   erase (e_tab (tr_e1 tr)) = [(1, Some (1, 0)); (2, Some (3, 0))] /\
   erase (tr_t1 tr) = [(1, Some (1, 0)); (2, Some (3, 0))] /\
   live_objs (tr_t2 tr) = [(1, 1, 3); (2, 3, 0)]) /\
  (let tr := round_trace ex_cf (fst ex_st1) (snd ex_st1) in
   map (fun r => (o_pk (r_obj r), o_ver (r_obj r), r_rev r, r_ok r)) (tr_res1 tr) = [(2, 3, 3, true)] /\
   map (fun r => (o_pk (r_obj r), o_ver (r_obj r), r_rev r, r_ok r)) (tr_res2 tr) = [(1, 1, 4, true)] /\
   erase (tr_t2 tr) = [(1, Some (1, 0)); (2, Some (3, 0))] /\
   live_objs (tr_t2 tr) = [(1, 1, 2); (2, 3, 2)]) /\
  hook_keys (fst ex_st0) 2 /\ ~ hook_keys (fst ex_st0) 1.
Proof. exact ex_traces. Qed.

(* ------------------------------------------------------------------ defect D15 (fixed by 1583841) *)
From SV Require Import Reconciler.Refuted.

(* the code before the fix (commit_one_stale: after the status-conflict fallback the retry is queued with the
   stale reconciled object): on the history fail 1 0 / fail 1 1 / put 1 / statx 1 / sleep 100 the foreign
   status write sets aux = `written`; the retry queued at the fallback carries aux 0 for revision 4 at
   which the table holds aux `written`; after the successful retry the table holds aux `final` <> `written`:
   the other writer's data has been reverted *)
Theorem C15_stale_retry_clobbers_refuted :
  exists written final,
    run_d15 true = ([(1, 1, kind_code Error, written)], ([(0, 4)], Some (written, 4)), [(1, 1, kind_code Done, final)], 3) /\
    final <> written.
Proof. exact stale_retry_clobbers_refuted. Qed.
Print Assumptions C15_stale_retry_clobbers_refuted.

(* the same history with the code as it is: the retry is queued with the object just written, aux survives *)
Theorem C15_stale_retry_fixed :
  run_d15 false = ([(1, 1, kind_code Error, 1)], ([(1, 4)], Some (1, 4)), [(1, 1, kind_code Done, 1)], 3).
Proof. exact stale_retry_fixed. Qed.
Print Assumptions C15_stale_retry_fixed.

(* where exactly the old variant breaks the invariant behind C15_results_identify_versions: a failed
   operation committed through the fallback onto an object with different foreign data leaves a retry item
   that no longer identifies a version (StatusOnly.J1) *)
Theorem C15_stale_fallback_breaks_invariant : forall fixed efb now t q r t' q' cur rv, twf t ->
  t_live t (o_pk (r_obj r)) = Some (cur, rv) -> rv <> r_rev r -> fallback_ok efb cur r = true ->
  r_ok r = false -> o_aux cur <> o_aux (r_obj r) ->
  commit_one_stale fixed efb now (t, q) r = (t', q') ->
  exists it, find_item (o_pk (r_obj r)) (q_items q') = Some it /\ ri_del it = false /\
             ~ J1 t' (ri_obj it) (ri_rev it).
Proof. exact stale_fallback_breaks_J1. Qed.
Print Assumptions C15_stale_fallback_breaks_invariant.

(* non-vacuity for the foreign data: the D15 history is a reachable state of the code as it is; its round
   commits the failed retry through the fallback, the erased table (payload 1, aux 1) is untouched and the
   retry is queued with the written object (aux 1) at the written revision *)
Example C15_d15_history_nonvacuous :
  reach d15_cf d15_st3 /\
  (let tr := round_trace d15_cf (fst d15_st3) (snd d15_st3) in
   tr_res1 tr = [] /\
   map (fun r => (o_pk (r_obj r), o_ver (r_obj r), o_aux (r_obj r), r_rev r, r_orig r, r_ok r)) (tr_res2 tr) = [(1, 1, 0, 2, 1, false)] /\
   t_live (e_tab (tr_e3 tr)) 1 = Some (mkObj 1 1 Error 2 1, 3) /\
   erase (e_tab (tr_e3 tr)) = [(1, Some (1, 1))] /\
   erase (tr_t2 tr) = [(1, Some (1, 1))] /\
   t_live (tr_t2 tr) 1 = Some (mkObj 1 1 Error 3 1, 4) /\
   map (fun it => (ri_obj it, ri_rev it, ri_orig it)) (q_items (tr_q4 tr)) = [(mkObj 1 1 Error 3 1, 4, 1)]).
Proof. exact d15_trace. Qed.

(* ------------------------------------------------------------------ the refresher (Reconciler/Refresh.v) *)
From SV Require Import Reconciler.ItemsInv Reconciler.Refresh.

(* reconciler.go refreshLoop marks old Done objects for re-reconciliation. In the model (Model.v) a refresh
   is the ATOMIC user write `ref` (do_write kind 5). The code is a concurrent loop: it reads (o, rev) from a
   READ snapshot `snap`, later opens a write transaction, re-reads the object and writes the re-read object
   with StatusRefreshing() only `if ok && rev == newRev` — `refresh_write t o rev` on the table t the write
   transaction sees. `tstep snap t`: t is reached from snap by ANY committed writes (inserts of any object —
   user writes, foreign status writes, the reconciler's status commits —, deletes, id draws).
   NOT MODELLED: the refresher's TIMING — which objects it picks and when (UpdatedAt vs RefreshInterval, the
   rate limiter, the lastRevision cursor): (o, rev) is any Done object of any earlier snapshot. On the
   implementation side the refresher is exercised by a directed probe only (no randomized schedule runs the
   refresh loop against concurrent writers). *)

(* (a)+(b): if the key's slot is as it was in the snapshot, the refresher's write is exactly what the model's
   atomic `ref` write does to the current table; if anything was written to the key meanwhile (larger
   revision) or the object was deleted, nothing is written *)
Theorem C15_refresher_write_is_ref_or_nothing : forall snap e o rev, twf snap -> tstep snap (e_tab e) ->
  refresher_saw snap o rev ->
  (slot_of (e_tab e) (o_pk o) = slot_of snap (o_pk o) /\
   refresh_write (e_tab e) o rev = e_tab (do_write e 5 (o_pk o))) \/
  (slot_of (e_tab e) (o_pk o) <> slot_of snap (o_pk o) /\
   refresh_write (e_tab e) o rev = e_tab e).
Proof. exact refresher_write_is_ref_or_nothing. Qed.
Print Assumptions C15_refresher_write_is_ref_or_nothing.

(* (c)+(d): the refresher's write changes nothing but a status — same statuses-erased table (payload version
   and other writers' data of every live object, None for deleted ones), deleted/absent keys and all other
   keys exactly as they were —; if it writes at all, the table still held the very object seen in the
   snapshot at the snapshot's revision, a Done object, which becomes Refreshing with a fresh id; an object
   that is Pending, Refreshing or Error (retry queued) is never overwritten *)
Theorem C15_refresher_changes_only_status : forall snap t o rev, twf snap -> tstep snap t ->
  refresher_saw snap o rev ->
  (status_only t (refresh_write t o rev) /\
   (forall k, k <> o_pk o -> slot_of (refresh_write t o rev) k = slot_of t k)) /\
  (refresh_write t o rev <> t ->
   t_live t (o_pk o) = Some (o, rev) /\ o_kind o = Done /\
   t_live (refresh_write t o rev) (o_pk o) = Some (with_status o Refreshing (t_nextid t), t_rev t + 1)) /\
  (forall cur r, t_live t (o_pk o) = Some (cur, r) -> o_kind cur <> Done -> refresh_write t o rev = t).
Proof. exact refresher_changes_only_status. Qed.
Print Assumptions C15_refresher_changes_only_status.

(* the status-only part needs no snapshot at all: whatever (o, rev) the refresher holds *)
Theorem C15_refresher_write_status_only : forall t o rev, keyed t ->
  status_only t (refresh_write t o rev) /\
  (forall k, k <> o_pk o -> slot_of (refresh_write t o rev) k = slot_of t k).
Proof. exact refresh_write_status_only. Qed.
Print Assumptions C15_refresher_write_status_only.

(* in every reachable state: an object with an update retry item is not touched by the refresher (it carries
   our Error status, or is Pending/Refreshing/deleted ahead of the change cursor) — the retry keeps its
   backoff (C16) *)
Theorem C15_refresher_leaves_queued_retries_alone : forall cf e s snap o rev it, reach cf (e, s) ->
  twf snap -> tstep snap (e_tab e) -> refresher_saw snap o rev ->
  In it (q_items (k_ret s)) -> ri_del it = false -> ri_pk it = o_pk o ->
  refresh_write (e_tab e) o rev = e_tab e.
Proof. exact refresher_leaves_queued_retries_alone. Qed.
Print Assumptions C15_refresher_leaves_queued_retries_alone.

(* composition with runs: snapshot in any reachable state st, write transaction in any later state st' of the
   run (environment steps and rounds in between): the write is the model's `ref` environment step at st' —
   the result is again a reachable state, so every invariant proved over `reach` covers the concurrent
   refresher — or nothing *)
Theorem C15_refresher_in_runs : forall cf st st' o rev, reach cf st -> later cf st st' ->
  refresher_saw (e_tab (fst st)) o rev ->
  (t_live (e_tab (fst st')) (o_pk o) = Some (o, rev) /\
   refresh_write (e_tab (fst st')) o rev = e_tab (do_write (fst st') 5 (o_pk o)) /\
   reach cf (do_write (fst st') 5 (o_pk o), snd st')) \/
  (slot_of (e_tab (fst st')) (o_pk o) <> slot_of (e_tab (fst st)) (o_pk o) /\
   refresh_write (e_tab (fst st')) o rev = e_tab (fst st')).
Proof. exact refresher_in_runs. Qed.
Print Assumptions C15_refresher_in_runs.

(* seeded variant A (revision check on a READ transaction before WriteTxn, then the OLD object + Refreshing is
   inserted unconditionally): reverts a committed user update (payload version 2 -> 1) and re-creates a
   deleted object; the code as it is writes nothing in both situations *)
Theorem C15_refresher_stale_check_refuted :
  refresher_saw rf_snap rf_o rf_rev /\
  (erase rf_upd = [(1, Some (2, 0))] /\
   erase (refresh_write_stale rf_snap rf_upd rf_o rf_rev) = [(1, Some (1, 0))] /\
   refresh_write rf_upd rf_o rf_rev = rf_upd) /\
  (erase rf_del = [(1, None)] /\
   erase (refresh_write_stale rf_snap rf_del rf_o rf_rev) = [(1, Some (1, 0))] /\
   refresh_write rf_del rf_o rf_rev = rf_del).
Proof. exact refresh_stale_check_refuted. Qed.
Print Assumptions C15_refresher_stale_check_refuted.

(* seeded variant B (`if ok`, no revision comparison): at time 20 the object is Error with a retry item queued
   for time 60 (numRetries 2); the variant overwrites Error with Refreshing, Update is called again at time
   20 and, failing, is re-queued for time 40 with numRetries 1 (backoff reset); the code as it is writes
   nothing, calls nothing (up to time 39) and keeps the item *)
Theorem C15_refresher_no_revision_check_refuted :
  refresher_saw rf_snap rf_o rf_rev /\
  t_live rf_err 1 = Some (mkObj 1 2 Error 5 0, 5) /\
  e_now (fst rf_st1) = 20 /\ items_of (snd rf_st1) = [(1, 60, 2)] /\
  t_live (refresh_write_nocheck rf_err rf_o) 1 = Some (mkObj 1 2 Refreshing 6 0, 6) /\
  refresh_write rf_err rf_o rf_rev = rf_err /\
  calls_of (fst (rf_next rf_err)) = [] /\ items_of (snd (rf_next rf_err)) = [(1, 60, 2)] /\
  calls_of (fst (rf_next (refresh_write_nocheck rf_err rf_o))) = [(20, 0, 1, false)] /\
  items_of (snd (rf_next (refresh_write_nocheck rf_err rf_o))) = [(1, 40, 1)].
Proof. exact refresh_no_revision_check_refuted. Qed.
Print Assumptions C15_refresher_no_revision_check_refuted.

(* non-vacuity: the snapshot (key 1, payload 1, Done at revision 2) of a reachable state and the tables after
   a user update / a delete; after an unrelated write the refresher's write IS the ref write (key 1 becomes
   Refreshing); a later reachable state with an Error object and a queued update retry for key 1 *)
Example C15_refresher_nonvacuous :
  (refresher_saw rf_snap rf_o rf_rev /\ twf rf_snap /\ tstep rf_snap rf_upd /\ tstep rf_snap rf_del) /\
  ((let e := do_write (fst rf_st0) 0 2 in
    tstep rf_snap (e_tab e) /\ slot_of (e_tab e) 1 = slot_of rf_snap 1 /\
    live_objs (refresh_write (e_tab e) rf_o rf_rev) = [(1, 1, 1); (2, 2, 0)] /\
    refresh_write (e_tab e) rf_o rf_rev <> e_tab e) /\
   slot_of rf_upd 1 <> slot_of rf_snap 1 /\ slot_of rf_del 1 <> slot_of rf_snap 1) /\
  (reach rf_cf rf_st0 /\ later rf_cf rf_st0 rf_st1 /\ reach rf_cf rf_st1 /\ tstep rf_snap rf_err /\ err_live rf_err 1 /\
   (exists it, In it (q_items (k_ret (snd rf_st1))) /\ ri_del it = false /\ ri_pk it = o_pk rf_o /\ ri_inq it = true)).
Proof. exact (conj rf_saw (conj rf_unchanged_and_changed rf_retry_state)). Qed.

(* ---- which (object, revision) pairs the refresher picks, and when: one sweep of refreshLoop over a read snapshot
   (Reconciler/Sweep.v: revision order from the cursor, the age test, the rate limiter as arbitrary waits before each
   write, the new cursor, the duration the timer is re-armed for). `upd` = Status.UpdatedAt (not part of Model.obj; any
   assignment). Ties the timing-free theorems above to the loop as coded; the loop itself runs against the
   implementation in the directed probes only. *)
From SV Require Import Reconciler.Sweep.

(* every pair the sweep hands to the write transaction is a live Done object of the snapshot at that revision, above
   the cursor, at least RefreshInterval old when written *)
Theorem C15_refresher_sweep_picks_only_old_done_objects : forall upd iv now last snap delays c, twf snap ->
  In c (fst (fst (refresh_sweep upd iv now last snap delays))) ->
  refresher_saw snap (cd_obj c) (cd_rev c) /\ last < cd_rev c /\ iv <= cd_at c - upd (cd_obj c) /\ now <= cd_at c.
Proof. exact sweep_candidates_seen. Qed.
Print Assumptions C15_refresher_sweep_picks_only_old_done_objects.

(* and none is skipped: with time stamps monotone in revision order (every status write stamps the current time),
   every live Done object above the cursor that is RefreshInterval old at the start of the sweep is picked *)
Theorem C15_refresher_sweep_refreshes_every_old_done_object : forall upd iv now last snap delays o r, twf snap ->
  upd_mono upd (live_stream snap last) -> 0 < iv ->
  t_live snap (o_pk o) = Some (o, r) -> last < r -> o_kind o = Done -> iv <= now - upd o ->
  exists c, In c (fst (fst (refresh_sweep upd iv now last snap delays))) /\ cd_obj c = o /\ cd_rev c = r.
Proof. exact sweep_refreshes_every_old_done_object. Qed.
Print Assumptions C15_refresher_sweep_refreshes_every_old_done_object.

(* the write of a picked pair, at any later moment, is the model's `ref` write of an object unchanged since the
   snapshot, or nothing *)
Theorem C15_refresher_sweep_write_is_ref_or_nothing : forall upd iv now last snap delays c e, twf snap -> tstep snap (e_tab e) ->
  In c (fst (fst (refresh_sweep upd iv now last snap delays))) ->
  (slot_of (e_tab e) (o_pk (cd_obj c)) = slot_of snap (o_pk (cd_obj c)) /\
   refresh_write (e_tab e) (cd_obj c) (cd_rev c) = e_tab (do_write e 5 (o_pk (cd_obj c)))) \/
  (slot_of (e_tab e) (o_pk (cd_obj c)) <> slot_of snap (o_pk (cd_obj c)) /\
   refresh_write (e_tab e) (cd_obj c) (cd_rev c) = e_tab e).
Proof. exact sweep_write_is_ref_or_nothing. Qed.
Print Assumptions C15_refresher_sweep_write_is_ref_or_nothing.

(* the timer is re-armed for a positive duration of at most RefreshInterval; the cursor moves to a revision seen *)
Theorem C15_refresher_sweep_timer_and_cursor : forall upd objs iv now last delays cs l dur,
  sweep upd iv now last objs delays = (cs, l, dur) ->
  (0 < iv -> 0 < dur /\ dur <= iv) /\ (l = last \/ exists ch, In ch objs /\ l = c_rev ch).
Proof.
  exact (fun upd objs iv now last delays cs l dur H =>
    conj (sweep_duration upd objs iv now last delays cs l dur H) (proj1 (sweep_cursor upd objs iv now last delays cs l dur H))).
Qed.
Print Assumptions C15_refresher_sweep_timer_and_cursor.

Example C15_refresher_sweep_nonvacuous :
  refresh_sweep sw_upd 20 30 0 sw_snap [4; 4; 4] =
    ([mkCand (mkObj 1 1 Done 1 0) 1 34; mkCand (mkObj 2 1 Done 2 0) 2 38], 3, 20) /\
  refresh_sweep sw_upd 20 30 3 sw_snap [] = ([], 3, 20) /\
  refresh_sweep sw_upd 20 60 0 sw_snap [] =
    ([mkCand (mkObj 1 1 Done 1 0) 1 60; mkCand (mkObj 2 1 Done 2 0) 2 60], 3, 10).
Proof. exact sweep_example. Qed.

(* ------------------------------------------------------------------------------------------------------------
   reconciler/types.go StatusSet — the data structure behind "a status-only change by a second reconciler".
   In Model.v a reconciler's view of an object's status is (o_kind, o_sid) and what the other writers own is
   o_aux; here the set those projections are taken from is modelled as coded (Reconciler/StatusSet.v: global id
   counter, NewStatusSet, Pending, Set with its replace-or-append-and-sort, Get with its default for a
   reconciler not seen yet) and compared with the implementation by the engine `sset` (every value ever built
   is re-read after every later operation). `ss_wf` = entries strictly sorted by name. *)
From SV Require Import Base.Bytes Base.OrdMap Reconciler.StatusSet Reconciler.StatusSetProofs.

(* Set is the ordered-map insert; it keeps the set id and the invariant *)
Theorem C15_statusset_set_is_insert : forall s n st, ss_wf s ->
  ss_id (ss_set s n st) = ss_id s /\ ss_list (ss_set s n st) = om_insert n st (ss_list s) /\ ss_wf (ss_set s n st).
Proof. exact (fun s n st H => conj (proj1 (ss_set_is_insert s n st H)) (conj (proj2 (ss_set_is_insert s n st H)) (ss_set_wf s n st H))). Qed.
Print Assumptions C15_statusset_set_is_insert.

(* a reconciler reads back what it wrote; its write changes nothing it does not own (the set id and every other
   reconciler's entry: the model's o_aux), and another reconciler's write does not change what it reads
   (the model's stat/statx writes change o_aux only) *)
Theorem C15_statusset_own_and_foreign_writes : forall me other s st, ss_wf s ->
  view me (ss_set s me st) = st /\
  others me (ss_set s me st) = others me s /\
  (me <> other -> view me (ss_set s other st) = view me s).
Proof.
  exact (fun me other s st H => conj (ss_get_set_same s me st H)
          (conj (own_write_keeps_others me s st H) (foreign_write_keeps_view me other s st H))).
Qed.
Print Assumptions C15_statusset_own_and_foreign_writes.

(* Pending(): every reconciler - with an entry or not - reads Pending with the new id; the names are kept; and
   that id is carried by no value built before (ids_le g old: all ids of `old` were drawn from the counter), so
   the "same pending id" fallback of commitStatus cannot take the re-marked object for the one reconciled *)
Theorem C15_statusset_pending : forall s g old n m, ss_wf s -> ids_le g old ->
  ss_get (fst (ss_pending s g)) n = mkSt Pending (g + 1) /\
  map fst (ss_list (fst (ss_pending s g))) = map fst (ss_list s) /\
  ss_wf (fst (ss_pending s g)) /\
  st_id (ss_get (fst (ss_pending s g)) n) <> st_id (ss_get old m).
Proof.
  exact (fun s g old n m Hw Ho => conj (ss_get_pending s g n) (conj (ss_pending_names s g)
          (conj (ss_pending_wf s g Hw) (pending_id_is_fresh g s old n m Ho)))).
Qed.
Print Assumptions C15_statusset_pending.

(* every value an arbitrary program of New / Pending / Set builds is well-formed with ids below the counter
   (so the hypotheses above hold of every reachable value), and no operation changes a value built earlier *)
Theorem C15_statusset_values_reachable_and_persistent : forall m, sm_inv m ->
  (sm_inv (sm_new m) /\ forall j, sm_inv (sm_pending m j) /\ forall n k, sm_inv (sm_set m j n k)) /\
  forall i, (i < length (sm_vals m))%nat ->
    sm_val (sm_new m) i = sm_val m i /\
  forall j, sm_val (sm_pending m j) i = sm_val m i /\ forall n k, sm_val (sm_set m j n k) i = sm_val m i.
Proof.
  exact (fun m H => conj (conj (sm_inv_new m H) (fun j => conj (sm_inv_pending m j H) (fun n k => sm_inv_set m j n k H)))
          (fun i Hi => conj (sm_new_keeps m i Hi) (fun j => conj (sm_pending_keeps m j i Hi) (fun n k => sm_set_keeps m j n k i Hi)))).
Qed.
Print Assumptions C15_statusset_values_reachable_and_persistent.

(* the two seeded Pending() variants (S-C15-1: keeps the set id; S2-C14-3: keeps the per-entry ids): a
   reconciler reads the same (Pending, id) before and after the user re-marked the object *)
Theorem C15_statusset_pending_keep_set_id_refuted :
  let s := fst (ss_new 0) in
  let s' := fst (ss_pending_keep_set_id s 1) in
  ss_wf s /\ ids_le 1 s /\ view [114] s' = view [114] s /\ view [114] (fst (ss_pending s 1)) <> view [114] s.
Proof. exact pending_keep_set_id_refuted. Qed.
Print Assumptions C15_statusset_pending_keep_set_id_refuted.

Theorem C15_statusset_pending_keep_entry_ids_refuted :
  let s := ss_set (fst (ss_new 0)) [114] (mkSt Pending 2) in
  let s' := fst (ss_pending_keep_entry_ids s 2) in
  ss_wf s /\ ids_le 2 s /\ view [114] s' = view [114] s /\ view [114] (fst (ss_pending s 2)) <> view [114] s.
Proof. exact pending_keep_entry_ids_refuted. Qed.
Print Assumptions C15_statusset_pending_keep_entry_ids_refuted.

Example C15_statusset_nonvacuous :
  let m := sm_set (sm_set (sm_new sm_init) 0 [114] Done) 1 [115] Error in
  sm_inv m /\ ss_all (sm_val m 2) = [([114], mkSt Done 2); ([115], mkSt Error 3)] /\
  ss_get (sm_val m 2) [116] = mkSt Pending 1 /\
  ss_all (fst (ss_pending (sm_val m 2) (sm_gen m))) = [([114], mkSt Pending 4); ([115], mkSt Pending 4)].
Proof.
  split; [apply sm_inv_set, sm_inv_set, sm_inv_new, sm_inv_init|]. vm_compute. repeat split.
Qed.
