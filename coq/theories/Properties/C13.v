(* Properties/C13.v — LPM trie: exact longest-prefix semantics and persistence.
   Only statements closed by `exact`, with their assumptions printed.

   Vocabulary (Lpm/Bits.v, Inv.v, Order.v, MapThm.v, Lookup.v, Iter.v):
     bits k          the bit string denoted by key k = (data, prefixLen): its first prefixLen bits
     canon k         k is what EncodeLPMKey produces (exact data length, bits beyond prefixLen zero)
     entries r       pre-order list of the (key, value) of the real nodes below r
     abs r k         the finite map read off entries r
     inv [] r        trie invariant: canonical keys; a child's prefix extends its parent's prefix by
                     the branching bit; imaginary nodes have two children (and the zero value)
     wf_txn x        inv [] (t_root x) and t_size x = number of real nodes
     ascending l     every earlier entry is strictly below every later one in the order
                     blt = lexicographic on bit strings = "(bits padded with zeros, length)"
     covers k q      bits k is a prefix of bits q *)
From SV Require Import Base.Bytes Lpm.Model Lpm.Bits Lpm.Inv Lpm.Insert Lpm.Delete Lpm.Order
  Lpm.MapThm Lpm.Lookup Lpm.Iter Lpm.LowerBound Lpm.Refuted.
From Coq Require Import ZArith.
Open Scope N_scope.

(* ---- the byte-level mechanism computes on bit strings ---- *)
Theorem C13_longestMatch_is_common_prefix : forall s nk q, canon nk -> canon q ->
  (N.to_nat s <= lcp (bits nk) (bits q))%nat ->
  longestMatch s nk (fst q) (snd q) = N.of_nat (lcp (bits nk) (bits q)).
Proof. exact longestMatch_spec. Qed.
Print Assumptions C13_longestMatch_is_common_prefix.

Theorem C13_getBitAt_is_bit : forall q i, canon q -> (i < length (bits q))%nat ->
  getBitAt (fst q) (N.of_nat i) = nth i (bits q) false.
Proof. exact getBitAt_bits. Qed.
Print Assumptions C13_getBitAt_is_bit.

Theorem C13_imaginary_key_is_common_prefix : forall nk ml, canon nk -> (ml <= length (bits nk))%nat ->
  canon (encodeKey (key_bytes nk) (N.of_nat ml)) /\
  bits (encodeKey (key_bytes nk) (N.of_nat ml)) = firstn ml (bits nk).
Proof. exact encodeKey_spec. Qed.
Print Assumptions C13_imaginary_key_is_common_prefix.

Theorem C13_canonical_keys_are_their_bits : forall a b, canon a -> canon b -> bits a = bits b -> a = b.
Proof. exact canon_bits_inj. Qed.
Print Assumptions C13_canonical_keys_are_their_bits.

(* ---- (a) invariant and size, preserved by every operation ---- *)
Theorem C13_invariant_new : wf_trie trie_new.
Proof. exact wf_new. Qed.
Print Assumptions C13_invariant_new.

Theorem C13_invariant_insert : forall x k v, canon k -> wf_txn x ->
  wf_txn (txn_insert x k v) /\
  (forall k' w, In (k', w) (entries (t_root (txn_insert x k v))) <->
                (k' = k /\ w = v) \/ (k' <> k /\ In (k', w) (entries (t_root x)))).
Proof. exact insert_spec. Qed.
Print Assumptions C13_invariant_insert.

Theorem C13_invariant_delete : forall x k, canon k -> wf_txn x ->
  let '(x', (v, found)) := txn_delete x k in
  wf_txn x' /\ t_id x' = t_id x /\
  (found = true -> In (k, v) (entries (t_root x))) /\
  (found = false -> v = 0 /\ x' = x /\ forall w, ~ In (k, w) (entries (t_root x))) /\
  (forall k' w, In (k', w) (entries (t_root x')) <-> k' <> k /\ In (k', w) (entries (t_root x))).
Proof. exact delete_spec. Qed.
Print Assumptions C13_invariant_delete.

Theorem C13_invariant_txn_commit_reuse_clear_freeze :
  (forall t, wf_trie t -> wf_txn (trie_txn t)) /\ (forall x, wf_txn x -> wf_trie (txn_commit x)) /\
  (forall x t, wf_trie t -> wf_txn (txn_reuse x t)) /\ (forall x, wf_txn (txn_clear x)) /\
  (forall x, wf_txn x -> wf_txn (txn_freeze x)).
Proof. exact (conj wf_trie_txn (conj wf_commit (conj wf_reuse (conj wf_clear wf_freeze)))). Qed.
Print Assumptions C13_invariant_txn_commit_reuse_clear_freeze.

(* ---- (b) agreement with the finite map, for all prefixes ---- *)
Theorem C13_lookupExact_is_map_get : forall r k, canon k -> wf_root r ->
  lookupExact r k = match abs r k with Some v => (v, true) | None => (0, false) end.
Proof. exact lookupExact_abs. Qed.
Print Assumptions C13_lookupExact_is_map_get.

Theorem C13_insert_is_map_set : forall x k v k', canon k -> wf_txn x ->
  abs (t_root (txn_insert x k v)) k' = if lkey_eqb k' k then Some v else abs (t_root x) k'.
Proof. exact abs_insert. Qed.
Print Assumptions C13_insert_is_map_set.

Theorem C13_delete_is_map_remove : forall x k k', canon k -> wf_txn x ->
  abs (t_root (fst (txn_delete x k))) k' = (if lkey_eqb k' k then None else abs (t_root x) k') /\
  snd (txn_delete x k) = match abs (t_root x) k with Some v => (v, true) | None => (0, false) end.
Proof. exact abs_delete. Qed.
Print Assumptions C13_delete_is_map_remove.

Theorem C13_len_is_map_size : forall x, wf_txn x ->
  txn_len x = N.of_nat (length (entries (t_root x))) /\ ascending (entries (t_root x)).
Proof. exact len_spec. Qed.
Print Assumptions C13_len_is_map_size.

(* ---- (c) Lookup = longest stored prefix covering the key, for keys that are stored or at
        least as long as every stored prefix (full-length keys); the guard is necessary: for a
        shorter, non-stored query the code returns a node below the query (mechanism-level) ---- *)
Theorem C13_lookup_longest_prefix : forall r q, canon q -> inv [] r -> lookup_guard (entries r) q ->
  lpm_answer (entries r) q (lookup r q).
Proof. exact lookup_spec. Qed.
Print Assumptions C13_lookup_longest_prefix.

(* ---- (d) Prefix(q) = exactly the stored prefixes covered by q, in iteration order;
        iteration is ascending ---- *)
Theorem C13_prefix_exact : forall r q, canon q -> inv [] r ->
  it_entries (prefix r q) = filter (covered_by q) (entries r).
Proof. exact prefix_exact. Qed.
Print Assumptions C13_prefix_exact.

Theorem C13_all_is_entries : forall r, it_entries (all r) = entries r.
Proof. exact all_entries. Qed.
Print Assumptions C13_all_is_entries.

Theorem C13_iteration_ascending : forall r, inv [] r -> ascending (entries r).
Proof. exact (fun r => entries_ascending r []). Qed.
Print Assumptions C13_iteration_ascending.

(* LowerBound.  FULL STATEMENT (not proved in Coq; checked by the correspondence run and the
   Go oracle `lowerbound` only):

     Theorem C13_lower_bound_exact : forall r q, canon q -> inv [] r ->
       it_entries (lowerBound r q) = filter (not_below q) (entries r).

   i.e. LowerBound(q) yields, in ascending order, exactly the entries whose prefix is not below q
   in the order blt (= the suffix of the ascending entry list starting at the first entry >= q).
   PROVED BELOW: the same conclusion under the extra hypothesis [cmp_at_divergence q]:
       forall nk, canon nk -> lcp (bits nk) (bits q) < length (bits nk) ->
                  lcp (bits nk) (bits q) < length (bits q) ->
         bytes_ltb (key_bytes nk) (fst q) = nth (lcp (bits nk) (bits q)) (bits q) false
   (the test bytes.Compare(node.key, data) >= 0 that LowerBound makes at a node whose key diverges
   from the query agrees with the bit at the point of divergence).
   MISSING: the byte-level bridge "bytewise order of canonical key bytes = lexicographic order of
   their bit strings" (bytes_ltb a b = bltb (bytes_bits a) (bytes_bits b)), from which
   [forall q, canon q -> cmp_at_divergence q] follows as for longestMatch. Everything else
   (descent, right-sibling stack, stack iteration) is proved. *)
Theorem C13_lower_bound_exact_partial : forall r q, canon q -> cmp_at_divergence q -> inv [] r ->
  it_entries (lowerBound r q) = filter (not_below q) (entries r).
Proof. exact lowerBound_exact_partial. Qed.
Print Assumptions C13_lower_bound_exact_partial.

(* (e) Persistence / copy-on-write by txn id.  FULL STATEMENTS (not proved in Coq):

   Let ids_ok m r := every node of r has txnID <= m and no child has a larger txnID than its parent
   (what lpm/validate.go asserts). Then
     (1) forall x k v, ids_ok (t_id x) (t_root x) -> ids_ok (t_id x) (t_root (txn_insert x k v))
         and likewise for txn_delete (the early exit of Delete relies on the parent/child clause);
     (2) txn_all / txn_prefix / txn_lowerBound return (x', it) with t_id x' = t_id x + 1 whenever the
         root is not nil, hence every node reachable from it has txnID < t_id x';
         trie_txn (txn_commit x) has t_id = t_id x + 1 > every txnID in the committed trie;
     (3) in a heap semantics where Txn.clone returns its argument iff n.txnID = txn.txnID, a node is
         written in place only if its txnID equals the id of the writing transaction; with (1)-(2)
         no node reachable from an earlier committed trie or from an iterator handed out earlier is
         ever written, so it_entries of every earlier iterator and all/lookup/prefix/lowerBound of
         every earlier trie are unchanged by any later operation of any transaction
         (given that a Txn is not used after Commit before Reuse/Clear).
   The model renders nodes as tree values, so (3) holds in the model by construction and is not a
   theorem about the code; what the check establishes for (e) is: the txnID of every node and the
   txn ids after every call agree between model and implementation (op dump), and every earlier
   trie and iterator is re-read after every later step (oracles persist-trie / persist-iter).
   What IS proved about ids is only the bookkeeping below. *)
Theorem C13_txn_ids_partial : forall x t k v q,
  t_id (txn_insert x k v) = t_id x /\ t_id (fst (txn_delete x k)) = t_id x /\
  t_id (trie_txn (txn_commit x)) = t_id x + 1 /\ t_id (txn_reuse x t) = r_prev t + 1 /\
  (t_root x <> Nil -> t_id (fst (txn_all x)) = t_id x + 1 /\ t_id (fst (txn_prefix x q)) = t_id x + 1 /\
                      t_id (fst (txn_lowerBound x q)) = t_id x + 1) /\
  (t_root x = Nil -> fst (txn_all x) = x /\ snd (txn_all x) = []).
Proof. exact txn_ids. Qed.
Print Assumptions C13_txn_ids_partial.

(* the unguarded Prefix (code before fix 7b6a21e, seeded/D2) is wrong *)
Theorem C13_prefix_unguarded_refuted :
  exists (r : node) (q : lkey), inv [] r /\ canon q /\
    it_entries (prefix_unguarded r q) = [(([10], 8), 1)] /\
    ~ is_pre (bits q) (bits ([10], 8)) /\
    it_entries (prefix r q) = [].
Proof. exact lpm_prefix_unguarded_refuted. Qed.
Print Assumptions C13_prefix_unguarded_refuted.

(* non-vacuity: a trie built by the operations satisfies the hypotheses, on keys that fork at a
   byte boundary, with an imaginary node *)
Example C13_nonvacuous :
  let x := txn_insert (txn_insert (trie_txn trie_new) ([10; 128], 9) 1) ([10; 0; 64], 18) 2 in
  wf_txn (trie_txn trie_new) /\ canon ([10; 128], 9) /\ canon ([10; 0; 64], 18) /\
  txn_len x = 2 /\ lookup (t_root x) ([10; 0; 64; 1], 32) = (2, true) /\
  lookup_guard (entries (t_root x)) ([10; 0; 64; 1], 32).
Proof.
  assert (C : forall d p, is_bytes d -> length d = N.to_nat ((p + 7) / 8) ->
            Forall (fun b => b = false) (skipn (N.to_nat p) (bytes_bits d)) -> canon (d, p)) by (intros; repeat split; assumption).
  split; [exact (wf_trie_txn _ wf_new)|].
  split; [apply C; [repeat constructor; reflexivity|reflexivity|vm_compute; repeat constructor]|].
  split; [apply C; [repeat constructor; reflexivity|reflexivity|vm_compute; repeat constructor]|].
  split; [vm_compute; reflexivity|]. split; [vm_compute; reflexivity|].
  right. vm_compute. intros k w [H|[H|[]]]; injection H as <- _; vm_compute; lia.
Qed.
