(* Properties/C13.v — LPM trie: exact longest-prefix semantics and persistence.
   Only statements closed by `exact`, with their assumptions printed.

   Vocabulary (Lpm/Bits.v, Inv.v, Order.v, MapThm.v, Lookup.v, Iter.v):
     bits k          the bit string denoted by key k = (data, prefixLen): its first prefixLen bits
     canon k         k is what EncodeLPMKey produces (exact data length, bits beyond prefixLen zero)
     entries r       pre-order list of the (key, value) of the real nodes below r
     abs r k         the finite map read off entries r
     inv [] r        trie invariant: canonical keys; a child's prefix extends its parent's prefix by
                     the branching bit; imaginary nodes have two children (and the zero value)
     wf_txn x        inv [] (t_root x) and t_size x = number of real nodes
     ascending l     every earlier entry is strictly below every later one in the order
                     blt = lexicographic on bit strings = "(bits padded with zeros, length)"
     covers k q      bits k is a prefix of bits q *)
From SV Require Import Base.Bytes Lpm.Model Lpm.Bits Lpm.Inv Lpm.Insert Lpm.Delete Lpm.Order
  Lpm.MapThm Lpm.Lookup Lpm.Iter Lpm.LowerBound Lpm.Cow Lpm.Refuted.
From Coq Require Import ZArith.
Open Scope N_scope.

(* ---- the byte-level mechanism computes on bit strings ---- *)
Theorem C13_longestMatch_is_common_prefix : forall s nk q, canon nk -> canon q ->
  (N.to_nat s <= lcp (bits nk) (bits q))%nat ->
  longestMatch s nk (fst q) (snd q) = N.of_nat (lcp (bits nk) (bits q)).
Proof. exact longestMatch_spec. Qed.
Print Assumptions C13_longestMatch_is_common_prefix.

Theorem C13_getBitAt_is_bit : forall q i, canon q -> (i < length (bits q))%nat ->
  getBitAt (fst q) (N.of_nat i) = nth i (bits q) false.
Proof. exact getBitAt_bits. Qed.
Print Assumptions C13_getBitAt_is_bit.

Theorem C13_imaginary_key_is_common_prefix : forall nk ml, canon nk -> (ml <= length (bits nk))%nat ->
  canon (encodeKey (key_bytes nk) (N.of_nat ml)) /\
  bits (encodeKey (key_bytes nk) (N.of_nat ml)) = firstn ml (bits nk).
Proof. exact encodeKey_spec. Qed.
Print Assumptions C13_imaginary_key_is_common_prefix.

Theorem C13_canonical_keys_are_their_bits : forall a b, canon a -> canon b -> bits a = bits b -> a = b.
Proof. exact canon_bits_inj. Qed.
Print Assumptions C13_canonical_keys_are_their_bits.

(* ---- (a) invariant and size, preserved by every operation ---- *)
Theorem C13_invariant_new : wf_trie trie_new.
Proof. exact wf_new. Qed.
Print Assumptions C13_invariant_new.

Theorem C13_invariant_insert : forall x k v, canon k -> wf_txn x ->
  wf_txn (txn_insert x k v) /\
  (forall k' w, In (k', w) (entries (t_root (txn_insert x k v))) <->
                (k' = k /\ w = v) \/ (k' <> k /\ In (k', w) (entries (t_root x)))).
Proof. exact insert_spec. Qed.
Print Assumptions C13_invariant_insert.

Theorem C13_invariant_delete : forall x k, canon k -> wf_txn x ->
  let '(x', (v, found)) := txn_delete x k in
  wf_txn x' /\ t_id x' = t_id x /\
  (found = true -> In (k, v) (entries (t_root x))) /\
  (found = false -> v = 0 /\ x' = x /\ forall w, ~ In (k, w) (entries (t_root x))) /\
  (forall k' w, In (k', w) (entries (t_root x')) <-> k' <> k /\ In (k', w) (entries (t_root x))).
Proof. exact delete_spec. Qed.
Print Assumptions C13_invariant_delete.

Theorem C13_invariant_txn_commit_reuse_clear_freeze :
  (forall t, wf_trie t -> wf_txn (trie_txn t)) /\ (forall x, wf_txn x -> wf_trie (txn_commit x)) /\
  (forall x t, wf_trie t -> wf_txn (txn_reuse x t)) /\ (forall x, wf_txn (txn_clear x)) /\
  (forall x, wf_txn x -> wf_txn (txn_freeze x)).
Proof. exact (conj wf_trie_txn (conj wf_commit (conj wf_reuse (conj wf_clear wf_freeze)))). Qed.
Print Assumptions C13_invariant_txn_commit_reuse_clear_freeze.

(* ---- (b) agreement with the finite map, for all prefixes ---- *)
Theorem C13_lookupExact_is_map_get : forall r k, canon k -> wf_root r ->
  lookupExact r k = match abs r k with Some v => (v, true) | None => (0, false) end.
Proof. exact lookupExact_abs. Qed.
Print Assumptions C13_lookupExact_is_map_get.

Theorem C13_insert_is_map_set : forall x k v k', canon k -> wf_txn x ->
  abs (t_root (txn_insert x k v)) k' = if lkey_eqb k' k then Some v else abs (t_root x) k'.
Proof. exact abs_insert. Qed.
Print Assumptions C13_insert_is_map_set.

Theorem C13_delete_is_map_remove : forall x k k', canon k -> wf_txn x ->
  abs (t_root (fst (txn_delete x k))) k' = (if lkey_eqb k' k then None else abs (t_root x) k') /\
  snd (txn_delete x k) = match abs (t_root x) k with Some v => (v, true) | None => (0, false) end.
Proof. exact abs_delete. Qed.
Print Assumptions C13_delete_is_map_remove.

Theorem C13_len_is_map_size : forall x, wf_txn x ->
  txn_len x = N.of_nat (length (entries (t_root x))) /\ ascending (entries (t_root x)).
Proof. exact len_spec. Qed.
Print Assumptions C13_len_is_map_size.

(* ---- (c) Lookup = longest stored prefix covering the key, for keys that are stored or at
        least as long as every stored prefix (full-length keys); the guard is necessary: for a
        shorter, non-stored query the code returns a node below the query (mechanism-level) ---- *)
Theorem C13_lookup_longest_prefix : forall r q, canon q -> inv [] r -> lookup_guard (entries r) q ->
  lpm_answer (entries r) q (lookup r q).
Proof. exact lookup_spec. Qed.
Print Assumptions C13_lookup_longest_prefix.

(* ---- (d) Prefix(q) = exactly the stored prefixes covered by q, in iteration order;
        iteration is ascending ---- *)
Theorem C13_prefix_exact : forall r q, canon q -> inv [] r ->
  it_entries (prefix r q) = filter (covered_by q) (entries r).
Proof. exact prefix_exact. Qed.
Print Assumptions C13_prefix_exact.

Theorem C13_all_is_entries : forall r, it_entries (all r) = entries r.
Proof. exact all_entries. Qed.
Print Assumptions C13_all_is_entries.

Theorem C13_iteration_ascending : forall r, inv [] r -> ascending (entries r).
Proof. exact (fun r => entries_ascending r []). Qed.
Print Assumptions C13_iteration_ascending.

(* LowerBound(q) yields, in ascending order, exactly the entries whose prefix is not below q in the
   order blt (= the suffix of the ascending entry list starting at the first entry >= q) *)
Theorem C13_lower_bound_exact : forall r q, canon q -> inv [] r ->
  it_entries (lowerBound r q) = filter (not_below q) (entries r).
Proof. exact lowerBound_exact. Qed.
Print Assumptions C13_lower_bound_exact.

(* the byte-level fact behind it: the test bytes.Compare(node.key, data) >= 0 that LowerBound makes at
   a node whose key diverges from the query agrees with the bit at the point of divergence *)
Theorem C13_compare_at_divergence : forall q, canon q -> forall nk, canon nk ->
  (lcp (bits nk) (bits q) < length (bits nk))%nat -> (lcp (bits nk) (bits q) < length (bits q))%nat ->
  bytes_ltb (key_bytes nk) (fst q) = nth (lcp (bits nk) (bits q)) (bits q) false.
Proof. exact cmp_at_divergence_holds. Qed.
Print Assumptions C13_compare_at_divergence.

(* ---- (e) persistence: the copy-on-write discipline by txn id (Lpm/Cow.v) ----
   ids_ok T r        every node of r has txnID <= T and no child has a larger txnID than its parent
                     (what lpm/validate.go asserts)
   clone_inplace tid n   the test of Txn.clone: n is returned itself (and then written in place) iff
                     n.txnID = tid; every node Insert/Delete write is first passed through Txn.clone
   no_inplace tid r  clone_inplace tid is false on every node of r
   published x it    every node of the iterator stack it has all its ids strictly below t_id x *)

(* ids_ok is preserved by Insert and Delete (including Delete's early exit), the txn id is unchanged *)
Theorem C13_cow_ids_preserved : forall x k v,
  (txn_ids_ok x -> txn_ids_ok (txn_insert x k v) /\ t_id (txn_insert x k v) = t_id x) /\
  (txn_ids_ok x -> txn_ids_ok (fst (txn_delete x k)) /\ t_id (fst (txn_delete x k)) = t_id x).
Proof. exact (fun x k v => conj (txn_insert_ids x k v) (txn_delete_ids x k)). Qed.
Print Assumptions C13_cow_ids_preserved.

(* Delete's early "return value, true" is taken only where the nodes above are owned by the txn
   (id = txn id), so leaving them untouched equals cloning them; B = bound inherited from the parent *)
Theorem C13_cow_delete_early_exit_owned : forall tid kd kpl n B ml, ids_ok B n -> B <= tid ->
  match del tid kd kpl ml n with
  | Some (n', _, true) => node_id n = tid /\ node_id n' = tid
  | _ => True
  end.
Proof. exact del_stop_owned. Qed.
Print Assumptions C13_cow_delete_early_exit_owned.

(* every root / iterator handed out is handed out together with an id bump: All, Prefix, LowerBound
   (txnID++), Commit followed by Txn or Reuse (prevTxnID + 1) *)
Theorem C13_cow_published : forall x q t,
  (txn_ids_ok x ->
    (published (fst (txn_all x)) (snd (txn_all x)) /\ txn_ids_ok (fst (txn_all x))) /\
    (published (fst (txn_prefix x q)) (snd (txn_prefix x q)) /\ txn_ids_ok (fst (txn_prefix x q))) /\
    (published (fst (txn_lowerBound x q)) (snd (txn_lowerBound x q)) /\ txn_ids_ok (fst (txn_lowerBound x q)))) /\
  (txn_ids_ok x -> trie_ids_ok (txn_commit x)) /\
  (trie_ids_ok t -> txn_ids_ok (trie_txn t) /\ below (t_id (trie_txn t)) (r_root t) /\
     (forall x', txn_ids_ok (txn_reuse x' t) /\ below (t_id (txn_reuse x' t)) (r_root t))) /\
  (trie_ids_ok trie_new /\ txn_ids_ok (txn_clear x)).
Proof.
  exact (fun x q t => conj (txn_iter_publishes x q) (conj (commit_ids x) (conj (trie_txn_ids t) (new_clear_ids x)))).
Qed.
Print Assumptions C13_cow_published.

(* hence Txn.clone never takes the in-place branch on a node of a published iterator ... *)
Theorem C13_cow_published_never_mutated : forall x it, published x it -> Forall (no_inplace (t_id x)) it.
Proof. exact published_never_mutated. Qed.
Print Assumptions C13_cow_published_never_mutated.

(* ... over every later history of that transaction (inserts, deletes, further iterators) ... *)
Theorem C13_cow_iterator_never_mutated : forall x it z, txn_ids_ok x -> published x it -> steps x z ->
  txn_ids_ok z /\ Forall (no_inplace (t_id z)) it.
Proof. exact iterator_never_mutated. Qed.
Print Assumptions C13_cow_iterator_never_mutated.

(* ... and no transaction begun (Txn or Reuse) from a committed trie ever writes a node of that trie *)
Theorem C13_cow_committed_never_mutated : forall t x0 z, trie_ids_ok t ->
  (x0 = trie_txn t \/ exists x, x0 = txn_reuse x t) -> steps x0 z ->
  txn_ids_ok z /\ no_inplace (t_id z) (r_root t).
Proof. exact committed_never_mutated. Qed.
Print Assumptions C13_cow_committed_never_mutated.

(* The theorems above are stated on the tree-valued model, where node identity / allocation is not
   expressible: they cover the transaction that handed out the iterator and every transaction begun
   from the committed trie itself (C13_persistence_tree_level below). The FULL statement — for
   arbitrary branching histories no operation of ANY transaction, of any lineage and whatever its
   ids, changes what an earlier committed trie or an earlier iterator returns — is proved on the
   pointer-heap model at the end of this file (Module C13_Heap: C13_heap_refines_tree,
   C13_inplace_writes_only_owned, C13_persistence_all_tries).
   Contract assumed throughout: a Txn is not used after Commit before Reuse/Clear (Commit does not
   bump the id; C13_use_after_commit_refuted shows the contract is necessary). *)
Theorem C13_persistence_tree_level : forall x it t x0 z z',
  (txn_ids_ok x -> published x it -> steps x z -> txn_ids_ok z /\ Forall (no_inplace (t_id z)) it) /\
  (trie_ids_ok t -> (x0 = trie_txn t \/ exists x1, x0 = txn_reuse x1 t) -> steps x0 z' ->
     txn_ids_ok z' /\ no_inplace (t_id z') (r_root t)).
Proof. exact (fun x it t x0 z z' => conj (iterator_never_mutated x it z) (committed_never_mutated t x0 z')). Qed.
Print Assumptions C13_persistence_tree_level.

(* which calls bump the transaction id *)
Theorem C13_txn_id_bookkeeping : forall x t k v q,
  t_id (txn_insert x k v) = t_id x /\ t_id (fst (txn_delete x k)) = t_id x /\
  t_id (trie_txn (txn_commit x)) = t_id x + 1 /\ t_id (txn_reuse x t) = r_prev t + 1 /\
  (t_root x <> Nil -> t_id (fst (txn_all x)) = t_id x + 1 /\ t_id (fst (txn_prefix x q)) = t_id x + 1 /\
                      t_id (fst (txn_lowerBound x q)) = t_id x + 1) /\
  (t_root x = Nil -> fst (txn_all x) = x /\ snd (txn_all x) = []).
Proof. exact txn_ids. Qed.
Print Assumptions C13_txn_id_bookkeeping.

(* the unguarded Prefix (code before fix 7b6a21e, seeded/D2) is wrong *)
Theorem C13_prefix_unguarded_refuted :
  exists (r : node) (q : lkey), inv [] r /\ canon q /\
    it_entries (prefix_unguarded r q) = [(([10], 8), 1)] /\
    ~ is_pre (bits q) (bits ([10], 8)) /\
    it_entries (prefix r q) = [].
Proof. exact lpm_prefix_unguarded_refuted. Qed.
Print Assumptions C13_prefix_unguarded_refuted.

(* non-vacuity: a trie built by the operations satisfies the hypotheses, on keys that fork at a
   byte boundary, with an imaginary node *)
Example C13_nonvacuous :
  let x := txn_insert (txn_insert (trie_txn trie_new) ([10; 128], 9) 1) ([10; 0; 64], 18) 2 in
  wf_txn (trie_txn trie_new) /\ canon ([10; 128], 9) /\ canon ([10; 0; 64], 18) /\
  txn_len x = 2 /\ lookup (t_root x) ([10; 0; 64; 1], 32) = (2, true) /\
  lookup_guard (entries (t_root x)) ([10; 0; 64; 1], 32).
Proof.
  assert (C : forall d p, is_bytes d -> length d = N.to_nat ((p + 7) / 8) ->
            Forall (fun b => b = false) (skipn (N.to_nat p) (bytes_bits d)) -> canon (d, p)) by (intros; repeat split; assumption).
  split; [exact (wf_trie_txn _ wf_new)|].
  split; [apply C; [repeat constructor; reflexivity|reflexivity|vm_compute; repeat constructor]|].
  split; [apply C; [repeat constructor; reflexivity|reflexivity|vm_compute; repeat constructor]|].
  split; [vm_compute; reflexivity|]. split; [vm_compute; reflexivity|].
  right. vm_compute. intros k w [H|[H|[]]]; injection H as <- _; vm_compute; lia.
Qed.

(* ---- the table-level LPM index (lpm_index.go: lpmEntry head/tail stored in the trie) -------------
   The trie of lpm/trie.go stores, per prefix, an lpmEntry (objects sharing the prefix, by primary key).
   Persistence of committed tries includes these entries: the tail slice is shared between the entry
   values of successive tries, so upsert / delete must write only into fresh arrays.
   (Base/Slice.v heap of Go backing arrays; Table/SliceProofs.v; Table/Model.v LPM index queries.) *)
From SV Require Base.Slice Table.Model Table.InvDefs Table.SliceProofs Table.AgreeDefs Table.AgreeLpm Table.Queries.
Module C13_TableLpm.
Import SV.Base.Bytes SV.Base.Slice SV.Table.Model SV.Table.InvDefs SV.Table.SliceProofs SV.Table.AgreeDefs
  SV.Table.AgreeLpm SV.Table.Queries.
Local Open Scope nat_scope.

(* what earlier tries hold (any well-formed entry value of the old heap) reads the same after a
   later transaction's upsert or delete on an entry sharing its backing array *)
Theorem C13_entry_upsert_persistent : forall (h : eheap) (e : mentry) (pk : bytes) (o : object) (e' : mentry),
  me_wf h e' -> me_den (fst (upsert_new h e pk o)) e' = me_den h e'.
Proof. exact upsert_new_frame. Qed.
Print Assumptions C13_entry_upsert_persistent.

Theorem C13_entry_delete_persistent : forall (h : eheap) (e : mentry) (pk : bytes) (e' : mentry),
  me_wf h e' -> me_den (fst (delete_new h e pk)) e' = me_den h e'.
Proof. exact delete_new_frame. Qed.
Print Assumptions C13_entry_delete_persistent.

(* the in-place variants change an earlier trie's entry: defect D1 (fixed by 9ab81d8), seeded S-C13-3 *)
Theorem C13_entry_upsert_inplace_refuted :
  exists (h : eheap) (e : mentry) (k : bytes) (o : object) (e_other : mentry),
    me_wf h e /\ me_wf h e_other /\ esorted (me_den h e) /\
    forall extra, me_den h e_other <> me_den (fst (upsert_old extra h e k o)) e_other.
Proof. exact upsert_old_alias_refuted. Qed.
Print Assumptions C13_entry_upsert_inplace_refuted.

Theorem C13_entry_delete_inplace_refuted :
  exists (h : eheap) (e : mentry) (k : bytes) (e_other : mentry),
    me_wf h e /\ me_wf h e_other /\ esorted (me_den h e) /\
    me_den h e_other <> me_den (fst (delete_inplace h e k)) e_other.
Proof.
  destruct delete_inplace_alias_refuted as (h & e & k & eo & H1 & H2 & H3 & H4 & _).
  exists h, e, k, eo. auto.
Qed.
Print Assumptions C13_entry_delete_inplace_refuted.

(* queries through a table's LPM index: the longest stored prefix covering the key; stored prefixes
   covered by / not below the query, in (prefix bits, primary key) order *)
Theorem C13_table_lpm_list : forall u q t, TInv t -> Agree t ->
  (forall k, longest_cover u t q k -> ql_list u q t = filter (has_lkey u k) (vals (t_primary t))) /\
  ((forall k, ~ covers u t q k) -> ql_list u q t = []) /\
  ql_get u q t = hd_error (ql_list u q t).
Proof. exact ql_list_exact. Qed.
Print Assumptions C13_table_lpm_list.
End C13_TableLpm.

(* ---- (f) persistence on the pointer heap (Lpm/Heap.v; HeapBase.v, HeapIns.v, HeapDel.v, HeapIds.v,
        HeapProofs.v) -------------------------------------------------------------------------------
   The heap model mirrors lpm/trie.go line by line on a heap of cells (hnode: key, value, imaginary,
   txnID, two child pointers; addresses = indices; allocation = append): Txn.clone returns the address
   itself iff the cell carries the txn id (it is then WRITTEN IN PLACE), otherwise appends a copy stamped
   with the txn id; Insert (nodep slots, newNode, the imaginary fork), Delete (find loop, parents slice,
   compression, the early return), Trie.Txn / Reuse / Clear / Commit, the id bump of All/Prefix/LowerBound.
     den h p            the tree (Lpm/Model.v node) denoted by pointer p in heap h (fuel = heap size)
     rep h p t          relational denotation: p represents t (acyclic, no dangling pointer); rep -> den
     reach h p a        cell a is reachable from p
     habs h x           the tree-level transaction (Lpm/Model.v txn) denoted by heap transaction x
     x_own x            the cells x allocated since its id was last set / bumped
     fresh h h'         the cells appended between h and h'
     hinv P h x         invariant of a transaction: below the root, cells with id = txn id are exactly
                        cells of x_own x, they form an unshared tree, all other cells have smaller ids
                        (and satisfy P); established by Trie.Txn/Reuse from Cow.v's trie_ids_ok
     sys, sstep         two live transactions a, b and the list s_pubs of all roots handed out so far
                        (committed tries and iterator roots) on ONE heap; a step is an operation of a or
                        of b: Insert, Delete, All/Prefix/LowerBound, Commit followed by Txn/Reuse on any
                        handed-out trie, abandon followed by Txn/Reuse/Clear. The two transactions may
                        stem from different tries; their ids may coincide (C13_heap_nonvacuous)
     SInv s             hinv for a and b, their own-sets disjoint, nothing handed out reaches an owned cell
     safe s r           nothing reachable from r is owned by a or b *)
From SV Require Lpm.Heap Lpm.HeapBase Lpm.HeapIns Lpm.HeapDel Lpm.HeapIds Lpm.HeapProofs.
Module C13_Heap.
Import SV.Lpm.Heap SV.Lpm.HeapBase SV.Lpm.HeapProofs.

(* the computed denotation is the relational one *)
Theorem C13_heap_den_is_rep : forall h p t, rep h p t -> den h p = t.
Proof. exact rep_den. Qed.
Print Assumptions C13_heap_den_is_rep.

(* Trie.Txn / Txn.Reuse on a trie with ids <= prevTxnID (Cow.v ids_ok): the invariant holds, nothing owned *)
Theorem C13_heap_txn_start : forall (P : nat -> Prop) h t tr, rep h (hr_root t) tr -> ids_ok (hr_prev t) tr ->
  (forall a, reach h (hr_root t) a -> P a) -> hinv P h (htrie_txn t).
Proof. exact htrie_txn_inv. Qed.
Print Assumptions C13_heap_txn_start.

(* (a) REFINEMENT: Insert / Delete on the heap compute exactly what Lpm/Model.v computes on the denoted
   tree (root tree incl. all txnIDs, size, id, returned value and flag) and preserve the invariant *)
Theorem C13_heap_refines_tree : forall (P : nat -> Prop) h x k v, hinv P h x ->
  (let h' := fst (htxn_insert h x k v) in let x' := snd (htxn_insert h x k v) in
   hinv P h' x' /\ habs h' x' = txn_insert (habs h x) k v) /\
  (let h' := fst (fst (htxn_delete h x k)) in let x' := snd (fst (htxn_delete h x k)) in
   hinv P h' x' /\ (habs h' x', snd (htxn_delete h x k)) = txn_delete (habs h x) k).
Proof. exact heap_refines_tree. Qed.
Print Assumptions C13_heap_refines_tree.

(* (b) OWNERSHIP: a reachable cell carries the txn id iff the txn allocated it since its last bump;
   Insert / Delete overwrite only such cells and otherwise only append *)
Theorem C13_inplace_writes_only_owned : forall (P : nat -> Prop) h x k v, hinv P h x ->
  (forall a, reach h (x_root x) a -> (h_id (hget h a) = x_id x <-> In a (x_own x))) /\
  (let h' := fst (htxn_insert h x k v) in let x' := snd (htxn_insert h x k v) in
   (length h <= length h')%nat /\ x_own x' = x_own x ++ fresh h h' /\ x_id x' = x_id x /\
   forall a, (a < length h)%nat -> ~ In a (x_own x) -> nth_error h' a = nth_error h a) /\
  (let h' := fst (fst (htxn_delete h x k)) in let x' := snd (fst (htxn_delete h x k)) in
   (length h <= length h')%nat /\ x_own x' = x_own x ++ fresh h h' /\ x_id x' = x_id x /\
   forall a, (a < length h)%nat -> ~ In a (x_own x) -> nth_error h' a = nth_error h a).
Proof. exact inplace_writes_only_owned. Qed.
Print Assumptions C13_inplace_writes_only_owned.

(* the system invariant holds initially (empty heap, New(), two transactions) and is preserved by
   every step of either transaction *)
Theorem C13_heap_system_invariant :
  SInv sys0 /\ (forall s s', SInv s -> sstep s s' -> SInv s') /\ (forall s, ssteps sys0 s -> SInv s).
Proof. exact (conj SInv_sys0 (conj sstep_inv reachable_SInv)). Qed.
Print Assumptions C13_heap_system_invariant.

(* (c) PERSISTENCE: over any interleaving of operations of the two transactions, every root handed
   out before (committed trie or iterator) stays handed out and denotes the same trie, as does every
   node below it (Prefix / LowerBound iterator stacks); more generally every pointer r of the heap that
   reaches no owned cell — roots of other tries of ANY lineage, whatever their ids — denotes the same tree *)
Theorem C13_persistence_all_tries : forall s s', SInv s -> ssteps s s' ->
  SInv s' /\
  (forall t, In t (s_pubs s) -> In t (s_pubs s') /\ habs_trie (s_heap s') t = habs_trie (s_heap s) t /\
     forall r, reach (s_heap s) (hr_root t) r -> den (s_heap s') (Some r) = den (s_heap s) (Some r)) /\
  (forall r t, rep (s_heap s) r t -> safe s r -> den (s_heap s') r = den (s_heap s) r).
Proof. exact persistence_all_tries. Qed.
Print Assumptions C13_persistence_all_tries.

(* the other live transaction (begun from the same or from a different trie) is not disturbed either *)
Theorem C13_other_txn_isolated : forall h a b ps h' a' ps', SInv (mkSys h a b ps) -> tstep h a ps h' a' ps' ->
  habs h' b = habs h b.
Proof. exact other_txn_isolated. Qed.
Print Assumptions C13_other_txn_isolated.

(* (d) the id test of Txn.clone alone is not enough: without `txn.txnID++` in All/Prefix/LowerBound a
   later Insert of the same transaction changes what the iterator's root denotes (with the bump it does not) *)
Theorem C13_iterator_nobump_refuted :
  exists (h : heap) (x : htxn) (k : lkey) (v : N),
    hinv (fun _ => True) h x /\
    let it := x_root x in
    den (fst (htxn_insert h (htxn_freeze_nobump x) k v)) it <> den h it /\
    den (fst (htxn_insert h (htxn_freeze x) k v)) it = den h it.
Proof. exact iterator_nobump_refuted. Qed.
Print Assumptions C13_iterator_nobump_refuted.

(* Commit does not bump: using the Txn after Commit without Reuse changes the committed trie *)
Theorem C13_use_after_commit_refuted :
  exists (h : heap) (x : htxn) (k : lkey) (v : N),
    hinv (fun _ => True) h x /\
    let t := htxn_commit x in
    habs_trie (fst (htxn_insert h x k v)) t <> habs_trie h t /\
    habs_trie (fst (htxn_insert h (htxn_reuse x t) k v)) t = habs_trie h t.
Proof. exact use_after_commit_refuted. Qed.
Print Assumptions C13_use_after_commit_refuted.

(* non-vacuity: a reachable system (14 operations of two transactions, 18 cells, 5 handed-out roots) in
   which two handed-out tries share a cell and the two live transactions, of different lineages, carry
   the same id; an Insert through transaction b appends and writes in place, the denotation of the
   transaction changes, the denotations of all handed-out tries, computed before and after, are equal *)
Example C13_heap_nonvacuous :
  let s := HeapExample.s_end in
  let h := s_heap s in
  let h' := fst (htxn_insert h (s_b s) ([10; 64], 10) 9) in
  ssteps sys0 s /\ SInv s /\ hinv (fun a => ~ In a (x_own (s_a s))) h (s_b s) /\
  (exists t1 t2 a, In t1 (s_pubs s) /\ In t2 (s_pubs s) /\ hr_root t1 <> hr_root t2 /\
     reach h (hr_root t1) a /\ reach h (hr_root t2) a) /\
  x_id (s_a s) = x_id (s_b s) /\ x_root (s_a s) <> x_root (s_b s) /\ x_own (s_b s) = [16; 17]%nat /\
  length h = 18%nat /\ length h' = 21%nat /\ nth_error h' 17 <> nth_error h 17 /\
  den h' (x_root (snd (htxn_insert h (s_b s) ([10; 64], 10) 9))) <> den h (x_root (s_b s)) /\
  map (fun t => den h' (hr_root t)) (s_pubs s) = map (fun t => den h (hr_root t)) (s_pubs s) /\
  den h (hr_root (nth 0 (s_pubs s) htrie_new)) =
    Node ([10], 7) 0 true 2
      (Node ([10], 8) 3 false 2 Nil (Node ([10; 128], 9) 1 false 1 Nil Nil))
      (Node ([11; 0], 16) 5 false 2 Nil Nil).
Proof.
  destruct HeapExample.reachable_mid_end as (A & B & _ & I).
  split; [eapply ssteps_trans; eauto|]. split; [exact I|]. split; [exact (proj1 (proj2 I))|].
  split; [exact HeapExample.tries_share_cells|].
  vm_compute. repeat split; try reflexivity; discriminate.
Qed.
End C13_Heap.
