(* Properties/C19.v — Table initialization state (first layer: the query and the commit rule). *)
From SV Require Import Base.Bytes Base.OrdMap Table.Model Table.Proofs.
Open Scope N_scope.

(* Initialized is true exactly when no initializer is pending; PendingInitializers lists the others *)
Theorem C19_initialized_iff_no_pending : forall t,
  let '(ini, pending, w) := q_init t in
  (ini = true <-> pending = []) /\
  pending = match t_init t with Some (_, p) => p | None => [] end /\
  (ini = true -> w = None).
Proof.
  intros t. unfold q_init. destruct (t_init t) as [[w [|n p]]|]; simpl; repeat split; auto; discriminate.
Qed.
Print Assumptions C19_initialized_iff_no_pending.

(* registrations and marks made in an aborted transaction have no effect on the committed state *)
Theorem C19_aborted_marks_have_no_effect : forall d tabs ops,
  d_txn d = None -> forallb txn_local ops = true ->
  d_root (fst (run d (OBegin tabs :: ops ++ [OAbort]))) = d_root d.
Proof. intros. now apply abort_restores_root. Qed.
Print Assumptions C19_aborted_marks_have_no_effect.

Example C19_nonvacuous :
  let d := fst (run (init_db 1) [OBegin [0%nat]; ORegInit 0 1; OCommit 0]) in
  snd (step d (OQuery SFresh 0 QInit)) = OutInit false [1] false /\
  snd (step (fst (run d [OBegin [0%nat]; OInitDone 0 1; OCommit 1])) (OQuery SFresh 0 QInit)) = OutInit true [] true.
Proof. split; vm_compute; reflexivity. Qed.
