(* Properties/C19.v — Table initialization state (first layer: the query and the commit rule). *)
From SV Require Import Base.Bytes Base.OrdMap Table.Model Table.Proofs.
Open Scope N_scope.

(* Initialized is true exactly when no initializer is pending; PendingInitializers lists the others *)
Theorem C19_initialized_iff_no_pending : forall t,
  let '(ini, pending, w) := q_init t in
  (ini = true <-> pending = []) /\
  pending = match t_init t with Some (_, p) => p | None => [] end /\
  (ini = true -> w = None).
Proof.
  intros t. unfold q_init. destruct (t_init t) as [[w [|n p]]|]; simpl; repeat split; auto; discriminate.
Qed.
Print Assumptions C19_initialized_iff_no_pending.

(* registrations and marks made in an aborted transaction have no effect on the committed state *)
Theorem C19_aborted_marks_have_no_effect : forall d tabs ops,
  d_txn d = None -> forallb txn_local ops = true ->
  d_root (fst (run d (OBegin tabs :: ops ++ [OAbort]))) = d_root d.
Proof. intros. now apply abort_restores_root. Qed.
Print Assumptions C19_aborted_marks_have_no_effect.

(* ==== history level (Table/Inv5.v) ================================================================ *)
From SV Require Import KeyEnc.Model Table.InvDefs Table.Inv Table.Inv2 Table.Inv3 Table.Inv5.

(* the set of closed init-watch channels changes only in a Commit, and then only grows: by the
   watches of the locked tables whose initializers are all done (commit_closing: Table/Inv2.v) *)
Theorem C19_watch_closes_only_in_commit : forall d o,
  d_closedw (fst (step d o)) = d_closedw d \/
  exists sid es old, o = OCommit sid /\ d_txn d = Some (es, old) /\
                     d_closedw (fst (step d o)) = commit_closing es ++ d_closedw d.
Proof. exact closedw_step. Qed.
Print Assumptions C19_watch_closes_only_in_commit.

Theorem C19_closed_watch_stays_closed : forall ops d w,
  In w (d_closedw d) -> In w (d_closedw (fst (run d ops))).
Proof. exact closedw_grows_run. Qed.
Print Assumptions C19_closed_watch_stays_closed.

(* the watch-id invariant WInv (Table/Inv5.v: ids handed out are below the counter, owned by one
   table of the root / of the transaction, never an already closed one; closed ids are distinct)
   holds along every history from the initial state; TxnInv (Table/Inv3.v) likewise *)
Theorem C19_watch_invariant_reachable : forall n ops,
  WInv (fst (run (init_db n) ops)) /\ TxnInv (fst (run (init_db n) ops)) /\
  NoDup (d_closedw (fst (run (init_db n) ops))).
Proof. exact reachable_watch_facts. Qed.
Print Assumptions C19_watch_invariant_reachable.

(* signalled after visibility: a watch w closed by Commit was open before, belonged to a locked table
   of the transaction with no pending initializer, and the NEW root already has that table initialized:
   a fresh snapshot taken by whoever observes the close reports Initialized = true, no pending, closed watch *)
Theorem C19_closed_after_visible : forall d sid es old w, TxnInv d -> WInv d -> d_txn d = Some (es, old) ->
  let d' := fst (step d (OCommit sid)) in
  In w (d_closedw d') -> ~ In w (d_closedw d) ->
  exists i t t', nth_error es i = Some (t, true) /\ t_init t = Some (w, []) /\
                 nth_error (d_root d') i = Some t' /\ t_init t' = None /\
                 snd (step d' (OQuery SFresh i QInit)) = OutInit true [] true.
Proof. exact commit_closes_after_visible. Qed.
Print Assumptions C19_closed_after_visible.

(* each watch closes at most once: what a Commit closes was open, and the closed list stays duplicate-free *)
Theorem C19_closes_at_most_once : forall d sid es old, TxnInv d -> WInv d -> d_txn d = Some (es, old) ->
  NoDup (d_closedw (fst (step d (OCommit sid)))) /\
  forall w, In w (commit_closing es) -> ~ In w (d_closedw d).
Proof. exact commit_closes_once. Qed.
Print Assumptions C19_closes_at_most_once.

(* Initialized is monotone along committed states: an initialized committed table stays initialized
   in the next state unless a Commit publishes a locked entry that has pending initializers ... *)
Theorem C19_initialized_monotone : forall d o i t t', TxnInv d ->
  nth_error (d_root d) i = Some t -> initialized t = true ->
  nth_error (d_root (fst (step d o))) i = Some t' ->
  initialized t' = true \/
  exists sid es old te w p, o = OCommit sid /\ d_txn d = Some (es, old) /\ nth_error es i = Some (te, true) /\
                            t_init te = Some (w, p) /\ p <> [].
Proof. exact initialized_monotone_step. Qed.
Print Assumptions C19_initialized_monotone.

(* ... and inside a transaction only RegisterInitializer on that table makes an entry uninitialized *)
Theorem C19_uninitialized_only_by_register : forall d o es old i t b es' old' t' b',
  d_txn d = Some (es, old) -> nth_error es i = Some (t, b) -> initialized t = true ->
  d_txn (fst (step d o)) = Some (es', old') -> nth_error es' i = Some (t', b') ->
  initialized t' = true \/ exists name, o = ORegInit i name.
Proof. exact txn_uninit_only_by_reginit. Qed.
Print Assumptions C19_uninitialized_only_by_register.

Example C19_nonvacuous :
  let d := fst (run (init_db 1) [OBegin [0%nat]; ORegInit 0 1; OCommit 0]) in
  snd (step d (OQuery SFresh 0 QInit)) = OutInit false [1] false /\
  snd (step (fst (run d [OBegin [0%nat]; OInitDone 0 1; OCommit 1])) (OQuery SFresh 0 QInit)) = OutInit true [] true.
Proof. split; vm_compute; reflexivity. Qed.

(* ==== interleaved part: all schedules of the commit protocol (DB/Model.v; DB/Watch.v, DB/Reach.v) ==========
   `reach ntab actors sched = DB.Model.run (init_st ntab actors) sched` for ANY schedule of ANY well-formed
   system. tv_init = Some (w, pending) is the tableInitialization of a committed entry: w is the channel
   handed out by Initialized(); the commit that empties `pending` publishes tv_init = None and queues w in
   a_initclose, which is closed after the root store and the table unlock. (Module: DB/Model.v and
   Table/Model.v both define `run` and `step`.) *)
From SV Require DB.Model DB.Invariants DB.Visibility DB.Channels DB.Watch DB.Reach.
Module C19_DB.
Import SV.DB.Model SV.DB.Invariants SV.DB.Visibility SV.DB.Channels SV.DB.Watch SV.DB.Reach.
Local Open Scope nat_scope.

(* while the committed entry of a table has pending initializers its init channel is open *)
Theorem C19_init_watch_open_while_pending : forall ntab actors sched t v w, wf_system ntab actors ->
  let s := reach ntab actors sched in
  nth_error (s_root s) t = Some v -> In w (s_closed s) ->
  tv_watch v <> w /\ forall p, tv_init v <> Some (w, p).
Proof. exact published_open_reachable. Qed.
Print Assumptions C19_init_watch_open_while_pending.

(* SIGNALLED AFTER VISIBILITY: if the init channel w that the committed root handed out for table t after
   schedule s1 is closed after s1 ++ s2, then a root in which t is initialized (tv_init = None) was stored
   at some point sa of s2 - strictly before the close *)
Theorem C19_init_closed_after_visible : forall ntab actors s1 s2 t v w p, wf_system ntab actors ->
  nth_error (s_root (reach ntab actors s1)) t = Some v -> tv_init v = Some (w, p) ->
  In w (s_closed (reach ntab actors (s1 ++ s2))) ->
  exists sa sb v1, s2 = sa ++ sb /\ nth_error (s_root (reach ntab actors (s1 ++ sa))) t = Some v1 /\ tv_init v1 = None.
Proof. exact init_closed_after_visible_reachable. Qed.
Print Assumptions C19_init_closed_after_visible.

(* channels are closed only by the notify / init-close steps of a committing writer that has already stored
   its root; the init-close step closes exactly a_initclose, none of which the root still hands out *)
Theorem C19_init_close_step : forall ntab actors sched i, wf_system ntab actors ->
  let s := reach ntab actors sched in
  s_closed (step s i) = s_closed s \/
  exists a cl, nth_error (s_actors s) i = Some a /\ committed a = true /\
    s_closed (step s i) = cl ++ s_closed s /\ s_root (step s i) = s_root s /\
    ((a_pc a = PRootUnlocked /\ cl = a_notify a) \/ (a_pc a = PTabsUnlocked /\ cl = a_initclose a)) /\
    forall w, In w cl -> ~ rch (s_root s) w.
Proof. exact close_after_store_reachable. Qed.
Print Assumptions C19_init_close_step.

Example C19_nonvacuous_interleaved :
  let acts := [(1%N, KWriter [0] [] true [(0, 7%N)] []); (2%N, KWriter [0] [0] true [] [(0, 7%N)])] in
  wf_system 1 acts /\
  map tv_init (s_root (reach 1 acts (repeat 0 13))) = [Some (1%N, [7%N])] /\
  map tv_init (s_root (reach 1 acts (repeat 0 13 ++ repeat 1 9))) = [None] /\
  s_closed (reach 1 acts (repeat 0 13 ++ repeat 1 11)) = [0%N] /\
  s_closed (reach 1 acts (repeat 0 13 ++ repeat 1 13)) = [1%N; 0%N].
Proof.
  split; [split|].
  - intros ik [<-|[<-|[]]]; cbn; repeat split; try (intros x Hx; cbn in Hx; intuition (subst; cbn; auto)).
  - cbn. repeat constructor; cbn; intuition discriminate.
  - vm_compute. repeat split; reflexivity.
Qed.
End C19_DB.

(* ======================================================================================================
   Derive (derive.go), the in-tree client that starts work on the initialization signal. Table/Clients.v
   models Derive / derive.loop as a program over Table/Model.v's operations (engine `clients` runs the real
   loop leg by leg against it); Table/ClientsProofs.v proves:                                            *)
From SV Require Import Table.Clients Table.ClientsProofs.

(* every run of the system (harness transactions, legs of the Derive loop, observer callbacks) IS a run of
   Table/Model.v operations: all theorems about runs apply to it *)
Theorem C19_client_runs_are_model_runs : forall cs s s' outs ops,
  crun s cs = (s', outs, ops) -> cs_db s' = fst (run (cs_db s) ops).
Proof. exact crun_is_run. Qed.
Print Assumptions C19_client_runs_are_model_runs.

(* the loop marks the derived table's initializer done only in an iteration whose transaction saw the INPUT
   table initialized in the committed root it started from, for every transform function *)
Theorem C19_derive_marks_only_when_input_initialized : forall tr ds d d' ds' ops,
  derive_iter tr ds d = (d', ds', ops) ->
  dv_marked ds = false -> dv_marked ds' = true -> d_txn d = None -> dv_in ds <> dv_out ds ->
  exists t, nth_error (d_root d) (dv_in ds) = Some t /\ fst (fst (q_init t)) = true.
Proof. exact derive_marks_only_when_input_initialized. Qed.
Print Assumptions C19_derive_marks_only_when_input_initialized.

(* ... and it does so in the same transaction as, and after, the writes that transform everything that
   root held: the mark sits after all the writes of the iteration and immediately before its Commit *)
Theorem C19_derive_mark_follows_the_writes : forall tr ds d d' ds' ops,
  derive_iter tr ds d = (d', ds', ops) -> dv_marked ds = false -> dv_marked ds' = true ->
  exists o2, ops = [OBegin [dv_out ds]; ONext (dv_iid ds) STxn None] ++ o2 ++
                   [OInitDone (dv_out ds) (dv_name ds); OCommit (dv_sid ds)] /\
             forallb (dwrite (dv_out ds)) o2 = true.
Proof. exact derive_initdone_position. Qed.
Print Assumptions C19_derive_mark_follows_the_writes.

(* in every other iteration nothing is marked: the initializer is completed at most once *)
Theorem C19_derive_marks_at_most_once : forall tr ds d d' ds' ops,
  derive_iter tr ds d = (d', ds', ops) -> (dv_marked ds' = false \/ dv_marked ds = true) ->
  (dv_marked ds = true -> dv_marked ds' = true) /\ forall a b, ~ In (OInitDone a b) ops.
Proof. exact derive_no_initdone. Qed.
Print Assumptions C19_derive_marks_at_most_once.

Example C19_derive_nonvacuous :
  cs_d cx_s = Some cx_ds /\ d_txn (cs_db cx_s) = None /\ dv_in cx_ds <> dv_out cx_ds /\ dv_marked cx_ds = false /\
  (let s0 := fst (fst (crun (init_csys 2 0) (firstn 6 cx_pre))) in
   match cs_d s0 with
   | Some ds0 => dv_marked (snd (fst (derive_iter (tr_std 0) ds0 (cs_db s0)))) = false /\
                 snd (derive_iter (tr_std 0) ds0 (cs_db s0)) =
                   [OBegin [1%nat]; ONext derive_iid STxn None; OInsert 1 (cx_pa 1); OCommit derive_sid]
   | None => False end) /\
  dv_marked (snd (fst (derive_iter (tr_std 0) cx_ds (cs_db cx_s)))) = true /\
  snd (derive_iter (tr_std 0) cx_ds (cs_db cx_s)) =
    [OBegin [1%nat]; ONext derive_iid STxn None; OInsert 1 (cx_pb 2); ODelete 1 [97];
     OInitDone 1 derive_name; OCommit derive_sid] /\
  option_map (fun t => fst (fst (q_init t))) (nth_error (d_root (cs_db cx_s)) 0) = Some true.
Proof. exact derive_init_nonvacuous. Qed.
(* ---- run level (Table/ClientsRun7.v): the leg of the loop that completes the derived table's initializer, in any
   run from the initial database in which the harness does not write the derived table or use the loop's iterator id:
   (a) it ran against a root whose INPUT table is initialized, (b) it issued the mark in its own transaction,
   (c) if its Next refreshed, the derived table committed together with the mark has exactly the contents of the input
   table (revision room = no uint64 overflow is the only residual hypothesis) *)
From SV Require Import Table.ChangesProofs Table.ChangesHist Table.ChangesFromInit Table.ClientsRun Table.ClientsRun5 Table.ClientsRun7.

Theorem C19_derive_init_handover : forall n inn out cs s outs ops ds s' x ops1 ds',
  (out < n)%nat -> (inn < n)%nat -> inn <> out -> forallb (cop_okG inn out) cs = true ->
  crun (init_csys n 0) cs = (s, outs, ops) ->
  cstep s CDeriveGo = (s', x, ops1) ->
  cs_d s = Some ds -> dv_marked ds = false -> cs_d s' = Some ds' -> dv_marked ds' = true ->
  (exists tin, nth_error (d_root (cs_db s)) inn = Some tin /\ fst (fst (q_init tin)) = true) /\
  In (OInitDone out derive_name) ops1 /\
  d_txn (cs_db s) = None /\ dv_phase ds <> DReg /\ d_ready ds (cs_db s) = true /\
  (forall S, next_source (fst (step (cs_db s) (OBegin [out]))) derive_iid STxn = Some S ->
             room_run (init_db n) (ops ++ [OBegin [out]; ONext derive_iid STxn None]) ->
             exists tin' tout', nth_error (d_root (cs_db s')) inn = Some tin' /\
                                nth_error (d_root (cs_db s')) out = Some tout' /\
                                contents tout' = contents tin' /\ contents tin' = contents S).
Proof. exact derive_init_handover. Qed.
Print Assumptions C19_derive_init_handover.

(* ... and when its Next did not refresh (the loop was woken by the input's initialization channel alone) the derived
   table already equalled the input table and the leg changes neither *)
Theorem C19_derive_init_handover_idle : forall n inn out cs s outs ops ds s' x ops1 ds',
  (out < n)%nat -> (inn < n)%nat -> inn <> out -> forallb (cop_okG inn out) cs = true ->
  crun (init_csys n 0) cs = (s, outs, ops) ->
  cstep s CDeriveGo = (s', x, ops1) ->
  cs_d s = Some ds -> dv_marked ds = false -> cs_d s' = Some ds' -> dv_marked ds' = true ->
  next_source (fst (step (cs_db s) (OBegin [out]))) derive_iid STxn = None ->
  room_run (init_db n) ops ->
  exists tin tout tin' tout',
    nth_error (d_root (cs_db s)) inn = Some tin /\ nth_error (d_root (cs_db s)) out = Some tout /\
    nth_error (d_root (cs_db s')) inn = Some tin' /\ nth_error (d_root (cs_db s')) out = Some tout' /\
    contents tout = contents tin /\ contents tin' = contents tin /\ contents tout' = contents tout.
Proof. exact derive_init_handover_idle. Qed.
Print Assumptions C19_derive_init_handover_idle.

Example C19_derive_init_handover_idle_nonvacuous :
  let r := crun (init_csys 2 0) ix_run in
  let s := fst (fst r) in
  let r' := cstep s CDeriveGo in
  forallb (cop_okG 0 1) ix_run = true /\
  option_map dv_marked (cs_d s) = Some false /\ option_map dv_phase (cs_d s) = Some (DWait 1 (Some 0)) /\
  option_map dv_marked (cs_d (fst (fst r'))) = Some true /\
  snd r' = [OBegin [1%nat]; ONext derive_iid STxn None; OInitDone 1 derive_name; OCommit derive_sid] /\
  next_source (fst (step (cs_db s) (OBegin [1%nat]))) derive_iid STxn = None /\
  room_run (init_db 2) (snd r) /\
  map contents (d_root (cs_db s)) = [[([97], 1)]; [([97], 1)]] /\
  map contents (d_root (cs_db (fst (fst r')))) = [[([97], 1)]; [([97], 1)]] /\
  option_map (fun t => fst (fst (q_init t))) (nth_error (d_root (cs_db s)) 0) = Some true /\
  option_map (fun t => fst (fst (q_init t))) (nth_error (d_root (cs_db s)) 1) = Some false /\
  option_map (fun t => fst (fst (q_init t))) (nth_error (d_root (cs_db (fst (fst r')))) 1) = Some true.
Proof. exact derive_init_handover_idle_nonvacuous. Qed.

(* converse (Table/ClientsRun8.v): until the loop's marking leg the derived table keeps the loop's initializer pending, in
   the root and in every open transaction, so it reports itself initialized only AFTER that leg - provided the harness
   does not complete the loop's initializer itself *)
From SV Require Import Table.ClientsRun8.
Theorem C19_derived_table_not_initialized_before_the_mark : forall n out cs s outs ops ds,
  (out < n)%nat -> forallb (cop_okI0 out) cs = true ->
  crun (init_csys n 0) cs = (s, outs, ops) -> cs_d s = Some ds -> dv_marked ds = false ->
  (exists tout w p, nth_error (d_root (cs_db s)) out = Some tout /\ t_init tout = Some (w, p) /\ In derive_name p /\
                    fst (fst (q_init tout)) = false) /\
  (forall es old te b, d_txn (cs_db s) = Some (es, old) -> nth_error es out = Some (te, b) ->
                       exists w p, t_init te = Some (w, p) /\ In derive_name p).
Proof. exact derive_unmarked_not_initialized. Qed.
Print Assumptions C19_derived_table_not_initialized_before_the_mark.

Theorem C19_derived_table_initialized_only_after_the_mark : forall n out cs s outs ops ds tout,
  (out < n)%nat -> forallb (cop_okI0 out) cs = true ->
  crun (init_csys n 0) cs = (s, outs, ops) -> cs_d s = Some ds ->
  nth_error (d_root (cs_db s)) out = Some tout -> fst (fst (q_init tout)) = true -> dv_marked ds = true.
Proof. exact derive_initialized_only_after_mark. Qed.
Print Assumptions C19_derived_table_initialized_only_after_the_mark.

