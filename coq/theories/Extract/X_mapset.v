From SV Require Import Base.Bytes Base.OrdMap MapSet.Model.
Require Extraction.
Require Import ExtrOcamlBasic.
Extraction "mapset_model.ml" keep_types bytes_ltb bytes_eqb st0 step run getm gets rget maps sets txns
  mget mlen mall mprefix mlower take mequalKeys mslowEqual mencode
  tget tlen tall tprefix tlower tdelete
  shas sget slen sall sequal stbf sencode hm_of_list mset mdecode_json mdecode_yaml.
