From SV Require Import Base.Bytes KeyEnc.Model KeyEnc.NetIP.
Require Extraction.
Require Import ExtrOcamlBasic.
Extraction "keyenc_model.ml" keep_types bytes_ltb bytes_eqb nuk primaryLen secondaryLen encodedPrimary encodedSecondary
  enc dec uint16_key uint32_key uint64_key int16_key int32_key int64_key bool_key string_key lpmEncode lpmDecode netip_prefix_key netip_prefix_lpm_key.
