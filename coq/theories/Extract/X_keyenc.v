From SV Require Import Base.Bytes KeyEnc.Model KeyEnc.NetIP KeyEnc.Strings.
Require Extraction.
Require Import ExtrOcamlBasic.
Extraction "keyenc_model.ml" keep_types bytes_ltb bytes_eqb nuk primaryLen secondaryLen encodedPrimary encodedSecondary
  enc dec uint16_key uint32_key uint64_key int16_key int32_key int64_key bool_key string_key lpmEncode lpmDecode netip_prefix_key netip_prefix_lpm_key
  uint16_string_key uint32_string_key uint64_string_key int16_string_key int32_string_key int64_string_key netip_key netip_prefix4_lpm_key.
