From SV Require Import Base.Bytes Reconciler.Retries Reconciler.StatusSet.
Require Extraction.
Require Import ExtrOcamlBasic.
Extraction "sset_model.ml" keep_types sm_init sm_new sm_pending sm_set sm_val ss_get ss_all ss_id sm_vals.
