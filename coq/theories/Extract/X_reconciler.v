From SV Require Import Base.Bytes Reconciler.Retries Reconciler.Model.
Require Extraction.
Require Import ExtrOcamlBasic.
Extraction "reconciler_model.ml" keep_types env0 rstate0 settle advance do_write add_fault add_hook faults_off
  clear_calls ext_prune mark_init live_objs live_objs_aux live_contents r_low_watermark t_live kind_code wur.
