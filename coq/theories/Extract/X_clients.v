From SV Require Import Base.Bytes Table.Model Table.Clients.
Require Extraction.
Require Import ExtrOcamlBasic.
Extraction "clients_model.ml" keep_types init_csys cstep.
