From SV Require Import Base.Bytes Part.Layout.
Require Extraction.
Require Import ExtrOcamlBasic.
Extraction "layout_model.ml" keep_types l_abs l_find l_findIndex l_insert l_remove l_promote l_removeChild l_add l_del
  r_add r_addleaf r_del r_delleaf r_find r_findIndex.
