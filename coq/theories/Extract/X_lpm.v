From SV Require Import Base.Bytes Lpm.Model.
Require Extraction.
Require Import ExtrOcamlBasic.
Extraction "lpm_model.ml" keep_types trie_new trie_txn txn_reuse txn_clear txn_commit txn_len trie_len
  txn_insert txn_delete lookup lookupExact prefix prefix_unguarded lowerBound all
  txn_all txn_prefix txn_lowerBound it_entries it_next it_fuel.
