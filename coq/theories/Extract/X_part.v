From SV Require Import Base.Bytes Part.Model.
Require Extraction.
Require Import ExtrOcamlBasic.
Extraction "part_model.ml" keep_types bytes_ltb bytes_eqb tree_new tree_txn txn_modify txn_insert txn_delete txn_get tree_get
  tree_prefix tree_lowerbound tree_iterator txn_prefix txn_lowerbound txn_iterator txn_all txn_clone
  txn_commit txn_notify txn_commit_notify iter_all iter_next mod_fun.
