From SV Require Import Base.Bytes Table.Model.
Require Extraction.
Require Import ExtrOcamlBasic.
Extraction "table_model.ml" keep_types init_db step key_bits.
