From SV Require Import Base.Bytes DB.Model.
Require Extraction.
Require Import ExtrOcamlBasic.
Extraction "sched_model.ml" keep_types init_st step enabled lock_order.
