From SV Require Import Base.Bytes Reconciler.Retries Reconciler.Heap.
Require Extraction.
Require Import ExtrOcamlBasic.
Extraction "retryq_model.ml" keep_types hq_new hq_add hq_pop hq_top hq_clear hq_low_watermark hq_fired hi_pk st_getd.
