From SV Require Import Base.Bytes WatchSet.Model.
Require Extraction.
Require Import ExtrOcamlBasic.
Extraction "watchset_model.ml" keep_types ws_has ws_add ws_merge ws_clear ws_hasany wait_outcomes.
