(* Part/Stable.v — two-key stability of watch channels: an Insert/Modify/Delete of key k' on ANY
   transaction tree (published and private nodes mixed) leaves the channel that Get(k) returns for
   any other key k unchanged, or records it, or it is the inherited (root) channel, or it belongs to a
   node private to the transaction (fresh). *)
From SV Require Import Base.Bytes Base.OrdMap Part.Model Part.Sem Part.Insert Part.Delete Part.Query Part.Refine Part.Cow Part.Watch.
From Coq Require Import ZifyN ZifyNat ZifyBool.
Open Scope N_scope.

Definition getw (n : node) (k : bytes) (u : N) : N := snd (search_node n k u).
Definition getw_ch (ch : children) (b : N) (k : bytes) (u : N) : N := snd (search_ch ch b k u).

Lemma getw_leaf p l k u : getw (Leaf p l) k u = if bytes_eqb k p then pick (lf_w l) u else u.
Proof. unfold getw. cbn [search_node]. destruct (bytes_eqb k p); reflexivity. Qed.
Lemma getw_inner kd t p w lf ch k u :
  getw (Inner kd t p w lf ch) k u =
  match strip p k with
  | None => u
  | Some [] => match lf with Some l => pick (lf_w l) u | None => u end
  | Some ((b :: _) as rest) => getw_ch ch b rest (pick w u)
  end.
Proof.
  unfold getw, getw_ch. cbn [search_node]; fold search_ch.
  destruct (strip p k) as [[|b rest]|]; auto. destruct lf; reflexivity.
Qed.
Lemma getw_ch_find ch b k u :
  getw_ch ch b k u = match ch_find b ch with Some x => getw x k u | None => u end.
Proof. unfold getw_ch, getw. rewrite search_ch_find. destruct (ch_find b ch); reflexivity. Qed.

Lemma pick_idem w u u' : (pick w u = u /\ pick w u' = u') \/ (pick w u = pick w u' /\ pick w u = w /\ w <> 0).
Proof. unfold pick. destruct (N.eqb_spec w 0); auto. Qed.

(* the result of a search is either the inherited channel or does not depend on it *)
Lemma getw_cases :
  (forall n k u u', (getw n k u = u /\ getw n k u' = u') \/ getw n k u = getw n k u') /\
  (forall ch b k u u', (getw_ch ch b k u = u /\ getw_ch ch b k u' = u') \/ getw_ch ch b k u = getw_ch ch b k u').
Proof.
  apply node_children_ind.
  - intros p l k u u'. rewrite !getw_leaf. destruct (bytes_eqb k p); auto.
    destruct (pick_idem (lf_w l) u u') as [[-> ->]|[E _]]; auto.
  - intros kd t p w lf ch IH k u u'. rewrite !getw_inner.
    destruct (strip p k) as [[|b rest]|]; auto.
    + destruct lf as [l|]; auto. destruct (pick_idem (lf_w l) u u') as [[-> ->]|[E _]]; auto.
    + destruct (pick_idem w u u') as [[-> ->]|[E _]]; [apply IH|]. rewrite E. auto.
  - intros b k u u'. left. split; reflexivity.
  - intros b' x IHx r IHr b k u u'. unfold getw_ch in *. cbn [search_ch]; fold search_node; fold search_ch.
    destruct (b' =? b); [apply IHx|apply IHr].
Qed.

Lemma getw_set_prefix n cp q kk u : getw (set_prefix n (cp ++ q)) (cp ++ kk) u = getw (set_prefix n q) kk u.
Proof.
  destruct n as [p l|kd t p w lf ch]; cbn [set_prefix].
  - rewrite !getw_leaf. now rewrite bytes_eqb_app.
  - rewrite !getw_inner. replace (strip (cp ++ q) (cp ++ kk)) with (strip q kk); auto.
    induction cp as [|c0 cp IH]; simpl; auto. now rewrite N.eqb_refl.
Qed.

Lemma strip_app_none cp q k : strip cp k = None -> strip (cp ++ q) k = None.
Proof.
  revert k. induction cp as [|c0 cp IH]; intros k; simpl; [discriminate|].
  destruct k as [|y k]; auto. destruct (c0 =? y); auto.
Qed.
Lemma getw_strip_none n k u : strip (node_prefix n) k = None -> getw n k u = u.
Proof.
  destruct n as [p l|kd t p w lf ch]; cbn [node_prefix]; intros H.
  - rewrite getw_leaf. destruct (bytes_eqb k p) eqn:E; auto. apply bytes_eqb_spec in E. subst.
    rewrite <- (app_nil_r p) in H at 2. rewrite strip_app in H. discriminate.
  - rewrite getw_inner. now rewrite H.
Qed.

(* ---- monotonicity of the recorded set, without side conditions ---- *)
Section Mono.
Variable c : ctx.
Variable md : option (N -> N -> N).
Variable fullKey : bytes.
Variable v : N.

Theorem modify_mono :
  (forall n s key, ws_mono s (m_st (modify_node c md fullKey v s n key))) /\
  (forall ch s b key, match modify_ch c md fullKey v s ch b key with
                      | Some (_, r) => ws_mono s (m_st r) | None => True end).
Proof.
  apply node_children_ind.
  - intros p l s key. cbn [modify_node]. destruct (bytes_eqb key p).
    + pose proof (clone_leaf_mono c s l) as M. destruct (clone_leaf c s l). exact M.
    + apply split_mono.
  - intros kd t p w lf ch IH s key. cbn [modify_node]; fold (modify_ch c md fullKey v).
    pose proof (clone_hdr_mono c s t w) as M1.
    destruct (strip p key) as [[|b rest]|].
    + destruct (clone_hdr c s t w) as [[t' w'] s1]. simpl in M1. destruct lf as [l|].
      * pose proof (clone_leaf_mono c s1 l) as M. destruct (clone_leaf c s1 l). simpl in *. eapply ws_mono_trans; eauto.
      * pose proof (fresh_mono c s1) as M. destruct (fresh c s1). simpl in *. eapply ws_mono_trans; eauto.
    + destruct (clone_hdr c s t w) as [[t' w'] s1] eqn:Ec. simpl in M1.
      specialize (IH s1 b (b :: rest)).
      destruct (modify_ch c md fullKey v s1 ch b (b :: rest)) as [[ch' r]|].
      * cbn [m_st]. eapply ws_mono_trans; eauto.
      * destruct (kd <? ch_len ch + 1).
        -- pose proof (fresh_if_mono w (record w s)) as F. destruct (fresh_if w (record w s)) as [w2 s2].
           pose proof (fresh_mono c s2) as F2. destruct (fresh c s2) as [lw s3]. simpl in *.
           eapply ws_mono_trans; [apply record_mono|eapply ws_mono_trans; eauto].
        -- pose proof (fresh_mono c s1) as F2. destruct (fresh c s1) as [lw s3]. simpl in *. eapply ws_mono_trans; eauto.
    + destruct (clone_hdr c s t w) as [[t' w'] s']. simpl in *. eapply ws_mono_trans; [exact M1|apply split_mono].
  - intros; exact I.
  - intros b' x IHx r IHr s b key. cbn [modify_ch]; fold (modify_node c md fullKey v); fold (modify_ch c md fullKey v).
    destruct (b' =? b); [apply IHx|]. specialize (IHr s b key).
    destruct (modify_ch c md fullKey v s r b key) as [[r' res]|]; auto.
Qed.
End Mono.

Lemma strip_longer_none cp tb q : strip (cp ++ tb :: q) cp = None.
Proof. induction cp as [|c0 cp IH]; simpl; auto. now rewrite N.eqb_refl. Qed.
Lemma strip_hd_diff tb q c0 kk : c0 <> tb -> strip (tb :: q) (c0 :: kk) = None.
Proof. intros H. simpl. destruct (N.eqb_spec tb c0); congruence. Qed.

Section Stab.
Variable c : ctx.
Variable md : option (N -> N -> N).
Variable fullKey : bytes.
Variable v : N.
Hypothesis Hc0 : c_tid c <> 0.

Lemma split_getw s this key k u u' :
  (is_leaf this = true /\ key <> node_prefix this) \/ strip (node_prefix this) key = None ->
  getw this k u = u \/ getw (m_node (split_node c fullKey v s this key)) k u' = getw this k u.
Proof.
  intros Hc. unfold split_node. cbv zeta.
  destruct (common_split key (node_prefix this)) as (k' & p' & Ek & Ep & Hd).
  set (cp := common key (node_prefix this)) in *. clearbody cp.
  destruct (fresh c s) as [lw s1]. destruct (fresh c s1) as [nw s2].
  assert (Sk : skipn (length cp) key = k') by (rewrite Ek; apply skipn_app_len).
  assert (Sp : skipn (length cp) (node_prefix this) = p') by (rewrite Ep; apply skipn_app_len).
  rewrite Sp, Sk. clear Sp Sk.
  assert (Hpp : node_prefix (set_prefix this p') = p') by (destruct this; reflexivity).
  rewrite Hpp. cbn [m_node].
  assert (Ethis : set_prefix this (cp ++ p') = this) by (rewrite <- Ep; apply set_prefix_id).
  destruct p' as [|tb p'].
  - (* leaf whose prefix is a proper prefix of the key *)
    destruct Hc as [[Hl Hne]|Hs].
    2:{ rewrite Ep, Ek, app_nil_r, strip_app in Hs. discriminate. }
    destruct this as [p l|]; [|discriminate]. simpl in Ep. rewrite app_nil_r in Ep. subst p.
    rewrite getw_leaf. destruct (bytes_eqb k cp) eqn:E; auto.
    apply bytes_eqb_spec in E. subst k. cbn [set_prefix node_leaf]. rewrite getw_inner.
    rewrite <- (app_nil_r cp) at 2. rewrite strip_app.
    destruct (pick_idem (lf_w l) u u') as [[-> _]|[E _]]; auto.
  - (* the target keeps a non-empty prefix below the new node *)
    destruct (strip cp k) as [[|c0 kk]|] eqn:Es.
    + apply strip_nil_rest in Es. subst k. left. apply getw_strip_none. rewrite Ep. apply strip_longer_none.
    + apply strip_some in Es. subst k.
      assert (Ea : getw this (cp ++ c0 :: kk) u = getw (set_prefix this (tb :: p')) (c0 :: kk) u)
        by (rewrite <- Ethis at 1; apply getw_set_prefix).
      destruct (N.eq_dec c0 tb) as [->|Hne].
      * rewrite Ea.
        assert (Hf : forall lf ch, ch_find tb ch = Some (set_prefix this (tb :: p')) ->
                  getw (Inner 4 (c_tid c) cp nw lf ch) (cp ++ tb :: kk) u' =
                  getw (set_prefix this (tb :: p')) (tb :: kk) (pick nw u')).
        { intros lf ch Hf. rewrite getw_inner, strip_app, getw_ch_find, Hf. reflexivity. }
        assert (Fin : forall lf ch, ch_find tb ch = Some (set_prefix this (tb :: p')) ->
                  getw (set_prefix this (tb :: p')) (tb :: kk) u = u \/
                  getw (Inner 4 (c_tid c) cp nw lf ch) (cp ++ tb :: kk) u' = getw (set_prefix this (tb :: p')) (tb :: kk) u).
        { intros lf ch Hfd. rewrite (Hf lf ch Hfd).
          destruct (proj1 getw_cases (set_prefix this (tb :: p')) (tb :: kk) u (pick nw u')) as [[E1 _]|E]; auto. }
        destruct k' as [|kb k'].
        -- apply Fin. simpl. now rewrite N.eqb_refl.
        -- simpl in Hd. destruct (tb <? kb); apply Fin; simpl.
           ++ now rewrite N.eqb_refl.
           ++ destruct (N.eqb_spec kb tb); [congruence|]. now rewrite N.eqb_refl.
      * left. rewrite Ea. apply getw_strip_none. rewrite Hpp. now apply strip_hd_diff.
    + left. apply getw_strip_none. rewrite Ep. now apply strip_app_none.
Qed.
End Stab.

Lemma ch_find_insert_other b b' x : forall ch, b <> b' -> ch_find b (ch_insert b' x ch) = ch_find b ch.
Proof.
  intros ch Hne. induction ch as [|b0 y r IH]; cbn [ch_insert ch_find].
  - destruct (N.eqb_spec b' b); congruence.
  - destruct (b' <? b0); cbn [ch_find]; [destruct (N.eqb_spec b' b); congruence|]. now rewrite IH.
Qed.

Section Stab2.
Variable c : ctx.
Variable md : option (N -> N -> N).
Variable fullKey : bytes.
Variable v : N.
Hypothesis Hc0 : c_tid c <> 0.
Variable F : N -> Prop.   (* "fresh": channels of nodes private to the txn *)

Fixpoint privF (n : node) : Prop :=
  match n with
  | Leaf _ _ => True
  | Inner _ t _ w _ ch => (t = c_tid c -> w = 0 \/ F w) /\ privF_ch ch
  end
with privF_ch (ch : children) : Prop :=
  match ch with CNil => True | CCons _ x r => privF x /\ privF_ch r end.

Definition stab (a u a' : N) (s' : st) : Prop := a = u \/ a' = a \/ In a (s_ws s') \/ F a.

(* a child reporting the channel inherited from this node: either this node's inherited channel, or this
   node's own channel, which is recorded (cloned) or fresh (private) *)
Lemma own_inherited w u a s' : a = pick w u -> (w <> 0 -> In w (s_ws s') \/ F w) -> forall a', stab a u a' s'.
Proof.
  intros -> NR a'. unfold stab. destruct (pick_cases w u) as [E|[E Hn]]; rewrite E; [left; reflexivity|].
  destruct (NR Hn); auto.
Qed.

Lemma own_recorded s t w s1 : (t = c_tid c -> w = 0 \/ F w) -> ws_mono (snd (clone_hdr c s t w)) s1 ->
  w <> 0 -> In w (s_ws s1) \/ F w.
Proof.
  intros Hp M Hn. destruct (N.eq_dec t (c_tid c)) as [E|E].
  - destruct (Hp E); [congruence|auto].
  - left. apply M. now apply clone_hdr_records.
Qed.

Theorem modify_stable :
  (forall n s k' k u u', privF n ->
     stab (getw n k u) u (getw (m_node (modify_node c md fullKey v s n k')) k u') (m_st (modify_node c md fullKey v s n k'))) /\
  (forall ch s b' k' b k u u', privF_ch ch ->
     match modify_ch c md fullKey v s ch b' k' with
     | Some (ch', r) => stab (getw_ch ch b k u) u (getw_ch ch' b k u') (m_st r)
     | None => True
     end).
Proof.
  apply node_children_ind.
  - (* Leaf *)
    intros p l s k' k u u' _. cbn [modify_node]. destruct (bytes_eqb k' p) eqn:E.
    + pose proof (clone_leaf_records c s l Hc0) as R. destruct (clone_leaf c s l) as [l' s']. cbn [m_node m_st snd] in *.
      rewrite !getw_leaf. destruct (bytes_eqb k p); [|left; reflexivity].
      unfold stab. destruct (pick_cases (lf_w l) u) as [->|[-> Hn]]; auto.
    + destruct (split_getw c fullKey v s (Leaf p l) k' k u u') as [H|H].
      * left. split; auto. simpl. now apply bytes_eqb_false.
      * left. exact H.
      * right. left. exact H.
  - (* Inner *)
    intros kd t p w lf ch IH s k' k u u' [Hp Hc]. cbn [modify_node]; fold (modify_ch c md fullKey v).
    pose proof (own_recorded s t w) as OR.
    destruct (strip p k') as [[|b' rest']|] eqn:Es'.
    + (* exact match of k' *)
      destruct (clone_hdr c s t w) as [[t' w'] s1] eqn:Ec. cbn [snd] in OR.
      assert (Fin : forall lf' s2, ws_mono s1 s2 ->
                (forall l, lf = Some l -> lf_w l <> 0 -> strip p k = Some [] -> In (lf_w l) (s_ws s2) \/ lf' = lf) ->
                stab (getw (Inner kd t p w lf ch) k u) u (getw (Inner kd t' p w' lf' ch) k u') s2).
      { intros lf' s2 M Hl. rewrite !getw_inner. destruct (strip p k) as [[|b rest]|] eqn:Es; [| |left; reflexivity].
        - destruct lf as [l|]; [|left; reflexivity].
          unfold stab. destruct (pick_cases (lf_w l) u) as [->|[-> Hn]]; auto.
          destruct (Hl l eq_refl Hn eq_refl) as [H| ->]; auto.
          right. left. unfold pick. apply N.eqb_neq in Hn. now rewrite Hn.
        - destruct (proj2 getw_cases ch b (b :: rest) (pick w u) (pick w' u')) as [[E1 _]|E].
          + eapply own_inherited; eauto.
          + right. left. now rewrite E. }
      destruct lf as [l|].
      * pose proof (clone_leaf_mono c s1 l) as M. pose proof (clone_leaf_records c s1 l Hc0) as R.
        destruct (clone_leaf c s1 l) as [l' s2]. cbn [m_node m_st snd] in *. apply Fin; auto.
        intros l0 [= <-] Hn _. left. auto.
      * pose proof (fresh_mono c s1) as M. destruct (fresh c s1) as [lw s2]. cbn [m_node m_st snd] in *. apply Fin; auto.
        intros l0 [=].
    + (* descend *)
      destruct (clone_hdr c s t w) as [[t' w'] s1] eqn:Ec. cbn [snd] in OR.
      pose proof (proj2 (modify_mono c md fullKey v) ch s1 b' (b' :: rest')) as Mch.
      assert (Fin : forall kd2 t2 w2 ch2 s2, (w <> 0 -> In w (s_ws s2) \/ F w) ->
                (forall b rest, strip p k = Some (b :: rest) ->
                   stab (getw_ch ch b (b :: rest) (pick w u)) (pick w u) (getw_ch ch2 b (b :: rest) (pick w2 u')) s2) ->
                stab (getw (Inner kd t p w lf ch) k u) u (getw (Inner kd2 t2 p w2 lf ch2) k u') s2).
      { intros kd2 t2 w2 ch2 s2 NR Hch. rewrite !getw_inner. destruct (strip p k) as [[|b rest]|] eqn:Es; [| |left; reflexivity].
        - destruct lf as [l|]; [|left; reflexivity]. unfold stab.
          destruct (pick_idem (lf_w l) u u') as [[-> _]|[E _]]; auto.
        - destruct (Hch b rest eq_refl) as [E|[E|[E|E]]]; unfold stab; auto.
          eapply own_inherited; eauto. }
      specialize (IH s1 b' (b' :: rest')).
      destruct (modify_ch c md fullKey v s1 ch b' (b' :: rest')) as [[ch' r]|] eqn:Em.
      * cbn [m_node m_st]. apply Fin; [apply OR; auto|]. intros b rest _. apply IH. exact Hc.
      * apply modify_ch_none in Em.
        assert (Hins : forall x b rest w2 s2, (w <> 0 -> In w (s_ws s2) \/ F w) ->
                  stab (getw_ch ch b (b :: rest) (pick w u)) (pick w u)
                       (getw_ch (ch_insert b' x ch) b (b :: rest) (pick w2 u')) s2).
        { intros x b rest w2 s2 NR. rewrite !getw_ch_find. destruct (N.eq_dec b b') as [->|Hne].
          - rewrite Em. left. reflexivity.
          - rewrite ch_find_insert_other by auto. destruct (ch_find b ch) as [y|]; [|left; reflexivity].
            destruct (proj1 getw_cases y (b :: rest) (pick w u) (pick w2 u')) as [[E1 _]|E]; [left; auto|right; left; auto]. }
        destruct (kd <? ch_len ch + 1).
        -- pose proof (fresh_if_mono w (record w s)) as F1. destruct (fresh_if w (record w s)) as [w2 s2].
           pose proof (fresh_mono c s2) as F2. destruct (fresh c s2) as [lw s3]. cbn [m_node m_st snd] in *.
           assert (NR : w <> 0 -> In w (s_ws s3) \/ F w) by (intros Hn; left; apply F2, F1; now apply record_in).
           apply Fin; auto.
        -- pose proof (fresh_mono c s1) as F2. destruct (fresh c s1) as [lw s3]. cbn [m_node m_st snd] in *.
           assert (NR : w <> 0 -> In w (s_ws s3) \/ F w) by (apply OR; auto).
           apply Fin; auto.
    + (* prefix mismatch: split *)
      destruct (clone_hdr c s t w) as [[t' w'] s1] eqn:Ec. cbn [snd] in OR.
      pose proof (split_mono c fullKey v s1 (Inner kd t' p w' lf ch) k') as Ms.
      assert (NR : w <> 0 -> In w (s_ws (m_st (split_node c fullKey v s1 (Inner kd t' p w' lf ch) k'))) \/ F w)
        by (apply OR; auto).
      destruct (split_getw c fullKey v s1 (Inner kd t' p w' lf ch) k' k u u') as [H|H]; [right; exact Es'| |].
      * (* the cloned node reports the inherited channel *)
        rewrite getw_inner in *. destruct (strip p k) as [[|b rest]|]; [| |left; reflexivity].
        -- destruct lf as [l|]; [|left; reflexivity]. left. exact H.
        -- destruct (proj2 getw_cases ch b (b :: rest) (pick w u) (pick w' u)) as [[E1 _]|E].
           ++ eapply own_inherited; eauto.
           ++ rewrite E, H. left. reflexivity.
      * assert (Eq : getw (Inner kd t p w lf ch) k u = getw (Inner kd t' p w' lf ch) k u \/
                     (exists b rest, strip p k = Some (b :: rest) /\ getw (Inner kd t p w lf ch) k u = pick w u)).
        { rewrite !getw_inner. destruct (strip p k) as [[|b rest]|]; auto.
          destruct (proj2 getw_cases ch b (b :: rest) (pick w u) (pick w' u)) as [[E1 _]|E]; auto.
          right. exists b, rest. auto. }
        destruct Eq as [Eq|(b & rest & _ & Eq)].
        -- right. left. now rewrite H, Eq.
        -- eapply own_inherited; eauto.
  - intros; exact I.
  - intros b0 x IHx r IHr s b' k' b k u u' [Hx Hr]. cbn [modify_ch]; fold (modify_node c md fullKey v); fold (modify_ch c md fullKey v).
    unfold getw_ch. 
    destruct (b0 =? b') eqn:Eb'.
    + cbn [search_ch]; fold search_node; fold search_ch. destruct (b0 =? b).
      * apply IHx. exact Hx.
      * destruct (proj2 getw_cases r b k u u') as [[E1 _]|E]; [left; exact E1|right; left; symmetry; exact E].
    + specialize (IHr s b' k' b k u u' Hr).
      destruct (modify_ch c md fullKey v s r b' k') as [[r' res]|]; [|exact I].
      cbn [search_ch]; fold search_node; fold search_ch. destruct (b0 =? b).
      * destruct (proj1 getw_cases x k u u') as [[E1 _]|E]; [left; exact E1|right; left; symmetry; exact E].
      * exact IHr.
Qed.
End Stab2.

(* ---- Delete ---- *)
Fixpoint tmono (n : node) : Prop :=
  match n with
  | Leaf _ _ => True
  | Inner _ t _ _ _ ch => tmono_ch t ch
  end
with tmono_ch (t : N) (ch : children) : Prop :=
  match ch with CNil => True | CCons _ x r => node_tid x <= t /\ tmono x /\ tmono_ch t r end.

Lemma ch_find_remove_other b b' : forall ch, b <> b' -> ch_find b (ch_remove b' ch) = ch_find b ch.
Proof.
  intros ch Hne. induction ch as [|b0 y r IH]; cbn [ch_remove ch_find]; auto.
  destruct (N.eqb_spec b0 b') as [->|N0]; cbn [ch_find].
  - destruct (N.eqb_spec b' b); congruence.
  - now rewrite IH.
Qed.
Lemma ch_find_set b b' x' : forall ch x, ch_find b' ch = Some x ->
  ch_find b (ch_set b' x' ch) = if b =? b' then Some x' else ch_find b ch.
Proof.
  induction ch as [|b0 y r IH]; cbn [ch_set ch_find]; [discriminate|]. intros x Hf.
  destruct (N.eqb_spec b0 b') as [->|N0]; cbn [ch_find].
  - destruct (N.eqb_spec b' b) as [->|N1]; [now rewrite N.eqb_refl|].
    destruct (N.eqb_spec b b'); congruence.
  - destruct (N.eqb_spec b0 b) as [->|N1].
    + destruct (N.eqb_spec b b'); congruence.
    + eauto.
Qed.
Lemma tmono_ch_find t b : forall ch x, tmono_ch t ch -> ch_find b ch = Some x -> node_tid x <= t /\ tmono x.
Proof.
  induction ch as [|b0 y r IH]; simpl; [discriminate|]. intros x (H1 & H2 & H3).
  destruct (b0 =? b); eauto. intros [= <-]. auto.
Qed.
Lemma getw_merge p x rest u : getw (merge_child p x) (p ++ rest) u = getw x rest u.
Proof.
  unfold merge_child. rewrite getw_set_prefix. rewrite <- (app_nil_l (node_prefix x)), <- (app_nil_l rest) at 1.
  now rewrite set_prefix_id.
Qed.

Section StabDel.
Variable c : ctx.
Hypothesis Hc0 : c_tid c <> 0.
Variable F : N -> Prop.
Notation privF := (privF c F).
Notation privF_ch := (privF_ch c F).
Notation stab := (stab F).

(* in-place propagation only happens below nodes owned by the txn *)
Theorem del_inplace_owned :
  (forall n s key old repl s' , tids_le (c_tid c) n -> tmono n ->
     del_node c s n key = DSome old repl s' true -> node_tid n = c_tid c) /\
  (forall ch s b key old repl s' t, tids_le_ch (c_tid c) ch -> tmono_ch t ch -> t <= c_tid c ->
     del_ch c s ch b key = DSome old repl s' true -> t = c_tid c).
Proof.
  apply node_children_ind.
  - intros p l s key old repl s' _ _. cbn [del_node]. destruct (bytes_eqb key p); discriminate.
  - intros kd t p w lf ch IH s key old repl s' [Ht Hc] Hm. cbn [del_node node_tid]; fold (del_ch c).
    destruct (strip p key) as [[|b rest]|]; [| |discriminate].
    + destruct lf as [l|]; [|discriminate]. destruct ch as [|b1 x1 [|b2 x2 r]]; try discriminate.
      destruct (clone_hdr c (record (lf_w l) s) t w) as [[t' w'] s2]. discriminate.
    + specialize (IH s b (b :: rest)).
      destruct (del_ch c s ch b (b :: rest)) as [|o [x|] s1 ip] eqn:Ed; [discriminate| |].
      * destruct ip.
        -- intros _. eapply IH; eauto.
        -- destruct (clone_hdr c s1 t w) as [[t' w'] s2]. intros [= _ _ _ E]. now apply N.eqb_eq in E.
      * unfold remove_child. destruct (ch_len ch =? 2); [destruct lf; [|destruct (ch_other b ch)]|];
          try discriminate;
          (destruct (_ || _); [destruct (fresh_if w s1); discriminate|
           destruct (clone_hdr c s1 t w) as [[t' w'] s2]; intros [= _ _ _ E]; now apply N.eqb_eq in E]).
  - intros s b key old repl s' t _ _ _. discriminate.
  - intros b0 x IHx r IHr s b key old repl s' t [Hx Hr] (H1 & H2 & H3) Ht.
    cbn [del_ch]; fold (del_node c); fold (del_ch c). destruct (b0 =? b).
    + intros E. pose proof (IHx s key old repl s' Hx H2 E). lia.
    + intros E. eapply IHr; eauto.
Qed.

Lemma remove_child_mono s kd t p w lf ch b : ws_mono s (snd (fst (remove_child c s kd t p w lf ch b))).
Proof.
  unfold remove_child. pose proof (clone_hdr_mono c s t w) as M1.
  destruct (ch_len ch =? 2); [destruct lf; [|destruct (ch_other b ch)]|].
  2:{ cbn [fst snd]. apply record_mono. }
  all: destruct (_ || _);
    [pose proof (fresh_if_mono w s) as F1; destruct (fresh_if w s) as [w' s1]; cbn [fst snd] in *;
     eapply ws_mono_trans; [exact F1|apply record_mono]
    |destruct (clone_hdr c s t w) as [[t' w'] s1]; cbn [fst snd] in *; auto].
Qed.

Definition dmono (s : st) (r : dres) : Prop := match r with DNone => True | DSome _ _ s' _ => ws_mono s s' end.
Theorem delete_mono :
  (forall n s key, dmono s (del_node c s n key)) /\ (forall ch s b key, dmono s (del_ch c s ch b key)).
Proof.
  apply node_children_ind.
  - intros p l s key. cbn [del_node]. destruct (bytes_eqb key p); [|exact I]. cbn [dmono].
    eapply ws_mono_trans; apply record_mono.
  - intros kd t p w lf ch IH s key. cbn [del_node]; fold (del_ch c).
    destruct (strip p key) as [[|b rest]|]; [| |exact I].
    + destruct lf as [l|]; [|exact I]. destruct ch as [|b1 x1 [|b2 x2 r]].
      * cbn [dmono]. eapply ws_mono_trans; apply record_mono.
      * cbn [dmono]. eapply ws_mono_trans; apply record_mono.
      * pose proof (clone_hdr_mono c (record (lf_w l) s) t w) as M1.
        destruct (clone_hdr c (record (lf_w l) s) t w) as [[t' w'] s2]. cbn [dmono snd] in *.
        eapply ws_mono_trans; [apply record_mono|exact M1].
    + specialize (IH s b (b :: rest)).
      destruct (del_ch c s ch b (b :: rest)) as [|old [x|] s1 ip]; [exact I| |]; cbn [dmono] in IH.
      * destruct ip; [exact IH|]. pose proof (clone_hdr_mono c s1 t w) as M1.
        destruct (clone_hdr c s1 t w) as [[t' w'] s2]. cbn [dmono snd] in *. eapply ws_mono_trans; eauto.
      * pose proof (remove_child_mono s1 kd t p w lf ch b) as M1.
        destruct (remove_child c s1 kd t p w lf ch b) as [[n' s2] ip']. cbn [dmono fst snd] in *. eapply ws_mono_trans; eauto.
  - intros; exact I.
  - intros b0 x IHx r IHr s b key. cbn [del_ch]; fold (del_node c); fold (del_ch c). destruct (b0 =? b); auto.
Qed.

Definition dstab (n : node) (k : bytes) (u : N) (r : dres) : Prop :=
  match r with
  | DNone => True
  | DSome _ (Some n') s' _ => forall u', stab (getw n k u) u (getw n' k u') s'
  | DSome _ None s' _ => getw n k u = u \/ In (getw n k u) (s_ws s') \/ F (getw n k u)
  end.

(* the channel a child search inherits from this node *)
Lemma own3 w u a s' : a = pick w u -> (w <> 0 -> In w (s_ws s') \/ F w) -> a = u \/ In a (s_ws s') \/ F a.
Proof.
  intros -> NR. destruct (pick_cases w u) as [E|[E Hn]]; rewrite E; auto.
Qed.
Lemma stab_of3 a u a' s' : a = u \/ In a (s_ws s') \/ F a -> stab a u a' s'.
Proof. unfold stab. tauto. Qed.

Theorem delete_stable :
  (forall n s k' k u, privF n -> tids_le (c_tid c) n -> tmono n -> dstab n k u (del_node c s n k')) /\
  (forall ch x s k' k u t, (exists b, ch_find b ch = Some x) -> privF_ch ch -> tids_le_ch (c_tid c) ch ->
     tmono_ch t ch -> dstab x k u (del_node c s x k')).
Proof.
  apply node_children_ind.
  - (* Leaf *)
    intros p l s k' k u _ _ _. cbn [del_node]. destruct (bytes_eqb k' p); [|exact I]. cbn [dstab].
    rewrite getw_leaf. destruct (bytes_eqb k p); auto.
    destruct (pick_cases (lf_w l) u) as [E|[E Hn]]; rewrite E; auto.
    right. left. apply record_mono. now apply record_in.
  - (* Inner *)
    intros kd t p w lf ch IH s k' k u [Hp Hc] [Ht Hlc] Hm. cbn [del_node]; fold (del_ch c).
    pose proof (own_recorded c F) as OR.
    destruct (strip p k') as [[|b' rest']|] eqn:Es'; [| |exact I].
    + (* k' is the key of this node's leaf *)
      destruct lf as [l|]; [|exact I].
      assert (Lrec : forall s', ws_mono (record (lf_w l) s) s' -> lf_w l <> 0 -> In (lf_w l) (s_ws s'))
        by (intros s' M Hn; apply M; now apply record_in).
      (* what Get(k) sees at this node, given how the own channel w is accounted for *)
      assert (Tgt : forall s', ws_mono (record (lf_w l) s) s' -> (w <> 0 -> In w (s_ws s') \/ F w) ->
                (strip p k = None /\ getw (Inner kd t p w (Some l) ch) k u = u) \/
                (strip p k = Some [] /\ (getw (Inner kd t p w (Some l) ch) k u = u \/
                                         In (getw (Inner kd t p w (Some l) ch) k u) (s_ws s'))) \/
                (exists b rest, strip p k = Some (b :: rest) /\
                                getw (Inner kd t p w (Some l) ch) k u = getw_ch ch b (b :: rest) (pick w u))).
      { intros s' M NR. rewrite getw_inner. destruct (strip p k) as [[|b rest]|]; auto.
        - right. left. split; auto. destruct (pick_cases (lf_w l) u) as [E|[E Hn]]; rewrite E; auto.
        - right. right. exists b, rest. auto. }
      destruct ch as [|b1 x1 [|b2 x2 r]].
      * (* no children: the node disappears *)
        cbn [dstab]. set (s' := record w (record (lf_w l) s)).
        assert (M : ws_mono (record (lf_w l) s) s') by apply record_mono.
        assert (NR : w <> 0 -> In w (s_ws s') \/ F w) by (intros Hn; left; now apply record_in).
        destruct (Tgt s' M NR) as [[_ E]|[[_ [E|E]]|(b & rest & _ & E)]]; auto.
        rewrite E. unfold getw_ch. cbn [search_ch snd]. eapply own3; eauto.
      * (* single child: shift it up, its channel retained *)
        cbn [dstab]. intros u'. set (s' := record w (record (lf_w l) s)).
        assert (M : ws_mono (record (lf_w l) s) s') by apply record_mono.
        assert (NR : w <> 0 -> In w (s_ws s') \/ F w) by (intros Hn; left; now apply record_in).
        destruct (Tgt s' M NR) as [[_ E]|[[_ [E|E]]|(b & rest & Es & E)]]; try (apply stab_of3; auto; fail).
        rewrite E. apply strip_some in Es. subst k. rewrite getw_merge.
        unfold getw_ch. cbn [search_ch]; fold search_node. destruct (b1 =? b).
        -- fold (getw x1 (b :: rest) (pick w u)). fold (getw x1 (b :: rest) u').
           destruct (proj1 getw_cases x1 (b :: rest) (pick w u) u') as [[E1 _]|E1].
           ++ apply stab_of3. eapply own3; eauto.
           ++ right. left. auto.
        -- cbn [snd]. apply stab_of3. eapply own3; eauto.
      * (* several children: the leaf is dropped *)
        pose proof (clone_hdr_mono c (record (lf_w l) s) t w) as M1. specialize (OR (record (lf_w l) s) t w).
        destruct (clone_hdr c (record (lf_w l) s) t w) as [[t' w'] s2]. cbn [dstab snd] in *. intros u'.
        assert (NR : w <> 0 -> In w (s_ws s2) \/ F w) by (apply OR; auto; apply ws_mono_refl).
        destruct (Tgt s2 M1 NR) as [[_ E]|[[_ [E|E]]|(b & rest & Es & E)]]; try (apply stab_of3; auto; fail).
        rewrite E. rewrite getw_inner, Es.
        destruct (proj2 getw_cases (CCons b1 x1 (CCons b2 x2 r)) b (b :: rest) (pick w u) (pick w' u')) as [[E1 _]|E1].
        -- apply stab_of3. eapply own3; eauto.
        -- right. left. auto.
    + (* descend towards k' *)
      rewrite del_ch_find. destruct (ch_find b' ch) as [x|] eqn:Ef; [|exact I].
      destruct (tmono_ch_find t b' ch x Hm Ef) as [Hxt Hxm].
      pose proof (tids_ch_find (c_tid c) b' ch x Hlc Ef) as Hxl.
      pose proof (IH x s (b' :: rest') (b' :: rest') u t (ex_intro _ b' Ef) Hc Hlc Hm) as _.
      assert (IHx : forall k0 u0, dstab x k0 u0 (del_node c s x (b' :: rest')))
        by (intros k0 u0; eapply IH; eauto).
      pose proof (proj1 delete_mono x s (b' :: rest')) as Mx.
      pose proof (proj1 (del_inplace_owned) x s (b' :: rest')) as Ipx.
      destruct (del_node c s x (b' :: rest')) as [|old repl s1 ip] eqn:Ed; [exact I|]. cbn [dmono] in Mx.
      (* the view of k at this node *)
      assert (View : forall s', (w <> 0 -> In w (s_ws s') \/ F w) ->
                getw (Inner kd t p w lf ch) k u = u \/
                (strip p k = Some [] /\ exists l, lf = Some l /\ getw (Inner kd t p w lf ch) k u = lf_w l /\ lf_w l <> 0) \/
                (exists b rest, strip p k = Some (b :: rest) /\
                                getw (Inner kd t p w lf ch) k u = getw_ch ch b (b :: rest) (pick w u))).
      { intros s' NR. rewrite getw_inner. destruct (strip p k) as [[|b rest]|]; auto.
        - destruct lf as [l|]; auto. destruct (pick_cases (lf_w l) u) as [E|[E Hn]]; rewrite E; auto.
          right. left. split; auto. exists l. auto.
        - right. right. exists b, rest. auto. }
      (* generic rebuild: same leaf, children changed only under b' *)
      assert (Reb : forall kd2 t2 w2 ch2 s2 u', ws_mono s1 s2 -> (w <> 0 -> In w (s_ws s2) \/ F w) ->
                (forall b, b <> b' -> ch_find b ch2 = ch_find b ch) ->
                (forall rest, strip p k = Some (b' :: rest) ->
                   stab (getw x (b' :: rest) (pick w u)) (pick w u) (getw_ch ch2 b' (b' :: rest) (pick w2 u')) s2) ->
                stab (getw (Inner kd t p w lf ch) k u) u (getw (Inner kd2 t2 p w2 lf ch2) k u') s2).
      { intros kd2 t2 w2 ch2 s2 u' M NR Hoth Hsame.
        destruct (View s2 NR) as [E|[(Es & l & -> & E & Hn)|(b & rest & Es & E)]].
        - left. exact E.
        - right. left. rewrite E, getw_inner, Es. unfold pick. apply N.eqb_neq in Hn. now rewrite Hn.
        - rewrite E, getw_inner, Es. destruct (N.eq_dec b b') as [->|Hne].
          + rewrite (getw_ch_find ch), Ef. destruct (Hsame rest Es) as [E1|[E1|[E1|E1]]].
            * apply stab_of3. eapply own3; eauto.
            * right. left. auto.
            * right. right. left. auto.
            * right. right. right. auto.
          + rewrite !getw_ch_find, (Hoth b Hne). destruct (ch_find b ch) as [y|].
            * destruct (proj1 getw_cases y (b :: rest) (pick w u) (pick w2 u')) as [[E1 _]|E1].
              -- apply stab_of3. eapply own3; eauto.
              -- right. left. auto.
            * cbn. apply stab_of3. eapply own3; eauto. }
      destruct repl as [x'|].
      * (* the child is replaced *)
        assert (Hset : forall b, b <> b' -> ch_find b (ch_set b' x' ch) = ch_find b ch).
        { intros b Hne. rewrite (ch_find_set b b' x' ch x Ef). destruct (N.eqb_spec b b'); congruence. }
        assert (Hsm : forall w2 u' s2, ws_mono s1 s2 -> forall rest, strip p k = Some (b' :: rest) ->
                  stab (getw x (b' :: rest) (pick w u)) (pick w u) (getw_ch (ch_set b' x' ch) b' (b' :: rest) (pick w2 u')) s2).
        { intros w2 u' s2 M rest _. rewrite getw_ch_find, (ch_find_set b' b' x' ch x Ef), N.eqb_refl.
          pose proof (IHx (b' :: rest) (pick w u)) as D. cbn [dstab] in D.
          destruct (D (pick w2 u')) as [E1|[E1|[E1|E1]]]; unfold stab; auto. }
        destruct ip.
        -- (* ancestors untouched: this node is owned by the txn *)
           cbn [dstab]. intros u'.
           assert (Et : t = c_tid c).
           { pose proof (Ipx old (Some x') s1 Hxl Hxm eq_refl) as E. lia. }
           assert (NR : w <> 0 -> In w (s_ws s1) \/ F w) by (intros Hn; destruct (Hp Et); [congruence|auto]).
           apply Reb; auto; try apply ws_mono_refl; try (apply Hsm; apply ws_mono_refl).
        -- pose proof (clone_hdr_mono c s1 t w) as M1. specialize (OR s1 t w).
           destruct (clone_hdr c s1 t w) as [[t' w'] s2]. cbn [dstab snd] in *. intros u'.
           apply Reb; auto; try (apply Hsm; exact M1). apply OR; auto; apply ws_mono_refl.
      * (* the child disappears: removeChild *)
        pose proof (IHx) as IHn. 
        assert (Gone : forall rest s2, ws_mono s1 s2 ->
                  getw x (b' :: rest) (pick w u) = pick w u \/ In (getw x (b' :: rest) (pick w u)) (s_ws s2) \/ F (getw x (b' :: rest) (pick w u))).
        { intros rest s2 M. pose proof (IHx (b' :: rest) (pick w u)) as D. cbn [dstab] in D.
          destruct D as [E|[E|E]]; auto. }
        unfold remove_child.
        assert (Generic : forall kd2 t2 w2 s2 ip2, ws_mono s1 s2 -> (w <> 0 -> In w (s_ws s2) \/ F w) ->
                  dstab (Inner kd t p w lf ch) k u (DSome old (Some (Inner kd2 t2 p w2 lf (ch_remove b' ch))) s2 ip2)).
        { intros kd2 t2 w2 s2 ip2 M NR. cbn [dstab]. intros u'. apply Reb; auto.
          - intros b Hne. now apply ch_find_remove_other.
          - intros rest _. apply stab_of3. destruct (Gone rest s2 M) as [E|[E|E]]; auto. }
        destruct (ch_len ch =? 2) eqn:E2; [destruct lf as [l|]; [|destruct (ch_other b' ch) as [y|] eqn:Eo]|].
        2:{ (* merge with the remaining child *)
          cbn [dstab fst snd]. intros u'. set (s2 := record w s1).
          assert (M : ws_mono s1 s2) by apply record_mono.
          assert (NR : w <> 0 -> In w (s_ws s2) \/ F w) by (intros Hn; left; now apply record_in).
          destruct (View s2 NR) as [E|[(Es & l & Hl & _)|(b & rest & Es & E)]]; [left; exact E|discriminate|].
          rewrite E. apply strip_some in Es. subst k. rewrite getw_merge.
          apply N.eqb_eq in E2.
          destruct ch as [|c1 y1 [|c2 y2 [|c3 y3 r]]]; cbn [ch_len] in E2; try lia.
          unfold getw_ch. cbn [search_ch]; fold search_node. cbn [ch_other ch_find] in Eo, Ef.
          destruct (N.eqb_spec c1 b') as [->|N1].
          - injection Ef as <-. destruct (N.eqb_spec c2 b') as [->|N2]; [discriminate|]. injection Eo as <-.
            destruct (N.eqb_spec b' b) as [<-|N3].
            + apply stab_of3. fold (getw y1 (b' :: rest) (pick w u)). destruct (Gone rest s2 M) as [E1|[E1|E1]]; auto. eapply own3; eauto.
            + destruct (c2 =? b).
              * fold (getw y2 (b :: rest) (pick w u)). fold (getw y2 (b :: rest) u').
                destruct (proj1 getw_cases y2 (b :: rest) (pick w u) u') as [[E1 _]|E1].
                -- apply stab_of3. eapply own3; eauto.
                -- right. left. auto.
              * cbn [snd]. apply stab_of3. eapply own3; eauto.
          - injection Eo as <-. destruct (N.eqb_spec c2 b') as [->|N2]; [|discriminate]. injection Ef as <-.
            destruct (N.eqb_spec c1 b) as [<-|N3].
            + fold (getw y1 (c1 :: rest) (pick w u)). fold (getw y1 (c1 :: rest) u').
              destruct (proj1 getw_cases y1 (c1 :: rest) (pick w u) u') as [[E1 _]|E1].
              * apply stab_of3. eapply own3; eauto.
              * right. left. auto.
            + destruct (N.eqb_spec b' b) as [<-|N4].
              * apply stab_of3. fold (getw y2 (b' :: rest) (pick w u)). destruct (Gone rest s2 M) as [E1|[E1|E1]]; auto. eapply own3; eauto.
              * cbn [snd]. apply stab_of3. eapply own3; eauto. }
        all: destruct (_ || _);
          [pose proof (fresh_if_mono w s1) as F1; destruct (fresh_if w s1) as [w2 s2]; cbn [fst snd];
           apply Generic; [eapply ws_mono_trans; [exact F1|apply record_mono]|intros Hn; left; now apply record_in]
          |pose proof (clone_hdr_mono c s1 t w) as M1; specialize (OR s1 t w);
           destruct (clone_hdr c s1 t w) as [[t' w'] s2]; cbn [fst snd] in *;
           apply Generic; [exact M1|apply OR; auto; apply ws_mono_refl]].
  - intros x s k' k u t [b H]. simpl in H. discriminate.
  - intros b0 y IHy r IHr x s k' k u t [b Hf] [Py Pr] [Ly Lr] (M1 & M2 & M3). simpl in Hf.
    destruct (b0 =? b).
    + injection Hf as <-. apply IHy; auto.
    + eapply IHr; eauto.
Qed.
End StabDel.

(* ---- the changed key itself: its Get channel is recorded, inherited, or private (any txn tree) ---- *)
Section RecGen.
Variable c : ctx.
Variable md : option (N -> N -> N).
Variable fullKey : bytes.
Variable v : N.
Hypothesis Hc0 : c_tid c <> 0.
Variable F : N -> Prop.
Notation privF := (privF c F).
Notation privF_ch := (privF_ch c F).

Definition rec3 (a u : N) (s' : st) : Prop := a = u \/ In a (s_ws s') \/ F a.

Lemma rec3_mono a u s1 s2 : ws_mono s1 s2 -> rec3 a u s1 -> rec3 a u s2.
Proof. unfold rec3. intros M [H|[H|H]]; auto. Qed.
Lemma rec3_own w u a s' : rec3 a (pick w u) s' -> (w <> 0 -> In w (s_ws s') \/ F w) -> rec3 a u s'.
Proof.
  unfold rec3. intros [H|[H|H]] NR; auto. subst a. destruct (pick_cases w u) as [E|[E Hn]]; rewrite E; auto.
Qed.

Theorem modify_records_gen :
  (forall n s key u, privF n -> rec3 (getw n key u) u (m_st (modify_node c md fullKey v s n key))) /\
  (forall ch s b key u, privF_ch ch ->
     match modify_ch c md fullKey v s ch b key with
     | Some (_, r) => rec3 (getw_ch ch b key u) u (m_st r)
     | None => True
     end).
Proof.
  apply node_children_ind.
  - intros p l s key u _. cbn [modify_node]. rewrite getw_leaf. destruct (bytes_eqb key p); [|left; reflexivity].
    pose proof (clone_leaf_records c s l Hc0) as R. destruct (clone_leaf c s l) as [l' s']. cbn [m_st snd] in *.
    unfold rec3. destruct (pick_cases (lf_w l) u) as [E|[E Hn]]; rewrite E; auto.
  - intros kd t p w lf ch IH s key u [Hp Hc]. cbn [modify_node]; fold (modify_ch c md fullKey v).
    rewrite getw_inner. pose proof (fun s9 => own_recorded c F s t w s9 Hp) as OR.
    destruct (strip p key) as [[|b rest]|]; [| |left; reflexivity].
    + destruct (clone_hdr c s t w) as [[t' w'] s1]. destruct lf as [l|]; [|left; reflexivity].
      pose proof (clone_leaf_records c s1 l Hc0) as R. destruct (clone_leaf c s1 l) as [l' s2]. cbn [m_st snd] in *.
      unfold rec3. destruct (pick_cases (lf_w l) u) as [E|[E Hn]]; rewrite E; auto.
    + destruct (clone_hdr c s t w) as [[t' w'] s1] eqn:Ec. cbn [snd] in OR.
      specialize (IH s1 b (b :: rest) (pick w u) Hc).
      pose proof (proj2 (modify_mono c md fullKey v) ch s1 b (b :: rest)) as Mch.
      destruct (modify_ch c md fullKey v s1 ch b (b :: rest)) as [[ch' r]|] eqn:Em.
      * cbn [m_st]. eapply rec3_own; eauto.
      * apply modify_ch_none in Em. rewrite getw_ch_find, Em.
        destruct (kd <? ch_len ch + 1).
        -- pose proof (fresh_if_mono w (record w s)) as F1. destruct (fresh_if w (record w s)) as [w2 s2].
           pose proof (fresh_mono c s2) as F2. destruct (fresh c s2) as [lw s3]. cbn [m_st snd] in *.
           eapply rec3_own; [left; reflexivity|]. intros Hn. left. apply F2, F1. now apply record_in.
        -- pose proof (fresh_mono c s1) as F2. destruct (fresh c s1) as [lw s3]. cbn [m_st snd] in *.
           eapply rec3_own; [left; reflexivity|]. apply OR. exact F2.
  - intros; exact I.
  - intros b0 x IHx r IHr s b key u [Hx Hr]. cbn [modify_ch]; fold (modify_node c md fullKey v); fold (modify_ch c md fullKey v).
    unfold getw_ch. cbn [search_ch]; fold search_node; fold search_ch.
    destruct (b0 =? b).
    + apply IHx. exact Hx.
    + specialize (IHr s b key u Hr). destruct (modify_ch c md fullKey v s r b key) as [[r' res]|]; auto.
Qed.

Theorem delete_records_gen :
  (forall n s key u, privF n -> tids_le (c_tid c) n -> tmono n ->
     match del_node c s n key with DSome _ _ s' _ => rec3 (getw n key u) u s' | DNone => True end) /\
  (forall ch s b key u t, privF_ch ch -> tids_le_ch (c_tid c) ch -> tmono_ch t ch ->
     match del_ch c s ch b key with DSome _ _ s' _ => rec3 (getw_ch ch b key u) u s' | DNone => True end).
Proof.
  apply node_children_ind.
  - intros p l s key u _ _ _. cbn [del_node]. rewrite getw_leaf. destruct (bytes_eqb key p); [|exact I].
    unfold rec3. destruct (pick_cases (lf_w l) u) as [E|[E Hn]]; rewrite E; auto.
    right. left. apply record_mono. now apply record_in.
  - intros kd t p w lf ch IH s key u [Hp Hc] [Ht Hlc] Hm. cbn [del_node]; fold (del_ch c). rewrite getw_inner.
    destruct (strip p key) as [[|b rest]|]; [| |exact I].
    + destruct lf as [l|]; [|exact I].
      assert (G : forall s', ws_mono (record (lf_w l) s) s' -> rec3 (pick (lf_w l) u) u s').
      { intros s' M. unfold rec3. destruct (pick_cases (lf_w l) u) as [E|[E Hn]]; rewrite E; auto.
        right. left. apply M. now apply record_in. }
      destruct ch as [|b1 x1 [|b2 x2 r]]; try (apply G; apply record_mono).
      pose proof (clone_hdr_mono c (record (lf_w l) s) t w) as M1.
      destruct (clone_hdr c (record (lf_w l) s) t w) as [[t' w'] s2]. apply G. exact M1.
    + specialize (IH s b (b :: rest) (pick w u) t Hc Hlc Hm).
      pose proof (proj2 (del_inplace_owned c Hc0 F) ch s b (b :: rest)) as Ipx.
      destruct (del_ch c s ch b (b :: rest)) as [|old repl s1 ip] eqn:Ed; [exact I|].
      destruct repl as [x'|].
      * destruct ip.
        -- assert (Et : t = c_tid c) by (eapply Ipx; eauto).
           eapply rec3_own; eauto. intros Hn. destruct (Hp Et); [congruence|auto].
        -- pose proof (clone_hdr_mono c s1 t w) as M1. pose proof (fun s9 => own_recorded c F s1 t w s9 Hp) as OR.
           destruct (clone_hdr c s1 t w) as [[t' w'] s2]. cbn [snd] in *.
           eapply rec3_own; [eapply rec3_mono; eauto|]. apply OR. apply ws_mono_refl.
      * pose proof (remove_child_mono c s1 kd t p w lf ch b) as M1.
        assert (NR : w <> 0 -> In w (s_ws (snd (fst (remove_child c s1 kd t p w lf ch b)))) \/ F w).
        { unfold remove_child. pose proof (fun s9 => own_recorded c F s1 t w s9 Hp) as OR.
          destruct (ch_len ch =? 2); [destruct lf; [|destruct (ch_other b ch)]|].
          2:{ cbn [fst snd]. intros Hn. left. now apply record_in. }
          all: destruct (_ || _);
            [destruct (fresh_if w s1) as [w2 s2]; cbn [fst snd]; intros Hn; left; now apply record_in
            |destruct (clone_hdr c s1 t w) as [[t' w'] s2]; cbn [fst snd] in *; apply OR; apply ws_mono_refl]. }
        destruct (remove_child c s1 kd t p w lf ch b) as [[n' s2] ip']. cbn [fst snd] in *.
        eapply rec3_own; [eapply rec3_mono; eauto|auto].
  - intros; exact I.
  - intros b0 x IHx r IHr s b key u t [Px Pr] [Lx Lr] (M1 & M2 & M3).
    cbn [del_ch]; fold (del_node c); fold (del_ch c). unfold getw_ch. cbn [search_ch]; fold search_node; fold search_ch.
    destruct (b0 =? b).
    + apply IHx; auto.
    + eapply IHr; eauto.
Qed.
End RecGen.

(* ---- the invariant that makes the stability lemmas applicable along a history:
   nodes owned by the txn carry channels allocated by the txn (>= next0), ids bounded and monotone ---- *)

Definition Fr (next0 a : N) : Prop := next0 <= a.

Section Inv.
Variable c : ctx.
Hypothesis Hc0 : c_tid c <> 0.
Variable next0 : N.
(* F: "allocated by the txn"; every channel handed out by the allocator from next0 on satisfies it *)
Variable F : N -> Prop.
Hypothesis HF : forall a, next0 <= a -> F a.
Notation privF := (privF c F).
Notation privF_ch := (privF_ch c F).

Lemma node_tid_le T n : tids_le T n -> node_tid n <= T.
Proof. destruct n; simpl; [lia|tauto]. Qed.
Lemma tmono_ch_raise t T : forall ch, tmono_ch t ch -> tids_le_ch T ch -> tmono_ch T ch.
Proof.
  induction ch as [|b x r IH]; simpl; auto. intros (H1 & H2 & H3) [L1 L2]. repeat split; auto.
  now apply node_tid_le.
Qed.
Lemma privF_set_prefix n q : privF (set_prefix n q) <-> privF n.
Proof. destruct n; simpl; tauto. Qed.
Lemma tmono_set_prefix n q : tmono (set_prefix n q) <-> tmono n.
Proof. destruct n; simpl; tauto. Qed.
Lemma node_tid_set_prefix n q : node_tid (set_prefix n q) = node_tid n.
Proof. destruct n; reflexivity. Qed.

Lemma fresh_inv s : next0 <= s_next s ->
  (fst (fresh c s) = 0 \/ F (fst (fresh c s))) /\ next0 <= s_next (snd (fresh c s)).
Proof. unfold fresh. destruct (c_ro c); simpl; intros; split; auto; try lia; right; apply HF; lia. Qed.
Lemma fresh_if_inv w s : next0 <= s_next s ->
  (fst (fresh_if w s) = 0 \/ F (fst (fresh_if w s))) /\ next0 <= s_next (snd (fresh_if w s)).
Proof. unfold fresh_if. destruct (w =? 0); simpl; intros; split; auto; try lia; right; apply HF; lia. Qed.
Lemma record_next w s : s_next (record w s) = s_next s.
Proof. unfold record. destruct (w =? 0); reflexivity. Qed.
Lemma clone_hdr_inv s t w : (t = c_tid c -> w = 0 \/ F w) -> next0 <= s_next s ->
  let r := clone_hdr c s t w in
  fst (fst r) = c_tid c /\ (snd (fst r) = 0 \/ F (snd (fst r))) /\ next0 <= s_next (snd r).
Proof.
  intros Hp Hs. unfold clone_hdr. destruct (N.eqb_spec t (c_tid c)) as [E|E]; cbn [fst snd]; [auto|].
  pose proof (fresh_inv (record w s)) as Fi. rewrite record_next in Fi. specialize (Fi Hs).
  destruct (fresh c (record w s)) as [w' s2]. cbn [fst snd] in *. tauto.
Qed.
Lemma clone_leaf_next s l : next0 <= s_next s -> next0 <= s_next (snd (clone_leaf c s l)).
Proof.
  intros Hs. unfold clone_leaf. destruct (0 =? c_tid c); cbn [snd]; auto.
  pose proof (fresh_inv (record (lf_w l) s)) as Fi. rewrite record_next in Fi. specialize (Fi Hs).
  destruct (fresh c (record (lf_w l) s)). cbn [fst snd] in *. tauto.
Qed.

Section ModInv.
Variable md : option (N -> N -> N).
Variable fullKey : bytes.
Variable v : N.

Lemma split_inv s this key : privF this -> tids_le (c_tid c) this -> tmono this -> next0 <= s_next s ->
  let r := split_node c fullKey v s this key in
  privF (m_node r) /\ tmono (m_node r) /\ next0 <= s_next (m_st r).
Proof.
  intros Hp Hl Hm Hs. unfold split_node. cbv zeta.
  pose proof (fresh_inv s Hs) as [_ N1]. destruct (fresh c s) as [lw s1]. cbn [snd] in N1.
  pose proof (fresh_inv s1 N1) as [W2 N2]. destruct (fresh c s1) as [nw s2]. cbn [fst snd] in *.
  cbn [m_node m_st].
  set (this' := set_prefix this _).
  assert (P' : privF this') by now apply privF_set_prefix.
  assert (M' : tmono this') by now apply tmono_set_prefix.
  assert (T' : node_tid this' <= c_tid c) by (unfold this'; rewrite node_tid_set_prefix; now apply node_tid_le).
  destruct (node_prefix this') as [|tb tl]; [|destruct (skipn _ key) as [|kb kl]; [|destruct (tb <? kb)]];
    simpl; repeat split; auto; lia.
Qed.

Theorem modify_inv :
  (forall n s key, privF n -> tids_le (c_tid c) n -> tmono n -> next0 <= s_next s ->
     let r := modify_node c md fullKey v s n key in
     privF (m_node r) /\ tmono (m_node r) /\ next0 <= s_next (m_st r)) /\
  (forall ch s b key t, privF_ch ch -> tids_le_ch (c_tid c) ch -> tmono_ch t ch -> next0 <= s_next s ->
     match modify_ch c md fullKey v s ch b key with
     | Some (ch', r) => privF_ch ch' /\ tmono_ch (c_tid c) ch' /\ next0 <= s_next (m_st r)
     | None => True
     end).
Proof.
  apply node_children_ind.
  - intros p l s key _ _ _ Hs. cbn [modify_node]. destruct (bytes_eqb key p).
    + pose proof (clone_leaf_next s l Hs) as N1. destruct (clone_leaf c s l) as [l' s']. simpl in *; repeat split; simpl; auto.
    + apply split_inv; [exact I|exact I|exact I|exact Hs].
  - intros kd t p w lf ch IH s key [Hp Hc] [Ht Hlc] Hm Hs. cbn [modify_node]; fold (modify_ch c md fullKey v).
    pose proof (clone_hdr_inv s t w Hp Hs) as CI.
    assert (Mr : tmono_ch (c_tid c) ch) by (eapply tmono_ch_raise; eauto).
    destruct (strip p key) as [[|b rest]|].
    + destruct (clone_hdr c s t w) as [[t' w'] s1]. cbn [fst snd] in CI. destruct CI as (-> & W1 & N1).
      destruct lf as [l|].
      * pose proof (clone_leaf_next s1 l N1) as N2. destruct (clone_leaf c s1 l) as [l' s2]. simpl in *; repeat split; simpl; auto.
      * pose proof (fresh_inv s1 N1) as [_ N2]. destruct (fresh c s1) as [lw s2]. simpl in *; repeat split; simpl; auto.
    + destruct (clone_hdr c s t w) as [[t' w'] s1] eqn:Ec. cbn [fst snd] in CI. destruct CI as (-> & W1 & N1).
      specialize (IH s1 b (b :: rest) t Hc Hlc Hm N1).
      destruct (modify_ch c md fullKey v s1 ch b (b :: rest)) as [[ch' r]|].
      * destruct IH as (P1 & M1 & N2). repeat split; simpl; auto.
      * assert (Ins : forall lw, privF_ch (ch_insert b (Leaf (b :: rest) (mkLeaf fullKey v lw)) ch) /\
                                 tmono_ch (c_tid c) (ch_insert b (Leaf (b :: rest) (mkLeaf fullKey v lw)) ch)).
        { intros lw. clear - Hc Mr. induction ch as [|b0 y r IH]; simpl in *.
          - repeat split; auto. lia.
          - destruct Hc as [H1 H2]. destruct Mr as (M1 & M2 & M3). destruct (b <? b0); simpl; repeat split; auto; try lia;
              apply IH; auto. }
        destruct (kd <? ch_len ch + 1).
        -- pose proof (fresh_if_inv w (record w s)) as Fi. rewrite record_next in Fi. specialize (Fi Hs).
           destruct (fresh_if w (record w s)) as [w2 s2]. cbn [fst snd] in Fi. destruct Fi as [W2 N2].
           pose proof (fresh_inv s2 N2) as [_ N3]. destruct (fresh c s2) as [lw s3]. simpl in *.
           destruct (Ins lw). repeat split; simpl; auto.
        -- pose proof (fresh_inv s1 N1) as [_ N3]. destruct (fresh c s1) as [lw s3]. simpl in *.
           destruct (Ins lw). repeat split; simpl; auto.
    + destruct (clone_hdr c s t w) as [[t' w'] s']. cbn [fst snd] in CI. destruct CI as (-> & W1 & N1).
      apply split_inv; auto; [split; auto|split; [lia|auto]].
  - intros; exact I.
  - intros b0 x IHx r IHr s b key t [Px Pr] [Lx Lr] (M1 & M2 & M3) Hs.
    cbn [modify_ch]; fold (modify_node c md fullKey v); fold (modify_ch c md fullKey v).
    destruct (b0 =? b).
    + destruct (IHx s key Px Lx M2 Hs) as (P1 & T1 & N1). simpl. repeat split; auto.
      * apply node_tid_le. apply (proj1 (modify_tids c md fullKey v)). exact Lx.
      * eapply tmono_ch_raise; eauto.
    + specialize (IHr s b key t Pr Lr M3 Hs). destruct (modify_ch c md fullKey v s r b key) as [[r' res]|]; [|exact I].
      destruct IHr as (P1 & T1 & N1). simpl. repeat split; auto. now apply node_tid_le.
Qed.
End ModInv.

Lemma privF_ch_set b x' : forall ch, privF x' -> privF_ch ch -> privF_ch (ch_set b x' ch).
Proof.
  induction ch as [|b0 y r IH]; intros Hx H; [exact I|]. destruct H as [H1 H2]. cbn [ch_set].
  destruct (b0 =? b); split; auto; apply IH; auto.
Qed.
Lemma privF_ch_remove b : forall ch, privF_ch ch -> privF_ch (ch_remove b ch).
Proof.
  induction ch as [|b0 y r IH]; intros H; [exact I|]. destruct H as [H1 H2]. cbn [ch_remove].
  destruct (b0 =? b); [exact H2|split; auto; apply IH; auto].
Qed.
Lemma privF_ch_other b : forall ch y, privF_ch ch -> ch_other b ch = Some y -> privF y.
Proof.
  induction ch as [|b0 z r IH]; cbn [ch_other]; [discriminate|]. intros y H. destruct H as [H1 H2].
  destruct (b0 =? b); eauto. intros [= <-]; auto.
Qed.
Lemma tmono_ch_set T b x' : forall ch, node_tid x' <= T -> tmono x' -> tmono_ch T ch -> tmono_ch T (ch_set b x' ch).
Proof.
  induction ch as [|b0 y r IH]; simpl; auto. intros Hx Hm (H1 & H2 & H3). destruct (b0 =? b); simpl; auto.
Qed.
Lemma tmono_ch_remove T b : forall ch, tmono_ch T ch -> tmono_ch T (ch_remove b ch).
Proof. induction ch as [|b0 y r IH]; simpl; auto. intros (H1 & H2 & H3). destruct (b0 =? b); simpl; auto. Qed.
Lemma tmono_ch_other T b : forall ch y, tmono_ch T ch -> ch_other b ch = Some y -> tmono y.
Proof.
  induction ch as [|b0 z r IH]; simpl; [discriminate|]. intros y (H1 & H2 & H3). destruct (b0 =? b); eauto. intros [= <-]; auto.
Qed.

Definition dinv (r : dres) : Prop :=
  match r with
  | DNone => True
  | DSome _ repl s' _ => next0 <= s_next s' /\ match repl with Some n' => privF n' /\ tmono n' | None => True end
  end.

Lemma remove_child_inv s kd t p w lf ch b :
  (t = c_tid c -> w = 0 \/ F w) -> privF_ch ch -> tmono_ch (c_tid c) ch -> next0 <= s_next s ->
  let r := remove_child c s kd t p w lf ch b in
  next0 <= s_next (snd (fst r)) /\ privF (fst (fst r)) /\ tmono (fst (fst r)).
Proof.
  intros Hp Hc Hm Hs. unfold remove_child.
  pose proof (clone_hdr_inv s t w Hp Hs) as CI.
  pose proof (fresh_if_inv w s Hs) as FI.
  pose proof (privF_ch_remove b ch Hc) as Pr. pose proof (tmono_ch_remove (c_tid c) b ch Hm) as Mr.
  destruct (ch_len ch =? 2); [destruct lf; [|destruct (ch_other b ch) as [y|] eqn:Eo]|].
  2:{ cbn [fst snd]. rewrite record_next. repeat split; auto.
      - apply privF_set_prefix. exact (privF_ch_other b ch y Hc Eo).
      - apply tmono_set_prefix. exact (tmono_ch_other (c_tid c) b ch y Hm Eo). }
  all: destruct (_ || _);
    [destruct (fresh_if w s) as [w2 s2]; cbn [fst snd] in *; rewrite record_next; destruct FI as [W2 N2];
     repeat split; auto
    |destruct (clone_hdr c s t w) as [[t' w'] s2]; cbn [fst snd] in *; destruct CI as (-> & W1 & N1);
     repeat split; auto].
Qed.

Theorem delete_inv :
  (forall n s key, privF n -> tids_le (c_tid c) n -> tmono n -> next0 <= s_next s -> dinv (del_node c s n key)) /\
  (forall ch s b key t, privF_ch ch -> tids_le_ch (c_tid c) ch -> tmono_ch t ch -> t <= c_tid c -> next0 <= s_next s ->
     dinv (del_ch c s ch b key)).
Proof.
  apply node_children_ind.
  - intros p l s key _ _ _ Hs. cbn [del_node]. destruct (bytes_eqb key p); [|exact I]. cbn [dinv].
    rewrite !record_next. auto.
  - intros kd t p w lf ch IH s key [Hp Hc] [Ht Hlc] Hm Hs. cbn [del_node]; fold (del_ch c).
    assert (Mr : tmono_ch (c_tid c) ch) by (eapply tmono_ch_raise; eauto).
    destruct (strip p key) as [[|b rest]|]; [| |exact I].
    + destruct lf as [l|]; [|exact I].
      destruct ch as [|b1 x1 [|b2 x2 r]].
      * cbn [dinv]. rewrite !record_next. auto.
      * cbn [dinv]. rewrite !record_next. split; auto. split.
        -- apply privF_set_prefix. simpl in Hc. tauto.
        -- apply tmono_set_prefix. simpl in Hm. tauto.
      * pose proof (clone_hdr_inv (record (lf_w l) s) t w Hp) as CI. rewrite record_next in CI. specialize (CI Hs).
        destruct (clone_hdr c (record (lf_w l) s) t w) as [[t' w'] s2]. cbn [fst snd dinv] in *.
        destruct CI as (-> & W1 & N1). split; [exact N1|]. split; [split; [intros _; exact W1|exact Hc]|exact Mr].
    + specialize (IH s b (b :: rest) t Hc Hlc Hm Ht Hs).
      pose proof (proj2 (delete_tids c) ch s b (b :: rest) Hlc) as Dt.
      pose proof (proj2 (del_inplace_owned c Hc0 F) ch s b (b :: rest)) as Ipx.
      destruct (del_ch c s ch b (b :: rest)) as [|old repl s1 ip] eqn:Ed; [exact I|].
      destruct IH as [N1 IH]. destruct repl as [x'|].
      * destruct IH as [Px Mx]. cbn [dres_tids] in Dt.
        assert (G : forall t2 w2, t2 = c_tid c -> (w2 = 0 \/ F w2) ->
                  privF (Inner kd t2 p w2 lf (ch_set b x' ch)) /\ tmono (Inner kd t2 p w2 lf (ch_set b x' ch))).
        { intros t2 w2 -> W2. split.
          - split; auto. now apply privF_ch_set.
          - cbn [tmono]. apply tmono_ch_set; auto. now apply node_tid_le. }
        destruct ip.
        -- cbn [dinv]. split; auto. assert (Et : t = c_tid c) by (eapply Ipx; eauto).
           apply G; auto.
        -- pose proof (clone_hdr_inv s1 t w Hp N1) as CI.
           destruct (clone_hdr c s1 t w) as [[t' w'] s2]. cbn [fst snd dinv] in *.
           destruct CI as (E & W1 & N2). split; auto.
      * pose proof (remove_child_inv s1 kd t p w lf ch b Hp Hc Mr N1) as R.
        destruct (remove_child c s1 kd t p w lf ch b) as [[n' s2] ip']. cbn [fst snd dinv] in *. tauto.
  - intros; exact I.
  - intros b0 x IHx r IHr s b key t [Px Pr] [Lx Lr] (M1 & M2 & M3) Ht Hs.
    cbn [del_ch]; fold (del_node c); fold (del_ch c). destruct (b0 =? b).
    + apply IHx; auto.
    + eapply IHr; eauto.
Qed.
End Inv.
