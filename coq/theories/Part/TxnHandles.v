(* Part/TxnHandles.v — C06: watch handles taken INSIDE a write transaction (on the txn's own uncommitted tree).

   part_index.go, queries on a partIndexTxn (the index inside an open WriteTxn):
     list / prefix / lowerBound / lowerBoundNext / all : `snapshot := r.tx.Clone()` (txn.txnID++), then the Tree
        operation on the snapshot (snapshot.Get / snapshot.Prefix) or r.tx.RootWatch();
     get on a non-unique index                       : r.tx.Prefix(key)  (txn.txnID++ first, part/txn.go);
     get on a unique index                           : r.tx.Get(key)     (NO txnID bump: search(txn.root, txn.rootWatch, key)).
   After the query the transaction goes on writing (ops2), then Commit and Notify.

   [txn_query_clone]: the first two cases. The bump freezes every node reachable at query time: whatever a later
   operation of the transaction changes below a node, it clones the node and records its channel. PROVED
   (handle_inside_txn): the channel handed out is closed by the transaction's Notify if the committed tree differs
   from the tree at query time at a key the handle covers; otherwise it is closed or it is still the channel the
   committed tree returns for the handle; the committed tree satisfies tree_inv again, so the history theorem
   (Part/Footprint.v chain_changed_key_closes_handle) applies from there (handle_inside_txn_history).

   [txn_query_get]: Txn.Get without a bump. The same holds PROVIDED the channel is not the channel of an inner node
   private to the transaction at hand-out (root_priv_ne; e.g. the channel existed before the transaction began)
   (get_inside_txn, get_inside_txn_old_channel).
   WITHOUT the proviso it is FALSE (get_inside_txn_refuted): Get of an absent key returns the channel of the deepest
   inner node on the search path; if an earlier write of the same transaction created or cloned that node, a later
   Insert of the key mutates the node in place (cloneNode returns n when n.txnID == txn.txnID, the channel is not
   recorded): the channel is neither closed by Notify nor what Get returns on the committed tree. This case is OUTSIDE the
   quantifier of C06/C12 (handles taken on snapshots / committed trees, changes by LATER transactions); the node and its
   channel stay in the committed tree on the search path of the key, so a later transaction that changes the key clones
   the node and closes the channel: shown for the witness, for every later transaction and every chain of later
   transactions (get_inside_txn_witness_later_closes). The general form of that last statement ("not closed => still the
   channel of Prefix(q) on the committed tree for a prefix q of the key") needs stability lemmas for channels of
   txn-private nodes, which Part/Stable.v / PStable.v do not provide (their `F a` disjunct); not proved. *)
From SV Require Import Base.Bytes Base.OrdMap Part.Model Part.Sem Part.Refine Part.Cow Part.Watch Part.Stable
  Part.WatchHist Part.PStable Part.PrefixHist Part.InsertWatch Part.Fresh Part.Footprint.
From Coq Require Import ZifyN ZifyNat ZifyBool.
Open Scope N_scope.

(* ---- the queries ------------------------------------------------------------------------------------------ *)
(* Clone, then the handle on the snapshot: (the transaction afterwards, the channel handed out) *)
Definition txn_query_clone (x : txn) (h : handle) : txn * N :=
  (fst (txn_clone x), h_chan (snd (txn_clone x)) h).
(* Txn.Get, no bump *)
Definition txn_query_get (x : txn) (k : bytes) : txn * N := (x, snd (txn_get x k)).

(* Txn.Prefix (bump, then prefixSearch on the txn's root) is the Clone query for HPrefix *)
Lemma txn_prefix_is_clone_query x q :
  (fst (txn_prefix x q), snd (snd (txn_prefix x q))) = txn_query_clone x (HPrefix q).
Proof. reflexivity. Qed.
(* Txn.RootWatch *)
Lemma txn_root_is_clone_query x : snd (txn_query_clone x HRoot) = t_rw x.
Proof. reflexivity. Qed.

(* the transaction's current tree as a Tree value (what Clone returns, up to the id) *)
Definition txn_view (x : txn) : tree := mkTree (t_root x) (t_rw x) (t_size x) (t_ro x) (t_tid x).

Lemma view_clone x h : h_chan (snd (txn_clone x)) h = h_chan (txn_view x) h.
Proof. destruct h; reflexivity. Qed.
Lemma view_get x k : snd (txn_get x k) = h_chan (txn_view x) (HGet k).
Proof. reflexivity. Qed.

(* ---- channels of inner nodes private to the transaction ----------------------------------------------------- *)
Section Priv.
Variable c : ctx.
Variable a : N.
Fixpoint priv_ne (n : node) : Prop :=
  match n with
  | Leaf _ _ => True
  | Inner _ t _ w _ ch => (t = c_tid c -> w <> a) /\ priv_ne_ch ch
  end
with priv_ne_ch (ch : children) : Prop :=
  match ch with CNil => True | CCons _ x r => priv_ne x /\ priv_ne_ch r end.

Lemma privF_and_priv (F1 : N -> Prop) :
  (forall n, privF c F1 n -> priv_ne n -> privF c (fun b => F1 b /\ b <> a) n) /\
  (forall ch, privF_ch c F1 ch -> priv_ne_ch ch -> privF_ch c (fun b => F1 b /\ b <> a) ch).
Proof.
  apply node_children_ind.
  - intros; exact I.
  - intros kd t p w0 lf ch IH [H1 H2] [N1 N2]. split; [|apply IH; auto].
    intros E. destruct (H1 E) as [Z|Z]; [left; exact Z|right; split; auto].
  - intros; exact I.
  - intros b x IHx r IHr [H1 H2] [N1 N2]. split; [apply IHx|apply IHr]; auto.
Qed.

(* no node private: nothing to check *)
Lemma priv_ne_of_tids_lt T : T < c_tid c ->
  (forall n, tids_le T n -> priv_ne n) /\ (forall ch, tids_le_ch T ch -> priv_ne_ch ch).
Proof.
  intros HT. apply node_children_ind.
  - intros; exact I.
  - intros kd t p w lf ch IH [H1 H2]. split; [intros E; lia|apply IH; exact H2].
  - intros; exact I.
  - intros b x IHx r IHr [H1 H2]. split; [apply IHx; exact H1|apply IHr; exact H2].
Qed.

(* private nodes carry channels allocated by the transaction: an older channel is none of them *)
Lemma priv_ne_of_privF next0 : a <> 0 -> a < next0 ->
  (forall n, privF c (Fr next0) n -> priv_ne n) /\ (forall ch, privF_ch c (Fr next0) ch -> priv_ne_ch ch).
Proof.
  intros Ha Hlt. apply node_children_ind.
  - intros; exact I.
  - intros kd t p w lf ch IH [H1 H2]. split; [|apply IH; exact H2].
    intros E Hw. destruct (H1 E) as [Z|Z]; [congruence|]. unfold Fr in Z. lia.
  - intros; exact I.
  - intros b x IHx r IHr [H1 H2]. split; [apply IHx; exact H1|apply IHr; exact H2].
Qed.

Lemma priv_ne_of_inner_ne :
  (forall n, inner_ne a n -> priv_ne n) /\ (forall ch, inner_ne_ch a ch -> priv_ne_ch ch).
Proof.
  apply node_children_ind.
  - intros; exact I.
  - intros kd t p w lf ch IH [H1 H2]. split; [auto|apply IH; exact H2].
  - intros; exact I.
  - intros b x IHx r IHr [H1 H2]. split; [apply IHx; exact H1|apply IHr; exact H2].
Qed.
End Priv.

Definition root_priv_ne (x : txn) (a : N) : Prop :=
  match t_root x with Some n => priv_ne (txn_ctx x) a n | None => True end.

(* ---- the core: a handle taken on the current tree of a transaction in state x ---------------------------------- *)
Lemma view_CKt x : CK x -> CKt (txn_view x) (s_next (t_st x)).
Proof.
  intros [Hb Hu Hw Hr Hp]. unfold CKt. cbn [txn_view tr_root tr_rw]. constructor; cbn [s_next s_ws]; auto.
  intros a [].
Qed.

Lemma run_Jp_gen next0 (F : N -> Prop) (HF : forall b, next0 <= b -> F b) q a (Ha0 : a <> 0) (HnF : ~ F a) ops :
  forall x, TInv next0 F x -> Jp q a x -> TInv next0 F (fold_left wstep ops x) /\ Jp q a (fold_left wstep ops x).
Proof.
  induction ops as [|o r IH]; intros x HT HJ; cbn [fold_left]; auto.
  apply IH.
  - now apply (wstep_TInv next0 F HF).
  - exact (proj1 (wstep_Jp next0 F q a Ha0 HnF x o HT HJ)).
Qed.

Theorem handle_in_txn_state next x h ops :
  TInv next (Fr next) x -> CK x -> txn_ok x -> t_rw x <> 0 ->
  let a := h_chan (txn_view x) h in
  root_priv_ne x a ->
  let xe := fold_left wstep ops x in
  a <> 0 /\ a < s_next (t_st x) /\
  ((exists K, h_covers h K = true /\ om_get K (abs_tree (snd (txn_commit xe))) <> om_get K (abs_txn x)) ->
   In a (snd (txn_notify xe))) /\
  (In a (snd (txn_notify xe)) \/ h_chan (snd (txn_commit xe)) h = a).
Proof.
  intros HT HCK Hok Hrw a Hpn xe.
  assert (Ha0 : a <> 0) by (apply h_chan_nz; exact Hrw).
  set (B := s_next (t_st x)).
  assert (Hlt : a < B) by (apply h_chan_lt; [now apply view_CKt|exact Ha0]).
  split; [exact Ha0|]. split; [exact Hlt|].
  destruct HT as (Hc0 & Hr & Hn).
  set (F := fun b => Fr next b /\ b <> a).
  assert (HF : forall b, B <= b -> F b) by (intros b Hb; unfold F, Fr; split; lia).
  assert (HnF : ~ F a) by (intros [_ H]; congruence).
  assert (T2 : TInv B F x).
  { unfold TInv. split; [exact Hc0|]. split; [|unfold B; lia]. unfold root_inv, root_priv_ne in *.
    destruct (t_root x) as [n|]; auto. destruct Hr as (P1 & L1 & M1). split; [|split; assumption].
    apply (proj1 (privF_and_priv (txn_ctx x) a (Fr next))); assumption. }
  destruct (history_refines ops x Hok) as [Xok Xa]. fold xe in Xok, Xa.
  destruct (txn_commit_ok xe Xok) as (_ & Ca & _).
  destruct (dirty_iff_changed ops x Hok) as [Ed Erw]. fold xe in Ed, Erw.
  destruct (commit_root xe) as [Er Ew].
  assert (Cl : closedish a xe -> In a (snd (txn_notify xe))).
  { intros C. destruct C as [H|[H D]]; rewrite notify_closes; apply in_or_app; [left; exact H|right].
    rewrite D, <- H. apply N.eqb_neq in Ha0. rewrite Ha0. cbn. auto. }
  destruct h as [k|q|]; cbn [h_covers h_chan] in *.
  - (* Get *)
    assert (J1 : J k a x) by (right; reflexivity).
    split.
    + intros [K [Hc Hd]]. apply bytes_eqb_spec in Hc. subst K. rewrite Ca, Xa in Hd.
      apply (touched_closed B F HF k a Ha0 HnF ops x T2 J1). apply differ_touched; auto.
    + destruct (run_J B F HF k a Ha0 HnF ops x T2 J1) as (Te & Je). fold xe in Te, Je.
      destruct Je as [Ce|Ge]; [left; auto|].
      unfold tree_get. rewrite Er, Ew. unfold rgetw in Ge.
      destruct (t_dirty xe) eqn:D; [|right; exact Ge].
      destruct (N.eq_dec a (t_rw xe)) as [E|Ne]; [left; apply Cl; right; auto|right].
      unfold root_get in *. destruct (t_root xe) as [ne|]; [|cbn [snd] in *; congruence].
      fold (getw ne k (t_rw xe)) in Ge. fold (getw ne k (s_next (t_st xe))).
      destruct (proj1 getw_cases ne k (t_rw xe) (s_next (t_st xe))) as [[E1 _]|E1]; congruence.
  - (* Prefix *)
    assert (J1 : Jp q a x) by (right; reflexivity).
    split.
    + intros [K [Hc Hd]]. rewrite Ca, Xa in Hd.
      apply (touched_p_closed B F HF q a Ha0 HnF ops x T2 J1). apply differ_touched_p; auto. exists K. auto.
    + destruct (run_Jp_gen B F HF q a Ha0 HnF ops x T2 J1) as (Te & Je). fold xe in Te, Je.
      destruct Je as [Ce|Ge]; [left; auto|].
      unfold tree_prefix. rewrite Er, Ew. fold (rpgetw (t_root xe) (if t_dirty xe then s_next (t_st xe) else t_rw xe) q).
      destruct (t_dirty xe) eqn:D; [|right; exact Ge].
      destruct (N.eq_dec a (t_rw xe)) as [E|Ne]; [left; apply Cl; right; auto|right].
      destruct (t_root xe) as [ne|]; [|rewrite rpgetw_none in *; congruence].
      rewrite rpgetw_some in *.
      destruct (proj1 pgetw_cases ne q (t_rw xe) (s_next (t_st xe))) as [[E1 _]|E1]; congruence.
  - (* root *)
    split.
    + intros [K [_ Hd]]. rewrite Ca, Xa in Hd. apply Cl. right. split; [symmetry; exact Erw|].
      rewrite Ed. rewrite (differ_any_change ops (abs_txn x)); [apply orb_true_r| |exists K; exact Hd].
      apply abs_sorted. apply Hok.
    + rewrite Ew. destruct (t_dirty xe) eqn:D; [left|right; exact Erw].
      apply Cl. right. split; [symmetry; exact Erw|exact D].
Qed.

(* ---- the state of a transaction begun on a committed tree, after any operations -------------------------------- *)
Lemma txn_state_invs t next ops1 : tree_inv t next ->
  let x := fold_left wstep ops1 (tree_txn t next) in
  TInv next (Fr next) x /\ CK x /\ txn_ok x /\ t_rw x <> 0 /\ abs_txn x = fold_left mstep ops1 (abs_tree t).
Proof.
  intros (Hok & Hids & Hnz & Hm & Hck & Hrw). cbv zeta.
  destruct (tree_txn_ok t next Hok) as [Tok Ta].
  destruct (history_refines ops1 _ Tok) as [Xok Xa].
  split; [apply run_TInv; now apply tree_txn_TInv|].
  split; [apply run_CK; [exact Hnz|now apply tree_txn_CK]|].
  split; [exact Xok|]. split; [now rewrite run_rw|]. now rewrite Xa, Ta.
Qed.

Lemma fold_wstep_app ops1 o ops2 x :
  fold_left wstep ops2 (wstep (fold_left wstep ops1 x) o) = fold_left wstep (ops1 ++ o :: ops2) x.
Proof. now rewrite fold_left_app. Qed.

(* (1) QUERIES THAT FREEZE THE TREE (Clone / Txn.Prefix). t: a committed tree; ops1: the operations of the write
   transaction before the query; h: any handle; a: the channel handed out; ops2: the operations after the query. *)
Theorem handle_inside_txn t next ops1 ops2 h :
  tree_inv t next ->
  let x := fold_left wstep ops1 (tree_txn t next) in
  let a := snd (txn_query_clone x h) in
  let xe := fold_left wstep ops2 (fst (txn_query_clone x h)) in
  a <> 0 /\
  ((exists K, h_covers h K = true /\ om_get K (abs_tree (snd (txn_commit xe))) <> om_get K (abs_txn x)) ->
   In a (snd (txn_notify xe))) /\
  (In a (snd (txn_notify xe)) \/ h_chan (snd (txn_commit xe)) h = a) /\
  tree_inv (snd (txn_commit xe)) (s_next (t_st (fst (txn_commit xe)))).
Proof.
  intros HI. cbv zeta. cbn [txn_query_clone fst snd].
  destruct (txn_state_invs t next ops1 HI) as (HT & HCK & Hok & Hrw & Ea). cbv zeta in *.
  set (x := fold_left wstep ops1 (tree_txn t next)) in *.
  change (fst (txn_clone x)) with (wstep x WBump).
  assert (HT' : TInv next (Fr next) (wstep x WBump)) by (apply (wstep_TInv next (Fr next) (fun b h => h)); exact HT).
  assert (HCK' : CK (wstep x WBump)) by (apply wstep_CK; [apply HT|exact HCK]).
  destruct (wstep_refines x WBump Hok) as [Hok' Ea'].
  rewrite view_clone.
  change (h_chan (txn_view x) h) with (h_chan (txn_view (wstep x WBump)) h).
  assert (Hpn : root_priv_ne (wstep x WBump) (h_chan (txn_view (wstep x WBump)) h)).
  { unfold root_priv_ne. cbn [wstep bump t_root txn_ctx t_tid t_ro].
    destruct HT as (_ & Hr & _). unfold root_inv in Hr. destruct (t_root x) as [n|]; [|exact I].
    destruct Hr as (_ & Hl & _).
    apply (proj1 (priv_ne_of_tids_lt (mkCtx (t_tid x + 1) (t_ro x)) _ (t_tid x) ltac:(simpl; lia))). exact Hl. }
  pose proof (handle_in_txn_state next (wstep x WBump) h ops2 HT' HCK' Hok' Hrw Hpn) as H. cbv zeta in H.
  destruct H as (A & _ & C & D).
  assert (Eabs : abs_txn (wstep x WBump) = abs_txn x) by reflexivity.
  rewrite Eabs in C.
  split; [exact A|]. split; [exact C|]. split; [exact D|].
  unfold x. rewrite fold_wstep_app. apply commit_tree_inv. exact HI.
Qed.

(* ... and over the transactions that follow: txns = any chain of later transactions on the committed tree. If the tree
   at the end of the chain differs from the tree at query time at a covered key, the channel is closed by the Notify of
   the transaction that made the query or of one of the later ones *)
Theorem handle_inside_txn_history t next ops1 ops2 h txns :
  tree_inv t next ->
  let x := fold_left wstep ops1 (tree_txn t next) in
  let a := snd (txn_query_clone x h) in
  let xe := fold_left wstep ops2 (fst (txn_query_clone x h)) in
  let T' := snd (txn_commit xe) in
  let next' := s_next (t_st (fst (txn_commit xe))) in
  (exists K, h_covers h K = true /\ om_get K (abs_tree (fst (chain_end T' next' txns))) <> om_get K (abs_txn x)) ->
  In a (snd (txn_notify xe)) \/ exists cl, In cl (chain_closed T' next' txns) /\ In a cl.
Proof.
  intros HI. pose proof (handle_inside_txn t next ops1 ops2 h HI) as H. cbv zeta in *.
  destruct H as (_ & C & D & I'). intros [K [Hc Hd]].
  destruct D as [D|D]; [left; exact D|].
  set (x := fold_left wstep ops1 (tree_txn t next)) in *.
  set (xe := fold_left wstep ops2 (fst (txn_query_clone x h))) in *.
  destruct (binding_dec (om_get K (abs_tree (snd (txn_commit xe)))) (om_get K (abs_txn x))) as [E|Ne].
  - right. rewrite <- D. apply chain_changed_key_closes_handle; [exact I'|]. exists K. split; [exact Hc|]. now rewrite E.
  - left. apply C. exists K. auto.
Qed.

(* (2) Txn.Get WITHOUT a bump: the same, provided the channel is not the channel of an inner node private to the txn *)
Theorem get_inside_txn t next ops1 ops2 k :
  tree_inv t next ->
  let x := fold_left wstep ops1 (tree_txn t next) in
  let a := snd (txn_query_get x k) in
  let xe := fold_left wstep ops2 (fst (txn_query_get x k)) in
  root_priv_ne x a ->
  a <> 0 /\
  ((om_get k (abs_tree (snd (txn_commit xe))) <> om_get k (abs_txn x)) -> In a (snd (txn_notify xe))) /\
  (In a (snd (txn_notify xe)) \/ snd (tree_get (snd (txn_commit xe)) k) = a) /\
  tree_inv (snd (txn_commit xe)) (s_next (t_st (fst (txn_commit xe)))).
Proof.
  intros HI. cbv zeta. cbn [txn_query_get fst snd]. intros Hpn.
  destruct (txn_state_invs t next ops1 HI) as (HT & HCK & Hok & Hrw & Ea). cbv zeta in *.
  set (x := fold_left wstep ops1 (tree_txn t next)) in *.
  rewrite view_get in *.
  pose proof (handle_in_txn_state next x (HGet k) ops2 HT HCK Hok Hrw Hpn) as H. cbv zeta in H.
  destruct H as (A & _ & C & D). cbn [h_chan h_covers] in *.
  split; [exact A|]. split; [|split; [exact D|]].
  - intros Hd. apply C. exists k. split; [apply bytes_eqb_refl|exact Hd].
  - unfold x. rewrite <- fold_left_app. apply commit_tree_inv. exact HI.
Qed.

(* the proviso holds when the channel existed before the transaction began *)
Corollary get_inside_txn_old_channel t next ops1 k :
  tree_inv t next ->
  let x := fold_left wstep ops1 (tree_txn t next) in
  snd (txn_get x k) < next -> root_priv_ne x (snd (txn_get x k)).
Proof.
  intros HI x Hlt.
  destruct (txn_state_invs t next ops1 HI) as (HT & HCK & Hok & Hrw & Ea). cbv zeta in *. fold x in HT, HCK, Hok, Hrw.
  assert (Ha0 : snd (txn_get x k) <> 0) by (rewrite view_get; apply h_chan_nz; exact Hrw).
  destruct HT as (_ & Hr & _). unfold root_priv_ne, root_inv in *. destruct (t_root x) as [n|]; [|exact I].
  destruct Hr as (Hp & _ & _). exact (proj1 (priv_ne_of_privF (txn_ctx x) _ next Ha0 Hlt) n Hp).
Qed.

(* ---- the refutation, and what later transactions do with the channel -------------------------------------------- *)
Definition rf_t : tree := fst (tree_new false 1).
Definition rf_ops1 : list wop := [WIns [1;2] 10; WIns [1;3] 11].
Definition rf_ops2 : list wop := [WIns [1;4] 12].
Definition rf_k : bytes := [1;4].
Definition rf_x : txn := fold_left wstep rf_ops1 (tree_txn rf_t 2).
Definition rf_xe : txn := fold_left wstep rf_ops2 rf_x.
Definition rf_T' : tree := snd (txn_commit rf_xe).

Lemma rf_inv : tree_inv rf_t 2.
Proof. apply (tree_inv_new false 1). lia. Qed.

(* New; Txn; Insert [1;2]; Insert [1;3] (creates the node4 with prefix [1], private, channel 4); Get [1;4]: not found,
   channel 4; Insert [1;4] (in place); Commit; Notify closes only the old root channel 1; Get [1;4] on the new tree:
   channel 5 *)
Theorem get_inside_txn_refuted :
  exists t next ops1 ops2 k, tree_inv t next /\
    let x := fold_left wstep ops1 (tree_txn t next) in
    let a := snd (txn_query_get x k) in
    let xe := fold_left wstep ops2 (fst (txn_query_get x k)) in
    a <> 0 /\ fst (txn_get x k) = None /\
    om_get k (abs_tree (snd (txn_commit xe))) <> om_get k (abs_txn x) /\
    ~ In a (snd (txn_notify xe)) /\ snd (tree_get (snd (txn_commit xe)) k) <> a /\
    ~ root_priv_ne x a.
Proof.
  exists rf_t, 2, rf_ops1, rf_ops2, rf_k. split; [exact rf_inv|].
  vm_compute. repeat split; try discriminate.
  - intros [H|[]]. discriminate.
  - intros [H _]. apply H; reflexivity.
Qed.

(* the same hand-out through a query that freezes the tree first (Clone / Prefix): closed *)
Example handle_inside_txn_nonvacuous :
  let x := fold_left wstep rf_ops1 (tree_txn rf_t 2) in
  let a := snd (txn_query_clone x (HGet rf_k)) in
  let xe := fold_left wstep rf_ops2 (fst (txn_query_clone x (HGet rf_k))) in
  tree_inv rf_t 2 /\ a = 4 /\ h_covers (HGet rf_k) rf_k = true /\
  om_get rf_k (abs_tree (snd (txn_commit xe))) <> om_get rf_k (abs_txn x) /\
  snd (txn_notify xe) = [4; 1].
Proof. split; [exact rf_inv|]. vm_compute. repeat split; discriminate. Qed.

(* a Get inside the transaction whose channel is older than the transaction: covered by get_inside_txn *)
Example get_inside_txn_nonvacuous :
  let ops0 := [WIns [1;2] 10; WIns [1;3] 11; WIns [2;1] 5] in
  let t1 := snd (txn_commit (fold_left wstep ops0 (tree_txn rf_t 2))) in
  let x := fold_left wstep [WIns [2;2] 7] (tree_txn t1 10) in
  tree_inv t1 10 /\ snd (txn_get x [1;4]) = 4 /\ 4 < 10 /\ root_priv_ne x 4 /\
  In 4 (snd (txn_notify (fold_left wstep [WIns [1;4] 12] x))).
Proof.
  cbv zeta. split.
  - eapply tree_inv_mono; [|exact (proj1 (commit_tree_inv _ 2 [WIns [1;2] 10; WIns [1;3] 11; WIns [2;1] 5] rf_inv))].
    vm_compute. discriminate.
  - vm_compute. repeat split; auto; intros; discriminate.
Qed.

(* LATER transactions do close the witness's channel: it is the channel Prefix([1]) returns on the committed tree,
   [1] is a prefix of the key, and the committed tree satisfies tree_inv: every later transaction, and every chain of
   later transactions, that changes the binding of the key closes it *)
Theorem get_inside_txn_witness_later_closes :
  let a := snd (txn_query_get rf_x rf_k) in
  let next' := s_next (t_st (fst (txn_commit rf_xe))) in
  a = 4 /\ tree_inv rf_T' next' /\ h_chan rf_T' (HPrefix [1]) = a /\ h_covers (HPrefix [1]) rf_k = true /\
  (forall gap ops, let xe2 := fold_left wstep ops (tree_txn rf_T' (next' + gap)) in
     om_get rf_k (abs_tree (snd (txn_commit xe2))) <> om_get rf_k (abs_tree rf_T') -> In a (snd (txn_notify xe2))) /\
  (forall txns, om_get rf_k (abs_tree (fst (chain_end rf_T' next' txns))) <> om_get rf_k (abs_tree rf_T') ->
     exists cl, In cl (chain_closed rf_T' next' txns) /\ In a cl).
Proof.
  cbv zeta.
  assert (HI : tree_inv rf_T' (s_next (t_st (fst (txn_commit rf_xe))))).
  { unfold rf_T', rf_xe, rf_x. rewrite <- fold_left_app. apply commit_tree_inv. exact rf_inv. }
  assert (Ea : snd (txn_query_get rf_x rf_k) = 4) by (vm_compute; reflexivity).
  assert (Eh : h_chan rf_T' (HPrefix [1]) = 4) by (vm_compute; reflexivity).
  rewrite Ea. split; [reflexivity|]. split; [exact HI|]. split; [exact Eh|]. split; [reflexivity|]. split.
  - intros gap ops Hd. rewrite <- Eh.
    apply (changed_key_closes_handle rf_T' _ ops (HPrefix [1])).
    + eapply tree_inv_mono; [|exact HI]. lia.
    + exists rf_k. split; [reflexivity|exact Hd].
  - intros txns Hd. rewrite <- Eh. apply chain_changed_key_closes_handle; [exact HI|].
    exists rf_k. split; [reflexivity|exact Hd].
Qed.

Example get_inside_txn_witness_later_nonvacuous :
  let next' := s_next (t_st (fst (txn_commit rf_xe))) in
  let xe2 := fold_left wstep [WDel [1;4]] (tree_txn rf_T' (next' + 0)) in
  om_get rf_k (abs_tree (snd (txn_commit xe2))) <> om_get rf_k (abs_tree rf_T') /\ In 4 (snd (txn_notify xe2)).
Proof. vm_compute. split; [discriminate|auto]. Qed.

Print Assumptions handle_in_txn_state.
Print Assumptions handle_inside_txn.
Print Assumptions handle_inside_txn_history.
Print Assumptions get_inside_txn.
Print Assumptions get_inside_txn_old_channel.
Print Assumptions get_inside_txn_refuted.
Print Assumptions get_inside_txn_witness_later_closes.
