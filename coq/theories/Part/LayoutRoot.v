(* Part/LayoutRoot.v — the root of a tree holding only the empty key and 1-byte keys (the trees the
   `layout` engine drives): every state reachable from the empty tree by Insert / Delete is
   well-formed (closed world for LInv), and (leaf flag, child keys) evolves like a set. *)
From SV Require Import Part.Layout Part.LayoutBase Part.LayoutKeyed Part.Layout48 Part.Layout256 Part.LayoutProofs.
From Coq Require Import ZifyN ZifyNat ZifyBool.
Close Scope N_scope.

(* reachable roots: an inner root is well-formed, within the occupancy bounds, and has a leaf or >= 2 children *)
Definition RInv (r : lroot) : Prop :=
  match r with
  | RNil => True
  | RLeaf None => True
  | RLeaf (Some k) => (k < 256)%N
  | RNode l => LInv l /\ (l_leaf l = false -> 2 <= l_size l)
  end.
(* (the empty key is present, the sorted 1-byte keys) *)
Definition r_abs (r : lroot) : bool * list N :=
  match r with
  | RNil => (false, [])
  | RLeaf None => (true, [])
  | RLeaf (Some k) => (false, [k])
  | RNode l => (l_leaf l, l_abs l)
  end.
Definition set_add (k : N) (ks : list N) : list N := if memb k ks then ks else ins k ks.
Definition set_del (k : N) (ks : list N) : list N := if memb k ks then rem k ks else ks.

Lemma LInv_setleaf : forall l b, LInv l -> LInv (l_setleaf l b) /\ l_abs (l_setleaf l b) = l_abs l.
Proof.
  intros l b [HW HO]. split; [split|].
  - destruct HW as [kd lf ks m z Hkd HG Hcap | lf ks HG HL | lf ks HG].
    + exact (LWF_keyed kd b ks m z Hkd HG Hcap).
    + exact (LWF_48 b ks HG HL).
    + exact (LWF_256 b ks HG).
  - exact HO.
  - reflexivity.
Qed.

Lemma good_two : forall j k, (j < k)%N -> (k < 256)%N -> good [j; k].
Proof. intros j k H1 H2. split; cbn; repeat constructor; auto; lia. Qed.
Lemma good_one : forall k, (k < 256)%N -> good [k].
Proof. intros k H. split; cbn; repeat constructor; auto. Qed.

Theorem r_add_correct : forall r k, RInv r -> (k < 256)%N ->
  RInv (r_add r k) /\ r_abs (r_add r k) = (fst (r_abs r), set_add k (snd (r_abs r))).
Proof.
  intros r k HI Hk. destruct r as [|[j|]|l]; cbn [r_add RInv r_abs fst snd] in *.
  - split; [exact Hk|reflexivity].
  - unfold set_add. cbn [memb existsb ins]. rewrite (N.eqb_sym k j).
    destruct (N.eqb_spec j k) as [->|Hne]; cbn [orb RInv r_abs].
    + split; [exact HI|reflexivity].
    + destruct (N.ltb_spec j k) as [Hlt|Hge]; cbn [RInv r_abs].
      * destruct (LWF_new_node4 false [j; k] (good_two j k Hlt Hk)) as [HW Ea]; [cbn; lia|].
        split; [split; [apply LInv_new_node4; [apply good_two; auto|cbn; lia]|cbn; lia]|].
        rewrite Ea. destruct (N.ltb_spec k j); [lia|]. reflexivity.
      * assert (Hlt : (k < j)%N) by lia.
        destruct (LWF_new_node4 false [k; j] (good_two k j Hlt HI)) as [HW Ea]; [cbn; lia|].
        split; [split; [apply LInv_new_node4; [apply good_two; auto|cbn; lia]|cbn; lia]|].
        rewrite Ea. destruct (N.ltb_spec k j); [|lia]. reflexivity.
  - destruct (LWF_new_node4 true [k] (good_one k Hk)) as [HW Ea]; [cbn; lia|].
    split; [split; [apply LInv_new_node4; [apply good_one; auto|cbn; lia]|cbn; discriminate]|].
    rewrite Ea. reflexivity.
  - destruct HI as [[HW HO] H2]. unfold set_add. destruct (memb k (l_abs l)) eqn:Em.
    + rewrite l_add_present by assumption. split; [split; [split|]; assumption|reflexivity].
    + destruct (l_add_correct l k HW Hk Em) as (HW' & Ea & El & Es & _).
      split; [split; [apply LInv_add; [split|]; assumption|]|].
      * rewrite El, Es. intros H. specialize (H2 H). lia.
      * rewrite Ea, El. reflexivity.
Qed.

Theorem r_addleaf_correct : forall r, RInv r ->
  RInv (r_addleaf r) /\ r_abs (r_addleaf r) = (true, snd (r_abs r)).
Proof.
  intros r HI. destruct r as [|[j|]|l]; cbn [r_addleaf RInv r_abs fst snd] in *.
  - split; [exact I|reflexivity].
  - destruct (LWF_new_node4 true [j] (good_one j HI)) as [HW Ea]; [cbn; lia|].
    split; [split; [apply LInv_new_node4; [apply good_one; auto|cbn; lia]|cbn; discriminate]|].
    rewrite Ea. reflexivity.
  - split; [exact I|reflexivity].
  - destruct HI as [HL H2]. destruct (LInv_setleaf l true HL) as [HL' Ea].
    split; [split; [exact HL'|cbn; discriminate]|]. rewrite Ea. reflexivity.
Qed.

Lemma rem_single_in : forall k ks c, good ks -> memb k ks = true -> rem k ks = [c] -> In c ks.
Proof.
  intros k ks c HG Hm Hr. destruct (present_split k ks HG Hm) as (a & b & E & Er & _).
  rewrite Er in Hr. subst ks. apply in_or_app.
  assert (Hin : In c (a ++ b)) by (rewrite Hr; left; reflexivity).
  apply in_app_or in Hin. destruct Hin as [Hin|Hin]; [left; exact Hin|right; right; exact Hin].
Qed.

Theorem r_del_correct : forall r k, RInv r -> (k < 256)%N ->
  RInv (r_del r k) /\ r_abs (r_del r k) = (fst (r_abs r), set_del k (snd (r_abs r))).
Proof.
  intros r k HI Hk. destruct r as [|[j|]|l]; cbn [r_del RInv r_abs fst snd] in *.
  - split; [exact I|reflexivity].
  - unfold set_del. cbn [memb existsb rem]. rewrite (N.eqb_sym k j).
    destruct (N.eqb_spec j k) as [->|Hne]; cbn [orb RInv r_abs]; (split; [auto|reflexivity]).
  - split; [exact I|reflexivity].
  - destruct HI as [[HW HO] H2]. unfold set_del. destruct (memb k (l_abs l)) eqn:Em.
    + pose proof (l_del_correct l k HW HO Hk Em) as HC.
      destruct ((l_size l =? 2) && negb (l_leaf l)) eqn:Ecol.
      * destruct HC as (c & Ed & Er). rewrite Ed. cbn [RInv r_abs].
        apply andb_true_iff in Ecol. destruct Ecol as [_ Enl]. apply negb_true_iff in Enl.
        destruct (LWF_abs l HW) as ([_ HB] & _).
        split; [|rewrite Er, Enl; reflexivity].
        rewrite Forall_forall in HB. apply HB. eapply rem_single_in; eauto. apply LWF_abs; exact HW.
      * destruct HC as (l' & Ed & HW' & Ea & El & Es & _). rewrite Ed. cbn [RInv r_abs].
        split; [split; [exact (LInv_del l l' k (conj HW HO) Hk Ed)|]|rewrite Ea, El; reflexivity].
        rewrite El, Es. intros Hlf. specialize (H2 Hlf). rewrite Hlf in Ecol. cbn [negb] in Ecol.
        rewrite andb_true_r in Ecol. apply Nat.eqb_neq in Ecol. lia.
    + rewrite l_del_absent by assumption. cbn [RInv r_abs]. split; [split; [split|]; assumption|reflexivity].
Qed.

Lemma first_child_single : forall l c, LInv l -> l_abs l = [c] -> child_at (l_children_go l) 0 = Some c.
Proof.
  intros l c [HW (HO16 & HO48 & HO256)] Ha.
  destruct HW as [kd lf ks m z Hkd HG Hcap | lf ks HG HL | lf ks HG].
  - rewrite abs_keyed in Ha by exact Hkd. subst ks. unfold l_children_go. cbn [l_kind l_size l_children canon_keyed length].
    replace (kd =? 256)%N with false by (destruct Hkd as [-> | ->]; reflexivity). reflexivity.
  - rewrite abs48 in Ha. subst ks. cbn [l_kind l_size canon48 length] in HO48. specialize (HO48 eq_refl). lia.
  - rewrite abs256 in Ha by exact HG. subst ks. cbn [l_kind l_size canon256 length] in HO256. specialize (HO256 eq_refl). lia.
Qed.

Theorem r_delleaf_correct : forall r, RInv r ->
  RInv (r_delleaf r) /\ r_abs (r_delleaf r) = (false, snd (r_abs r)).
Proof.
  intros r HI. destruct r as [|[j|]|l]; cbn [r_delleaf RInv r_abs fst snd] in *.
  - split; [exact I|reflexivity].
  - split; [exact HI|reflexivity].
  - split; [exact I|reflexivity].
  - destruct HI as [HL H2]. destruct (LWF_abs l (proj1 HL)) as ([_ HB] & Es & _).
    destruct (l_leaf l) eqn:Elf.
    + destruct (Nat.eqb_spec (l_size l) 0) as [E0|E0].
      * cbn [RInv r_abs]. split; [exact I|]. destruct (l_abs l); [reflexivity|cbn in Es; lia].
      * destruct (Nat.eqb_spec (l_size l) 1) as [E1|E1].
        -- destruct (l_abs l) as [|c [|? ?]] eqn:Ea; cbn [length] in Es; try lia.
           rewrite (first_child_single l c HL Ea). cbn [RInv r_abs]. split; [|reflexivity].
           apply Forall_cons_iff in HB. apply HB.
        -- destruct (LInv_setleaf l false HL) as [HL' Ea]. cbn [RInv r_abs].
           split; [split; [exact HL'|cbn; lia]|]. rewrite Ea. reflexivity.
    + cbn [RInv r_abs]. split; [split; [exact HL|intros _; apply H2; reflexivity]|rewrite Elf; reflexivity].
Qed.

(* all states reachable from the empty tree *)
Inductive rop := OAdd (k : N) | ODel (k : N) | OAddLeaf | ODelLeaf.
Definition rop_ok (o : rop) : Prop := match o with OAdd k | ODel k => (k < 256)%N | _ => True end.
Definition r_step (r : lroot) (o : rop) : lroot :=
  match o with OAdd k => r_add r k | ODel k => r_del r k | OAddLeaf => r_addleaf r | ODelLeaf => r_delleaf r end.
Definition s_step (s : bool * list N) (o : rop) : bool * list N :=
  match o with
  | OAdd k => (fst s, set_add k (snd s)) | ODel k => (fst s, set_del k (snd s))
  | OAddLeaf => (true, snd s) | ODelLeaf => (false, snd s)
  end.

Theorem r_history : forall ops r, RInv r -> Forall rop_ok ops ->
  RInv (fold_left r_step ops r) /\ r_abs (fold_left r_step ops r) = fold_left s_step ops (r_abs r).
Proof.
  induction ops as [|o ops IH]; intros r HI Hok; cbn [fold_left]; [split; [exact HI|reflexivity]|].
  apply Forall_cons_iff in Hok. destruct Hok as [Ho Hok].
  assert (H : RInv (r_step r o) /\ r_abs (r_step r o) = s_step (r_abs r) o).
  { destruct o as [k|k| |]; cbn [r_step s_step rop_ok] in *.
    - apply r_add_correct; assumption.
    - apply r_del_correct; assumption.
    - apply r_addleaf_correct; assumption.
    - apply r_delleaf_correct; assumption. }
  destruct H as [HI' Ea]. destruct (IH (r_step r o) HI' Hok) as [H1 H2]. split; [exact H1|]. rewrite H2, Ea. reflexivity.
Qed.
