(* Part/Query.v — search refines om_get; the ordered traversal is the (strictly sorted)
   entry list; Iterator.Next agrees with Iterator.All. *)
From SV Require Import Base.Bytes Base.OrdMap Part.Model Part.Sem Part.Insert Part.Delete.
From Coq Require Import ZifyN ZifyNat ZifyBool.
Open Scope N_scope.

(* ---- sortedness of the entry list ---- *)
Definition sep (L1 L2 : list ent) : Prop := forall a b, In a L1 -> In b L2 -> lex_lt (fst a) (fst b).

Lemma om_sorted_app (L1 L2 : list ent) : om_sorted L1 -> om_sorted L2 -> sep L1 L2 -> om_sorted (L1 ++ L2).
Proof.
  induction L1 as [|[k v] L1 IH]; simpl; auto. intros [Ha Hs] H2 Hsep. split.
  - unfold om_above in *. apply Forall_app. split; auto. apply Forall_forall. intros b Hb.
    apply (Hsep (k, v) b); simpl; auto.
  - apply IH; auto. intros a b Ha' Hb. apply Hsep; simpl; auto.
Qed.

Lemma om_sorted_pre p (L : list ent) : om_sorted L -> om_sorted (map (pre p) L).
Proof.
  induction L as [|[k v] L IH]; simpl; auto. intros [Ha Hs]. split; auto.
  unfold om_above in *. apply Forall_map. eapply Forall_impl; [|exact Ha].
  intros [k' v']; simpl. apply lex_lt_app_l.
Qed.

Lemma all_gt_sep_nil v (L : list ent) : all_gt L [] -> sep [([], v)] L.
Proof.
  intros H a b [<-|[]] Hb. unfold all_gt in H. rewrite Forall_forall in H. now apply H.
Qed.

Theorem ents_sorted :
  (forall n acc, wfk acc n -> om_sorted (ents n)) /\
  (forall ch acc, wfk_ch acc ch -> om_sorted (ents_ch ch)).
Proof.
  apply node_children_ind.
  - intros p l acc _. simpl. split; [constructor|exact I].
  - intros kd t p w lf ch IH acc [Hl Hc]. cbn [ents]. apply om_sorted_pre.
    apply om_sorted_app; eauto.
    + destruct lf; simpl; auto. split; [constructor|exact I].
    + destruct lf as [l|]; simpl; [|intros a b []].
      apply all_gt_sep_nil. eapply ents_ch_nil_gt; eauto.
  - intros; exact I.
  - intros b x IHx r IHr acc (Hh & Hx & Hg & Hr). cbn [ents_ch]. apply om_sorted_app; eauto.
    intros a e Ha He. pose proof (ents_starts x b Hh) as St. unfold starts in St. rewrite Forall_forall in St.
    specialize (St a Ha). destruct (fst a) as [|c tl] eqn:Ea; simpl in St; [tauto|]. subst c.
    pose proof (ents_ch_all_gt acc r b tl Hr Hg) as G. unfold all_gt in G. rewrite Forall_forall in G.
    now apply G.
Qed.

(* ---- ordered traversal yields the full keys ---- *)
Theorem entries_ents :
  (forall n acc, wfk acc n -> node_entries n = map (pre acc) (ents n)) /\
  (forall ch acc, wfk_ch acc ch -> ch_entries ch = map (pre acc) (ents_ch ch)).
Proof.
  apply node_children_ind.
  - intros p l acc H. simpl in *. unfold pre; simpl. now rewrite H.
  - intros kd t p w lf ch IH acc [Hl Hc]. cbn [node_entries ents]; fold ch_entries.
    rewrite <- map_pre_app, map_app, (IH _ Hc). f_equal.
    destruct lf as [l|]; simpl; auto. unfold pre; simpl. now rewrite Hl, app_nil_r.
  - reflexivity.
  - intros b x IHx r IHr acc (Hh & Hx & Hg & Hr). cbn [ch_entries ents_ch]; fold node_entries.
    now rewrite map_app, (IHx _ Hx), (IHr _ Hr).
Qed.

(* ---- search ---- *)
Lemma search_ch_find b key w : forall ch,
  search_ch ch b key w = match ch_find b ch with Some x => search_node x key w | None => (None, w) end.
Proof.
  induction ch as [|b' x r IH]; [reflexivity|].
  cbn [search_ch ch_find]; fold search_node; fold search_ch. destruct (b' =? b); auto.
Qed.

Theorem search_spec :
  (forall n acc key w, wfk acc n -> fst (search_node n key w) = om_get key (ents n)) /\
  (forall ch acc x key w, wfk_ch acc ch -> (exists b, ch_find b ch = Some x) ->
     fst (search_node x key w) = om_get key (ents x)).
Proof.
  apply node_children_ind.
  - intros p l acc key w _. cbn [search_node ents om_get].
    destruct (bytes_cmp_cases key p) as [[E ->]|[[E [L _]]|[E [L _]]]]; rewrite E; auto; now rewrite L.
  - intros kd t p w lf ch IH acc key w0 [Hl Hc]. cbn [search_node]; fold search_ch.
    destruct (strip p key) as [[|b rest]|] eqn:Es.
    + apply strip_nil_rest in Es. subst key. cbn [ents]. rewrite om_get_pre_nil.
      destruct lf as [l|]; simpl; auto. symmetry. apply om_get_all_gt. eapply ents_ch_nil_gt; eauto.
    + apply strip_some in Es. subst key. rewrite search_ch_find.
      assert (Lf : all_lt (lfe lf) (b :: rest)) by (destruct lf; simpl; repeat constructor).
      cbn [ents]. rewrite om_get_pre, om_get_app_l by auto.
      destruct (ch_find b ch) as [x|] eqn:Ef.
      * erewrite ch_find_get by eauto. eapply IH; eauto.
      * simpl. symmetry. eapply ch_find_none_get; eauto.
    + cbn [ents fst]. symmetry. now apply om_get_strip_none.
  - intros acc x key w _ [b H]. simpl in H. discriminate.
  - intros b' y IHy r IHr acc x key w (_ & Hy & _ & Hr) [b Hf]. simpl in Hf.
    destruct (b' =? b).
    + injection Hf as <-. eapply IHy; eauto.
    + eapply IHr; eauto.
Qed.
