(* Part/PStable.v — two-key stability for the Prefix search: an Insert/Modify/Delete of key k' on any
   transaction tree leaves the channel Prefix(q) returns unchanged, or records it, or it is the inherited
   (root) channel, or it belongs to a node private to the transaction. *)
From SV Require Import Base.Bytes Base.OrdMap Part.Model Part.Sem Part.Insert Part.Delete Part.Query Part.Refine Part.Cow Part.Watch Part.Stable.
From Coq Require Import ZifyN ZifyNat ZifyBool.
Open Scope N_scope.

Definition pgetw (n : node) (q : bytes) (u : N) : N := snd (prefix_node n q u).
Definition pgetw_ch (ch : children) (b : N) (q : bytes) (u : N) : N := snd (prefix_ch ch b q u).

Lemma pgetw_leaf p l q u : pgetw (Leaf p l) q u = u.
Proof. unfold pgetw. cbn [prefix_node]. destruct (has_prefix p q); reflexivity. Qed.
Lemma pgetw_inner kd t p w lf ch q u :
  pgetw (Inner kd t p w lf ch) q u =
  if has_prefix p q then pick w u
  else match strip p q with
       | Some ((b :: _) as rest) => pgetw_ch ch b rest (pick w u)
       | _ => u
       end.
Proof.
  unfold pgetw, pgetw_ch. cbn [prefix_node]; fold prefix_ch. destruct (has_prefix p q); [reflexivity|].
  destruct (strip p q) as [[|b rest]|]; reflexivity.
Qed.
Lemma pgetw_ch_cons b0 x r b q u : pgetw_ch (CCons b0 x r) b q u = if b0 =? b then pgetw x q u else pgetw_ch r b q u.
Proof. unfold pgetw_ch, pgetw. cbn [prefix_ch]; fold prefix_node; fold prefix_ch. destruct (b0 =? b); reflexivity. Qed.
Lemma pgetw_ch_find ch b q u : pgetw_ch ch b q u = match ch_find b ch with Some x => pgetw x q u | None => u end.
Proof.
  induction ch as [|b0 x r IH]; [reflexivity|]. rewrite pgetw_ch_cons. cbn [ch_find]. destruct (b0 =? b); auto.
Qed.

Lemma pgetw_cases :
  (forall n q u u', (pgetw n q u = u /\ pgetw n q u' = u') \/ pgetw n q u = pgetw n q u') /\
  (forall ch b q u u', (pgetw_ch ch b q u = u /\ pgetw_ch ch b q u' = u') \/ pgetw_ch ch b q u = pgetw_ch ch b q u').
Proof.
  apply node_children_ind.
  - intros p l q u u'. rewrite !pgetw_leaf. auto.
  - intros kd t p w lf ch IH q u u'. rewrite !pgetw_inner.
    destruct (has_prefix p q).
    + destruct (pick_idem w u u') as [[-> ->]|[E _]]; auto.
    + destruct (strip p q) as [[|b rest]|]; auto.
      destruct (pick_idem w u u') as [[-> ->]|[E _]]; [apply IH|]. rewrite E. auto.
  - intros b q u u'. left. split; reflexivity.
  - intros b0 x IHx r IHr b q u u'. rewrite !pgetw_ch_cons. destruct (b0 =? b); [apply IHx|apply IHr].
Qed.

Lemma has_prefix_app_l' cp : forall a b, has_prefix (cp ++ a) (cp ++ b) = has_prefix a b.
Proof. induction cp as [|x cp IH]; intros; simpl; auto. now rewrite N.eqb_refl, IH. Qed.
Lemma strip_app_l cp : forall a b, strip (cp ++ a) (cp ++ b) = strip a b.
Proof. induction cp as [|x cp IH]; intros; simpl; auto. now rewrite N.eqb_refl. Qed.
Lemma pgetw_set_prefix n cp p' qq u : pgetw (set_prefix n (cp ++ p')) (cp ++ qq) u = pgetw (set_prefix n p') qq u.
Proof.
  destruct n as [p l|kd t p w lf ch]; cbn [set_prefix].
  - now rewrite !pgetw_leaf.
  - rewrite !pgetw_inner. now rewrite has_prefix_app_l', strip_app_l.
Qed.
Lemma pgetw_merge p x rest u : pgetw (merge_child p x) (p ++ rest) u = pgetw x rest u.
Proof.
  unfold merge_child. rewrite pgetw_set_prefix. rewrite <- (app_nil_l (node_prefix x)), <- (app_nil_l rest) at 1.
  now rewrite set_prefix_id.
Qed.
Lemma has_prefix_longer cp x xs : has_prefix cp (cp ++ x :: xs) = false.
Proof. induction cp as [|c0 cp IH]; simpl; auto. now rewrite N.eqb_refl. Qed.

Section PStab.
Variable c : ctx.
Variable md : option (N -> N -> N).
Variable fullKey : bytes.
Variable v : N.
Hypothesis Hc0 : c_tid c <> 0.
Variable F : N -> Prop.
Notation privF := (privF c F).
Notation privF_ch := (privF_ch c F).
Notation stab := (stab F).

(* below the node created by a prefix split, a query that runs through the old node's whole prefix sees the old
   node (with some inherited channel) *)
Lemma split_pgetw s this key b rest u' :
  (is_leaf this = true /\ key <> node_prefix this) \/ strip (node_prefix this) key = None ->
  exists u'', pgetw (m_node (split_node c fullKey v s this key)) (node_prefix this ++ b :: rest) u' =
              pgetw this (node_prefix this ++ b :: rest) u''.
Proof.
  intros Hc. unfold split_node. cbv zeta.
  destruct (common_split key (node_prefix this)) as (k' & p' & Ek & Ep & Hd).
  set (cp := common key (node_prefix this)) in *. clearbody cp.
  destruct (fresh c s) as [lw s1]. destruct (fresh c s1) as [nw s2].
  assert (Sk : skipn (length cp) key = k') by (rewrite Ek; apply skipn_app_len).
  assert (Sp : skipn (length cp) (node_prefix this) = p') by (rewrite Ep; apply skipn_app_len).
  rewrite Sp, Sk. clear Sp Sk.
  assert (Hpp : node_prefix (set_prefix this p') = p') by (destruct this; reflexivity).
  rewrite Hpp. cbn [m_node].
  assert (Ethis : set_prefix this (cp ++ p') = this) by (rewrite <- Ep; apply set_prefix_id).
  destruct p' as [|tb p'].
  - destruct Hc as [[Hl Hne]|Hs].
    2:{ rewrite Ep, Ek, app_nil_r, strip_app in Hs. discriminate. }
    destruct this as [p l|]; [|discriminate]. eexists. rewrite (pgetw_leaf p l). reflexivity.
  - exists (pick nw u'). rewrite Ep, <- app_assoc. cbn [app].
    assert (Hf : forall lf ch, ch_find tb ch = Some (set_prefix this (tb :: p')) ->
              pgetw (Inner 4 (c_tid c) cp nw lf ch) (cp ++ tb :: p' ++ b :: rest) u' =
              pgetw this (cp ++ tb :: p' ++ b :: rest) (pick nw u')).
    { intros lf ch Hf. rewrite pgetw_inner, has_prefix_longer, strip_app.
      rewrite pgetw_ch_find, Hf. rewrite <- Ethis at 2.
      change (tb :: p' ++ b :: rest) with ((tb :: p') ++ b :: rest). now rewrite pgetw_set_prefix. }
    destruct k' as [|kb k'].
    + apply Hf. simpl. now rewrite N.eqb_refl.
    + simpl in Hd. destruct (tb <? kb); apply Hf; simpl.
      * now rewrite N.eqb_refl.
      * destruct (N.eqb_spec kb tb); [congruence|]. now rewrite N.eqb_refl.
Qed.

Theorem modify_pstable :
  (forall n s k' q u u', privF n ->
     stab (pgetw n q u) u (pgetw (m_node (modify_node c md fullKey v s n k')) q u') (m_st (modify_node c md fullKey v s n k'))) /\
  (forall ch s b' k' b q u u', privF_ch ch ->
     match modify_ch c md fullKey v s ch b' k' with
     | Some (ch', r) => stab (pgetw_ch ch b q u) u (pgetw_ch ch' b q u') (m_st r)
     | None => True
     end).
Proof.
  apply node_children_ind.
  - intros p l s k' q u u' _. left. apply pgetw_leaf.
  - intros kd t p w lf ch IH s k' q u u' [Hp Hc]. cbn [modify_node]; fold (modify_ch c md fullKey v).
    pose proof (own_recorded c F s t w) as OR.
    (* generic rebuild with the same prefix *)
    assert (Fin : forall kd2 t2 w2 lf2 ch2 s2, (w <> 0 -> In w (s_ws s2) \/ F w) ->
              (forall b rest, strip p q = Some (b :: rest) ->
                 stab (pgetw_ch ch b (b :: rest) (pick w u)) (pick w u) (pgetw_ch ch2 b (b :: rest) (pick w2 u')) s2) ->
              stab (pgetw (Inner kd t p w lf ch) q u) u (pgetw (Inner kd2 t2 p w2 lf2 ch2) q u') s2).
    { intros kd2 t2 w2 lf2 ch2 s2 NR Hch. rewrite !pgetw_inner. destruct (has_prefix p q).
      - eapply own_inherited; eauto.
      - destruct (strip p q) as [[|b rest]|]; [left; reflexivity| |left; reflexivity].
        destruct (Hch b rest eq_refl) as [E|[E|[E|E]]]; unfold Stable.stab; auto.
        eapply own_inherited; eauto. }
    assert (Same : forall w2 s2 b rest,
              stab (pgetw_ch ch b (b :: rest) (pick w u)) (pick w u) (pgetw_ch ch b (b :: rest) (pick w2 u')) s2).
    { intros w2 s2 b rest. destruct (proj2 pgetw_cases ch b (b :: rest) (pick w u) (pick w2 u')) as [[E1 _]|E];
        [left; auto|right; left; auto]. }
    destruct (strip p k') as [[|b' rest']|] eqn:Es'.
    + destruct (clone_hdr c s t w) as [[t' w'] s1] eqn:Ec. cbn [snd] in OR.
      destruct lf as [l|].
      * pose proof (clone_leaf_mono c s1 l) as M. destruct (clone_leaf c s1 l) as [l' s2]. cbn [m_node m_st snd] in *.
        apply Fin; auto.
      * pose proof (fresh_mono c s1) as M. destruct (fresh c s1) as [lw s2]. cbn [m_node m_st snd] in *.
        apply Fin; auto.
    + destruct (clone_hdr c s t w) as [[t' w'] s1] eqn:Ec. cbn [snd] in OR.
      pose proof (proj2 (modify_mono c md fullKey v) ch s1 b' (b' :: rest')) as Mch.
      specialize (IH s1 b' (b' :: rest')).
      destruct (modify_ch c md fullKey v s1 ch b' (b' :: rest')) as [[ch' r]|] eqn:Em.
      * cbn [m_node m_st]. apply Fin; [apply OR; auto|]. intros b rest _. apply IH. exact Hc.
      * apply modify_ch_none in Em.
        assert (Hins : forall x b rest w2 s2,
                  stab (pgetw_ch ch b (b :: rest) (pick w u)) (pick w u)
                       (pgetw_ch (ch_insert b' x ch) b (b :: rest) (pick w2 u')) s2).
        { intros x b rest w2 s2. rewrite !pgetw_ch_find. destruct (N.eq_dec b b') as [->|Hne].
          - rewrite Em. left. reflexivity.
          - rewrite ch_find_insert_other by auto. destruct (ch_find b ch) as [y|]; [|left; reflexivity].
            destruct (proj1 pgetw_cases y (b :: rest) (pick w u) (pick w2 u')) as [[E1 _]|E]; [left; auto|right; left; auto]. }
        destruct (kd <? ch_len ch + 1).
        -- pose proof (fresh_if_mono w (record w s)) as F1. destruct (fresh_if w (record w s)) as [w2 s2].
           pose proof (fresh_mono c s2) as F2. destruct (fresh c s2) as [lw s3]. cbn [m_node m_st snd] in *.
           apply Fin; auto. intros Hn. left. apply F2, F1. now apply record_in.
        -- pose proof (fresh_mono c s1) as F2. destruct (fresh c s1) as [lw s3]. cbn [m_node m_st snd] in *.
           apply Fin; auto.
    + destruct (clone_hdr c s t w) as [[t' w'] s1] eqn:Ec. cbn [snd] in OR.
      pose proof (split_mono c fullKey v s1 (Inner kd t' p w' lf ch) k') as Ms.
      assert (NR : w <> 0 -> In w (s_ws (m_st (split_node c fullKey v s1 (Inner kd t' p w' lf ch) k'))) \/ F w)
        by (apply OR; auto).
      rewrite (pgetw_inner kd t p w lf ch). destruct (has_prefix p q) eqn:Hq.
      * eapply own_inherited; eauto.
      * destruct (strip p q) as [[|b rest]|] eqn:Es; [left; reflexivity| |left; reflexivity].
        apply strip_some in Es. subst q.
        destruct (split_pgetw s1 (Inner kd t' p w' lf ch) k' b rest u' (or_intror Es')) as [u'' E]. cbn [node_prefix] in E.
        rewrite E, pgetw_inner, Hq, strip_app.
        destruct (proj2 pgetw_cases ch b (b :: rest) (pick w u) (pick w' u'')) as [[E1 _]|E1].
        -- eapply own_inherited; eauto.
        -- right. left. auto.
  - intros; exact I.
  - intros b0 x IHx r IHr s b' k' b q u u' [Hx Hr]. cbn [modify_ch]; fold (modify_node c md fullKey v); fold (modify_ch c md fullKey v).
    destruct (b0 =? b') eqn:Eb'.
    + rewrite !pgetw_ch_cons. destruct (b0 =? b).
      * apply IHx. exact Hx.
      * destruct (proj2 pgetw_cases r b q u u') as [[E1 _]|E]; [left; exact E1|right; left; symmetry; exact E].
    + specialize (IHr s b' k' b q u u' Hr).
      destruct (modify_ch c md fullKey v s r b' k') as [[r' res]|]; [|exact I].
      rewrite !pgetw_ch_cons. destruct (b0 =? b).
      * destruct (proj1 pgetw_cases x q u u') as [[E1 _]|E]; [left; exact E1|right; left; symmetry; exact E].
      * exact IHr.
Qed.
End PStab.

Section PStabDel.
Variable c : ctx.
Hypothesis Hc0 : c_tid c <> 0.
Variable F : N -> Prop.
Notation privF := (privF c F).
Notation privF_ch := (privF_ch c F).
Notation stab := (stab F).

Definition dpstab (n : node) (q : bytes) (u : N) (r : dres) : Prop :=
  match r with
  | DNone => True
  | DSome _ (Some n') s' _ => forall u', stab (pgetw n q u) u (pgetw n' q u') s'
  | DSome _ None s' _ => pgetw n q u = u \/ In (pgetw n q u) (s_ws s') \/ F (pgetw n q u)
  end.

Lemma pview kd t p w lf ch q u :
  pgetw (Inner kd t p w lf ch) q u = u \/
  (has_prefix p q = true /\ pgetw (Inner kd t p w lf ch) q u = pick w u) \/
  (exists b rest, has_prefix p q = false /\ strip p q = Some (b :: rest) /\
                  pgetw (Inner kd t p w lf ch) q u = pgetw_ch ch b (b :: rest) (pick w u)).
Proof.
  rewrite pgetw_inner. destruct (has_prefix p q); auto.
  destruct (strip p q) as [[|b rest]|]; auto. right. right. exists b, rest. auto.
Qed.

Theorem delete_pstable :
  (forall n s k' q u, privF n -> tids_le (c_tid c) n -> tmono n -> dpstab n q u (del_node c s n k')) /\
  (forall ch x s k' q u t, (exists b, ch_find b ch = Some x) -> privF_ch ch -> tids_le_ch (c_tid c) ch ->
     tmono_ch t ch -> dpstab x q u (del_node c s x k')).
Proof.
  apply node_children_ind.
  - intros p l s k' q u _ _ _. cbn [del_node]. destruct (bytes_eqb k' p); [|exact I]. cbn [dpstab].
    left. apply pgetw_leaf.
  - intros kd t p w lf ch IH s k' q u [Hp Hc] [Ht Hlc] Hm. cbn [del_node]; fold (del_ch c).
    pose proof (own_recorded c F) as OR.
    destruct (strip p k') as [[|b' rest']|] eqn:Es'; [| |exact I].
    + destruct lf as [l|]; [|exact I].
      destruct ch as [|b1 x1 [|b2 x2 r]].
      * cbn [dpstab]. set (s' := record w (record (lf_w l) s)).
        assert (NR : w <> 0 -> In w (s_ws s') \/ F w) by (intros Hn; left; now apply record_in).
        destruct (pview kd t p w (Some l) CNil q u) as [E|[[_ E]|(b & rest & _ & _ & E)]]; auto.
        -- rewrite E. eapply own3; eauto.
        -- rewrite E. unfold pgetw_ch. cbn [prefix_ch snd]. eapply own3; eauto.
      * cbn [dpstab]. intros u'. set (s' := record w (record (lf_w l) s)).
        assert (NR : w <> 0 -> In w (s_ws s') \/ F w) by (intros Hn; left; now apply record_in).
        destruct (pview kd t p w (Some l) (CCons b1 x1 CNil) q u) as [E|[[_ E]|(b & rest & _ & Es & E)]].
        -- left. exact E.
        -- apply stab_of3. rewrite E. eapply own3; eauto.
        -- rewrite E. apply strip_some in Es. subst q. rewrite pgetw_merge, pgetw_ch_cons.
           destruct (b1 =? b).
           ++ destruct (proj1 pgetw_cases x1 (b :: rest) (pick w u) u') as [[E1 _]|E1].
              ** apply stab_of3. eapply own3; eauto.
              ** right. left. auto.
           ++ apply stab_of3. eapply own3; eauto; try reflexivity.
      * pose proof (clone_hdr_mono c (record (lf_w l) s) t w) as M1. specialize (OR (record (lf_w l) s) t w).
        destruct (clone_hdr c (record (lf_w l) s) t w) as [[t' w'] s2]. cbn [dpstab snd] in *. intros u'.
        assert (NR : w <> 0 -> In w (s_ws s2) \/ F w) by (apply OR; auto; apply ws_mono_refl).
        destruct (pview kd t p w (Some l) (CCons b1 x1 (CCons b2 x2 r)) q u) as [E|[[_ E]|(b & rest & Hq & Es & E)]].
        -- left. exact E.
        -- apply stab_of3. rewrite E. eapply own3; eauto.
        -- rewrite E, pgetw_inner, Hq, Es.
           destruct (proj2 pgetw_cases (CCons b1 x1 (CCons b2 x2 r)) b (b :: rest) (pick w u) (pick w' u')) as [[E1 _]|E1].
           ++ apply stab_of3. eapply own3; eauto.
           ++ right. left. auto.
    + rewrite del_ch_find. destruct (ch_find b' ch) as [x|] eqn:Ef; [|exact I].
      destruct (tmono_ch_find t b' ch x Hm Ef) as [Hxt Hxm].
      pose proof (tids_ch_find (c_tid c) b' ch x Hlc Ef) as Hxl.
      assert (IHx : forall q0 u0, dpstab x q0 u0 (del_node c s x (b' :: rest')))
        by (intros q0 u0; eapply IH; eauto).
      pose proof (proj1 (delete_mono c) x s (b' :: rest')) as Mx.
      pose proof (proj1 (del_inplace_owned c Hc0 F) x s (b' :: rest')) as Ipx.
      destruct (del_node c s x (b' :: rest')) as [|old repl s1 ip] eqn:Ed; [exact I|]. cbn [dmono] in Mx.
      assert (Reb : forall kd2 t2 w2 ch2 s2 u', (w <> 0 -> In w (s_ws s2) \/ F w) ->
                (forall b, b <> b' -> ch_find b ch2 = ch_find b ch) ->
                (forall rest, strip p q = Some (b' :: rest) ->
                   stab (pgetw x (b' :: rest) (pick w u)) (pick w u) (pgetw_ch ch2 b' (b' :: rest) (pick w2 u')) s2) ->
                stab (pgetw (Inner kd t p w lf ch) q u) u (pgetw (Inner kd2 t2 p w2 lf ch2) q u') s2).
      { intros kd2 t2 w2 ch2 s2 u' NR Hoth Hsame.
        destruct (pview kd t p w lf ch q u) as [E|[[_ E]|(b & rest & Hq & Es & E)]].
        - left. exact E.
        - apply stab_of3. rewrite E. eapply own3; eauto.
        - rewrite E, pgetw_inner, Hq, Es. destruct (N.eq_dec b b') as [->|Hne].
          + rewrite (pgetw_ch_find ch), Ef. destruct (Hsame rest Es) as [E1|[E1|[E1|E1]]].
            * apply stab_of3. eapply own3; eauto.
            * right. left. auto.
            * right. right. left. auto.
            * right. right. right. auto.
          + rewrite !pgetw_ch_find, (Hoth b Hne). destruct (ch_find b ch) as [y|].
            * destruct (proj1 pgetw_cases y (b :: rest) (pick w u) (pick w2 u')) as [[E1 _]|E1].
              -- apply stab_of3. eapply own3; eauto.
              -- right. left. auto.
            * apply stab_of3. eapply own3; eauto; try reflexivity. }
      destruct repl as [x'|].
      * assert (Hset : forall b, b <> b' -> ch_find b (ch_set b' x' ch) = ch_find b ch).
        { intros b Hne. rewrite (ch_find_set b b' x' ch x Ef). destruct (N.eqb_spec b b'); congruence. }
        assert (Hsm : forall w2 u' s2, ws_mono s1 s2 -> forall rest, strip p q = Some (b' :: rest) ->
                  stab (pgetw x (b' :: rest) (pick w u)) (pick w u) (pgetw_ch (ch_set b' x' ch) b' (b' :: rest) (pick w2 u')) s2).
        { intros w2 u' s2 M rest _. rewrite pgetw_ch_find, (ch_find_set b' b' x' ch x Ef), N.eqb_refl.
          pose proof (IHx (b' :: rest) (pick w u)) as D. cbn [dpstab] in D.
          destruct (D (pick w2 u')) as [E1|[E1|[E1|E1]]]; unfold Stable.stab; auto. }
        destruct ip.
        -- cbn [dpstab]. intros u'.
           assert (Et : t = c_tid c).
           { pose proof (Ipx old (Some x') s1 Hxl Hxm eq_refl) as E. lia. }
           assert (NR : w <> 0 -> In w (s_ws s1) \/ F w) by (intros Hn; destruct (Hp Et); [congruence|auto]).
           apply Reb; auto; try (apply Hsm; apply ws_mono_refl).
        -- pose proof (clone_hdr_mono c s1 t w) as M1. specialize (OR s1 t w).
           destruct (clone_hdr c s1 t w) as [[t' w'] s2]. cbn [dpstab snd] in *. intros u'.
           apply Reb; auto; try (apply Hsm; exact M1). apply OR; auto; apply ws_mono_refl.
      * assert (Gone : forall rest s2, ws_mono s1 s2 ->
                  pgetw x (b' :: rest) (pick w u) = pick w u \/ In (pgetw x (b' :: rest) (pick w u)) (s_ws s2) \/ F (pgetw x (b' :: rest) (pick w u))).
        { intros rest s2 M. pose proof (IHx (b' :: rest) (pick w u)) as D. cbn [dpstab] in D.
          destruct D as [E|[E|E]]; auto. }
        unfold remove_child.
        assert (Generic : forall kd2 t2 w2 s2 ip2, ws_mono s1 s2 -> (w <> 0 -> In w (s_ws s2) \/ F w) ->
                  dpstab (Inner kd t p w lf ch) q u (DSome old (Some (Inner kd2 t2 p w2 lf (ch_remove b' ch))) s2 ip2)).
        { intros kd2 t2 w2 s2 ip2 M NR. cbn [dpstab]. intros u'. apply Reb; auto.
          - intros b Hne. now apply ch_find_remove_other.
          - intros rest _. apply stab_of3. destruct (Gone rest s2 M) as [E|[E|E]]; auto. }
        destruct (ch_len ch =? 2) eqn:E2; [destruct lf as [l|]; [|destruct (ch_other b' ch) as [y|] eqn:Eo]|].
        2:{ cbn [dpstab fst snd]. intros u'. set (s2 := record w s1).
          assert (M : ws_mono s1 s2) by apply record_mono.
          assert (NR : w <> 0 -> In w (s_ws s2) \/ F w) by (intros Hn; left; now apply record_in).
          destruct (pview kd t p w None ch q u) as [E|[[_ E]|(b & rest & Hq & Es & E)]].
          - left. exact E.
          - apply stab_of3. rewrite E. eapply own3; eauto.
          - rewrite E. apply strip_some in Es. subst q. rewrite pgetw_merge.
            apply N.eqb_eq in E2.
            destruct ch as [|c1 y1 [|c2 y2 [|c3 y3 r]]]; cbn [ch_len] in E2; try lia.
            rewrite !pgetw_ch_cons. cbn [ch_other ch_find] in Eo, Ef.
            assert (Nil : forall uu, pgetw_ch CNil b (b :: rest) uu = uu) by reflexivity. rewrite Nil.
            destruct (N.eqb_spec c1 b') as [->|N1].
            + injection Ef as <-. destruct (N.eqb_spec c2 b') as [->|N2]; [discriminate|]. injection Eo as <-.
              destruct (N.eqb_spec b' b) as [<-|N3].
              * apply stab_of3. destruct (Gone rest s2 M) as [E1|[E1|E1]]; auto. eapply own3; eauto.
              * destruct (c2 =? b).
                -- destruct (proj1 pgetw_cases y2 (b :: rest) (pick w u) u') as [[E1 _]|E1].
                   ++ apply stab_of3. eapply own3; eauto.
                   ++ right. left. auto.
                -- apply stab_of3. eapply own3; eauto; try reflexivity.
            + injection Eo as <-. destruct (N.eqb_spec c2 b') as [->|N2]; [|discriminate]. injection Ef as <-.
              destruct (N.eqb_spec c1 b) as [<-|N3].
              * destruct (proj1 pgetw_cases y1 (c1 :: rest) (pick w u) u') as [[E1 _]|E1].
                -- apply stab_of3. eapply own3; eauto.
                -- right. left. auto.
              * destruct (N.eqb_spec b' b) as [<-|N4].
                -- apply stab_of3. destruct (Gone rest s2 M) as [E1|[E1|E1]]; auto. eapply own3; eauto.
                -- apply stab_of3. eapply own3; eauto; try reflexivity. }
        all: destruct (_ || _);
          [pose proof (fresh_if_mono w s1) as F1; destruct (fresh_if w s1) as [w2 s2]; cbn [fst snd];
           apply Generic; [eapply ws_mono_trans; [exact F1|apply record_mono]|intros Hn; left; now apply record_in]
          |pose proof (clone_hdr_mono c s1 t w) as M1; specialize (OR s1 t w);
           destruct (clone_hdr c s1 t w) as [[t' w'] s2]; cbn [fst snd] in *;
           apply Generic; [exact M1|apply OR; auto; apply ws_mono_refl]].
  - intros x s k' q u t [b H]. simpl in H. discriminate.
  - intros b0 y IHy r IHr x s k' q u t [b Hf] [Py Pr] [Ly Lr] (M1 & M2 & M3). simpl in Hf.
    destruct (b0 =? b).
    + injection Hf as <-. apply IHy; auto.
    + eapply IHr; eauto.
Qed.
End PStabDel.

(* ---- every inner node visited on the way to the changed key is recorded or private (any txn tree) ---- *)
Lemma visit_ch_find ch b key : visit_ch ch b key = match ch_find b ch with Some x => visit x key | None => [] end.
Proof.
  induction ch as [|b0 x r IH]; [reflexivity|]. cbn [visit_ch ch_find]; fold visit; fold visit_ch.
  destruct (b0 =? b); auto.
Qed.

Section VisitGen.
Variable c : ctx.
Variable md : option (N -> N -> N).
Variable fullKey : bytes.
Variable v : N.
Hypothesis Hc0 : c_tid c <> 0.
Variable F : N -> Prop.
Notation privF := (privF c F).
Notation privF_ch := (privF_ch c F).

Definition vrec (l : list N) (s' : st) : Prop := forall a, In a l -> a <> 0 -> In a (s_ws s') \/ F a.

Theorem modify_visit_gen :
  (forall n s key, privF n -> vrec (visit n key) (m_st (modify_node c md fullKey v s n key))) /\
  (forall ch s b key, privF_ch ch ->
     match modify_ch c md fullKey v s ch b key with
     | Some (_, r) => vrec (visit_ch ch b key) (m_st r)
     | None => True
     end).
Proof.
  apply node_children_ind.
  - intros p l s key _ a [].
  - intros kd t p w lf ch IH s key [Hp Hc]. cbn [modify_node visit]; fold (modify_ch c md fullKey v); fold visit_ch.
    pose proof (fun s9 => own_recorded c F s t w s9 Hp) as OR.
    destruct (strip p key) as [[|b rest]|].
    + destruct (clone_hdr c s t w) as [[t' w'] s1]. cbn [snd] in OR. destruct lf as [l|].
      * pose proof (clone_leaf_mono c s1 l) as M. destruct (clone_leaf c s1 l) as [l' s2]. cbn [m_st snd] in *.
        intros a [<-|[]] Hn. apply OR; auto.
      * pose proof (fresh_mono c s1) as M. destruct (fresh c s1) as [lw s2]. cbn [m_st snd] in *.
        intros a [<-|[]] Hn. apply OR; auto.
    + destruct (clone_hdr c s t w) as [[t' w'] s1] eqn:Ec. cbn [snd] in OR.
      specialize (IH s1 b (b :: rest) Hc).
      pose proof (proj2 (modify_mono c md fullKey v) ch s1 b (b :: rest)) as Mch.
      destruct (modify_ch c md fullKey v s1 ch b (b :: rest)) as [[ch' r]|] eqn:Em.
      * cbn [m_st]. intros a [<-|Ha] Hn; [apply OR; auto|apply IH; auto].
      * apply modify_ch_none in Em. rewrite visit_ch_find, Em.
        destruct (kd <? ch_len ch + 1).
        -- pose proof (fresh_if_mono w (record w s)) as F1. destruct (fresh_if w (record w s)) as [w2 s2].
           pose proof (fresh_mono c s2) as F2. destruct (fresh c s2) as [lw s3]. cbn [m_st snd] in *.
           intros a [<-|[]] Hn. left. apply F2, F1. now apply record_in.
        -- pose proof (fresh_mono c s1) as F2. destruct (fresh c s1) as [lw s3]. cbn [m_st snd] in *.
           intros a [<-|[]] Hn. apply OR; auto.
    + destruct (clone_hdr c s t w) as [[t' w'] s']. cbn [snd] in OR.
      pose proof (split_mono c fullKey v s' (Inner kd t' p w' lf ch) key) as Ms.
      intros a [<-|[]] Hn. apply OR; auto.
  - intros; exact I.
  - intros b0 x IHx r IHr s b key [Hx Hr]. cbn [modify_ch visit_ch]; fold (modify_node c md fullKey v);
      fold (modify_ch c md fullKey v); fold visit; fold visit_ch.
    destruct (b0 =? b).
    + apply IHx. exact Hx.
    + specialize (IHr s b key Hr). destruct (modify_ch c md fullKey v s r b key) as [[r' res]|]; auto.
Qed.

Theorem delete_visit_gen :
  (forall n s key, privF n -> tids_le (c_tid c) n -> tmono n ->
     match del_node c s n key with DSome _ _ s' _ => vrec (visit n key) s' | DNone => True end) /\
  (forall ch s b key t, privF_ch ch -> tids_le_ch (c_tid c) ch -> tmono_ch t ch ->
     match del_ch c s ch b key with DSome _ _ s' _ => vrec (visit_ch ch b key) s' | DNone => True end).
Proof.
  apply node_children_ind.
  - intros p l s key _ _ _. cbn [del_node]. destruct (bytes_eqb key p); [|exact I]. intros a [].
  - intros kd t p w lf ch IH s key [Hp Hc] [Ht Hlc] Hm. cbn [del_node visit]; fold (del_ch c); fold visit_ch.
    destruct (strip p key) as [[|b rest]|]; [| |exact I].
    + destruct lf as [l|]; [|exact I].
      destruct ch as [|b1 x1 [|b2 x2 r]].
      * intros a [<-|[]] Hn. left. now apply record_in.
      * intros a [<-|[]] Hn. left. now apply record_in.
      * pose proof (fun s9 => own_recorded c F (record (lf_w l) s) t w s9 Hp) as OR.
        destruct (clone_hdr c (record (lf_w l) s) t w) as [[t' w'] s2]. cbn [snd] in OR.
        intros a [<-|[]] Hn. apply OR; auto. apply ws_mono_refl.
    + specialize (IH s b (b :: rest) t Hc Hlc Hm).
      pose proof (proj2 (del_inplace_owned c Hc0 F) ch s b (b :: rest)) as Ipx.
      destruct (del_ch c s ch b (b :: rest)) as [|old repl s1 ip] eqn:Ed; [exact I|].
      assert (Fin : forall s2, ws_mono s1 s2 -> (w <> 0 -> In w (s_ws s2) \/ F w) -> vrec (w :: visit_ch ch b (b :: rest)) s2).
      { intros s2 M NR a [<-|Ha] Hn; auto. destruct (IH a Ha Hn); auto. }
      destruct repl as [x'|].
      * destruct ip.
        -- apply Fin; [apply ws_mono_refl|]. assert (Et : t = c_tid c) by (eapply Ipx; eauto).
           intros Hn. destruct (Hp Et); [congruence|auto].
        -- pose proof (clone_hdr_mono c s1 t w) as M1. pose proof (fun s9 => own_recorded c F s1 t w s9 Hp) as OR.
           destruct (clone_hdr c s1 t w) as [[t' w'] s2]. cbn [snd] in *. apply Fin; auto. apply OR. apply ws_mono_refl.
      * pose proof (remove_child_mono c s1 kd t p w lf ch b) as M1.
        assert (NR : w <> 0 -> In w (s_ws (snd (fst (remove_child c s1 kd t p w lf ch b)))) \/ F w).
        { unfold remove_child. pose proof (fun s9 => own_recorded c F s1 t w s9 Hp) as OR.
          destruct (ch_len ch =? 2); [destruct lf; [|destruct (ch_other b ch)]|].
          2:{ cbn [fst snd]. intros Hn. left. now apply record_in. }
          all: destruct (_ || _);
            [destruct (fresh_if w s1) as [w2 s2]; cbn [fst snd]; intros Hn; left; now apply record_in
            |destruct (clone_hdr c s1 t w) as [[t' w'] s2]; cbn [fst snd] in *; apply OR; apply ws_mono_refl]. }
        destruct (remove_child c s1 kd t p w lf ch b) as [[n' s2] ip']. cbn [fst snd] in *. apply Fin; auto.
  - intros; exact I.
  - intros b0 x IHx r IHr s b key t [Px Pr] [Lx Lr] (M1 & M2 & M3).
    cbn [del_ch visit_ch]; fold (del_node c); fold (del_ch c); fold visit; fold visit_ch.
    destruct (b0 =? b).
    + apply IHx; auto.
    + eapply IHr; eauto.
Qed.
End VisitGen.
