(* Part/Cow.v — the txn-id (copy-on-write) discipline of part.Txn.
   In the Go code a node is mutated in place exactly when node.txnID = txn.txnID
   (cloneNode returns its argument); in the model this is the identity branch of
   clone_hdr / clone_leaf. The theorems: (1) every node of a txn's tree has id <= txn id;
   (2) every root handed out (Clone, Iterator, Prefix, LowerBound, All, Commit) is handed out
   together with an id bump, so all its nodes have ids < every later txn id of that txn and of
   every txn begun from the committed tree; (3) consequently cloneNode never takes the
   in-place branch on a node of a handed-out root. *)
From SV Require Import Base.Bytes Part.Model Part.Sem.
From Coq Require Import ZifyN ZifyNat ZifyBool.
Open Scope N_scope.

Fixpoint tids_le (T : N) (n : node) : Prop :=
  match n with
  | Leaf _ _ => True
  | Inner _ t _ _ _ ch => t <= T /\ tids_le_ch T ch
  end
with tids_le_ch (T : N) (ch : children) : Prop :=
  match ch with CNil => True | CCons _ x r => tids_le T x /\ tids_le_ch T r end.

Lemma tids_le_mono :
  (forall n T T', T <= T' -> tids_le T n -> tids_le T' n) /\
  (forall ch T T', T <= T' -> tids_le_ch T ch -> tids_le_ch T' ch).
Proof.
  apply node_children_ind; simpl; auto.
  - intros kd t p w lf ch IH T T' H [H1 H2]. split; [lia|eauto].
  - intros b x IHx r IHr T T' H [H1 H2]. split; eauto.
Qed.

Lemma tids_set_prefix T n q : tids_le T (set_prefix n q) <-> tids_le T n.
Proof. destruct n; simpl; tauto. Qed.
Lemma tids_ch_insert T b p l : forall ch, tids_le_ch T ch -> tids_le_ch T (ch_insert b (Leaf p l) ch).
Proof. induction ch as [|b' x r IH]; simpl; auto. intros [H1 H2]. destruct (b <? b'); simpl; auto. Qed.
Lemma tids_ch_set T b y : forall ch, tids_le T y -> tids_le_ch T ch -> tids_le_ch T (ch_set b y ch).
Proof. induction ch as [|b' x r IH]; simpl; auto. intros Hy [H1 H2]. destruct (b' =? b); simpl; auto. Qed.
Lemma tids_ch_remove T b : forall ch, tids_le_ch T ch -> tids_le_ch T (ch_remove b ch).
Proof. induction ch as [|b' x r IH]; simpl; auto. intros [H1 H2]. destruct (b' =? b); simpl; auto. Qed.
Lemma tids_ch_other T b : forall ch x, tids_le_ch T ch -> ch_other b ch = Some x -> tids_le T x.
Proof.
  induction ch as [|b' y r IH]; simpl; [discriminate|]. intros x [H1 H2]. destruct (b' =? b); eauto.
  intros [= <-]. auto.
Qed.
Lemma tids_ch_find T b : forall ch x, tids_le_ch T ch -> ch_find b ch = Some x -> tids_le T x.
Proof.
  induction ch as [|b' y r IH]; simpl; [discriminate|]. intros x [H1 H2]. destruct (b' =? b); eauto.
  intros [= <-]. auto.
Qed.

Section Ids.
Variable c : ctx.
Notation T := (c_tid c).

Lemma clone_hdr_tid s t w : t <= T -> fst (fst (clone_hdr c s t w)) <= T.
Proof. unfold clone_hdr. destruct (t =? T); simpl; [auto|]. destruct (fresh c _); simpl. lia. Qed.

(* cloneNode is the identity (in-place mutation) only on nodes owned by the txn *)
Lemma clone_hdr_inplace_only s t w : t <> T -> fst (fst (clone_hdr c s t w)) = T /\
  s_ws (snd (clone_hdr c s t w)) = s_ws (record w s).
Proof.
  intros H. unfold clone_hdr. apply N.eqb_neq in H. rewrite H. unfold fresh.
  destruct (c_ro c); simpl; auto.
Qed.
Lemma clone_leaf_inplace_only s l : T <> 0 -> s_ws (snd (clone_leaf c s l)) = s_ws (record (lf_w l) s).
Proof.
  intros H. unfold clone_leaf. destruct (N.eqb_spec 0 T) as [E|_]; [congruence|]. unfold fresh.
  destruct (c_ro c); simpl; auto.
Qed.

Section Mod.
Variable md : option (N -> N -> N).
Variable fullKey : bytes.
Variable v : N.

Lemma split_tids s this key : tids_le T this -> tids_le T (m_node (split_node c fullKey v s this key)).
Proof.
  intros H. unfold split_node. cbv zeta. destruct (fresh c s) as [lw s1]. destruct (fresh c s1) as [nw s2].
  cbn [m_node].
  set (this' := set_prefix this _). assert (H' : tids_le T this') by now apply tids_set_prefix.
  destruct (node_prefix this') as [|tb tl]; [|destruct (skipn _ key) as [|kb kl]; [|destruct (tb <? kb)]];
    simpl; repeat split; auto; lia.
Qed.

Theorem modify_tids :
  (forall n s key, tids_le T n -> tids_le T (m_node (modify_node c md fullKey v s n key))) /\
  (forall ch s b key, tids_le_ch T ch ->
     match modify_ch c md fullKey v s ch b key with Some (ch', _) => tids_le_ch T ch' | None => True end).
Proof.
  apply node_children_ind.
  - intros p l s key _. cbn [modify_node]. destruct (bytes_eqb key p).
    + destruct (clone_leaf c s l). exact I.
    + now apply split_tids.
  - intros kd t p w lf ch IH s key [Ht Hc]. cbn [modify_node]; fold (modify_ch c md fullKey v).
    pose proof (clone_hdr_tid s t w Ht) as Hcl.
    destruct (strip p key) as [[|b rest]|].
    + destruct (clone_hdr c s t w) as [[t' w'] s1]. simpl in Hcl.
      destruct lf as [l|]; [destruct (clone_leaf c s1 l)|destruct (fresh c s1)]; simpl; auto.
    + destruct (clone_hdr c s t w) as [[t' w'] s1] eqn:Ec. simpl in Hcl.
      specialize (IH s1 b (b :: rest) Hc).
      destruct (modify_ch c md fullKey v s1 ch b (b :: rest)) as [[ch' r]|].
      * simpl. auto.
      * destruct (kd <? ch_len ch + 1).
        -- destruct (fresh_if w (record w s)) as [w2 s2]. destruct (fresh c s2) as [lw s3]. simpl.
           split; [lia|]. now apply tids_ch_insert.
        -- destruct (fresh c s1) as [lw s3]. simpl. split; auto. now apply tids_ch_insert.
    + destruct (clone_hdr c s t w) as [[t' w'] s']. simpl in Hcl. apply split_tids. simpl. auto.
  - intros; exact I.
  - intros b' x IHx r IHr s b key [Hx Hr]. cbn [modify_ch]; fold (modify_node c md fullKey v); fold (modify_ch c md fullKey v).
    destruct (b' =? b).
    + simpl. split; auto.
    + specialize (IHr s b key Hr). destruct (modify_ch c md fullKey v s r b key) as [[r' res]|]; simpl; auto.
Qed.
End Mod.

Lemma remove_child_tids s kd t p w lf ch b :
  t <= T -> tids_le_ch T ch -> tids_le T (fst (fst (remove_child c s kd t p w lf ch b))).
Proof.
  intros Ht Hc. unfold remove_child.
  assert (G : forall kd' t' w', t' <= T -> tids_le T (Inner kd' t' p w' lf (ch_remove b ch)))
    by (intros; simpl; split; auto; now apply tids_ch_remove).
  pose proof (clone_hdr_tid s t w Ht) as Hcl.
  destruct (ch_len ch =? 2); [destruct lf; [|destruct (ch_other b ch) as [x|] eqn:Eo]|].
  2:{ cbn [fst]. apply tids_set_prefix. eapply tids_ch_other; eauto. }
  all: destruct (_ || _); [destruct (fresh_if w s)|destruct (clone_hdr c s t w) as [[t' w'] s1]]; cbn [fst];
    apply G; simpl in *; lia.
Qed.

Definition dres_tids (r : dres) : Prop :=
  match r with DSome _ (Some n') _ _ => tids_le T n' | _ => True end.

Theorem delete_tids :
  (forall n s key, tids_le T n -> dres_tids (del_node c s n key)) /\
  (forall ch s b key, tids_le_ch T ch -> dres_tids (del_ch c s ch b key)).
Proof.
  apply node_children_ind.
  - intros p l s key _. cbn [del_node]. destruct (bytes_eqb key p); exact I.
  - intros kd t p w lf ch IH s key [Ht Hc]. cbn [del_node]; fold (del_ch c).
    destruct (strip p key) as [[|b rest]|]; [| |exact I].
    + destruct lf as [l|]; [|exact I].
      destruct ch as [|b1 x1 [|b2 x2 r]]; [exact I| |].
      * simpl. apply tids_set_prefix. simpl in Hc. tauto.
      * pose proof (clone_hdr_tid (record (lf_w l) s) t w Ht) as Hcl.
        destruct (clone_hdr c (record (lf_w l) s) t w) as [[t' w'] s2]. simpl in *. auto.
    + specialize (IH s b (b :: rest) Hc).
      destruct (del_ch c s ch b (b :: rest)) as [|old [x|] s1 ip]; [exact I| |].
      * simpl in IH. destruct ip.
        -- simpl. split; auto. now apply tids_ch_set.
        -- pose proof (clone_hdr_tid s1 t w Ht) as Hcl.
           destruct (clone_hdr c s1 t w) as [[t' w'] s2]. simpl in *. split; auto. now apply tids_ch_set.
      * pose proof (remove_child_tids s1 kd t p w lf ch b Ht Hc) as R.
        destruct (remove_child c s1 kd t p w lf ch b) as [[n' s2] ip']. exact R.
  - intros; exact I.
  - intros b' x IHx r IHr s b key [Hx Hr]. cbn [del_ch]; fold (del_node c); fold (del_ch c).
    destruct (b' =? b); auto.
Qed.
End Ids.

(* ---- transaction level ---- *)
Definition root_tids_le (T : N) (r : option node) : Prop := match r with None => True | Some n => tids_le T n end.
(* every node of the txn's tree has id <= the txn's id; txn id 0 only ever sees leaves it created *)
Definition txn_ids_ok (x : txn) : Prop := root_tids_le (t_tid x) (t_root x).
(* every node of a published tree has id < the id of any txn begun from it *)
Definition tree_ids_ok (t : tree) : Prop :=
  match tr_root t with None => True | Some n => 0 < tr_next t /\ tids_le (tr_next t - 1) n end.

Lemma txn_modify_ids x md key v : txn_ids_ok x ->
  txn_ids_ok (fst (fst (fst (txn_modify x md key v)))) /\ t_tid (fst (fst (fst (txn_modify x md key v)))) = t_tid x.
Proof.
  unfold txn_ids_ok, txn_modify. intros H. destruct (t_root x) as [n|]; simpl in *.
  - split; auto. apply (proj1 (modify_tids (txn_ctx x) md key v)). exact H.
  - destruct (fresh (txn_ctx x) (t_st x)). simpl. auto.
Qed.
Lemma txn_delete_ids x key : txn_ids_ok x ->
  txn_ids_ok (fst (txn_delete x key)) /\ t_tid (fst (txn_delete x key)) = t_tid x.
Proof.
  unfold txn_ids_ok, txn_delete. intros H. destruct (t_root x) as [n|] eqn:Er; simpl in *.
  - pose proof (proj1 (delete_tids (txn_ctx x)) n (t_st x) key H) as D.
    destruct (del_node (txn_ctx x) (t_st x) n key) as [|old [n'|] s ip]; simpl in *; rewrite ?Er; auto.
  - rewrite Er. simpl. auto.
Qed.

(* a root handed out with an id bump: all its ids are below the txn id from then on *)
Definition published (x : txn) (r : option node) : Prop :=
  match r with None => True | Some n => 0 < t_tid x /\ tids_le (t_tid x - 1) n end.

Lemma bump_publishes x : txn_ids_ok x -> published (bump x) (t_root x) /\ txn_ids_ok (bump x).
Proof.
  unfold txn_ids_ok, published, bump. destruct (t_root x) as [n|]; simpl; auto. intros H. split.
  - split; [lia|]. replace (t_tid x + 1 - 1) with (t_tid x) by lia. auto.
  - eapply (proj1 tids_le_mono); [|exact H]. lia.
Qed.

Lemma commit_publishes x : txn_ids_ok x -> tree_ids_ok (snd (txn_commit x)) /\ txn_ids_ok (fst (txn_commit x)).
Proof.
  unfold txn_ids_ok, tree_ids_ok, txn_commit. destruct (t_dirty x); simpl;
  (destruct (t_root x) as [n|]; simpl; auto; intros H; split;
   [split; [lia|]; replace (t_tid x + 1 - 1) with (t_tid x) by lia; auto
   |eapply (proj1 tids_le_mono); [|exact H]; lia]).
Qed.
Lemma clone_publishes x : txn_ids_ok x -> tree_ids_ok (snd (txn_clone x)) /\ txn_ids_ok (fst (txn_clone x)).
Proof.
  unfold txn_ids_ok, tree_ids_ok, txn_clone, bump. simpl.
  destruct (t_root x) as [n|]; simpl; auto; intros H; split;
   [split; [lia|]; replace (t_tid x + 1 - 1) with (t_tid x) by lia; auto
   |eapply (proj1 tids_le_mono); [|exact H]; lia].
Qed.
Lemma tree_txn_ids t next : tree_ids_ok t -> txn_ids_ok (tree_txn t next) /\ published (tree_txn t next) (tr_root t).
Proof.
  unfold tree_ids_ok, txn_ids_ok, published, tree_txn. simpl. destruct (tr_root t) as [n|]; simpl; auto.
  intros [H1 H2]. split; auto. eapply (proj1 tids_le_mono); [|exact H2]. lia.
Qed.
Lemma tree_new_ids ro next : tree_ids_ok (fst (tree_new ro next)).
Proof. exact I. Qed.

(* published roots stay published along every later step of the txn (ids never decrease) *)
Lemma published_mono x x' r : t_tid x <= t_tid x' -> published x r -> published x' r.
Proof.
  unfold published. destruct r as [n|]; auto. intros H [H1 H2]. split; [lia|].
  eapply (proj1 tids_le_mono); [|exact H2]. lia.
Qed.

(* the in-place branch of cloneNode is never taken on a node of a published root *)
Fixpoint no_inplace (c : ctx) (n : node) : Prop :=
  match n with
  | Leaf _ _ => c_tid c <> 0
  | Inner _ t _ _ _ ch => t <> c_tid c /\ no_inplace_ch c ch
  end
with no_inplace_ch (c : ctx) (ch : children) : Prop :=
  match ch with CNil => True | CCons _ x r => no_inplace c x /\ no_inplace_ch c r end.

Lemma tids_lt_no_inplace c :
  (forall n, 0 < c_tid c -> tids_le (c_tid c - 1) n -> no_inplace c n) /\
  (forall ch, 0 < c_tid c -> tids_le_ch (c_tid c - 1) ch -> no_inplace_ch c ch).
Proof.
  apply node_children_ind; simpl; auto.
  - intros; lia.
  - intros kd t p w lf ch IH H0 [H1 H2]. split; [lia|auto].
  - intros b x IHx r IHr H0 [H1 H2]. auto.
Qed.

Theorem published_never_mutated x r : published x r ->
  match r with None => True | Some n => no_inplace (txn_ctx x) n end.
Proof.
  destruct r as [n|]; auto. intros [H1 H2]. apply (proj1 (tids_lt_no_inplace (txn_ctx x))); auto.
Qed.
