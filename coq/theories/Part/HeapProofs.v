(* Part/HeapProofs.v — transaction-level theorems about the heap model Part/Heap.v:
   (a) refinement: Insert/Modify/Delete on the heap compute what Part/Model.v computes on the
       denoted tree (same outputs);
   (b) ownership: a cell reachable from the txn's root carries the txn id iff the txn allocated
       and stamped it since its id was last bumped; in-place writes hit only those cells;
       everything else is append;
   (c) persistence: whatever is reachable outside the own-sets of the live transactions denotes
       the same tree after any interleaving of operations of two transactions on the same heap
       (Insert/Modify/Delete, handing out a root with id bump, Commit, abandon + Txn on any
       handed-out tree); the two transactions may carry the same id;
   (d) refutations: the shallow child merge; ownership is not "allocated since the bump". *)
From SV Require Import Base.Bytes Part.Model Part.Sem Part.Heap Part.HeapBase Part.HeapMod Part.HeapDel.
From Coq Require Import ZArith List Bool Lia ZifyN ZifyNat ZifyBool.
Import ListNotations.
Open Scope N_scope.

(* ---------- roots (nil = empty tree) ---------- *)
Definition root_trep {P : nat -> Prop} (tid : N) (h : heap) (r : option nat) (t : option node) (F : list nat) : Prop :=
  match r with
  | None => t = None /\ F = []
  | Some a => exists n, t = Some n /\ @trep P tid h a n F
  end.

Lemma root_trep_rep P tid h r t F : @root_trep P tid h r t F -> rep_root h r t.
Proof.
  destruct r as [a|]; cbn [root_trep rep_root]; [|tauto]. intros (n & -> & T). exists n. split; [reflexivity|].
  eapply (proj1 (trep_rep tid h)); eauto.
Qed.
Lemma root_trep_den P tid h r t F : @root_trep P tid h r t F -> den_root h r = t.
Proof. intros T. eapply rep_root_den, root_trep_rep; eauto. Qed.
Lemma root_trep_F_cell P tid h r t F : @root_trep P tid h r t F -> forall x, In x F -> owned_cell tid h x.
Proof.
  destruct r as [a|]; cbn [root_trep]; [|intros (_ & ->) x []]. intros (n & -> & T).
  eapply (proj1 (trep_F_cell tid h)); eauto.
Qed.
Lemma root_trep_frame P tid h h' r t F : 0 < tid -> @root_trep P tid h r t F ->
  (forall x cl, nth_error h x = Some cl -> (P x /\ cell_tid cl < tid) \/ In x F -> nth_error h' x = Some cl) ->
  @root_trep P tid h' r t F.
Proof.
  intros T0. destruct r as [a|]; cbn [root_trep]; [|tauto]. intros (n & -> & T) Hf. exists n. split; [reflexivity|].
  eapply (proj1 (trep_frame tid h h' T0)); eauto.
Qed.
Lemma root_trep_P_impl (P Q : nat -> Prop) tid h r t F : (forall x cl, nth_error h x = Some cl -> P x -> Q x) ->
  @root_trep P tid h r t F -> @root_trep Q tid h r t F.
Proof.
  intros PQ. destruct r as [a|]; cbn [root_trep]; [|tauto]. intros (n & -> & T). exists n. split; [reflexivity|].
  eapply (proj1 (trep_P_impl P Q tid h PQ)); eauto.
Qed.
Lemma root_trep_bump (P Q : nat -> Prop) tid tid' h r t F : tid < tid' ->
  (forall x cl, nth_error h x = Some cl -> P x -> Q x) -> (forall x, In x F -> Q x) ->
  @root_trep P tid h r t F -> @root_trep Q tid' h r t [].
Proof.
  intros Ht PQ HF. destruct r as [a|]; cbn [root_trep]; [|intros (-> & _); split; reflexivity]. intros (n & -> & T). exists n. split; [reflexivity|].
  eapply (proj1 (trep_bump P Q tid tid' h Ht PQ)); eauto.
Qed.
Lemma root_trep_reach P tid h r t F : 0 < tid -> @root_trep P tid h r t F -> forall x, reach_root h r x ->
  In x F \/ (P x /\ exists cl, nth_error h x = Some cl /\ cell_tid cl < tid).
Proof.
  intros T0. destruct r as [a|]; cbn [root_trep reach_root]; [|intros _ x []]. intros (n & -> & T).
  eapply (proj1 (trep_reach tid h T0)); eauto.
Qed.

(* ---------- the invariant of one transaction ---------- *)
Definition hinv (P : nat -> Prop) (h : heap) (x : htxn) : Prop :=
  0 < x_tid x /\
  exists t F, @root_trep P (x_tid x) h (x_root x) t F /\ (forall a, In a F -> In a (x_own x)) /\
              (forall a, In a (x_own x) -> owned_cell (x_tid x) h a).

(* what an operation of transaction x does to the heap: append, and writes inside [own] *)
Definition frame (h h' : heap) (own : list nat) : Prop :=
  (length h <= length h')%nat /\
  forall a, (a < length h)%nat -> ~ In a own -> nth_error h' a = nth_error h a.

Lemma frame_refl h own : frame h h own.
Proof. split; [lia|auto]. Qed.

Lemma in_fresh_cells h h' a : In a (fresh_cells h h') <-> (length h <= a < length h')%nat.
Proof. unfold fresh_cells. rewrite in_seq. lia. Qed.

Lemma hinv_den P h x : hinv P h x -> exists t F, @root_trep P (x_tid x) h (x_root x) t F /\ den_root h (x_root x) = t.
Proof. intros (_ & t & F & T & _). exists t, F. split; [exact T|]. eapply root_trep_den; eauto. Qed.

Lemma op_finish P h x F h' r' t' F' rw sz ro dirty st :
  0 < x_tid x -> (forall a, In a F -> In a (x_own x)) -> (forall a, In a (x_own x) -> owned_cell (x_tid x) h a) ->
  @root_trep P (x_tid x) h' r' t' F' -> sub F' F h -> ext (x_tid x) h h' F ->
  hinv P h' (mkHTxn r' rw sz ro (x_tid x) dirty st (own_after x h h')) /\ frame h h' (x_own x).
Proof.
  intros T0 SubO OC T' S (L & A & O). split.
  - split; [exact T0|]. exists t', F'. cbn [x_tid x_root x_own]. split; [exact T'|]. split.
    + intros a Ha. unfold own_after. apply in_or_app. destruct (S a Ha) as [H|H]; [left; auto|right].
      destruct (root_trep_F_cell _ _ _ _ _ _ T' a Ha) as (kd & p & w & lf & ch & Hn).
      unfold stamped. apply filter_In. split.
      * apply in_fresh_cells. apply nth_error_lt in Hn. lia.
      * rewrite (hget_some _ _ _ Hn). apply N.eqb_refl.
    + intros a Ha. unfold own_after in Ha. apply in_app_or in Ha as [Ha|Ha]; [auto|].
      unfold stamped in Ha. apply filter_In in Ha as (Hf & Hc). apply in_fresh_cells in Hf.
      destruct (nth_error h' a) as [cl|] eqn:E; [|apply nth_error_None in E; lia].
      rewrite (hget_some _ _ _ E) in Hc. destruct cl as [|kd t p w lf ch]; [discriminate|].
      apply N.eqb_eq in Hc. subst t. red. eauto 8.
  - split; [exact L|]. intros a La Na. destruct (nth_error h a) as [cl|] eqn:E; [|apply nth_error_None in E; lia].
    apply A; [exact E|]. intros Hi. exact (Na (SubO _ Hi)).
Qed.

(* ---------- (a) refinement and (b) frame: Insert / Modify ---------- *)
Theorem htxn_modify_spec P h x md key v : hinv P h x -> @Pext P h ->
  let '(h', x', old, nv, w) := htxn_modify h x md key v in
  hinv P h' x' /\ (habs h' x', old, nv, w) = txn_modify (habs h x) md key v /\
  frame h h' (x_own x) /\ x_tid x' = x_tid x /\ x_own x' = own_after x h h'.
Proof.
  intros (T0 & t & F & T & SubO & OC) PE. unfold htxn_modify, txn_modify.
  set (c := htxn_ctx x).
  assert (Ec : txn_ctx (habs h x) = c) by reflexivity. rewrite Ec.
  cbn [habs t_root t_st t_rw t_size t_ro t_tid]. rewrite (root_trep_den _ _ _ _ _ _ T).
  set (r := match x_root x with
            | Some a => hmod c md key v (length h) (x_st x) h a key
            | None => let '(lw, s1) := fresh c (x_st x) in let '(h1, a) := alloc h (CLeaf key (mkLeaf key v lw)) in mkHR h1 a s1 None lw v
            end).
  set (m := match t with
            | Some n => modify_node c md key v (x_st x) n key
            | None => let '(lw, s1) := fresh c (x_st x) in mkM (Leaf key (mkLeaf key v lw)) s1 None lw v
            end).
  assert (K : @mspec P c h F r m).
  { subst r m. destruct (x_root x) as [a|]; cbn [root_trep] in T.
    - destruct T as (n & -> & T). apply (hmod_spec c T0); auto.
      eapply rep_height. eapply (proj1 (trep_rep (x_tid x) h)); eauto.
    - destruct T as (-> & ->). destruct (fresh c (x_st x)) as [lw s1]. unfold alloc.
      repeat (split; [reflexivity|]). cbn [r_heap r_addr m_node]. exists [].
      split; [apply (leaf_alloc c T0); exact PE|]. split; [intros y []|apply ext_alloc]. }
  destruct K as (A1 & A2 & A3 & A4 & F' & T' & S' & E').
  assert (RT : @root_trep P (x_tid x) (r_heap r) (Some (r_addr r)) (Some (m_node m)) F') by (exists (m_node m); auto).
  destruct (op_finish P h x F (r_heap r) (Some (r_addr r)) _ F' (x_rw x)
              (match r_old r with Some _ => x_size x | None => x_size x + 1 end) (x_ro x) true (r_st r) T0 SubO OC RT S' E') as (HI & FR).
  split; [exact HI|]. split; [|auto].
  unfold habs. cbn [x_root x_rw x_size x_ro x_tid x_dirty x_st].
  rewrite (root_trep_den _ _ _ _ _ _ RT), A1, A2, A3, A4. reflexivity.
Qed.

(* ---------- Delete ---------- *)
Theorem htxn_delete_spec P h x key : hinv P h x -> @Pext P h ->
  let '(h', x', old) := htxn_delete h x key in
  hinv P h' x' /\ (habs h' x', old) = txn_delete (habs h x) key /\
  frame h h' (x_own x) /\ x_tid x' = x_tid x /\ (x_own x' = own_after x h h' \/ h' = h /\ x' = x).
Proof.
  intros HI PE. pose proof HI as (T0 & t & F & T & SubO & OC).
  unfold htxn_delete, htxn_delete_with, txn_delete.
  set (c := htxn_ctx x). assert (Ec : txn_ctx (habs h x) = c) by reflexivity. rewrite Ec.
  cbn [habs t_root t_st t_rw t_size t_ro t_tid]. rewrite (root_trep_den _ _ _ _ _ _ T).
  assert (Same : hinv P h x /\ (habs h x, @None N) = (habs h x, None) /\ frame h h (x_own x) /\ x_tid x = x_tid x /\
                 (x_own x = own_after x h h \/ h = h /\ x = x)).
  { split; [exact HI|]. split; [reflexivity|]. split; [apply frame_refl|]. split; [reflexivity|right; auto]. }
  destruct (x_root x) as [a|] eqn:Er; cbn [root_trep] in T.
  - destruct T as (n & -> & T).
    assert (Hh : (height n <= length h)%nat) by (eapply rep_height, (proj1 (trep_rep (x_tid x) h)); eauto).
    pose proof (hdel_spec c T0 (length h) (x_st x) h a key n F PE T Hh) as K.
    destruct (del_node c (x_st x) n key) as [|old repl s ip];
      destruct (hdel c (fun _ => hmerge) (length h) (x_st x) h a key) as [|old' repl' s' h' ip']; cbn [dspec] in K; try contradiction.
    + exact Same.
    + destruct K as (-> & -> & -> & E' & _ & Hr).
      assert (RT : exists F', @root_trep P (x_tid x) h' repl' repl F' /\ sub F' F h).
      { destruct repl as [n'|]; destruct repl' as [a'|]; try contradiction.
        - destruct Hr as (F' & T' & S'). exists F'. split; [exists n'; auto|exact S'].
        - exists []. split; [split; reflexivity|intros y []]. }
      destruct RT as (F' & RT & S').
      destruct (op_finish P h x F h' repl' _ F' (x_rw x) (x_size x - 1) (x_ro x) true s T0 SubO OC RT S' E') as (HI' & FR).
      split; [exact HI'|]. split; [|auto].
      unfold habs. cbn [x_root x_rw x_size x_ro x_tid x_dirty x_st]. rewrite (root_trep_den _ _ _ _ _ _ RT). reflexivity.
  - destruct T as (-> & ->). exact Same.
Qed.

(* ---------- (b) ownership ---------- *)
Theorem owned_iff_id P h x : hinv P h x -> forall a, reach_root h (x_root x) a ->
  (cell_tid (hget h a) = x_tid x <-> In a (x_own x)).
Proof.
  intros (T0 & t & F & T & SubO & OC) a R. split.
  - intros Hi. destruct (root_trep_reach _ _ _ _ _ _ T0 T a R) as [H|(_ & cl & Hn & Hlt)]; [auto|].
    rewrite (hget_some _ _ _ Hn) in Hi. lia.
  - intros Ha. destruct (OC _ Ha) as (kd & p & w & lf & ch & Hn). now rewrite (hget_some _ _ _ Hn).
Qed.

(* ---------- persistence of anything outside own, one operation ---------- *)
Lemma frame_rep h h' own a t : frame h h' own -> rep h a t -> (forall x, reach h a x -> ~ In x own) ->
  rep h' a t /\ (forall x, reach h' a x -> reach h a x).
Proof.
  intros (L & Fr) R S.
  assert (E : forall x, reach h a x -> nth_error h' x = nth_error h x).
  { intros x Hx. apply Fr; [eapply (proj1 (reach_lt h)); eauto|auto]. }
  split; [eapply (proj1 (rep_frame h h')); eauto|eapply (proj1 (reach_frame h h')); eauto].
Qed.

(* ---------- two transactions and any number of handed-out roots on one heap ---------- *)
(* s_pubs: every root handed out so far: committed trees, clones, and the roots held by iterators
   (recorded with the bumped txn id); transactions may begin from any of them *)
Record sys := mkSys { s_heap : heap; s_a : htxn; s_b : htxn; s_pubs : list htree }.

Inductive tstep : heap -> htxn -> list htree -> heap -> htxn -> list htree -> Prop :=
| ts_modify h x ps md k v :
    tstep h x ps (fst (fst (fst (fst (htxn_modify h x md k v))))) (snd (fst (fst (fst (htxn_modify h x md k v))))) ps
| ts_delete h x ps k : tstep h x ps (fst (fst (htxn_delete h x k))) (snd (fst (htxn_delete h x k))) ps
(* Clone / Iterator / Prefix / LowerBound / All: txn.txnID++, the root is handed out *)
| ts_bump h x ps : tstep h x ps h (fst (htxn_clone x)) (snd (htxn_clone x) :: ps)
(* Commit: the tree is handed out, the Txn goes on with the next id (commit()) *)
| ts_commit h x ps : tstep h x ps h (fst (htxn_commit x)) (snd (htxn_commit x) :: ps)
(* the Txn is abandoned (or was committed) and a new one begins on any handed-out tree *)
| ts_begin h x ps t next : In t ps -> tstep h x ps h (htree_txn t next) ps.

Inductive sstep : sys -> sys -> Prop :=
| ss_a h a b ps h' a' ps' : tstep h a ps h' a' ps' -> sstep (mkSys h a b ps) (mkSys h' a' b ps')
| ss_b h a b ps h' b' ps' : tstep h b ps h' b' ps' -> sstep (mkSys h a b ps) (mkSys h' a b' ps').
Inductive ssteps : sys -> sys -> Prop :=
| ssteps_refl s : ssteps s s
| ssteps_cons s1 s2 s3 : sstep s1 s2 -> ssteps s2 s3 -> ssteps s1 s3.

Definition notin (l : list nat) (a : nat) : Prop := ~ In a l.
Definition notin2 (l1 l2 : list nat) (a : nat) : Prop := ~ In a l1 /\ ~ In a l2.
Definition pub_ok (h : heap) (oa ob : list nat) (t : htree) : Prop :=
  0 < hr_next t /\ exists tr, @root_trep (notin2 oa ob) (hr_next t) h (hr_root t) tr [].

Definition SInv (s : sys) : Prop :=
  hinv (notin (x_own (s_b s))) (s_heap s) (s_a s) /\
  hinv (notin (x_own (s_a s))) (s_heap s) (s_b s) /\
  disj (x_own (s_a s)) (x_own (s_b s)) /\
  Forall (pub_ok (s_heap s) (x_own (s_a s)) (x_own (s_b s))) (s_pubs s).

(* a representation survives the steps of a transaction whose own-set it avoids *)
Lemma root_trep_survive (P : nat -> Prop) (own : list nat) tid h h' r t F : 0 < tid ->
  @root_trep P tid h r t F -> frame h h' own -> (forall x, P x -> ~ In x own) -> disj F own ->
  forall Q : nat -> Prop, (forall x, (x < length h)%nat -> P x -> Q x) -> @root_trep Q tid h' r t F.
Proof.
  intros T0 T (L & Fr) PO D Q PQ.
  assert (T1 : @root_trep (fun x => P x /\ Q x) tid h r t F).
  { eapply root_trep_P_impl; [|exact T]. intros x cl Hn Px. split; [exact Px|]. apply PQ; [eapply nth_error_lt; eauto|exact Px]. }
  assert (T2 : @root_trep (fun x => P x /\ Q x) tid h' r t F).
  { eapply root_trep_frame; [exact T0|exact T1|]. intros x cl Hn Hc. rewrite Fr; [exact Hn|eapply nth_error_lt; eauto|].
    destruct Hc as [((Px & _) & _)|Hc]; [apply PO; exact Px|]. intros Hi. exact (D x Hc Hi). }
  eapply root_trep_P_impl; [|exact T2]. intros x cl _ (_ & Qx). exact Qx.
Qed.

Lemma hinv_own_lt P h x : hinv P h x -> forall y, In y (x_own x) -> (y < length h)%nat.
Proof. intros (_ & _ & _ & _ & _ & OC) y Hy. eapply owned_lt. eauto. Qed.

Lemma hinv_other own own' h h' x : hinv (notin own) h x -> disj (x_own x) own -> frame h h' own ->
  (forall y, In y own' -> In y own \/ (length h <= y)%nat) -> hinv (notin own') h' x.
Proof.
  intros (T0 & t & F & T & SubO & OC) D Fr Sub. split; [exact T0|]. exists t, F. split; [|split; [exact SubO|]].
  - eapply (root_trep_survive (notin own) own); eauto.
    + intros y Hy Ho. exact (D y (SubO _ Hy) Ho).
    + intros y Ly Py Hi. destruct (Sub _ Hi); [exact (Py H)|lia].
  - intros a Ha. destruct (OC _ Ha) as (kd & p & w & lf & ch & Hn). red. exists kd, p, w, lf, ch.
    destruct Fr as (_ & Fr). rewrite Fr; [exact Hn|eapply nth_error_lt; eauto|]. intros Hx. exact (D a Ha Hx).
Qed.

Lemma pub_other oa oa' ob h h' t : pub_ok h oa ob t -> frame h h' oa ->
  (forall y, In y oa' -> In y oa \/ (length h <= y)%nat) -> pub_ok h' oa' ob t.
Proof.
  intros (N0 & tr & T) Fr Sub. split; [exact N0|]. exists tr.
  eapply (root_trep_survive (notin2 oa ob) oa); eauto.
  - intros y (H & _). exact H.
  - intros y [].
  - intros y Ly (P1 & P2). split; [|exact P2]. intros Hi. destruct (Sub _ Hi); [auto|lia].
Qed.

Lemma pub_swap h oa ob t : pub_ok h oa ob t -> pub_ok h ob oa t.
Proof.
  intros (N0 & tr & T). split; [exact N0|]. exists tr. eapply root_trep_P_impl; [|exact T]. intros a cl _ (H1 & H2). split; auto.
Qed.
Lemma pub_reset h oa ob t : pub_ok h oa ob t -> pub_ok h [] ob t.
Proof.
  intros (N0 & tr & T). split; [exact N0|]. exists tr. eapply root_trep_P_impl; [|exact T].
  intros a cl _ (H1 & H2). split; [intros []|exact H2].
Qed.

(* handing out the current root of a (with the bumped id): legal for every later owner set [] of a *)
Lemma publish_ok h a ob rw sz ro : hinv (notin ob) h a -> disj (x_own a) ob ->
  pub_ok h [] ob (mkHTree (x_root a) rw sz ro (x_tid a + 1)).
Proof.
  intros (T0 & t & F & T & SubO & _) D. split; [cbn [hr_next]; lia|]. exists t. cbn [hr_next hr_root].
  eapply root_trep_bump; [| | |exact T]; [lia| |].
  - intros x cl _ Hx. split; [intros []|exact Hx].
  - intros x Hx. split; [intros []|]. intros Hi. exact (D x (SubO _ Hx) Hi).
Qed.

Lemma begin_ok h ob t next : pub_ok h [] ob t -> hinv (notin ob) h (htree_txn t next).
Proof.
  intros (N0 & tr & T). split; [exact N0|]. exists tr, []. cbn [htree_txn x_tid x_root x_own]. split; [|split; intros a []].
  eapply root_trep_P_impl; [|exact T]. intros a cl _ (_ & H). exact H.
Qed.

Lemma hinv_P_impl (P Q : nat -> Prop) h x : hinv P h x -> (forall a, P a -> Q a) -> hinv Q h x.
Proof.
  intros (T0 & t & F & T & R) PQ. split; [exact T0|]. exists t, F. split; [|exact R].
  eapply root_trep_P_impl; [|exact T]. intros a cl _. apply PQ.
Qed.

(* bump: the transaction owns nothing any more *)
Lemma bump_ok h a ob rw sz ro dirty st : hinv (notin ob) h a -> disj (x_own a) ob ->
  hinv (notin ob) h (mkHTxn (x_root a) rw sz ro (x_tid a + 1) dirty st []).
Proof.
  intros (T0 & t & F & T & SubO & _) D. split; [cbn [x_tid]; lia|]. exists t, []. cbn [x_tid x_root x_own].
  split; [|split; intros y []]. eapply root_trep_bump; [| | |exact T]; [lia|auto|].
  intros x Hx Hi. exact (D x (SubO _ Hx) Hi).
Qed.

(* one step of transaction a, seen from a, the other transaction b and the handed-out roots *)
Lemma tstep_inv h a b ps h' a' ps' :
  hinv (notin (x_own b)) h a -> hinv (notin (x_own a)) h b -> disj (x_own a) (x_own b) ->
  Forall (pub_ok h (x_own a) (x_own b)) ps -> tstep h a ps h' a' ps' ->
  (hinv (notin (x_own b)) h' a' /\ hinv (notin (x_own a')) h' b /\ disj (x_own a') (x_own b) /\
   Forall (pub_ok h' (x_own a') (x_own b)) ps') /\
  frame h h' (x_own a) /\ (forall y, In y (x_own a') -> In y (x_own a) \/ (length h <= y)%nat) /\
  (forall t, In t ps -> In t ps').
Proof.
  intros HA HB D PS St.
  assert (OB : forall y, In y (x_own b) -> (y < length h)%nat) by (eapply hinv_own_lt; eauto).
  assert (PE : @Pext (notin (x_own b)) h). { intros y Ly Hi. specialize (OB _ Hi). lia. }
  assert (Mut : forall h1 a1, hinv (notin (x_own b)) h1 a1 -> frame h h1 (x_own a) ->
            (x_own a1 = own_after a h h1 \/ h1 = h /\ a1 = a) ->
            (hinv (notin (x_own b)) h1 a1 /\ hinv (notin (x_own a1)) h1 b /\ disj (x_own a1) (x_own b) /\
             Forall (pub_ok h1 (x_own a1) (x_own b)) ps) /\
            frame h h1 (x_own a) /\ (forall y, In y (x_own a1) -> In y (x_own a) \/ (length h <= y)%nat) /\
            (forall t, In t ps -> In t ps)).
  { intros h1 a1 HA1 Fr Eo.
    assert (Sub : forall y, In y (x_own a1) -> In y (x_own a) \/ (length h <= y)%nat).
    { intros y Hy. destruct Eo as [Eo|(_ & ->)]; [|auto]. rewrite Eo in Hy. unfold own_after in Hy.
      apply in_app_or in Hy as [Hy|Hy]; [auto|]. unfold stamped in Hy. apply filter_In in Hy as (Hy & _).
      apply in_fresh_cells in Hy. lia. }
    split; [|auto]. split; [exact HA1|]. split; [|split].
    - eapply hinv_other; eauto. apply disj_sym. exact D.
    - intros y Hy Hb. destruct (Sub _ Hy) as [H|H]; [exact (D y H Hb)|]. specialize (OB _ Hb). lia.
    - eapply Forall_impl; [|exact PS]. intros t Ht. eapply pub_other; eauto. }
  assert (Reset : forall rw sz ro, Forall (pub_ok h [] (x_own b)) (mkHTree (x_root a) rw sz ro (x_tid a + 1) :: ps)).
  { intros rw sz ro. constructor; [apply publish_ok; auto|]. eapply Forall_impl; [|exact PS]. intros t. apply pub_reset. }
  assert (HB0 : hinv (notin []) h b) by (eapply hinv_P_impl; [exact HB|intros y _ []]).
  inversion St; subst.
  - pose proof (htxn_modify_spec _ _ _ md k v HA PE) as K.
    destruct (htxn_modify h a md k v) as [[[[h1 a1] old] nv] wch]. cbn [fst snd].
    destruct K as (H1 & _ & H3 & _ & H5). apply Mut; auto.
  - pose proof (htxn_delete_spec _ _ _ k HA PE) as K.
    destruct (htxn_delete h a k) as [[h1 a1] old]. cbn [fst snd].
    destruct K as (H1 & _ & H3 & _ & H5). apply Mut; auto.
  - (* bump *)
    unfold htxn_clone, hbump. cbn [fst snd x_tid x_own].
    split; [|split; [apply frame_refl|split; [intros y []|intros t Ht; now right]]].
    split; [apply bump_ok; auto|]. split; [exact HB0|]. split; [intros y []|apply Reset].
  - (* commit *)
    unfold htxn_commit. destruct (x_dirty a); cbn [fst snd x_own].
    + split; [|split; [apply frame_refl|split; [intros y []|intros t Ht; now right]]].
      split; [apply bump_ok; auto|]. split; [exact HB0|]. split; [intros y []|apply Reset].
    + split; [|split; [apply frame_refl|split; [intros y []|intros t Ht; now right]]].
      split; [apply bump_ok; auto|]. split; [exact HB0|]. split; [intros y []|apply Reset].
  - (* abandon, then Txn on a handed-out tree *)
    cbn [htree_txn x_own]. split; [|split; [apply frame_refl|split; [intros y []|auto]]].
    assert (Reset' : Forall (pub_ok h' [] (x_own b)) ps') by (specialize (Reset 0 0 false); inversion Reset; assumption).
    split; [|split; [exact HB0|split; [intros y []|exact Reset']]].
    apply begin_ok. rewrite Forall_forall in Reset'. apply Reset'. assumption.
Qed.

Theorem sstep_inv s s' : SInv s -> sstep s s' -> SInv s'.
Proof.
  intros (HA & HB & D & PS) St. destruct St as [h a b ps h' a' ps' St|h a b ps h' b' ps' St]; cbn [s_heap s_a s_b s_pubs] in *.
  - destruct (tstep_inv _ _ _ _ _ _ _ HA HB D PS St) as ((H1 & H2 & H3 & H4) & _).
    unfold SInv. cbn [s_heap s_a s_b s_pubs]. split; [exact H1|]. split; [exact H2|]. split; [exact H3|exact H4].
  - assert (PS' : Forall (pub_ok h (x_own b) (x_own a)) ps).
    { eapply Forall_impl; [|exact PS]. intros t. apply pub_swap. }
    destruct (tstep_inv _ _ _ _ _ _ _ HB HA (disj_sym _ _ D) PS' St) as ((H1 & H2 & H3 & H4) & _).
    unfold SInv. cbn [s_heap s_a s_b s_pubs]. split; [exact H2|]. split; [exact H1|]. split; [apply disj_sym; exact H3|].
    eapply Forall_impl; [|exact H4]. intros t. apply pub_swap.
Qed.

(* address a denotes a tree and lies outside what the two live transactions own *)
Definition safe (s : sys) (a : nat) : Prop :=
  forall x, reach (s_heap s) a x -> ~ In x (x_own (s_a s)) /\ ~ In x (x_own (s_b s)).

Theorem sstep_persist s s' : SInv s -> sstep s s' -> forall r t, rep (s_heap s) r t -> safe s r ->
  rep (s_heap s') r t /\ safe s' r.
Proof.
  intros (HA & HB & D & PS) St r t R S.
  destruct St as [h a b ps h' a' ps' St|h a b ps h' b' ps' St]; unfold safe in *; cbn [s_heap s_a s_b s_pubs] in *.
  - destruct (tstep_inv _ _ _ _ _ _ _ HA HB D PS St) as (_ & Fr & Sub & _).
    destruct (frame_rep _ _ _ _ _ Fr R (fun x Hx => proj1 (S x Hx))) as (R' & Rb).
    split; [exact R'|]. intros x Hx. specialize (Rb _ Hx). destruct (S _ Rb) as (S1 & S2). split; [|exact S2].
    intros Hi. destruct (Sub _ Hi) as [H|H]; [auto|]. pose proof (proj1 (reach_lt h) _ _ R _ Rb). lia.
  - assert (PS' : Forall (pub_ok h (x_own b) (x_own a)) ps).
    { eapply Forall_impl; [|exact PS]. intros t0. apply pub_swap. }
    destruct (tstep_inv _ _ _ _ _ _ _ HB HA (disj_sym _ _ D) PS' St) as (_ & Fr & Sub & _).
    destruct (frame_rep _ _ _ _ _ Fr R (fun x Hx => proj2 (S x Hx))) as (R' & Rb).
    split; [exact R'|]. intros x Hx. specialize (Rb _ Hx). destruct (S _ Rb) as (S1 & S2). split; [exact S1|].
    intros Hi. destruct (Sub _ Hi) as [H|H]; [auto|]. pose proof (proj1 (reach_lt h) _ _ R _ Rb). lia.
Qed.

Lemma sstep_pubs s s' : SInv s -> sstep s s' -> forall t, In t (s_pubs s) -> In t (s_pubs s').
Proof.
  intros (HA & HB & D & PS) St.
  destruct St as [h a b ps h' a' ps' St|h a b ps h' b' ps' St]; cbn [s_heap s_a s_b s_pubs] in *.
  - destruct (tstep_inv _ _ _ _ _ _ _ HA HB D PS St) as (_ & _ & _ & Hp). exact Hp.
  - assert (PS' : Forall (pub_ok h (x_own b) (x_own a)) ps).
    { eapply Forall_impl; [|exact PS]. intros t0. apply pub_swap. }
    destruct (tstep_inv _ _ _ _ _ _ _ HB HA (disj_sym _ _ D) PS' St) as (_ & _ & _ & Hp). exact Hp.
Qed.

(* (c) PERSISTENCE over arbitrary interleavings *)
Theorem ssteps_persist s s' : SInv s -> ssteps s s' ->
  SInv s' /\
  (forall r t, rep (s_heap s) r t -> safe s r -> den (s_heap s') r = den (s_heap s) r /\ rep (s_heap s') r t /\ safe s' r) /\
  (forall t, In t (s_pubs s) -> In t (s_pubs s')).
Proof.
  intros I St. induction St as [s|s1 s2 s3 S1 _ IH].
  - split; [exact I|]. split; [intros r t R S; auto|auto].
  - pose proof (sstep_inv _ _ I S1) as I2. destruct (IH I2) as (I3 & P3 & Q3).
    split; [exact I3|]. split.
    + intros r t R S. destruct (sstep_persist _ _ I S1 r t R S) as (R2 & S2).
      destruct (P3 r t R2 S2) as (E & R3 & S3). split; [|auto].
      rewrite E. rewrite (rep_den _ _ _ R), (rep_den _ _ _ R2). reflexivity.
    + intros t Ht. apply Q3. exact (sstep_pubs _ _ I S1 t Ht).
Qed.

(* every handed-out root, and every node below it (iterator stacks, prefix/lower-bound start
   nodes), is safe *)
Theorem pubs_safe s t : SInv s -> In t (s_pubs s) ->
  forall r, reach_root (s_heap s) (hr_root t) r -> exists tr, rep (s_heap s) r tr /\ safe s r.
Proof.
  intros (_ & _ & _ & PS) Ht r Hr. rewrite Forall_forall in PS. destruct (PS _ Ht) as (N0 & tr & T).
  destruct (hr_root t) as [a|] eqn:Er; cbn [reach_root] in Hr; [|destruct Hr].
  pose proof T as T'. cbn [root_trep] in T'. destruct T' as (n & -> & Tn).
  pose proof (proj1 (trep_rep (hr_next t) (s_heap s)) _ _ _ Tn) as Rn.
  destruct (proj1 (rep_reach (s_heap s)) _ _ Rn _ Hr) as (tr' & R'). exists tr'. split; [exact R'|].
  intros x Hx. pose proof (reach_trans _ _ _ Hr _ Hx) as Hx'.
  destruct (proj1 (trep_reach (hr_next t) (s_heap s) N0) _ _ _ Tn x Hx') as [[]|(H & _)]. exact H.
Qed.

(* the other live transaction is not disturbed either *)
Lemma other_den own h h' x : hinv (notin own) h x -> disj (x_own x) own -> frame h h' own ->
  den_root h' (x_root x) = den_root h (x_root x).
Proof.
  intros (T0 & t & F & T & SubO & OC) D Fr. rewrite (root_trep_den _ _ _ _ _ _ T).
  eapply root_trep_den.
  refine (root_trep_survive (notin own) own _ h h' _ _ _ T0 T Fr _ _ (fun _ => True) _).
  - intros y Hy. exact Hy.
  - intros y Hy Ho. exact (D y (SubO y Hy) Ho).
  - intros y _ _. exact I.
Qed.

Theorem other_txn_isolated h a b ps h' a' ps' : SInv (mkSys h a b ps) -> tstep h a ps h' a' ps' ->
  habs h' b = habs h b.
Proof.
  intros (HA & HB & D & PS) St. cbn [s_heap s_a s_b s_pubs] in *.
  destruct (tstep_inv _ _ _ _ _ _ _ HA HB D PS St) as (_ & Fr & _).
  unfold habs. rewrite (other_den _ _ _ _ HB (disj_sym _ _ D) Fr). reflexivity.
Qed.

(* the initial system: empty heap, New(), two transactions begun from it *)
Definition tree0 : htree := fst (htree_new false 1).
Definition sys0 : sys := mkSys [] (htree_txn tree0 2) (htree_txn tree0 2) [tree0].
Lemma SInv_sys0 : SInv sys0.
Proof.
  unfold sys0, SInv. cbn [s_heap s_a s_b s_pubs htree_txn tree0 htree_new fst x_own hr_root hr_next].
  split; [|split; [|split; [intros x []|]]].
  - split; [reflexivity|]. exists None, []. cbn. split; [split; reflexivity|split; intros a Ha; destruct Ha].
  - split; [reflexivity|]. exists None, []. cbn. split; [split; reflexivity|split; intros a Ha; destruct Ha].
  - constructor; [|constructor]. split; [reflexivity|]. exists None. cbn. split; reflexivity.
Qed.

Lemma ssteps_trans s1 s2 s3 : ssteps s1 s2 -> ssteps s2 s3 -> ssteps s1 s3.
Proof. induction 1; auto. intros H'. econstructor; eauto. Qed.

Theorem reachable_SInv s : ssteps sys0 s -> SInv s.
Proof. intros St. exact (proj1 (ssteps_persist _ _ SInv_sys0 St)). Qed.

(* ---------- the statements collected for Properties/C11.v ---------- *)
Theorem heap_refines_tree (P : nat -> Prop) h x md key v : hinv P h x -> @Pext P h ->
  (let '(h', x', old, nv, w) := htxn_modify h x md key v in
   hinv P h' x' /\ (habs h' x', old, nv, w) = txn_modify (habs h x) md key v) /\
  (let '(h', x', old) := htxn_delete h x key in
   hinv P h' x' /\ (habs h' x', old) = txn_delete (habs h x) key).
Proof.
  intros HI PE. pose proof (htxn_modify_spec P h x md key v HI PE) as A.
  pose proof (htxn_delete_spec P h x key HI PE) as B.
  destruct (htxn_modify h x md key v) as [[[[h1 x1] old] nv] w]. destruct (htxn_delete h x key) as [[h2 x2] old2].
  split; [destruct A as (A1 & A2 & _); auto|destruct B as (B1 & B2 & _); auto].
Qed.

Theorem inplace_writes_only_owned (P : nat -> Prop) h x md key v : hinv P h x -> @Pext P h ->
  (forall a, reach_root h (x_root x) a -> (cell_tid (hget h a) = x_tid x <-> In a (x_own x))) /\
  (let '(h', x', _, _, _) := htxn_modify h x md key v in
   (length h <= length h')%nat /\ x_own x' = own_after x h h' /\ x_tid x' = x_tid x /\
   forall a, (a < length h)%nat -> ~ In a (x_own x) -> nth_error h' a = nth_error h a) /\
  (let '(h', x', _) := htxn_delete h x key in
   (length h <= length h')%nat /\ (x_own x' = own_after x h h' \/ h' = h /\ x' = x) /\ x_tid x' = x_tid x /\
   forall a, (a < length h)%nat -> ~ In a (x_own x) -> nth_error h' a = nth_error h a).
Proof.
  intros HI PE. split; [apply (owned_iff_id P); exact HI|].
  pose proof (htxn_modify_spec P h x md key v HI PE) as A.
  pose proof (htxn_delete_spec P h x key HI PE) as B.
  destruct (htxn_modify h x md key v) as [[[[h1 x1] old] nv] w]. destruct (htxn_delete h x key) as [[h2 x2] old2].
  destruct A as (_ & _ & (A3 & A3') & A4 & A5). destruct B as (_ & _ & (B3 & B3') & B4 & B5). auto 10.
Qed.

Theorem persistence_all_trees s s' : SInv s -> ssteps s s' ->
  SInv s' /\
  (forall t, In t (s_pubs s) -> In t (s_pubs s') /\ habs_tree (s_heap s') t = habs_tree (s_heap s) t /\
     forall r, reach_root (s_heap s) (hr_root t) r -> den (s_heap s') r = den (s_heap s) r) /\
  (forall r t, rep (s_heap s) r t -> safe s r -> den (s_heap s') r = den (s_heap s) r).
Proof.
  intros I St. destruct (ssteps_persist _ _ I St) as (I' & Pp & Q). split; [exact I'|]. split.
  - intros t Ht. split; [auto|]. split.
    + unfold habs_tree. f_equal. destruct (hr_root t) as [a|] eqn:Er; [|reflexivity]. cbn [den_root].
      destruct (pubs_safe _ _ I Ht a) as (tr & R & S); [rewrite Er; constructor|]. exact (proj1 (Pp _ _ R S)).
    + intros r Hr. destruct (pubs_safe _ _ I Ht r Hr) as (tr & R & S). exact (proj1 (Pp _ _ R S)).
  - intros r t R S. exact (proj1 (Pp _ _ R S)).
Qed.

(* ---------- an executable driver for the two-transaction system (examples) ---------- *)
Inductive act := AIns (k : bytes) (v : N) | AMod (k : bytes) (v : N) | ADel (k : bytes) | ABump | ACommit | ABegin (i : nat).

Definition tact (h : heap) (x : htxn) (ps : list htree) (c : act) : heap * htxn * list htree :=
  match c with
  | AIns k v => (fst (fst (fst (fst (htxn_modify h x None k v)))), snd (fst (fst (fst (htxn_modify h x None k v)))), ps)
  | AMod k v => (fst (fst (fst (fst (htxn_modify h x (Some mod_fun) k v)))), snd (fst (fst (fst (htxn_modify h x (Some mod_fun) k v)))), ps)
  | ADel k => (fst (fst (htxn_delete h x k)), snd (fst (htxn_delete h x k)), ps)
  | ABump => (h, fst (htxn_clone x), snd (htxn_clone x) :: ps)
  | ACommit => (h, fst (htxn_commit x), snd (htxn_commit x) :: ps)
  | ABegin i => match nth_error ps i with Some t => (h, htree_txn t 100, ps) | None => (h, fst (htxn_clone x), snd (htxn_clone x) :: ps) end
  end.

Lemma tact_tstep h x ps c : let '(h', x', ps') := tact h x ps c in tstep h x ps h' x' ps'.
Proof.
  destruct c as [k v|k v|k| | |i]; cbn [tact]; try constructor.
  destruct (nth_error ps i) as [t|] eqn:E; [|constructor]. constructor. eapply nth_error_In; eauto.
Qed.

(* who = false: transaction a, true: transaction b *)
Definition sact (s : sys) (wc : bool * act) : sys :=
  let (who, c) := wc in
  if who then let '(h', b', ps') := tact (s_heap s) (s_b s) (s_pubs s) c in mkSys h' (s_a s) b' ps'
  else let '(h', a', ps') := tact (s_heap s) (s_a s) (s_pubs s) c in mkSys h' a' (s_b s) ps'.
Definition srun (ops : list (bool * act)) (s : sys) : sys := fold_left sact ops s.

Lemma sact_sstep s wc : sstep s (sact s wc).
Proof.
  destruct s as [h a b ps], wc as [[|] c]; cbn [sact s_heap s_a s_b s_pubs].
  - pose proof (tact_tstep h b ps c) as T. destruct (tact h b ps c) as [[h' b'] ps']. now constructor.
  - pose proof (tact_tstep h a ps c) as T. destruct (tact h a ps c) as [[h' a'] ps']. now constructor.
Qed.
Lemma srun_ssteps ops : forall s, ssteps s (srun ops s).
Proof.
  induction ops as [|wc ops IH]; intros s; [constructor|]. cbn [srun fold_left].
  econstructor; [apply sact_sstep|apply IH].
Qed.

(* computable reachability (for examples) *)
Fixpoint addrs (f : nat) (h : heap) (a : nat) : list nat :=
  match f with
  | O => []
  | S f' => a :: match nth_error h a with
                 | Some cl => flat_map (addrs f' h) (cell_ptrs cl)
                 | None => []
                 end
  end.
Lemma addrs_reach f : forall h a x, In x (addrs f h a) -> reach h a x.
Proof.
  induction f as [|f IH]; intros h a x Hx; [destruct Hx|]. cbn [addrs] in Hx.
  destruct Hx as [<-|Hx]; [constructor|]. destruct (nth_error h a) as [cl|] eqn:E; [|destruct Hx].
  apply in_flat_map in Hx as (c & Hc & Hx). eapply reach_step; eauto.
Qed.

(* ---------- (d) refutations ---------- *)
Definition ka : bytes := [97]. Definition kab : bytes := [97; 98].
Definition kac : bytes := [97; 99]. Definition kb : bytes := [98].

(* keys "a","ab","ac","b"; Commit (the snapshot); the same Txn deletes "ab" then "a". With the
   single-child merge writing the child's prefix in place "because the parent is ours" the
   snapshot changes; with the real code (child.clone(false)) it does not *)
Definition s_snap : sys := srun [(false, AIns ka 1); (false, AIns kab 2); (false, AIns kac 3); (false, AIns kb 4); (false, ACommit)] sys0.

Theorem shallow_child_merge_refuted :
  exists (h : heap) (x : htxn) (snap : htree) (k1 k2 : bytes),
    hinv (fun _ => True) h x /\ pub_ok h (x_own x) [] snap /\
    (let '(h1, x1, _) := htxn_delete_bug h x k1 in
     let '(h2, _, _) := htxn_delete_bug h1 x1 k2 in
     den_root h2 (hr_root snap) <> den_root h (hr_root snap)) /\
    (let '(h1, x1, _) := htxn_delete h x k1 in
     let '(h2, _, _) := htxn_delete h1 x1 k2 in
     den_root h2 (hr_root snap) = den_root h (hr_root snap)).
Proof.
  exists (s_heap s_snap), (s_a s_snap), (nth 0 (s_pubs s_snap) tree0), kab, ka.
  assert (I : SInv s_snap) by (apply reachable_SInv, srun_ssteps).
  destruct I as (HA & _ & _ & PS). split; [eapply hinv_P_impl; [exact HA|auto]|]. split.
  - rewrite Forall_forall in PS. apply (PS (nth 0 (s_pubs s_snap) tree0)). apply nth_In. vm_compute. lia.
  - split; [vm_compute; discriminate|vm_compute; reflexivity].
Qed.

(* "txnID = txn id <-> allocated by this txn since the last bump" is FALSE right-to-left: the clone
   made by the merge keeps the child's (older) id — and leaves report id 0 — although this txn
   allocated them; that is why x_own collects the allocated cells that are STAMPED *)
Definition kabc : bytes := [97; 98; 99]. Definition kabd : bytes := [97; 98; 100]. Definition ke : bytes := [101].
Definition s_m : sys := srun [(false, AIns kabc 1); (false, AIns kabd 2); (false, AIns ke 3); (false, ACommit)] sys0.

Theorem own_is_not_all_allocated :
  exists (h : heap) (x : htxn) (k : bytes) (a : nat),
    hinv (fun _ => True) h x /\
    let '(h', x', _) := htxn_delete h x k in
    reach_root h' (x_root x') a /\ (length h <= a < length h')%nat /\
    cell_tid (hget h' a) <> x_tid x' /\ cell_tid (hget h' a) <> 0 /\ ~ In a (x_own x').
Proof.
  exists (s_heap s_m), (s_a s_m), ke, 6%nat.
  assert (I : SInv s_m) by (apply reachable_SInv, srun_ssteps).
  destruct I as (HA & _). split; [eapply hinv_P_impl; [exact HA|auto]|].
  vm_compute. split; [apply reach_here|]. split; [lia|]. split; [discriminate|]. split; [discriminate|]. intros [].
Qed.

(* leaves report txnID 0: with txn ids starting at 0 (the pre-fix Tree.New) cloneNode would hand a
   leaf back for in-place mutation; the invariant therefore demands 0 < txn id, and it is
   necessary: *)
Theorem txn_id_zero_refuted :
  exists (h : heap) (x : htxn) (snap : option nat) (k : bytes) (v : N),
    x_tid x = 0 /\ x_own x = [] /\
    den_root (fst (fst (fst (fst (htxn_modify h x None k v))))) snap <> den_root h snap.
Proof.
  exists [CLeaf ka (mkLeaf ka 1 2)], (mkHTxn (Some 0%nat) 1 1 false 0 false (mkSt [] 3) []), (Some 0%nat), ka, 7.
  split; [reflexivity|]. split; [reflexivity|]. vm_compute. discriminate.
Qed.

(* ---------- non-vacuity: a branching history with shared cells ---------- *)
Module HeapExample.
Definition k1 : bytes := [1; 2]. Definition k2 : bytes := [1; 2; 3]. Definition k3 : bytes := [1].
Definition k4 : bytes := [1; 3]. Definition k5 : bytes := [2]. Definition k6 : bytes := [].
(* a: inserts, commit (tree 0 of the list after the step); b begins from that tree; both write;
   a hands out an iterator root, deletes (merge), commits; b commits and restarts from a's tree *)
Definition ops : list (bool * act) :=
  [(false, AIns k1 1); (false, AIns k2 2); (false, AIns k3 3); (false, AIns k5 5); (false, ACommit);
   (true, ABegin 0); (false, AIns k4 4); (true, AIns k6 6); (true, ADel k2); (false, ABump);
   (false, ADel k1); (false, ADel k3); (false, AMod k2 22); (false, ACommit); (true, ACommit); (true, ABegin 1);
   (true, AIns k1 11); (false, ADel k5); (false, AIns k4 44)].
Definition s_mid : sys := srun (firstn 6 ops) sys0.
Definition s_end : sys := srun ops sys0.

Example reachable_mid_end : ssteps sys0 s_mid /\ ssteps s_mid s_end /\ SInv s_mid /\ SInv s_end.
Proof.
  assert (A : ssteps sys0 s_mid) by apply srun_ssteps.
  assert (B : ssteps s_mid s_end).
  { unfold s_end, s_mid. rewrite <- (firstn_skipn 6 ops) at 2. unfold srun. rewrite fold_left_app. apply srun_ssteps. }
  split; [exact A|]. split; [exact B|]. split; apply reachable_SInv; [exact A|eapply ssteps_trans; eauto].
Qed.

(* the trees handed out up to s_mid read the same in s_end although cells are shared and both
   transactions wrote in place in between *)
Example trees_persist_computed :
  map (fun t => habs_tree (s_heap s_end) t) (s_pubs s_mid) = map (fun t => habs_tree (s_heap s_mid) t) (s_pubs s_mid) /\
  (length (s_heap s_mid) < length (s_heap s_end))%nat /\ length (s_pubs s_end) = 5%nat.
Proof. vm_compute. repeat split; try reflexivity. lia. Qed.

(* two different handed-out trees of s_end share a cell *)
Example trees_share_cells :
  exists t1 t2 r1 r2 a, In t1 (s_pubs s_end) /\ In t2 (s_pubs s_end) /\ hr_root t1 = Some r1 /\ hr_root t2 = Some r2 /\
    r1 <> r2 /\ reach (s_heap s_end) r1 a /\ reach (s_heap s_end) r2 a.
Proof.
  exists (nth 0 (s_pubs s_end) tree0), (nth 3 (s_pubs s_end) tree0).
  eexists. eexists. exists 6%nat.
  split; [apply nth_In; vm_compute; lia|]. split; [apply nth_In; vm_compute; lia|].
  split; [vm_compute; reflexivity|]. split; [vm_compute; reflexivity|].
  split; [vm_compute; discriminate|].
  split; apply (addrs_reach 20); vm_compute; tauto.
Qed.

(* the two live transactions belong to different lineages and carry the same id number *)
Example lineages_same_id :
  x_tid (s_a s_end) = x_tid (s_b s_end) /\ x_root (s_a s_end) <> x_root (s_b s_end) /\
  x_own (s_a s_end) <> [] /\ x_own (s_b s_end) <> [].
Proof. vm_compute. repeat split; discriminate. Qed.
End HeapExample.
