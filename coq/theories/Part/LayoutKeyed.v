(* Part/LayoutKeyed.v — node4 / node16 (sorted keys array + children array with stale slots):
   canonical form, lookups, insert, remove. Stdlib only. *)
From SV Require Import Part.Layout Part.LayoutBase.
From Coq Require Import ZifyN ZifyNat ZifyBool.
Close Scope N_scope.

(* the unused key slots: 255s left behind by remove, then the 0s of the fresh array *)
Definition stale (m z : nat) : list N := repeat 255%N m ++ repeat 0%N z.

(* a well-formed node4 / node16 holding the sorted keys ks *)
Definition canon_keyed (kd : N) (lf : bool) (ks : list N) (m z : nat) : layout :=
  mkL kd (length ks) lf (ks ++ stale m z) [] (map (@Some N) ks ++ repeat None (m + z)).

Lemma stale_length : forall m z, length (stale m z) = m + z.
Proof. intros; unfold stale; rewrite app_length, !repeat_length; reflexivity. Qed.

Definition next_stale (m z : nat) : nat * nat := match m with 0 => (0, z - 1) | S m' => (m', z) end.
Lemma stale_uncons : forall m z, 0 < m + z ->
  exists y, stale m z = y :: stale (fst (next_stale m z)) (snd (next_stale m z)) /\
            fst (next_stale m z) + snd (next_stale m z) = m + z - 1.
Proof.
  intros [|m] z H; cbn.
  - destruct z; [lia|]. exists 0%N. cbn. rewrite Nat.sub_0_r. split; reflexivity.
  - exists 255%N. split; [reflexivity|lia].
Qed.

Lemma abs_keyed : forall kd lf ks m z, (kd = 4 \/ kd = 16)%N -> l_abs (canon_keyed kd lf ks m z) = ks.
Proof.
  intros kd lf ks m z [-> | ->]; unfold l_abs, l_children_go; cbn [l_kind l_size l_children canon_keyed N.eqb Pos.eqb];
    rewrite <- (map_length (@Some N) ks), firstn_app_exact; apply cat_some_map_some.
Qed.

(* ---- lookups ---- *)
(* bytes.IndexByte-like scan; also node4's switch over the four key slots *)
Lemma find16_scan_none : forall n pre cpre st nn key,
  length cpre = length pre -> n <= length st -> n <= nn ->
  find16_scan n (length pre) (pre ++ st) (cpre ++ repeat None nn) key = false.
Proof.
  induction n as [|n IH]; intros pre cpre st nn key HL Hst Hnn; [reflexivity|].
  destruct st as [|y st]; [cbn in Hst; lia|]. destruct nn as [|nn]; [lia|]. cbn [find16_scan].
  unfold key_at, child_at. rewrite nth_app_exact. rewrite <- HL.
  cbn [repeat]. rewrite nth_app_exact. cbn [is_some].
  destruct (y =? key)%N; [reflexivity|].
  specialize (IH (pre ++ [y]) (cpre ++ [None]) st nn key).
  rewrite !app_length, <- !app_assoc in IH. cbn [length app] in IH.
  rewrite HL, Nat.add_1_r in IH. rewrite HL. apply IH; [reflexivity| cbn in Hst; lia | lia].
Qed.

Lemma find16_scan_spec : forall ks pre cpre st n nn key,
  length cpre = length pre -> n <= length st -> n <= nn ->
  find16_scan (length ks + n) (length pre) (pre ++ ks ++ st)
              (cpre ++ map (@Some N) ks ++ repeat None nn) key = memb key ks.
Proof.
  induction ks as [|x r IH]; intros pre cpre st n nn key HL Hn Hnn.
  - cbn [length app map Nat.add memb existsb]. apply find16_scan_none; auto.
  - cbn [length Nat.add find16_scan app map].
    unfold key_at, child_at. rewrite nth_app_exact. rewrite <- HL, nth_app_exact. cbn [is_some memb existsb].
    rewrite (N.eqb_sym key x). destruct (x =? key)%N; [reflexivity|]. cbn [orb].
    specialize (IH (pre ++ [x]) (cpre ++ [Some x]) st n nn key).
    rewrite !app_length, <- !app_assoc in IH. cbn [length app] in IH.
    rewrite HL, Nat.add_1_r in IH. rewrite HL. apply IH; auto.
Qed.

Lemma find_keyed : forall kd lf ks m z key, (kd = 4 \/ kd = 16)%N -> length ks + m + z = l_cap_of kd ->
  l_find (canon_keyed kd lf ks m z) key = memb key ks.
Proof.
  intros kd lf ks m z key Hkd Hcap.
  destruct Hkd as [-> | ->]; cbn in Hcap.
  - change (l_find (canon_keyed 4 lf ks m z) key)
      with (find16_scan 4 (length (@nil N)) ([] ++ ks ++ stale m z) ([] ++ map (@Some N) ks ++ repeat None (m + z)) key).
    replace 4 with (length ks + (m + z)) by lia.
    apply find16_scan_spec; auto. rewrite stale_length; lia.
  - change (l_find (canon_keyed 16 lf ks m z) key)
      with (find16_scan (length ks) (length (@nil N)) ([] ++ ks ++ stale m z) ([] ++ map (@Some N) ks ++ repeat None (m + z)) key).
    rewrite <- (Nat.add_0_r (length ks)) at 1.
    apply find16_scan_spec; auto; lia.
Qed.

(* ---- findIndex ---- *)
(* node4's "switch { case keys[0] >= key: i = 0 ... }" as a scan over the key slots *)
Fixpoint scan_ge (key : N) (keys : list N) (i n size : nat) : nat :=
  match n with
  | 0 => size
  | S n' => if (key <=? key_at keys i)%N then i else scan_ge key keys (S i) n' size
  end.

Lemma scan_ge_zeros : forall z key pre size, key <> 0%N ->
  scan_ge key (pre ++ repeat 0%N z) (length pre) z size = size.
Proof.
  induction z as [|z IH]; intros key pre size Hk; [reflexivity|].
  cbn [scan_ge repeat]. unfold key_at. rewrite nth_app_exact.
  destruct (N.leb_spec key 0); [lia|].
  specialize (IH key (pre ++ [0%N]) size Hk). rewrite app_length, <- app_assoc in IH. cbn [length app] in IH.
  rewrite Nat.add_1_r in IH. exact IH.
Qed.

Lemma scan_ge_spec : forall a pre b m z key,
  Forall (fun x => (x < key)%N) a -> Forall (fun x => (key <= x)%N) b -> (key < 256)%N ->
  (key = 0%N -> pre = []) ->
  scan_ge key (pre ++ a ++ b ++ stale m z) (length pre) (length a + length b + m + z)
          (length pre + length a + length b) = length pre + length a.
Proof.
  induction a as [|x a IH]; intros pre b m z key Ha Hb Hk H0.
  - cbn [app length Nat.add]. rewrite Nat.add_0_r. destruct b as [|x b].
    + cbn [app length Nat.add]. rewrite Nat.add_0_r. unfold stale. destruct m as [|m].
      * cbn [repeat app Nat.add]. destruct (N.eq_dec key 0) as [E|E].
        -- subst key. rewrite (H0 eq_refl). destruct z; reflexivity.
        -- apply scan_ge_zeros; auto.
      * cbn [Nat.add scan_ge repeat app]. unfold key_at. rewrite nth_app_exact.
        destruct (N.leb_spec key 255); [reflexivity|lia].
    + cbn [length Nat.add scan_ge app]. unfold key_at. rewrite nth_app_exact.
      apply Forall_cons_iff in Hb; destruct Hb as [Hbx Hb']. destruct (N.leb_spec key x); [reflexivity|lia].
  - cbn [length Nat.add scan_ge app]. unfold key_at. rewrite nth_app_exact.
    apply Forall_cons_iff in Ha; destruct Ha as [Hax Ha']. destruct (N.leb_spec key x); [lia|].
    specialize (IH (pre ++ [x]) b m z key Ha' Hb Hk).
    rewrite app_length, <- app_assoc in IH. cbn [length app] in IH.
    replace (length pre + 1) with (S (length pre)) in IH by lia.
    replace (length pre + S (length a) + length b) with (S (length pre) + length a + length b) by lia.
    rewrite IH; [lia|]. intros ->. lia.
Qed.

Lemma find16_loop_spec : forall a pre cpre b rest crest key size,
  length cpre = length pre ->
  Forall (fun x => (x < key)%N) a -> Forall (fun x => (key <= x)%N) b ->
  size = length pre + length a + length b ->
  find16_loop (length a + length b) (length pre) (pre ++ a ++ b ++ rest)
              (cpre ++ map (@Some N) a ++ map (@Some N) b ++ crest) key size
  = (match b with x :: _ => (x =? key)%N | [] => false end, length pre + length a).
Proof.
  induction a as [|x a IH]; intros pre cpre b rest crest key size HL Ha Hb Hs.
  - cbn [app length Nat.add map]. rewrite Nat.add_0_r. destruct b as [|x b].
    + cbn in *. f_equal. lia.
    + cbn [length find16_loop app map]. unfold key_at, child_at. rewrite nth_app_exact, <- HL, nth_app_exact.
      apply Forall_cons_iff in Hb; destruct Hb as [Hbx Hb']. destruct (N.leb_spec key x); [|lia].
      destruct (x =? key)%N; reflexivity.
  - cbn [length Nat.add find16_loop app map]. unfold key_at. rewrite nth_app_exact.
    apply Forall_cons_iff in Ha; destruct Ha as [Hax Ha']. destruct (N.leb_spec key x); [lia|].
    specialize (IH (pre ++ [x]) (cpre ++ [Some x]) b rest crest key (length pre + S (length a) + length b)).
    rewrite !app_length, <- !app_assoc in IH. cbn [length app] in IH.
    rewrite !Nat.add_1_r in IH. cbn [length] in Hs. subst size. rewrite IH; auto; [f_equal; lia | lia].
Qed.

Lemma findIndex_keyed : forall kd lf ks m z key, (kd = 4 \/ kd = 16)%N ->
  length ks + m + z = l_cap_of kd -> ssorted ks -> (key < 256)%N ->
  l_findIndex (canon_keyed kd lf ks m z) key = (memb key ks, rank key ks).
Proof.
  intros kd lf ks m z key Hkd Hcap HS Hk.
  destruct (split_at key ks HS) as (a & b & E & Ha & Hb & Hr & Hm & _).
  rewrite Hr, Hm. subst ks. rewrite app_length in Hcap.
  destruct Hkd as [-> | ->]; cbn in Hcap.
  - pose proof (scan_ge_spec a [] b m z key Ha Hb Hk (fun _ => eq_refl)) as HS4.
    cbn [length app Nat.add] in HS4. replace (length a + length b + m + z) with 4 in HS4 by lia.
    unfold l_findIndex. cbn [l_kind canon_keyed N.eqb Pos.eqb l_size l_keys l_children].
    change (if (key <=? key_at ((a ++ b) ++ stale m z) 0)%N then 0 else
            if (key <=? key_at ((a ++ b) ++ stale m z) 1)%N then 1 else
            if (key <=? key_at ((a ++ b) ++ stale m z) 2)%N then 2 else
            if (key <=? key_at ((a ++ b) ++ stale m z) 3)%N then 3 else length (a ++ b))
      with (scan_ge key ((a ++ b) ++ stale m z) 0 4 (length (a ++ b))).
    rewrite app_length, <- app_assoc, HS4.
    destruct b as [|x b].
    + cbn [length]. rewrite Nat.add_0_r, Nat.ltb_irrefl. reflexivity.
    + cbn [app]. unfold key_at, child_at. rewrite nth_app_exact.
      rewrite map_app, <- app_assoc, <- (map_length (@Some N) a). cbn [map app]. rewrite nth_app_exact.
      cbn [length]. destruct (Nat.ltb_spec (length (map Some a)) (length (map Some a) + S (length b))); [|lia].
      cbn [andb is_some]. destruct (x =? key)%N; reflexivity.
  - unfold l_findIndex. cbn [l_kind canon_keyed N.eqb Pos.eqb l_size l_keys l_children].
    pose proof (find16_loop_spec a [] [] b (stale m z) (repeat None (m + z)) key (length (a ++ b)) eq_refl Ha Hb) as H16.
    cbn [length app Nat.add] in H16. rewrite <- app_assoc, map_app, <- app_assoc, app_length.
    rewrite app_length in H16. apply H16. reflexivity.
Qed.

(* ---- insert / remove / promote 4->16 / the arrays rebuilt by the demotion 16->4 ---- *)
Lemma insert_keyed : forall kd lf a b m z k, (kd = 4 \/ kd = 16)%N -> 0 < m + z ->
  l_insert (canon_keyed kd lf (a ++ b) m z) (length a) k =
  canon_keyed kd lf (a ++ k :: b) (fst (next_stale m z)) (snd (next_stale m z)).
Proof.
  intros kd lf a b m z k Hkd Hmz.
  destruct (stale_uncons m z Hmz) as (y & Ey & Hsum).
  unfold l_insert, canon_keyed. cbn [l_kind l_size l_leaf l_keys l_index l_children].
  replace ((kd =? 4)%N || (kd =? 16)%N) with true by (destruct Hkd as [-> | ->]; reflexivity).
  f_equal.
  - rewrite !app_length. cbn [length]. lia.
  - rewrite Ey, <- !app_assoc, app_length. rewrite arr_insert_app. cbn [app]. reflexivity.
  - rewrite Hsum. remember (m + z - 1) as q eqn:Eq. replace (m + z) with (S q) by lia. cbn [repeat].
    rewrite !map_app, <- !app_assoc, app_length. cbn [map app].
    rewrite <- (map_length (@Some N) a), <- (map_length (@Some N) b). rewrite arr_insert_app. reflexivity.
Qed.

Lemma remove_keyed : forall kd lf a b m z k, (kd = 4 \/ kd = 16)%N ->
  l_remove (canon_keyed kd lf (a ++ k :: b) m z) (length a) = canon_keyed kd lf (a ++ b) (S m) z.
Proof.
  intros kd lf a b m z k Hkd.
  unfold l_remove, canon_keyed. cbn [l_kind l_size l_leaf l_keys l_index l_children].
  replace ((kd =? 4)%N || (kd =? 16)%N) with true by (destruct Hkd as [-> | ->]; reflexivity).
  f_equal.
  - rewrite !app_length. cbn [length]. lia.
  - rewrite <- !app_assoc, app_length. cbn [app length]. rewrite arr_remove_app. reflexivity.
  - rewrite !map_app, <- !app_assoc, app_length. cbn [map app length].
    rewrite <- (map_length (@Some N) a), <- (map_length (@Some N) b). rewrite arr_remove_app.
    cbn [Nat.add repeat]. reflexivity.
Qed.

Lemma promote_4 : forall lf ks m z, length ks <= 16 ->
  l_promote (canon_keyed 4 lf ks m z) = canon_keyed 16 lf ks 0 (16 - length ks).
Proof.
  intros lf ks m z HL. unfold l_promote, canon_keyed. cbn [l_kind l_size l_leaf l_keys l_children N.eqb Pos.eqb].
  f_equal.
  - rewrite firstn_app_exact. rewrite copy_into_repeat by lia. reflexivity.
  - rewrite <- (map_length (@Some N) ks) at 1. rewrite firstn_app_exact. rewrite copy_into_repeat by (rewrite map_length; lia).
    rewrite map_length. reflexivity.
Qed.

Lemma demote_16_arrays : forall lf a b m z k, length a + length b <= 4 ->
  mkL 4 (length (a ++ k :: b) - 1) lf
      (copy_into (skip_nth (length a) (firstn (length (a ++ k :: b)) (l_keys (canon_keyed 16 lf (a ++ k :: b) m z)))) (repeat 0%N 4)) []
      (copy_into (skip_nth (length a) (firstn (length (a ++ k :: b)) (l_children (canon_keyed 16 lf (a ++ k :: b) m z)))) (repeat None 4))
  = canon_keyed 4 lf (a ++ b) 0 (4 - length (a ++ b)).
Proof.
  intros lf a b m z k HL. unfold canon_keyed. cbn [l_keys l_children].
  rewrite firstn_app_exact. rewrite <- (map_length (@Some N) (a ++ k :: b)) at 2. rewrite firstn_app_exact.
  rewrite skip_nth_app. rewrite map_app. cbn [map]. rewrite <- (map_length (@Some N) a). rewrite skip_nth_app.
  rewrite !copy_into_repeat by (rewrite ?app_length, ?map_length; lia).
  f_equal.
  - rewrite !app_length. cbn [length]. lia.
  - rewrite <- map_app. rewrite app_length, !map_length, app_length. reflexivity.
Qed.
