(* Part/Heap.v — heap-level (pointer) model of the write path of part.Txn (txn.go modify / delete /
   removeChild, node.go clone / promote): nodes AND leaves are cells of a heap (a list; address =
   index; allocation appends), inner nodes hold addresses of their children and of their leaf.
   `Txn.cloneNode(n)` returns n itself — which is then WRITTEN IN PLACE — exactly when
   n.txnID() = txn.txnID, otherwise it allocates a shallow copy (sharing children and leaf with the
   original) stamped with txn.txnID. No proofs here except computed sanity examples; the theorems
   (refinement of Part/Model.v, ownership, persistence) are in HeapMod.v, HeapDel.v, HeapProofs.v.

   Correspondence with the Go code (what is mirrored, what is normalised):
   - which node is cloned (cloneNode, clone(false), promote, demote, leafCopy, newLeaf, new node4)
     and which is written in place is mirrored statement by statement: [hput] is "this =
     txn.cloneNode(this); <writes to this>" (in place iff this.txnID = txn.txnID), [alloc] is an
     unconditional allocation (the writes that initialise a fresh object are folded into it);
   - the iterative loops are recursions over the path, as in Part/Model.v; the write of the new
     child pointer into the (cloned) parent happens when the recursion returns, so a parent's
     clone is allocated AFTER the clones below it: only the numbering of fresh addresses differs
     from Go, not the set of cloned cells nor the set of cells written in place;
   - the child container (node4/16/48/256) is one byte-sorted list + kind tag, as in Part/Model.v;
   - watch channels are the numbers of Part/Model.v, threaded through the same state [st]. *)
From SV Require Import Base.Bytes Part.Model.
From Coq Require Import ZArith List.
Import ListNotations.
Open Scope N_scope.

(* leaf[T] objects and node4/16/48/256 objects; pointers are addresses *)
Inductive cell :=
| CLeaf (p : bytes) (l : leafrec)
| CInner (kd t : N) (p : bytes) (w : N) (lf : option nat) (ch : list (N * nat)).
Definition heap := list cell.

Definition cdflt : cell := CLeaf [] (mkLeaf [] 0 0).
Definition hget (h : heap) (a : nat) : cell := nth a h cdflt.

(* *addr = c (in-place write) *)
Fixpoint upd (h : heap) (a : nat) (c : cell) : heap :=
  match h, a with
  | [], _ => []
  | _ :: h', O => c :: h'
  | x :: h', S a' => x :: upd h' a' c
  end.
(* new(...) *)
Definition alloc (h : heap) (c : cell) : heap * nat := (h ++ [c], length h).

(* header.txnID(): leaves report 0 *)
Definition cell_tid (c : cell) : N := match c with CLeaf _ _ => 0 | CInner _ t _ _ _ _ => t end.
Definition cell_prefix (c : cell) : bytes := match c with CLeaf p _ => p | CInner _ _ p _ _ _ => p end.
Definition cell_set_prefix (c : cell) (q : bytes) : cell :=
  match c with CLeaf _ l => CLeaf q l | CInner kd t _ w lf ch => CInner kd t q w lf ch end.
Definition cell_leafrec (c : cell) : leafrec := match c with CLeaf _ l => l | _ => mkLeaf [] 0 0 end.
Definition cell_ptrs (c : cell) : list nat :=
  match c with
  | CLeaf _ _ => []
  | CInner _ _ _ _ lf ch => (match lf with Some la => [la] | None => [] end) ++ map snd ch
  end.

(* children()/find/insert/remove on the byte-sorted child list (the ch_ functions of Part/Model.v) *)
Fixpoint hc_len (ch : list (N * nat)) : N := match ch with [] => 0 | _ :: r => 1 + hc_len r end.
Fixpoint hc_find (b : N) (ch : list (N * nat)) : option nat :=
  match ch with [] => None | (b', c) :: r => if b' =? b then Some c else hc_find b r end.
Fixpoint hc_insert (b : N) (a : nat) (ch : list (N * nat)) : list (N * nat) :=
  match ch with
  | [] => [(b, a)]
  | (b', c) :: r => if b <? b' then (b, a) :: ch else (b', c) :: hc_insert b a r
  end.
Fixpoint hc_set (b : N) (a : nat) (ch : list (N * nat)) : list (N * nat) :=
  match ch with [] => [] | (b', c) :: r => if b' =? b then (b', a) :: r else (b', c) :: hc_set b a r end.
Fixpoint hc_remove (b : N) (ch : list (N * nat)) : list (N * nat) :=
  match ch with [] => [] | (b', c) :: r => if b' =? b then r else (b', c) :: hc_remove b r end.
Fixpoint hc_other (b : N) (ch : list (N * nat)) : option nat :=
  match ch with [] => None | (b', c) :: r => if b' =? b then hc_other b r else Some c end.

(* ---- denotation into the tree type of Part/Model.v ---- *)
Fixpoint den_ch (df : nat -> option node) (ch : list (N * nat)) : option children :=
  match ch with
  | [] => Some CNil
  | (b, c) :: r => match df c, den_ch df r with Some n, Some tr => Some (CCons b n tr) | _, _ => None end
  end.
(* the leaf pointer of an inner node: the leaf object's own header prefix is not part of the model *)
Definition den_leaf (h : heap) (lf : option nat) : option (option leafrec) :=
  match lf with
  | None => Some None
  | Some la => match nth_error h la with Some (CLeaf _ l) => Some (Some l) | _ => None end
  end.
(* None: dangling pointer or fuel exhausted (cyclic structure) *)
Fixpoint denf (f : nat) (h : heap) (a : nat) : option node :=
  match f with
  | O => None
  | S f' =>
    match nth_error h a with
    | None => None
    | Some (CLeaf p l) => Some (Leaf p l)
    | Some (CInner kd t p w lf ch) =>
      match den_leaf h lf, den_ch (denf f' h) ch with
      | Some ol, Some tch => Some (Inner kd t p w ol tch)
      | _, _ => None
      end
    end
  end.
(* fuel = number of cells: enough for every acyclic pointer structure (HeapBase.v rep_den) *)
Definition den (h : heap) (a : nat) : option node := denf (length h) h a.
(* a root pointer (nil = empty tree) *)
Definition den_root (h : heap) (r : option nat) : option node :=
  match r with None => None | Some a => den h a end.

(* result of modify below a node: heap, address of the node that replaces it, and the outputs of
   Part/Model.v mres *)
Record hres := mkHR { r_heap : heap; r_addr : nat; r_st : st; r_old : option N; r_w : N; r_val : N }.

Section Ops.
Variable c : ctx.
Notation tid := (c_tid c).

(* this = txn.cloneNode(this) on a node with txnID t, followed by the writes that turn it into
   [nc]: IN PLACE iff t = txn.txnID, else a fresh copy *)
Definition hput (h : heap) (a : nat) (t : N) (nc : cell) : heap * nat :=
  if t =? tid then (upd h a nc, a) else alloc h nc.

Section Modify.
Variable md : option (N -> N -> N).
Variable fullKey : bytes.
Variable v : N.

(* txn.go modify, tail ("only a partially matching prefix"). ta = this (leafCopy or cloned node,
   prefix already shortened to tp), tl = this.getLeaf(), cp = common, key' = key[len(common):].
   newLeaf and the new node4 are allocated *)
Definition hsplit (s : st) (h : heap) (ta : nat) (tp : bytes) (tl : option nat) (cp key' : bytes) : hres :=
  let '(lw, s1) := fresh c s in
  let '(h1, la) := alloc h (CLeaf key' (mkLeaf fullKey v lw)) in
  let '(nw, s2) := fresh c s1 in
  let mk lf ch := CInner 4 tid cp nw lf ch in
  let nn :=
    match tp, key' with
    | [], _ => mk tl [(hd 0 key', la)]
    | tb :: _, [] => mk (Some la) [(tb, ta)]
    | tb :: _, kb :: _ => if tb <? kb then mk None [(tb, ta); (kb, la)] else mk None [(kb, la); (tb, ta)]
    end in
  let '(h2, na) := alloc h1 nn in
  mkHR h2 na s2 None lw v.

(* leaf = txn.cloneNode(leaf.self()).getLeaf(); leaf.value = nv: leaf.txnID() is the constant 0, so
   the leaf object is written in place iff txn.txnID = 0 (never, since ids start at 1) *)
Definition hleaf_update (s : st) (h : heap) (a : nat) (p : bytes) (l : leafrec) : heap * nat * st * leafrec :=
  let '(l', s') := clone_leaf c s l in
  let nl := mkLeaf (lf_key l') (new_val md v (lf_val l)) (lf_w l') in
  let '(h1, a1) := if 0 =? tid then (upd h a (CLeaf p nl), a) else alloc h (CLeaf p nl) in
  (h1, a1, s', nl).

Fixpoint hmod (f : nat) (s : st) (h : heap) (a : nat) (key : bytes) : hres :=
  match f with
  | O => mkHR h a s None 0 0
  | S f' =>
    match hget h a with
    | CLeaf p l =>
      if bytes_eqb key p then
        (* exact match on a leaf: this = cloneNode(this); leaf.value = ... *)
        let '(h1, a1, s', nl) := hleaf_update s h a p l in
        mkHR h1 a1 s' (Some (lf_val l)) (lf_w nl) (lf_val nl)
      else
        (* leafCopy := *this.getLeaf(); this.setPrefix(...) *)
        let cp := common key p in
        let '(h1, ta) := alloc h (CLeaf (skipn (length cp) p) l) in
        hsplit s h1 ta (skipn (length cp) p) (Some ta) cp (skipn (length cp) key)
    | CInner kd t p w lf ch =>
      match strip p key with
      | None =>
        (* this = txn.cloneNode(this); this.setPrefix(...) *)
        let '(t', w', s') := clone_hdr c s t w in
        let cp := common key p in
        let '(h1, ta) := hput h a t (CInner kd t' (skipn (length cp) p) w' lf ch) in
        hsplit s' h1 ta (skipn (length cp) p) lf cp (skipn (length cp) key)
      | Some [] =>
        (* exact match on a non-leaf node: this = txn.cloneNode(this); this.setLeaf(...) *)
        let '(t', w', s1) := clone_hdr c s t w in
        match lf with
        | Some la =>
          let l := cell_leafrec (hget h la) in
          let '(h1, la', s2, nl) := hleaf_update s1 h la (cell_prefix (hget h la)) l in
          let '(h2, a2) := hput h1 a t (CInner kd t' p w' (Some la') ch) in
          mkHR h2 a2 s2 (Some (lf_val l)) (lf_w nl) (lf_val nl)
        | None =>
          let '(lw, s2) := fresh c s1 in
          let '(h1, la) := alloc h (CLeaf p (mkLeaf fullKey v lw)) in
          let '(h2, a2) := hput h1 a t (CInner kd t' p w' (Some la) ch) in
          mkHR h2 a2 s2 None lw v
        end
      | Some ((b :: _) as rest) =>
        match hc_find b ch with
        | Some cc =>
          (* this = txn.cloneNode(this); *thisp = this; thisp = &this.children()[idx]; recurse *)
          let '(t', w', s1) := clone_hdr c s t w in
          let r := hmod f' s1 h cc rest in
          let '(h2, a2) := hput (r_heap r) a t (CInner kd t' p w' lf (hc_set b (r_addr r) ch)) in
          mkHR h2 a2 (r_st r) (r_old r) (r_w r) (r_val r)
        | None =>
          (* free slot: promote (always a new object) if full, else cloneNode; insert a new leaf *)
          if kd <? hc_len ch + 1 then
            let '(w2, s2) := fresh_if w (record w s) in
            let '(lw, s3) := fresh c s2 in
            let '(h1, la) := alloc h (CLeaf rest (mkLeaf fullKey v lw)) in
            let '(h2, a2) := alloc h1 (CInner (promote_kind kd) tid p w2 lf (hc_insert b la ch)) in
            mkHR h2 a2 s3 None lw v
          else
            let '(t2, w2, s2) := clone_hdr c s t w in
            let '(lw, s3) := fresh c s2 in
            let '(h1, la) := alloc h (CLeaf rest (mkLeaf fullKey v lw)) in
            let '(h2, a2) := hput h1 a t (CInner kd t2 p w2 lf (hc_insert b la ch)) in
            mkHR h2 a2 s3 None lw v
        end
      end
    end
  end.
End Modify.

(* ---- Txn.delete / removeChild ---- *)
(* childClone := child.clone(false); childClone.watch = child.watch;
   childClone.setPrefix(Concat(parent.prefix(), childClone.prefix())): ALWAYS a new object; its
   txnID is the child's *)
Definition hmerge (h : heap) (pp : bytes) (x : nat) : heap * nat :=
  alloc h (cell_set_prefix (hget h x) (pp ++ cell_prefix (hget h x))).
(* the seeded variant: "the parent is ours, so write the child in place" (refuted in HeapProofs.v) *)
Definition hmerge_bug (pt : N) (h : heap) (pp : bytes) (x : nat) : heap * nat :=
  if pt =? tid then (upd h x (cell_set_prefix (hget h x) (pp ++ cell_prefix (hget h x))), x)
  else hmerge h pp x.

Inductive hdres := HDNone | HDSome (old : N) (repl : option nat) (s : st) (h : heap) (inpl : bool).

Section Delete.
(* the merge used by the single-child branches: [hmerge] in the real code *)
Variable merge : N -> heap -> bytes -> nat -> heap * nat.

(* txn.go removeChild(parent, index) *)
Definition hremove_child (old : N) (s : st) (h : heap) (a : nat) (kd t : N) (p : bytes) (w : N)
    (lf : option nat) (ch : list (N * nat)) (b : N) : hdres :=
  let size := hc_len ch in
  match (size =? 2), lf, hc_other b ch with
  | true, None, Some x =>
    let '(h1, x') := merge t h p x in HDSome old (Some x') (record w s) h1 false
  | _, _, _ =>
    if ((kd =? 256) && (size <=? 49)) || ((kd =? 48) && (size <=? 17)) || ((kd =? 16) && (size <=? 5)) then
      (* demote: always a new object *)
      let kd' := if kd =? 256 then 48 else if kd =? 48 then 16 else 4 in
      let '(w', s1) := fresh_if w s in
      let '(h1, a1) := alloc h (CInner kd' tid p w' lf (hc_remove b ch)) in
      HDSome old (Some a1) (record w s1) h1 false
    else
      (* newParent = txn.cloneNode(parent); newParent.remove(index) *)
      let '(t', w', s1) := clone_hdr c s t w in
      let '(h1, a1) := hput h a t (CInner kd t' p w' lf (hc_remove b ch)) in
      HDSome old (Some a1) s1 h1 (t =? tid)
  end.

Fixpoint hdel (f : nat) (s : st) (h : heap) (a : nat) (key : bytes) : hdres :=
  match f with
  | O => HDNone
  | S f' =>
    match hget h a with
    | CLeaf p l =>
      if bytes_eqb key p then HDSome (lf_val l) None (record (lf_w l) (record (lf_w l) s)) h false else HDNone
    | CInner kd t p w lf ch =>
      match strip p key with
      | None => HDNone
      | Some [] =>
        match lf with
        | None => HDNone
        | Some la =>
          let l := cell_leafrec (hget h la) in
          let s1 := record (lf_w l) s in
          match ch with
          | [] => HDSome (lf_val l) None (record w s1) h false
          | [(_, x)] =>
            (* single child: shift the child up (childClone) *)
            let '(h1, x') := merge t h p x in HDSome (lf_val l) (Some x') (record w s1) h1 false
          | _ =>
            (* this.node = txn.cloneNode(this.node); this.node.setLeaf(nil) *)
            let '(t', w', s2) := clone_hdr c s1 t w in
            let '(h1, a1) := hput h a t (CInner kd t' p w' None ch) in
            HDSome (lf_val l) (Some a1) s2 h1 false
          end
        end
      | Some ((b :: _) as rest) =>
        match hc_find b ch with
        | None => HDNone
        | Some cc =>
          match hdel f' s h cc rest with
          | HDNone => HDNone
          | HDSome old (Some x) s1 h1 true =>
            (* parent.node == oldParent && parent.node.txnID() == txn.txnID: nothing to rebuild *)
            HDSome old (Some a) s1 h1 true
          | HDSome old (Some x) s1 h1 false =>
            (* parent.node = txn.cloneNode(parent.node); parent.node.children()[this.index] = this.node *)
            let '(t', w', s2) := clone_hdr c s1 t w in
            let '(h2, a2) := hput h1 a t (CInner kd t' p w' lf (hc_set b x ch)) in
            HDSome old (Some a2) s2 h2 (t =? tid)
          | HDSome old None s1 h1 _ => hremove_child old s1 h1 a kd t p w lf ch b
          end
        end
      end
    end
  end.
End Delete.
End Ops.

(* ---- Txn records on the heap ---- *)
(* x_own: the cells this transaction allocated AND stamped with its id since the id was last
   set/bumped (the cells cloneNode returns as they are) *)
Record htxn := mkHTxn { x_root : option nat; x_rw : N; x_size : N; x_ro : bool; x_tid : N;
                        x_dirty : bool; x_st : st; x_own : list nat }.
Record htree := mkHTree { hr_root : option nat; hr_rw : N; hr_size : N; hr_ro : bool; hr_next : N }.

Definition htxn_ctx (x : htxn) : ctx := mkCtx (x_tid x) (x_ro x).

(* the cells appended between two heaps, and those of them stamped with tid *)
Definition fresh_cells (h h' : heap) : list nat := seq (length h) (length h' - length h).
Definition stamped (tid : N) (h : heap) (l : list nat) : list nat :=
  filter (fun a => match hget h a with CInner _ t _ _ _ _ => t =? tid | CLeaf _ _ => false end) l.
Definition own_after (x : htxn) (h h' : heap) : list nat :=
  x_own x ++ stamped (x_tid x) h' (fresh_cells h h').

(* Tree.Txn *)
Definition htree_txn (t : htree) (next : N) : htxn :=
  mkHTxn (hr_root t) (hr_rw t) (hr_size t) (hr_ro t) (hr_next t) false (mkSt [] next) [].
Definition htree_new (ro : bool) (next : N) : htree * N := (mkHTree None next 0 ro 1, next + 1).

(* Txn.ModifyWatch / InsertWatch: (heap, txn, old, new value, watch) *)
Definition htxn_modify (h : heap) (x : htxn) (md : option (N -> N -> N)) (key : bytes) (v : N)
    : heap * htxn * option N * N * N :=
  let c := htxn_ctx x in
  let r := match x_root x with
           | None => let '(lw, s1) := fresh c (x_st x) in
                     let '(h1, a) := alloc h (CLeaf key (mkLeaf key v lw)) in mkHR h1 a s1 None lw v
           | Some a => hmod c md key v (length h) (x_st x) h a key
           end in
  let size := match r_old r with None => x_size x + 1 | Some _ => x_size x end in
  (r_heap r,
   mkHTxn (Some (r_addr r)) (x_rw x) size (x_ro x) (x_tid x) true (r_st r) (own_after x h (r_heap r)),
   r_old r, r_val r, if x_ro x then x_rw x else r_w r).

(* Txn.Delete, parametric in the merge step (hmerge = the real code) *)
Definition htxn_delete_with (merge : ctx -> N -> heap -> bytes -> nat -> heap * nat)
    (h : heap) (x : htxn) (key : bytes) : heap * htxn * option N :=
  match x_root x with
  | None => (h, x, None)
  | Some a =>
    match hdel (htxn_ctx x) (merge (htxn_ctx x)) (length h) (x_st x) h a key with
    | HDNone => (h, x, None)
    | HDSome old repl s h' _ =>
      (h', mkHTxn repl (x_rw x) (x_size x - 1) (x_ro x) (x_tid x) true s (own_after x h h'), Some old)
    end
  end.
Definition htxn_delete := htxn_delete_with (fun _ _ => hmerge).
Definition htxn_delete_bug := htxn_delete_with hmerge_bug.

(* txn.txnID++ (Iterator / Prefix / LowerBound / All / Clone): nothing is owned any more *)
Definition hbump (x : htxn) : htxn :=
  mkHTxn (x_root x) (x_rw x) (x_size x) (x_ro x) (x_tid x + 1) (x_dirty x) (x_st x) [].
(* Txn.Clone *)
Definition htxn_clone (x : htxn) : htxn * htree :=
  let x' := hbump x in (x', mkHTree (x_root x) (x_rw x) (x_size x) (x_ro x) (x_tid x')).
(* Txn.Commit (= commit()) *)
Definition htxn_commit (x : htxn) : htxn * htree :=
  let s := x_st x in
  let '(rw', s') := if x_dirty x then (s_next s, mkSt (s_ws s) (s_next s + 1)) else (x_rw x, s) in
  (mkHTxn (x_root x) (x_rw x) (x_size x) (x_ro x) (x_tid x + 1) (x_dirty x) s' [],
   mkHTree (x_root x) rw' (x_size x) (x_ro x) (x_tid x + 1)).

(* abstraction to the records of Part/Model.v *)
Definition habs (h : heap) (x : htxn) : txn :=
  mkTxn (den_root h (x_root x)) (x_rw x) (x_size x) (x_ro x) (x_tid x) (x_dirty x) (x_st x).
Definition habs_tree (h : heap) (t : htree) : tree :=
  mkTree (den_root h (hr_root t)) (hr_rw t) (hr_size t) (hr_ro t) (hr_next t).

(* ---- computed sanity checks against the tree model ---- *)
Module HeapSanity.
Inductive op := OIns (k : bytes) (v : N) | OMod (k : bytes) (v : N) | ODel (k : bytes) | OBump.
Definition hstep (s : heap * htxn) (o : op) : heap * htxn :=
  let (h, x) := s in
  match o with
  | OIns k v => fst (fst (fst (htxn_modify h x None k v)))
  | OMod k v => fst (fst (fst (htxn_modify h x (Some mod_fun) k v)))
  | ODel k => fst (htxn_delete h x k)
  | OBump => (h, hbump x)
  end.
Definition mstep (x : txn) (o : op) : txn :=
  match o with
  | OIns k v => fst (fst (fst (txn_modify x None k v)))
  | OMod k v => fst (fst (fst (txn_modify x (Some mod_fun) k v)))
  | ODel k => fst (txn_delete x k)
  | OBump => bump x
  end.
Definition t0 : htree := fst (htree_new false 1).
Definition m0 : tree := fst (tree_new false 1).

Definition ops1 : list op :=
  [OIns [1;2] 10; OIns [] 11; OIns [1] 12; OIns [1;2;3] 13; OBump; ODel [1]; OMod [1;2] 5; OIns [1;3] 14;
   OIns [2] 15; OIns [1;4] 16; OIns [1;5] 17; OIns [1;6] 18; OBump; OIns [1;7] 19; ODel [1;3]; ODel [1;4];
   ODel [1;2]; ODel [1;2;3]; OMod [9] 1; ODel []; OIns [1;6;1] 20; ODel [1;6]; ODel [2]; ODel [7]].
Example sanity_ops1 :
  let '(h, x) := fold_left hstep ops1 ([], htree_txn t0 2) in
  habs h x = fold_left mstep ops1 (tree_txn m0 2).
Proof. vm_compute. reflexivity. Qed.

(* every prefix of the history agrees, too *)
Example sanity_prefixes :
  map (fun n => let '(h, x) := fold_left hstep (firstn n ops1) ([], htree_txn t0 2) in habs h x) (seq 0 25)
  = map (fun n => fold_left mstep (firstn n ops1) (tree_txn m0 2)) (seq 0 25).
Proof. vm_compute. reflexivity. Qed.
End HeapSanity.
