(* Part/Fresh.v — channel accounting: every nonzero channel occurs at most once in a transaction's tree, recorded
   channels do not occur any more, all channels are below the allocator. Consequence: the channels handed out by the
   tree produced by Commit are not in the set closed by that transaction's Notify. *)
From SV Require Import Base.Bytes Base.OrdMap Part.Model Part.Sem Part.Insert Part.Delete Part.Query Part.Refine Part.Cow Part.Watch Part.Stable Part.PStable.
From Coq Require Import ZifyN ZifyNat ZifyBool.
Open Scope N_scope.

Definition ind (a w : N) : nat := if w =? a then 1%nat else 0%nat.
Definition lfc (a : N) (lf : option leafrec) : nat := match lf with Some l => ind a (lf_w l) | None => 0%nat end.
(* number of occurrences of channel a in a tree *)
Fixpoint cnt (a : N) (n : node) : nat :=
  match n with
  | Leaf _ l => ind a (lf_w l)
  | Inner _ _ _ w lf ch => (ind a w + lfc a lf + cnt_ch a ch)%nat
  end
with cnt_ch (a : N) (ch : children) : nat :=
  match ch with CNil => 0%nat | CCons _ x r => (cnt a x + cnt_ch a r)%nat end.

Definition cf := N -> nat.
Definition bounded (B : N) (C : cf) : Prop := forall a, a <> 0 -> B <= a -> C a = 0%nat.

(* one accounting step from state s to s': C the occurrences before, C' after *)
Definition MS (C C' : cf) (s s' : st) : Prop :=
  (forall a, a <> 0 -> a < s_next s -> (C' a <= C a)%nat) /\
  (forall a, a <> 0 -> s_next s <= a -> (C' a <= 1)%nat /\ ((1 <= C' a)%nat -> a < s_next s')) /\
  (forall a, In a (s_ws s') -> In a (s_ws s) \/ (a <> 0 /\ (C' a + 1 <= C a)%nat)) /\
  s_next s <= s_next s'.

Definition cplus (C1 C2 : cf) : cf := fun a => (C1 a + C2 a)%nat.
Definition czero : cf := fun _ => 0%nat.

Lemma MS_ext C1 C1' C2 C2' s s' : (forall a, C1 a = C2 a) -> (forall a, C1' a = C2' a) -> MS C1 C1' s s' -> MS C2 C2' s s'.
Proof.
  intros E E' (M1 & M2 & M3 & M4). repeat split; auto.
  - intros a H1 H2. rewrite <- E, <- E'. auto.
  - rewrite <- E'. apply M2; auto.
  - rewrite <- E'. apply M2; auto.
  - intros a H. destruct (M3 a H) as [H1|[H1 H2]]; auto. right. rewrite <- E, <- E'. auto.
Qed.
Lemma MS_id C s : bounded (s_next s) C -> (forall a, (C a <= 1)%nat) -> MS C C s s.
Proof.
  intros Hb H1. repeat split; auto; try lia.
  - rewrite (Hb a); auto; lia.
Qed.
Lemma MS_id0 C s : bounded (s_next s) C -> MS C C s s.
Proof.
  intros Hb. repeat split; auto; try lia; rewrite (Hb a); auto; lia.
Qed.
(* an untouched part next to a changed one *)
Lemma MS_frame Ca Ca' Cb s s' : MS Ca Ca' s s' -> bounded (s_next s) Cb -> MS (cplus Ca Cb) (cplus Ca' Cb) s s'.
Proof.
  intros (M1 & M2 & M3 & M4) Hb. unfold cplus. repeat split; auto.
  - intros a H1 H2. specialize (M1 a H1 H2). lia.
  - rewrite (Hb a) by auto. destruct (M2 a H H0). lia.
  - rewrite (Hb a) by auto. destruct (M2 a H H0). intros. apply H2. lia.
  - intros a H. destruct (M3 a H) as [H1|[H1 H2]]; auto. right. split; auto. lia.
Qed.
(* two parts changed one after the other *)
Lemma MS_seq Ca Ca' Cb Cb' s s1 s2 :
  MS Ca Ca' s s1 -> MS Cb Cb' s1 s2 -> bounded (s_next s) Ca -> bounded (s_next s) Cb ->
  MS (cplus Ca Cb) (cplus Ca' Cb') s s2.
Proof.
  intros (A1 & A2 & A3 & A4) (B1 & B2 & B3 & B4) Ha Hb. unfold cplus. repeat split; try lia.
  - intros a H1 H2. specialize (A1 a H1 H2). specialize (B1 a H1 ltac:(lia)). lia.
  - destruct (A2 a H H0) as [X1 X2].
    destruct (N.lt_ge_cases a (s_next s1)) as [L|G].
    + specialize (B1 a H L). rewrite (Hb a) in B1 by auto. lia.
    + destruct (B2 a H G) as [Y1 Y2]. assert (Ca' a = 0)%nat by (destruct (Ca' a); auto; exfalso; specialize (X2 ltac:(lia)); lia). lia.
  - destruct (A2 a H H0) as [X1 X2]. intros Hs.
    destruct (N.lt_ge_cases a (s_next s1)) as [L|G]; [lia|].
    destruct (B2 a H G) as [Y1 Y2]. assert (Ca' a = 0)%nat by (destruct (Ca' a); auto; exfalso; specialize (X2 ltac:(lia)); lia).
    apply Y2. lia.
  - intros a H. destruct (B3 a H) as [H1|[H1 H2]].
    + destruct (A3 a H1) as [H3|[H3 H4]]; auto. right. split; auto.
      assert (a < s_next s) by (destruct (N.lt_ge_cases a (s_next s)); auto; rewrite (Ha a) in H4 by auto; lia).
      specialize (B1 a H3 ltac:(lia)). lia.
    + right. split; auto.
      assert (a < s_next s) by (destruct (N.lt_ge_cases a (s_next s)); auto; rewrite (Hb a) in H2 by auto; lia).
      specialize (A1 a H1 H0). lia.
Qed.

Lemma MS_le C C1' C2' s s' : (forall a, (C2' a <= C1' a)%nat) -> MS C C1' s s' -> MS C C2' s s'.
Proof.
  intros L (M1 & M2 & M3 & M4). repeat split; auto.
  - intros a H1 H2. specialize (M1 a H1 H2). specialize (L a). lia.
  - destruct (M2 a H H0). specialize (L a). lia.
  - destruct (M2 a H H0). specialize (L a). intros. apply H2. lia.
  - intros a H. destruct (M3 a H) as [H1|[H1 H2]]; auto. right. split; auto. specialize (L a). lia.
Qed.

Definition Ci (w : N) : cf := fun a => ind a w.
Definition Cl (lf : option leafrec) : cf := fun a => lfc a lf.
Definition Cn (n : node) : cf := fun a => cnt a n.
Definition Cch (ch : children) : cf := fun a => cnt_ch a ch.

Lemma bounded_plus B C1 C2 : bounded B (cplus C1 C2) <-> bounded B C1 /\ bounded B C2.
Proof.
  unfold bounded, cplus. split.
  - intros H. split; intros a H1 H2; specialize (H a H1 H2); lia.
  - intros [H1 H2] a Ha Hb. rewrite H1, H2; auto.
Qed.
Lemma bounded_Ci B w : bounded B (Ci w) <-> (w = 0 \/ w < B).
Proof.
  unfold bounded, Ci, ind. split.
  - intros H. destruct (N.eq_dec w 0); auto. right. destruct (N.lt_ge_cases w B); auto.
    specialize (H w n H0). rewrite N.eqb_refl in H. discriminate.
  - intros H a Ha Hb. destruct (N.eqb_spec w a); auto. lia.
Qed.
Lemma bounded_mono B B' C : B <= B' -> bounded B C -> bounded B' C.
Proof. unfold bounded. intros H Hb a Ha Hb'. apply Hb; auto. lia. Qed.
Lemma bounded_zero B : bounded B czero.
Proof. intros a _ _. reflexivity. Qed.
Lemma bounded_ext B C1 C2 : (forall a, C1 a = C2 a) -> bounded B C1 -> bounded B C2.
Proof. intros E H a Ha Hb. rewrite <- E. auto. Qed.

Lemma ind_le1 a w : (ind a w <= 1)%nat.
Proof. unfold ind. destruct (w =? a); lia. Qed.

(* a channel replaced by a fresh one (or nil), the old one recorded: cloneNode, promote, demote *)
Lemma chan_replace s s' w w' :
  (w = 0 \/ w < s_next s) ->
  (w' = 0 \/ (w' = s_next s /\ s_next s' = s_next s + 1)) -> s_next s <= s_next s' ->
  (forall a, In a (s_ws s') -> In a (s_ws s) \/ (a = w /\ w <> 0)) ->
  MS (Ci w) (Ci w') s s'.
Proof.
  intros Hw Hw' Hn Hrec. unfold Ci, ind. repeat split; auto.
  - intros a Ha Hlt. destruct (N.eqb_spec w' a), (N.eqb_spec w a); lia.
  - destruct (w' =? a); lia.
  - destruct (N.eqb_spec w' a); [|lia]. intros _. lia.
  - intros a H. destruct (Hrec a H) as [H1|[-> H2]]; auto. right. split; auto.
    rewrite N.eqb_refl. destruct (N.eqb_spec w' w); [|lia]. lia.
Qed.
(* a new channel *)
Lemma chan_new c s : MS czero (Ci (fst (fresh c s))) s (snd (fresh c s)).
Proof.
  unfold fresh, czero, Ci, ind. destruct (c_ro c); cbn [fst snd s_next s_ws]; (split; [|split; [|split]]);
    try (cbn [s_next]; lia); auto;
    try (intros; cbn [s_next s_ws]; match goal with |- context [?x =? ?y] => destruct (N.eqb_spec x y) end; try split; intros; lia).
Qed.
(* a channel dropped and recorded *)
Lemma chan_drop s w : (w = 0 \/ w < s_next s) -> MS (Ci w) czero s (record w s).
Proof.
  intros Hw. unfold record, czero, Ci, ind. destruct (N.eqb_spec w 0) as [->|Hn]; repeat split; auto; cbn [s_next s_ws]; try lia.
  - intros a H. destruct H as [<-|H]; auto. right. rewrite N.eqb_refl. split; auto.
Qed.
Lemma chan_drop2 s w : (w = 0 \/ w < s_next s) -> MS (Ci w) czero s (record w (record w s)).
Proof.
  intros Hw. unfold record, czero, Ci, ind. destruct (N.eqb_spec w 0) as [->|Hn]; repeat split; auto; cbn [s_next s_ws]; try lia.
  - intros a H. destruct H as [<-|[<-|H]]; auto; right; rewrite N.eqb_refl; split; auto.
Qed.

Lemma clone_hdr_MS c s t w : (w = 0 \/ w < s_next s) ->
  MS (Ci w) (Ci (snd (fst (clone_hdr c s t w)))) s (snd (clone_hdr c s t w)).
Proof.
  intros Hw. unfold clone_hdr. destruct (t =? c_tid c); cbn [fst snd].
  - apply MS_id0. now apply bounded_Ci.
  - unfold fresh, record. destruct (c_ro c), (N.eqb_spec w 0); cbn [fst snd];
      (apply chan_replace; cbn [s_next s_ws]; auto; try lia; intros a [<-|H]; auto).
Qed.
Lemma clone_leaf_MS c s l : c_tid c <> 0 -> (lf_w l = 0 \/ lf_w l < s_next s) ->
  MS (Ci (lf_w l)) (Ci (lf_w (fst (clone_leaf c s l)))) s (snd (clone_leaf c s l)).
Proof.
  intros Hc Hw. unfold clone_leaf. destruct (N.eqb_spec 0 (c_tid c)); [congruence|].
  unfold fresh, record. destruct (c_ro c), (N.eqb_spec (lf_w l) 0); cbn [fst snd lf_w];
    (apply chan_replace; cbn [s_next s_ws]; auto; try lia; intros a [<-|H]; auto).
Qed.
(* promote: record w; fresh_if w  — demote: fresh_if w; record w *)
Lemma promote_MS s w : (w = 0 \/ w < s_next s) ->
  MS (Ci w) (Ci (fst (fresh_if w (record w s)))) s (snd (fresh_if w (record w s))).
Proof.
  intros Hw. unfold fresh_if, record. destruct (N.eqb_spec w 0); cbn [fst snd].
  - subst. apply MS_id0. apply bounded_Ci. auto.
  - apply chan_replace; cbn [s_next s_ws]; auto; try lia. intros a [<-|H]; auto.
Qed.
Lemma demote_MS s w : (w = 0 \/ w < s_next s) ->
  MS (Ci w) (Ci (fst (fresh_if w s))) s (record w (snd (fresh_if w s))).
Proof.
  intros Hw. unfold fresh_if, record. destruct (N.eqb_spec w 0); cbn [fst snd].
  - subst. apply MS_id0. apply bounded_Ci. auto.
  - apply chan_replace; cbn [s_next s_ws]; auto; try lia. intros a [<-|H]; auto.
Qed.

(* counting lemmas *)
Lemma cnt_set_prefix a n q : cnt a (set_prefix n q) = cnt a n.
Proof. destruct n; reflexivity. Qed.
Lemma cnt_ch_insert a b x : forall ch, cnt_ch a (ch_insert b x ch) = (cnt a x + cnt_ch a ch)%nat.
Proof. induction ch as [|b0 y r IH]; simpl; auto. destruct (b <? b0); simpl; rewrite ?IH; lia. Qed.
Lemma cnt_ch_find a b : forall ch x, ch_find b ch = Some x ->
  cnt_ch a ch = (cnt a x + cnt_ch a (ch_remove b ch))%nat /\
  forall x', cnt_ch a (ch_set b x' ch) = (cnt a x' + cnt_ch a (ch_remove b ch))%nat.
Proof.
  induction ch as [|b0 y r IH]; simpl; [discriminate|]. intros x Hf. destruct (b0 =? b).
  - injection Hf as <-. split; auto.
  - destruct (IH x Hf) as [E1 E2]. simpl. split; [lia|]. intros x'. rewrite E2. lia.
Qed.
Lemma cnt_ch_other a b : forall ch y, ch_other b ch = Some y -> (cnt a y <= cnt_ch a (ch_remove b ch))%nat.
Proof.
  induction ch as [|b0 z r IH]; simpl; [discriminate|]. intros y H. destruct (b0 =? b).
  - specialize (IH y H). assert (G : (cnt_ch a (ch_remove b r) <= cnt_ch a r)%nat).
    { clear. induction r as [|b1 z1 r1 IH1]; simpl; auto. destruct (b1 =? b); simpl; lia. }
    lia.
  - injection H as <-. simpl. lia.
Qed.

Section ModAcc.
Variable c : ctx.
Variable md : option (N -> N -> N).
Variable fullKey : bytes.
Variable v : N.
Hypothesis Hc0 : c_tid c <> 0.

Lemma split_MS s this key : bounded (s_next s) (Cn this) ->
  MS (Cn this) (Cn (m_node (split_node c fullKey v s this key))) s (m_st (split_node c fullKey v s this key)).
Proof.
  intros Hb. unfold split_node. cbv zeta.
  pose proof (chan_new c s) as N1. destruct (fresh c s) as [lw s1]. cbn [fst snd] in N1.
  pose proof (chan_new c s1) as N2. destruct (fresh c s1) as [nw s2]. cbn [fst snd] in N2.
  cbn [m_node m_st].
  assert (M : MS (cplus (cplus czero czero) (Cn this)) (cplus (cplus (Ci lw) (Ci nw)) (Cn this)) s s2).
  { apply MS_frame; auto. eapply MS_seq; eauto; apply bounded_zero. }
  eapply MS_le; [|eapply MS_ext; [| |exact M]; [intros a; unfold cplus, czero; simpl; reflexivity|intros a; reflexivity]].
  intros a. unfold cplus, Cn, Ci. set (this' := set_prefix this _).
  assert (E : cnt a this' = cnt a this) by apply cnt_set_prefix.
  destruct (node_prefix this') as [|tb tl]; [|destruct (skipn _ key) as [|kb kl]; [|destruct (tb <? kb)]];
    cbn [cnt cnt_ch lfc lf_w]; try lia.
  (* target prefix exhausted: only its leaf is kept *)
  destruct this' as [p0 l0|kd0 t0 p0 w0 lf0 ch0]; cbn [node_leaf lfc cnt] in *; lia.
Qed.

Lemma Cn_inner kd t p w lf ch a : Cn (Inner kd t p w lf ch) a = cplus (cplus (Ci w) (Cl lf)) (Cch ch) a.
Proof. reflexivity. Qed.

Lemma bounded_inner B kd t p w lf ch : bounded B (Cn (Inner kd t p w lf ch)) ->
  bounded B (Ci w) /\ bounded B (Cl lf) /\ bounded B (Cch ch).
Proof.
  intros H. assert (H' : bounded B (cplus (cplus (Ci w) (Cl lf)) (Cch ch))) by (eapply bounded_ext; [|exact H]; reflexivity).
  apply bounded_plus in H'. destruct H' as [H1 H2]. apply bounded_plus in H1. tauto.
Qed.

(* header step + frame of leaf and children *)
Lemma inner_hdr_MS kd kd' t t' p w w' lf ch s s' :
  MS (Ci w) (Ci w') s s' -> bounded (s_next s) (Cl lf) -> bounded (s_next s) (Cch ch) ->
  MS (Cn (Inner kd t p w lf ch)) (Cn (Inner kd' t' p w' lf ch)) s s'.
Proof.
  intros M B1 B2. pose proof (MS_frame _ _ (Cch ch) s s' (MS_frame _ _ (Cl lf) s s' M B1) B2) as M2.
  eapply MS_ext; [| |exact M2]; intros a; reflexivity.
Qed.

Theorem modify_MS :
  (forall n s key, bounded (s_next s) (Cn n) ->
     MS (Cn n) (Cn (m_node (modify_node c md fullKey v s n key))) s (m_st (modify_node c md fullKey v s n key))) /\
  (forall ch s b key, bounded (s_next s) (Cch ch) ->
     match modify_ch c md fullKey v s ch b key with
     | Some (ch', r) => MS (Cch ch) (Cch ch') s (m_st r)
     | None => True
     end).
Proof.
  apply node_children_ind.
  - intros p l s key Hb. cbn [modify_node]. destruct (bytes_eqb key p).
    + assert (Hw : lf_w l = 0 \/ lf_w l < s_next s) by (apply bounded_Ci; exact Hb).
      pose proof (clone_leaf_MS c s l Hc0 Hw) as M. destruct (clone_leaf c s l) as [l' s']. cbn [fst snd m_node m_st] in *.
      exact M.
    + now apply split_MS.
  - intros kd t p w lf ch IH s key Hb. cbn [modify_node]; fold (modify_ch c md fullKey v).
    destruct (bounded_inner _ _ _ _ _ _ _ Hb) as (Bw & Bl & Bc).
    assert (Hw : w = 0 \/ w < s_next s) by now apply bounded_Ci.
    pose proof (clone_hdr_MS c s t w Hw) as Mh.
    destruct (strip p key) as [[|b rest]|].
    + destruct (clone_hdr c s t w) as [[t' w'] s1]. cbn [fst snd] in Mh.
      assert (N1 : s_next s <= s_next s1) by apply Mh.
      destruct lf as [l|].
      * assert (Hl : lf_w l = 0 \/ lf_w l < s_next s1).
        { assert (X : lf_w l = 0 \/ lf_w l < s_next s) by (apply bounded_Ci; exact Bl). lia. }
        pose proof (clone_leaf_MS c s1 l Hc0 Hl) as Ml. destruct (clone_leaf c s1 l) as [l' s2]. cbn [fst snd m_node m_st] in *.
        pose proof (MS_frame _ _ (Cch ch) s s2 (MS_seq _ _ _ _ s s1 s2 Mh Ml Bw Bl) Bc) as M.
        eapply MS_ext; [| |exact M]; intros a; reflexivity.
      * pose proof (chan_new c s1) as Mn. destruct (fresh c s1) as [lw s2]. cbn [fst snd m_node m_st] in *.
        pose proof (MS_frame _ _ (Cch ch) s s2 (MS_seq _ _ _ _ s s1 s2 Mh Mn Bw (bounded_zero _)) Bc) as M.
        eapply MS_ext; [| |exact M]; intros a; reflexivity.
    + destruct (clone_hdr c s t w) as [[t' w'] s1] eqn:Ec. cbn [fst snd] in Mh.
      assert (N1 : s_next s <= s_next s1) by apply Mh.
      specialize (IH s1 b (b :: rest) (bounded_mono _ _ _ N1 Bc)).
      destruct (modify_ch c md fullKey v s1 ch b (b :: rest)) as [[ch' r]|].
      * cbn [m_node m_st].
        pose proof (MS_seq _ _ _ _ s s1 (m_st r) Mh IH Bw Bc) as M.
        pose proof (MS_frame _ _ (Cl lf) _ _ M Bl) as M'.
        eapply MS_ext; [| |exact M']; intros a; unfold cplus, Cn, Ci, Cl, Cch; simpl; lia.
      * destruct (kd <? ch_len ch + 1).
        -- pose proof (promote_MS s w Hw) as Mp. destruct (fresh_if w (record w s)) as [w2 s2]. cbn [fst snd] in Mp.
           pose proof (chan_new c s2) as Mn. destruct (fresh c s2) as [lw s3]. cbn [fst snd m_node m_st] in *.
           pose proof (MS_seq _ _ _ _ s s2 s3 Mp Mn Bw (bounded_zero _)) as M.
           pose proof (MS_frame _ _ (cplus (Cl lf) (Cch ch)) _ _ M (proj2 (bounded_plus _ _ _) (conj Bl Bc))) as M'.
           eapply MS_ext; [| |exact M'];
             intros a; unfold cplus, Cn, Ci, Cl, Cch, czero; cbn [cnt]; rewrite ?cnt_ch_insert; cbn [cnt lf_w]; lia.
        -- pose proof (chan_new c s1) as Mn. destruct (fresh c s1) as [lw s3]. cbn [fst snd m_node m_st] in *.
           pose proof (MS_seq _ _ _ _ s s1 s3 Mh Mn Bw (bounded_zero _)) as M.
           pose proof (MS_frame _ _ (cplus (Cl lf) (Cch ch)) _ _ M (proj2 (bounded_plus _ _ _) (conj Bl Bc))) as M'.
           eapply MS_ext; [| |exact M'];
             intros a; unfold cplus, Cn, Ci, Cl, Cch, czero; cbn [cnt]; rewrite ?cnt_ch_insert; cbn [cnt lf_w]; lia.
    + destruct (clone_hdr c s t w) as [[t' w'] s1]. cbn [fst snd] in Mh.
      assert (N1 : s_next s <= s_next s1) by apply Mh.
      (* header step, then the split (which records nothing) *)
      pose proof (inner_hdr_MS kd kd t t' p w w' lf ch s s1 Mh Bl Bc) as M1.
      assert (Bc1 : bounded (s_next s1) (Cn (Inner kd t' p w' lf ch))).
      { destruct M1 as (A1 & A2 & _ & _). intros a Ha Hge. destruct (A2 a Ha ltac:(lia)) as [X1 X2].
        destruct (Cn (Inner kd t' p w' lf ch) a) eqn:E; auto. exfalso. specialize (X2 ltac:(lia)). lia. }
      pose proof (split_MS s1 (Inner kd t' p w' lf ch) key Bc1) as M2.
      assert (Ews : s_ws (m_st (split_node c fullKey v s1 (Inner kd t' p w' lf ch) key)) = s_ws s1).
      { unfold split_node. cbv zeta. unfold fresh. destruct (c_ro c); reflexivity. }
      destruct M1 as (A1 & A2 & A3 & A4). destruct M2 as (B1 & B2 & B3 & B4).
      repeat split; try lia.
      * intros a Ha Hlt. specialize (A1 a Ha Hlt). specialize (B1 a Ha ltac:(lia)). lia.
      * destruct (N.lt_ge_cases a (s_next s1)) as [L|G].
        -- specialize (B1 a H L). destruct (A2 a H H0). lia.
        -- destruct (B2 a H G). lia.
      * intros Hs. destruct (N.lt_ge_cases a (s_next s1)) as [L|G]; [lia|]. destruct (B2 a H G). auto.
      * intros a Hin. rewrite Ews in Hin. destruct (A3 a Hin) as [H1|[H1 H2]]; auto. right. split; auto.
        assert (a < s_next s) by (destruct (N.lt_ge_cases a (s_next s)); auto; rewrite (Hb a) in H2 by auto; lia).
        specialize (B1 a H1 ltac:(lia)). lia.
  - intros; exact I.
  - intros b0 x IHx r IHr s b key Hb. cbn [modify_ch]; fold (modify_node c md fullKey v); fold (modify_ch c md fullKey v).
    assert (Hb' : bounded (s_next s) (cplus (Cn x) (Cch r))) by (eapply bounded_ext; [|exact Hb]; reflexivity).
    apply bounded_plus in Hb'. destruct Hb' as [Bx Br].
    destruct (b0 =? b).
    + pose proof (MS_frame _ _ (Cch r) _ _ (IHx s key Bx) Br) as M. eapply MS_ext; [| |exact M]; intros a; reflexivity.
    + specialize (IHr s b key Br). destruct (modify_ch c md fullKey v s r b key) as [[r' res]|]; [|exact I].
      pose proof (MS_frame _ _ (Cn x) _ _ IHr Bx) as M. eapply MS_ext; [| |exact M]; intros a; unfold cplus, Cch, Cn; simpl; lia.
Qed.
End ModAcc.

Section DelAcc.
Variable c : ctx.

Definition Cres (r : option node) : cf := match r with Some n => Cn n | None => czero end.
Definition dMS (C : cf) (s : st) (r : dres) : Prop :=
  match r with DNone => True | DSome _ repl s' _ => MS C (Cres repl) s s' end.

Lemma bounded_after C C' s s' : MS C C' s s' -> bounded (s_next s') C'.
Proof.
  intros (A1 & A2 & _ & A4) a Ha Hge. destruct (A2 a Ha ltac:(lia)) as [X1 X2].
  destruct (C' a); auto. exfalso. specialize (X2 ltac:(lia)). lia.
Qed.

Lemma remove_child_MS s kd t p w lf ch b x (Cx' : cf) s0 :
  (* the child under b has already been accounted for: Cn x -> czero from s0 to s *)
  ch_find b ch = Some x ->
  bounded (s_next s0) (Ci w) -> bounded (s_next s0) (Cl lf) -> bounded (s_next s0) (Cch ch) ->
  MS (Cn x) czero s0 s ->
  let r := remove_child c s kd t p w lf ch b in
  MS (Cn (Inner kd t p w lf ch)) (Cn (fst (fst r))) s0 (snd (fst r)).
Proof.
  intros Hf Bw Bl Bc Mx. cbv zeta.
  destruct (cnt_ch_find 0 b ch x Hf) as [_ _].
  assert (Ech : forall a, Cch ch a = cplus (Cn x) (Cch (ch_remove b ch)) a)
    by (intros a; unfold cplus, Cch, Cn; apply (cnt_ch_find a b ch x Hf)).
  assert (Bx : bounded (s_next s0) (Cn x) /\ bounded (s_next s0) (Cch (ch_remove b ch))).
  { apply bounded_plus. eapply bounded_ext; [|exact Bc]. exact Ech. }
  destruct Bx as [Bx Br].
  assert (N1 : s_next s0 <= s_next s) by apply Mx.
  assert (Hw : w = 0 \/ w < s_next s) by (apply bounded_Ci in Bw; lia).
  (* generic: header replaced by (w', s -> s'), leaf and remaining children framed *)
  assert (Generic : forall kd' t' w' s', MS (Ci w) (Ci w') s s' ->
            MS (Cn (Inner kd t p w lf ch)) (Cn (Inner kd' t' p w' lf (ch_remove b ch))) s0 s').
  { intros kd' t' w' s' Mh.
    pose proof (MS_seq _ _ _ _ s0 s s' Mx Mh Bx Bw) as M.
    pose proof (MS_frame _ _ (cplus (Cl lf) (Cch (ch_remove b ch))) _ _ M (proj2 (bounded_plus _ _ _) (conj Bl Br))) as M'.
    eapply MS_ext; [| |exact M']; intros a; unfold cplus, Cn, Ci, Cl, Cch, czero in *; cbn [cnt];
      [specialize (Ech a); unfold cplus, Cch, Cn in Ech; lia|lia]. }
  unfold remove_child.
  destruct (ch_len ch =? 2); [destruct lf as [l|]; [|destruct (ch_other b ch) as [y|] eqn:Eo]|].
  2:{ cbn [fst snd].
      pose proof (MS_seq _ _ _ _ s0 s (record w s) Mx (chan_drop s w Hw) Bx Bw) as M.
      pose proof (MS_frame _ _ (Cch (ch_remove b ch)) _ _ M Br) as M'.
      eapply MS_le; [|eapply MS_ext; [| |exact M']; [|intros a; reflexivity]].
      - intros a. unfold cplus, czero, Cn, Cch, merge_child. rewrite cnt_set_prefix. pose proof (cnt_ch_other a b ch y Eo). lia.
      - intros a. unfold cplus, Cn, Ci, Cl, Cch, czero in *. cbn [cnt lfc]. specialize (Ech a). unfold cplus, Cch, Cn in Ech. lia. }
  all: destruct (_ || _);
    [pose proof (demote_MS s w Hw) as Md; destruct (fresh_if w s) as [w2 s2]; cbn [fst snd] in *; apply Generic; exact Md
    |pose proof (clone_hdr_MS c s t w Hw) as Mh; destruct (clone_hdr c s t w) as [[t' w'] s2]; cbn [fst snd] in *; apply Generic; exact Mh].
Qed.

Theorem delete_MS :
  (forall n s key, bounded (s_next s) (Cn n) -> dMS (Cn n) s (del_node c s n key)) /\
  (forall ch s b key, bounded (s_next s) (Cch ch) ->
     match del_ch c s ch b key with
     | DNone => True
     | DSome _ repl s' _ =>
       exists x, ch_find b ch = Some x /\ MS (Cn x) (Cres repl) s s'
     end).
Proof.
  apply node_children_ind.
  - intros p l s key Hb. cbn [del_node]. destruct (bytes_eqb key p); [|exact I]. cbn [dMS Cres].
    apply chan_drop2. apply bounded_Ci. exact Hb.
  - intros kd t p w lf ch IH s key Hb. cbn [del_node]; fold (del_ch c).
    destruct (bounded_inner _ _ _ _ _ _ _ Hb) as (Bw & Bl & Bc).
    assert (Hw : w = 0 \/ w < s_next s) by now apply bounded_Ci.
    destruct (strip p key) as [[|b rest]|]; [| |exact I].
    + destruct lf as [l|]; [|exact I].
      assert (Hl : lf_w l = 0 \/ lf_w l < s_next s) by (apply bounded_Ci; exact Bl).
      pose proof (chan_drop s (lf_w l) Hl) as Ml. set (s1 := record (lf_w l) s) in *.
      assert (N1 : s_next s1 = s_next s) by (unfold s1, record; destruct (lf_w l =? 0); reflexivity).
      assert (Hw1 : w = 0 \/ w < s_next s1) by lia.
      destruct ch as [|b1 x1 [|b2 x2 r]].
      * cbn [dMS Cres]. pose proof (MS_seq _ _ _ _ s s1 _ Ml (chan_drop s1 w Hw1) Bl Bw) as M.
        eapply MS_ext; [| |exact M]; intros a; unfold cplus, Cn, Ci, Cl, czero; cbn [cnt cnt_ch lfc]; lia.
      * cbn [dMS Cres]. pose proof (MS_seq _ _ _ _ s s1 _ Ml (chan_drop s1 w Hw1) Bl Bw) as M.
        pose proof (MS_frame _ _ (Cch (CCons b1 x1 CNil)) _ _ M Bc) as M'.
        eapply MS_ext; [| |exact M']; intros a; unfold cplus, Cn, Ci, Cl, Cch, czero, merge_child;
          rewrite ?cnt_set_prefix; cbn [cnt cnt_ch lfc]; lia.
      * pose proof (clone_hdr_MS c s1 t w Hw1) as Mh. destruct (clone_hdr c s1 t w) as [[t' w'] s2]. cbn [fst snd dMS Cres] in *.
        pose proof (MS_seq _ _ _ _ s s1 s2 Ml Mh Bl Bw) as M.
        pose proof (MS_frame _ _ (Cch (CCons b1 x1 (CCons b2 x2 r))) _ _ M Bc) as M'.
        eapply MS_ext; [| |exact M']; intros a; unfold cplus, Cn, Ci, Cl, Cch, czero; cbn [cnt lfc]; lia.
    + specialize (IH s b (b :: rest) Bc).
      destruct (del_ch c s ch b (b :: rest)) as [|old repl s1 ip]; [exact I|].
      destruct IH as (x & Ef & Mx).
      assert (Ech : forall a, Cch ch a = cplus (Cn x) (Cch (ch_remove b ch)) a)
        by (intros a; unfold cplus, Cch, Cn; apply (cnt_ch_find a b ch x Ef)).
      assert (Bx : bounded (s_next s) (Cn x) /\ bounded (s_next s) (Cch (ch_remove b ch))).
      { apply bounded_plus. eapply bounded_ext; [|exact Bc]. exact Ech. }
      destruct Bx as [Bx Br].
      assert (N1 : s_next s <= s_next s1) by apply Mx.
      assert (Hw1 : w = 0 \/ w < s_next s1) by lia.
      destruct repl as [x'|].
      * cbn [Cres] in Mx.
        assert (Eset : forall a, Cch (ch_set b x' ch) a = cplus (Cn x') (Cch (ch_remove b ch)) a)
          by (intros a; unfold cplus, Cch, Cn; apply (cnt_ch_find a b ch x Ef)).
        destruct ip.
        -- cbn [dMS Cres].
           pose proof (MS_frame _ _ (cplus (cplus (Ci w) (Cl lf)) (Cch (ch_remove b ch))) _ _ Mx
                         (proj2 (bounded_plus _ _ _) (conj (proj2 (bounded_plus _ _ _) (conj Bw Bl)) Br))) as M.
           eapply MS_ext; [| |exact M]; intros a; unfold cplus, Cn, Ci, Cl in *; cbn [cnt];
             [specialize (Ech a)|specialize (Eset a)]; unfold cplus, Cch, Cn in *; lia.
        -- pose proof (clone_hdr_MS c s1 t w Hw1) as Mh. destruct (clone_hdr c s1 t w) as [[t' w'] s2]. cbn [fst snd dMS Cres] in *.
           pose proof (MS_seq _ _ _ _ s s1 s2 Mx Mh Bx Bw) as M.
           pose proof (MS_frame _ _ (cplus (Cl lf) (Cch (ch_remove b ch))) _ _ M (proj2 (bounded_plus _ _ _) (conj Bl Br))) as M'.
           eapply MS_ext; [| |exact M']; intros a; unfold cplus, Cn, Ci, Cl in *; cbn [cnt];
             [specialize (Ech a)|specialize (Eset a)]; unfold cplus, Cch, Cn in *; lia.
      * cbn [Cres] in Mx.
        pose proof (remove_child_MS s1 kd t p w lf ch b x czero s Ef Bw Bl Bc Mx) as R.
        destruct (remove_child c s1 kd t p w lf ch b) as [[n' s2] ip']. cbn [fst snd dMS Cres] in *. exact R.
  - intros; exact I.
  - intros b0 y IHy r IHr s b key Hb. cbn [del_ch ch_find]; fold (del_node c); fold (del_ch c).
    assert (Hb' : bounded (s_next s) (cplus (Cn y) (Cch r))) by (eapply bounded_ext; [|exact Hb]; reflexivity).
    apply bounded_plus in Hb'. destruct Hb' as [By Br].
    destruct (b0 =? b).
    + specialize (IHy s key By). destruct (del_node c s y key) as [|old repl s' ip]; [exact I|].
      exists y. split; auto.
    + apply IHr. exact Br.
Qed.
End DelAcc.

(* ---- what a search hands out: the inherited channel or a channel occurring in the tree ---- *)
Lemma ind_self a : ind a a = 1%nat.
Proof. unfold ind. now rewrite N.eqb_refl. Qed.

Lemma getw_occurs :
  (forall n k u, getw n k u = u \/ (1 <= cnt (getw n k u) n)%nat) /\
  (forall ch b k u, getw_ch ch b k u = u \/ (1 <= cnt_ch (getw_ch ch b k u) ch)%nat).
Proof.
  apply node_children_ind.
  - intros p l k u. rewrite getw_leaf. destruct (bytes_eqb k p); auto.
    destruct (pick_cases (lf_w l) u) as [E|[E _]]; rewrite E; auto. right. cbn [cnt]. rewrite ind_self. lia.
  - intros kd t p w lf ch IH k u. rewrite getw_inner. destruct (strip p k) as [[|b rest]|]; auto.
    + destruct lf as [l|]; auto. destruct (pick_cases (lf_w l) u) as [E|[E _]]; rewrite E; auto.
      right. cbn [cnt lfc]. rewrite ind_self. lia.
    + destruct (IH b (b :: rest) (pick w u)) as [E|E].
      * rewrite E. destruct (pick_cases w u) as [E1|[E1 _]]; rewrite E1; auto. right. cbn [cnt]. rewrite ind_self. lia.
      * right. cbn [cnt]. lia.
  - intros b k u. left. reflexivity.
  - intros b0 x IHx r IHr b k u. unfold getw_ch in *. cbn [search_ch]; fold search_node; fold search_ch.
    destruct (b0 =? b).
    + destruct (IHx k u) as [E|E]; [left; exact E|right]. unfold getw in E. cbn [cnt_ch]. lia.
    + destruct (IHr b k u) as [E|E]; [left; exact E|right]. cbn [cnt_ch]. lia.
Qed.
Lemma pgetw_occurs :
  (forall n q u, pgetw n q u = u \/ (1 <= cnt (pgetw n q u) n)%nat) /\
  (forall ch b q u, pgetw_ch ch b q u = u \/ (1 <= cnt_ch (pgetw_ch ch b q u) ch)%nat).
Proof.
  apply node_children_ind.
  - intros p l q u. left. apply pgetw_leaf.
  - intros kd t p w lf ch IH q u. rewrite pgetw_inner. destruct (has_prefix p q).
    + destruct (pick_cases w u) as [E1|[E1 _]]; rewrite E1; auto. right. cbn [cnt]. rewrite ind_self. lia.
    + destruct (strip p q) as [[|b rest]|]; auto. destruct (IH b (b :: rest) (pick w u)) as [E|E].
      * rewrite E. destruct (pick_cases w u) as [E1|[E1 _]]; rewrite E1; auto. right. cbn [cnt]. rewrite ind_self. lia.
      * right. cbn [cnt]. lia.
  - intros b q u. left. reflexivity.
  - intros b0 x IHx r IHr b q u. rewrite pgetw_ch_cons. destruct (b0 =? b).
    + destruct (IHx q u) as [E|E]; [left; exact E|right]. cbn [cnt_ch]. lia.
    + destruct (IHr b q u) as [E|E]; [left; exact E|right]. cbn [cnt_ch]. lia.
Qed.

(* ---- the invariant ---- *)
Definition Croot (r : option node) : cf := match r with Some n => Cn n | None => czero end.
Record CKp (C : cf) (s : st) (rw : N) : Prop := mkCK {
  ck_bound : bounded (s_next s) C;
  ck_uniq : forall a, a <> 0 -> (C a <= 1)%nat;
  ck_ws : forall a, In a (s_ws s) -> a <> 0 /\ a < s_next s /\ C a = 0%nat /\ a <> rw;
  ck_rw : rw = 0 \/ (rw < s_next s /\ C rw = 0%nat);
  ck_pos : 0 < s_next s
}.
Definition CK (x : txn) : Prop := CKp (Croot (t_root x)) (t_st x) (t_rw x).

Lemma CK_step C C' s s' rw : CKp C s rw -> MS C C' s s' -> CKp C' s' rw.
Proof.
  intros [Hb Hu Hw Hr Hp] M. pose proof (bounded_after _ _ _ _ M) as Hb'. destruct M as (M1 & M2 & M3 & M4).
  constructor; auto.
  - intros a Ha. destruct (N.lt_ge_cases a (s_next s)) as [L|G].
    + specialize (M1 a Ha L). specialize (Hu a Ha). lia.
    + apply M2; auto.
  - intros a Hin. destruct (M3 a Hin) as [H|[Ha H]].
    + destruct (Hw a H) as (A1 & A2 & A3 & A4). repeat split; auto; try lia. specialize (M1 a A1 A2). lia.
    + assert (L : a < s_next s) by (destruct (N.lt_ge_cases a (s_next s)); auto; rewrite (Hb a) in H by auto; lia).
      specialize (Hu a Ha). repeat split; auto; try lia.
      intros ->. destruct Hr as [E|[_ E]]; [congruence|]. rewrite E in H. lia.
  - destruct (N.eq_dec rw 0) as [Z|Z]; [left; exact Z|]. destruct Hr as [E|[L E]]; [congruence|]. right. split; [lia|].
    specialize (M1 rw Z L). lia.
  - lia.
Qed.

Lemma wstep_CK x o : t_tid x <> 0 -> CK x -> CK (wstep x o).
Proof.
  intros Hc0 H. unfold CK in *. destruct o as [k' v|k' v f|k'|]; cbn [wstep].
  - unfold txn_modify. destruct (t_root x) as [n|].
    + cbn [fst t_root t_st t_rw Croot] in *. eapply CK_step; [exact H|].
      apply (proj1 (modify_MS (txn_ctx x) None k' v Hc0)). apply H.
    + pose proof (chan_new (txn_ctx x) (t_st x)) as Mn. destruct (fresh (txn_ctx x) (t_st x)) as [lw s1].
      cbn [fst snd t_root t_st t_rw Croot m_node m_st] in *. eapply CK_step; [exact H|].
      eapply MS_ext; [| |exact Mn]; intros a; reflexivity.
  - unfold txn_modify. destruct (t_root x) as [n|].
    + cbn [fst t_root t_st t_rw Croot] in *. eapply CK_step; [exact H|].
      apply (proj1 (modify_MS (txn_ctx x) (Some f) k' v Hc0)). apply H.
    + pose proof (chan_new (txn_ctx x) (t_st x)) as Mn. destruct (fresh (txn_ctx x) (t_st x)) as [lw s1].
      cbn [fst snd t_root t_st t_rw Croot m_node m_st] in *. eapply CK_step; [exact H|].
      eapply MS_ext; [| |exact Mn]; intros a; reflexivity.
  - unfold txn_delete. destruct (t_root x) as [n|] eqn:Er; [|cbn [fst]; rewrite Er; exact H].
    cbn [Croot] in H. pose proof (proj1 (delete_MS (txn_ctx x)) n (t_st x) k' (ck_bound _ _ _ H)) as D.
    destruct (del_node (txn_ctx x) (t_st x) n k') as [|old repl s' ip]; cbn [fst t_root t_st t_rw].
    + rewrite Er. exact H.
    + cbn [dMS] in D. eapply CK_step; [exact H|]. destruct repl; exact D.
  - exact H.
Qed.

Lemma wstep_tid x o : t_tid x <> 0 -> t_tid (wstep x o) <> 0.
Proof.
  intros H. destruct o as [k' v|k' v f|k'|]; cbn [wstep]; auto.
  - unfold txn_delete. destruct (t_root x); auto. destruct (del_node _ _ _ _); auto.
  - simpl. lia.
Qed.
Lemma run_CK ops : forall x, t_tid x <> 0 -> CK x -> CK (fold_left wstep ops x).
Proof.
  induction ops as [|o r IH]; intros x H0 H; simpl; auto. apply IH; [now apply wstep_tid|now apply wstep_CK].
Qed.

(* tree-level invariant, inductive along commits *)
Definition CKt (t : tree) (next : N) : Prop := CKp (Croot (tr_root t)) (mkSt [] next) (tr_rw t).

Lemma tree_txn_CK t next : CKt t next -> CK (tree_txn t next).
Proof. intros H. exact H. Qed.

(* CommitAndNotify (Notify, then Commit) produces the same tree as Commit *)
Lemma commit_notify_same_tree x : snd (fst (txn_commit_notify x)) = snd (txn_commit x).
Proof. unfold txn_commit_notify, txn_notify, txn_commit. destruct (t_dirty x); reflexivity. Qed.

Theorem new_tree_channels_open t next ops :
  CKt t next -> tr_next t <> 0 ->
  let xe := fold_left wstep ops (tree_txn t next) in
  let cl := snd (txn_notify xe) in
  let t' := snd (txn_commit xe) in
  (forall k, snd (tree_get t' k) <> 0 -> ~ In (snd (tree_get t' k)) cl) /\
  (forall q, snd (tree_prefix t' q) <> 0 -> ~ In (snd (tree_prefix t' q)) cl) /\
  (tr_rw t' <> 0 -> ~ In (tr_rw t') cl) /\
  CKt t' (s_next (t_st (fst (txn_commit xe)))).
Proof.
  intros Ht Hnz. cbv zeta.
  pose proof (run_CK ops (tree_txn t next) Hnz (tree_txn_CK t next Ht)) as Hk.
  set (xe := fold_left wstep ops (tree_txn t next)) in *. unfold CK in Hk. destruct Hk as [Hb Hu Hw Hr Hpos].
  rewrite notify_closes.
  set (C := Croot (t_root xe)) in *. set (B := s_next (t_st xe)) in *.
  (* the new root channel *)
  assert (Rw' : tr_rw (snd (txn_commit xe)) = if t_dirty xe then B else t_rw xe)
    by (unfold txn_commit; destruct (t_dirty xe); reflexivity).
  assert (Root' : tr_root (snd (txn_commit xe)) = t_root xe)
    by (unfold txn_commit; destruct (t_dirty xe); reflexivity).
  assert (ClB : forall a, In a (s_ws (t_st xe) ++ (if t_dirty xe && negb (t_rw xe =? 0) then [t_rw xe] else [])) ->
                a <> 0 /\ a < B /\ C a = 0%nat /\ (t_dirty xe = false -> a <> t_rw xe)).
  { intros a Hin. apply in_app_or in Hin. destruct Hin as [Hin|Hin].
    - destruct (Hw a Hin) as (A1 & A2 & A3 & A4). auto.
    - destruct (t_dirty xe); [|destruct Hin]. destruct (N.eqb_spec (t_rw xe) 0); [destruct Hin|].
      destruct Hin as [<-|[]]. destruct Hr as [E|[L E]]; [congruence|]. repeat split; auto. discriminate. }
  assert (NewRw : tr_rw (snd (txn_commit xe)) <> 0 ->
            ~ In (tr_rw (snd (txn_commit xe))) (s_ws (t_st xe) ++ (if t_dirty xe && negb (t_rw xe =? 0) then [t_rw xe] else []))).
  { intros Hn Hin. destruct (ClB _ Hin) as (A1 & A2 & A3 & A4). rewrite Rw' in *. destruct (t_dirty xe); [lia|]. now apply A4. }
  assert (Occ : forall a, a <> 0 -> (1 <= C a)%nat ->
            ~ In a (s_ws (t_st xe) ++ (if t_dirty xe && negb (t_rw xe =? 0) then [t_rw xe] else []))).
  { intros a Ha Hc Hin. destruct (ClB _ Hin) as (_ & _ & A3 & _). lia. }
  split; [|split; [|split]].
  - intros k Hn. unfold tree_get, root_get in *. rewrite Root' in *. unfold C, Croot in *.
    destruct (t_root xe) as [n|]; [|cbn [snd] in *; now apply NewRw].
    fold (getw n k (tr_rw (snd (txn_commit xe)))) in *.
    destruct (proj1 getw_occurs n k (tr_rw (snd (txn_commit xe)))) as [E|E]; [rewrite E in *; now apply NewRw|now apply Occ].
  - intros q Hn. unfold tree_prefix, root_prefix in *. rewrite Root' in *. unfold C, Croot in *.
    destruct (t_root xe) as [n|]; [|cbn [snd] in *; now apply NewRw].
    assert (Ep : snd (let '(o, w) := prefix_node n q (tr_rw (snd (txn_commit xe))) in (new_iterator o, w)) =
                 pgetw n q (tr_rw (snd (txn_commit xe)))) by (unfold pgetw; destruct (prefix_node _ _ _); reflexivity).
    rewrite Ep in *.
    destruct (proj1 pgetw_occurs n q (tr_rw (snd (txn_commit xe)))) as [E|E]; [rewrite E in *; now apply NewRw|now apply Occ].
  - exact NewRw.
  - unfold CKt. rewrite Root', Rw'. fold C.
    assert (Nx : s_next (t_st (fst (txn_commit xe))) = if t_dirty xe then B + 1 else B)
      by (unfold txn_commit; destruct (t_dirty xe); reflexivity).
    rewrite Nx. constructor; cbn [s_next s_ws].
    + eapply bounded_mono; [|exact Hb]. destruct (t_dirty xe); fold B; lia.
    + exact Hu.
    + intros a [].
    + destruct (t_dirty xe).
      * right. split; [lia|]. apply Hb; fold B; lia.
      * destruct Hr as [E|[L E]]; auto.
    + destruct (t_dirty xe); fold B in Hpos; lia.
Qed.

Lemma tree_new_CKt ro next : 0 < next -> CKt (fst (tree_new ro next)) (next + 1).
Proof.
  intros Hp. unfold CKt, tree_new. cbn [fst tr_root tr_rw Croot]. constructor; cbn [s_next s_ws].
  - apply bounded_zero.
  - intros; unfold czero; lia.
  - intros a [].
  - right. split; [lia|reflexivity].
  - lia.
Qed.
Lemma CKt_mono t next next' : next <= next' -> CKt t next -> CKt t next'.
Proof.
  intros H [Hb Hu Hw Hr Hp]. constructor; cbn [s_next s_ws] in *;
    [eapply bounded_mono; eauto|exact Hu|intros a []|destruct Hr as [E|[L E]]; [left; exact E|right; split; [lia|exact E]]|lia].
Qed.

(* exact root-watch clause: the root channel of the previous tree is closed iff the txn changed something *)
Theorem root_watch_closed_iff_exact t next ops :
  tree_ok t -> CKt t next -> tr_next t <> 0 -> tr_rw t <> 0 ->
  (In (tr_rw t) (snd (txn_notify (fold_left wstep ops (tree_txn t next)))) <-> any_change (abs_tree t) ops = true).
Proof.
  intros Hok Hck Hnz Hrw.
  pose proof (root_watch_closed_iff t next ops Hok Hrw) as R. cbv zeta in R. rewrite R.
  pose proof (run_CK ops (tree_txn t next) Hnz (tree_txn_CK t next Hck)) as Hk.
  destruct (tree_txn_ok t next Hok) as [H1 _]. destruct (dirty_iff_changed ops _ H1) as [_ Erw]. cbn [tree_txn t_rw] in Erw.
  split; [|auto]. intros [H|H]; auto. exfalso.
  destruct (ck_ws _ _ _ Hk _ H) as (_ & _ & _ & Hne). rewrite Erw in Hne. congruence.
Qed.
