(* Part/HeapDel.v — Txn.delete / removeChild on the heap (Part/Heap.v hdel with the real merge step
   hmerge) refine Part/Model.v del_node / remove_child: same outputs, the replacement node
   represents the model's replacement; writes go only to the footprint. *)
From SV Require Import Base.Bytes Part.Model Part.Sem Part.Delete Part.Heap Part.HeapBase Part.HeapMod.
From Coq Require Import ZArith List Bool Lia ZifyN ZifyNat ZifyBool.
Import ListNotations.
Open Scope N_scope.

Lemma hc_set_same b cc : forall ch, hc_find b ch = Some cc -> hc_set b cc ch = ch.
Proof.
  induction ch as [|[b' x] r IH]; cbn [hc_find hc_set]; [reflexivity|].
  destruct (N.eqb_spec b' b) as [E|_]; [intros [= ->]; reflexivity|]. intros H. now rewrite IH.
Qed.

Section Delete.
Context {P : nat -> Prop}.
Variable c : ctx.
Notation tid := (c_tid c).
Hypothesis T0 : 0 < tid.

Notation Trep := (@trep P tid).
Notation Tchs := (@tchs P tid).
Notation Plrep := (@plrep P).
Notation owned := (owned_cell tid).
Notation Ext := (ext tid).
Notation PExt := (@Pext P).
Notation hdel := (hdel c (fun _ => hmerge)).
Notation hremove_child := (hremove_child c (fun _ => hmerge)).

Definition dspec (h : heap) (a : nat) (F : list nat) (r : hdres) (d : dres) : Prop :=
  match d, r with
  | DNone, HDNone => True
  | DSome old repl s inpl, HDSome old' repl' s' h' inpl' =>
    old' = old /\ s' = s /\ inpl' = inpl /\ Ext h h' F /\
    (inpl = true -> repl' = Some a /\ In a F) /\
    match repl, repl' with
    | None, None => h' = h
    | Some n', Some a' => exists F', Trep h' a' n' F' /\ sub F' F h
    | _, _ => False
    end
  | _, _ => False
  end.

Lemma hput_addr h a t nc h2 a2 : hput c h a t nc = (h2, a2) -> t = tid -> a2 = a.
Proof. unfold hput. intros E ->. rewrite N.eqb_refl in E. now injection E. Qed.

Lemma tchs_case h ch tch F : Tchs h ch tch F ->
  (ch = [] /\ tch = CNil /\ F = []) \/
  (exists b x r n tr F1 F2, ch = (b, x) :: r /\ tch = CCons b n tr /\ F = F1 ++ F2 /\
     Trep h x n F1 /\ Tchs h r tr F2 /\ disj F1 F2).
Proof. intros T. destruct T as [|b x r n tr F1 F2 T1 T2 D]; [left; auto|right; eauto 14]. Qed.

Lemma hremove_spec old s h a kd t0 p w lf ch ol tch Fc F b : PExt h ->
  nth_error h a = Some (CInner kd t0 p w lf ch) ->
  ((t0 < tid /\ P a /\ Fc = [] /\ F = []) \/ (t0 = tid /\ ~ In a Fc /\ F = a :: Fc)) ->
  Plrep h lf ol -> Tchs h ch tch Fc ->
  dspec h a F (hremove_child old s h a kd t0 p w lf ch b)
    (let '(n', s2, ip) := remove_child c s kd t0 p w ol tch b in DSome old (Some n') s2 ip).
Proof.
  intros PE Hn St Hl Tc. unfold hremove_child, remove_child.
  assert (SubFc : incl Fc F). { destruct St as [(_ & _ & -> & ->)|(_ & _ & ->)]; [apply incl_refl|apply incl_tl, incl_refl]. }
  rewrite (tchs_len c _ _ _ _ Tc).
  assert (Dflt :
    dspec h a F
      (if ((kd =? 256) && (ch_len tch <=? 49)) || ((kd =? 48) && (ch_len tch <=? 17)) || ((kd =? 16) && (ch_len tch <=? 5))
       then let kd' := if kd =? 256 then 48 else if kd =? 48 then 16 else 4 in
            let '(w', s1) := fresh_if w s in
            let '(h1, a1) := alloc h (CInner kd' tid p w' lf (hc_remove b ch)) in
            HDSome old (Some a1) (record w s1) h1 false
       else let '(t', w', s1) := clone_hdr c s t0 w in
            let '(h1, a1) := hput c h a t0 (CInner kd t' p w' lf (hc_remove b ch)) in
            HDSome old (Some a1) s1 h1 (t0 =? tid))
      (let '(n', s2, ip) :=
         if ((kd =? 256) && (ch_len tch <=? 49)) || ((kd =? 48) && (ch_len tch <=? 17)) || ((kd =? 16) && (ch_len tch <=? 5))
         then let kd' := if kd =? 256 then 48 else if kd =? 48 then 16 else 4 in
              let '(w', s1) := fresh_if w s in
              (Inner kd' tid p w' ol (ch_remove b tch), record w s1, false)
         else let '(t', w', s1) := clone_hdr c s t0 w in
              (Inner kd t' p w' ol (ch_remove b tch), s1, t0 =? tid)
       in DSome old (Some n') s2 ip)).
  { destruct (tchs_remove c h b ch tch Fc Tc) as (Fr & Tr & Ir).
    destruct (((kd =? 256) && (ch_len tch <=? 49)) || ((kd =? 48) && (ch_len tch <=? 17)) || ((kd =? 16) && (ch_len tch <=? 5))).
    - cbv zeta. destruct (fresh_if w s) as [w' s1]. unfold alloc.
      destruct (node_alloc c T0 h (if kd =? 256 then 48 else if kd =? 48 then 16 else 4) p w' lf _ ol _ Fr Hl Tr) as (T' & E').
      cbn [dspec]. split; [reflexivity|]. split; [reflexivity|]. split; [reflexivity|].
      split; [eapply ext_weaken; [exact E'|intros y []]|]. split; [discriminate|].
      exists (length h :: Fr). split; [exact T'|]. intros y [<-|Hy]; [right; lia|left; auto].
    - destruct (clone_hdr c s t0 w) as [[t' w'] s1] eqn:Ec. pose proof (clone_hdr_tid c _ _ _ _ _ _ Ec) as ->.
      destruct (hput c h a t0 (CInner kd tid p w' lf (hc_remove b ch))) as [h1 a1] eqn:Ep.
      destruct (node_finish c T0 h a kd t0 p w lf ch Fc F h [] kd p w' lf _ ol _ Fr
                  Hn St (ext_refl _ _ _) (incl_nil_l _) Hl Tr (fun y Hy => or_introl (Ir y Hy)) h1 a1 Ep) as (T' & S' & E').
      cbn [dspec]. split; [reflexivity|]. split; [reflexivity|]. split; [reflexivity|]. split; [exact E'|]. split.
      + intros Hip. apply N.eqb_eq in Hip. rewrite (hput_addr _ _ _ _ _ _ Ep Hip). split; [reflexivity|].
        destruct St as [(Hlt & _)|(_ & _ & ->)]; [lia|now left].
      + eauto. }
  destruct (ch_len tch =? 2); [|exact Dflt].
  destruct lf as [la|]; cbn [plrep] in Hl.
  - destruct Hl as (Pla & q & l & Hq & ->). exact Dflt.
  - subst ol. pose proof (tchs_other c h b ch tch Fc Tc) as Ho.
    destruct (hc_other b ch) as [x|].
    + destruct Ho as (n & Fn & -> & Tn & In').
      destruct (hmerge h p x) as [h1 x'] eqn:Em.
      destruct (hmerge_spec c T0 h p x n Fn PE Tn h1 x' Em) as (F' & T' & S' & E').
      cbn [dspec]. split; [reflexivity|]. split; [reflexivity|]. split; [reflexivity|].
      split; [eapply ext_weaken; [exact E'|intros y []]|]. split; [discriminate|].
      exists F'. split; [exact T'|]. intros y Hy. destruct (S' y Hy) as [H|H]; [left; auto|right; exact H].
    + rewrite Ho. exact Dflt.
Qed.

Theorem hdel_spec : forall f s h a key t F, PExt h -> Trep h a t F -> (height t <= f)%nat ->
  dspec h a F (hdel f s h a key) (del_node c s t key).
Proof.
  induction f as [|f IH]; intros s h a key t F PE T Hh; [destruct t; cbn [height] in Hh; lia|].
  destruct (trep_inv c _ _ _ _ T) as [(p & l & -> & Hn & Pa & ->)|(kd & t0 & p & w & ol & tch & lf & ch & Fc & -> & Hn & Hl & Tc & St)];
    cbn [Heap.hdel del_node]; fold (del_ch c); rewrite (hget_some _ _ _ Hn).
  - destruct (bytes_eqb key p); cbn [dspec]; [|exact I].
    split; [reflexivity|]. split; [reflexivity|]. split; [reflexivity|]. split; [apply ext_refl|]. split; [discriminate|reflexivity].
  - assert (SubFc : incl Fc F). { destruct St as [(_ & _ & -> & ->)|(_ & _ & ->)]; [apply incl_refl|apply incl_tl, incl_refl]. }
    destruct (strip p key) as [[|b rest]|] eqn:Es; [| |exact I].
    + (* the target *)
      destruct lf as [la|]; cbn [plrep] in Hl; [|subst ol; exact I].
      destruct Hl as (Pla & q & l & Hq & ->). rewrite (hget_some _ _ _ Hq). cbn [cell_leafrec].
      destruct (tchs_case _ _ _ _ Tc) as [(-> & -> & EF)|(b0 & x & r & n & tr & F1 & F2 & -> & -> & EF & T1 & T2 & D)].
      * cbn [dspec]. split; [reflexivity|]. split; [reflexivity|]. split; [reflexivity|]. split; [apply ext_refl|]. split; [discriminate|reflexivity].
      * destruct (tchs_case _ _ _ _ T2) as [(-> & -> & EF2)|(b1 & x1 & r1 & n1 & tr1 & F3 & F4 & -> & -> & EF2 & T3 & T4 & D2)].
        -- (* single child: shift it up *)
           destruct (hmerge h p x) as [h1 x'] eqn:Em.
           destruct (hmerge_spec c T0 h p x n F1 PE T1 h1 x' Em) as (F' & T' & S' & E').
           cbn [dspec]. split; [reflexivity|]. split; [reflexivity|]. split; [reflexivity|].
           split; [eapply ext_weaken; [exact E'|intros y []]|]. split; [discriminate|].
           exists F'. split; [exact T'|]. intros y Hy. destruct (S' y Hy) as [H|H]; [left|right; exact H].
           apply SubFc. rewrite EF. apply in_or_app. auto.
        -- (* several children: drop the leaf *)
           destruct (clone_hdr c (record (lf_w l) s) t0 w) as [[t' w'] s2] eqn:Ec. pose proof (clone_hdr_tid c _ _ _ _ _ _ Ec) as ->.
           destruct (hput c h a t0 (CInner kd tid p w' None ((b0, x) :: (b1, x1) :: r1))) as [h1 a1] eqn:Ep.
           destruct (node_finish c T0 h a kd t0 p w (Some la) _ Fc F h [] kd p w' None _ None _ Fc
                       Hn St (ext_refl _ _ _) (incl_nil_l _) eq_refl Tc (fun y Hy => or_introl Hy) h1 a1 Ep) as (T' & S' & E').
           cbn [dspec]. split; [reflexivity|]. split; [reflexivity|]. split; [reflexivity|]. split; [exact E'|].
           split; [discriminate|]. eauto.
    + (* descend *)
      rewrite del_ch_find.
      destruct (hc_find b ch) as [cc|] eqn:Ef; [|rewrite (tchs_find_none c _ _ _ _ _ Tc Ef); exact I].
      destruct (tchs_split c T0 h b ch tch Fc Tc cc Ef) as (n & Fn & Hcf & Tn & InFn & K). rewrite Hcf.
      assert (Hh' : (height n <= f)%nat). { pose proof (ch_find_height _ _ _ Hcf). cbn [height] in Hh. lia. }
      pose proof (IH s h cc (b :: rest) n Fn PE Tn Hh') as Hd.
      destruct (del_node c s n (b :: rest)) as [|old repl s1 ip]; destruct (hdel f s h cc (b :: rest)) as [|old' repl' s1' h1 ip'];
        cbn [dspec] in Hd; try contradiction; [exact I|].
      destruct Hd as (-> & -> & -> & E1 & Hip & Hr).
      assert (OWn : forall y, In y Fn -> owned h y) by (intros y Hy; eapply (proj1 (trep_F_cell tid h)); eauto).
      destruct repl as [n'|]; destruct repl' as [x'|]; try contradiction.
      * destruct Hr as (Fn' & Tn' & Sn').
        destruct (K h1 Fn x' n' Fn' E1 (incl_refl _) OWn Tn' Sn') as (Fc' & Tc' & Sc').
        assert (Hl' : Plrep h1 lf ol) by (eapply plrep_ext; eauto).
        destruct ip.
        -- (* the child was updated in place: nothing to rebuild *)
           destruct (Hip eq_refl) as ([= ->] & Hcc).
           rewrite (hc_set_same _ _ _ Ef) in Tc'.
           destruct St as [(_ & _ & -> & _)|(-> & Na & ->)]; [destruct (InFn _ Hcc)|].
           assert (La : (a < length h)%nat) by (eapply nth_error_lt; eauto).
           assert (Na' : ~ In a Fc'). { intros Hi. destruct (Sc' a Hi) as [H|H]; [exact (Na H)|lia]. }
           cbn [dspec]. split; [reflexivity|]. split; [reflexivity|]. split; [reflexivity|]. split.
           ++ eapply ext_weaken; [exact E1|]. intros y Hy. right. exact (InFn y Hy).
           ++ split; [intros _; split; [reflexivity|now left]|].
              exists (a :: Fc'). split.
              ** apply (tr_own tid _ _ kd p w lf ch ol _ Fc'); auto.
                 destruct E1 as (_ & A1 & _). apply A1; [exact Hn|]. intros Hi. exact (Na (InFn _ Hi)).
              ** intros y [<-|Hy]; [left; now left|]. destruct (Sc' y Hy) as [H|H]; [left; now right|right; exact H].
        -- destruct (clone_hdr c s1 t0 w) as [[t' w'] s2] eqn:Ec. pose proof (clone_hdr_tid c _ _ _ _ _ _ Ec) as ->.
           destruct (hput c h1 a t0 (CInner kd tid p w' lf (hc_set b x' ch))) as [h2 a2] eqn:Ep.
           destruct (node_finish c T0 h a kd t0 p w lf ch Fc F h1 Fn kd p w' lf _ ol _ Fc'
                       Hn St E1 InFn Hl' Tc' Sc' h2 a2 Ep) as (T' & S' & E').
           cbn [dspec]. split; [reflexivity|]. split; [reflexivity|]. split; [reflexivity|]. split; [exact E'|]. split.
           ++ intros Hi. apply N.eqb_eq in Hi. rewrite (hput_addr _ _ _ _ _ _ Ep Hi). split; [reflexivity|].
              destruct St as [(Hlt & _)|(_ & _ & ->)]; [lia|now left].
           ++ eauto.
      * (* the child is gone: removeChild *)
        subst h1. exact (hremove_spec old s1 h a kd t0 p w lf ch ol tch Fc F b PE Hn St Hl Tc).
Qed.
End Delete.
