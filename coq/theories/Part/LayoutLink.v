(* Part/LayoutLink.v — the layout model (Part/Layout.v) and the tree model (Part/Model.v) agree:
   (l_abs, l_kind, l_leaf) of a layout evolves under l_add / l_del exactly like
   (child key list, kind tag, leaf presence) of an [Inner] node under the child-adding branch
   of Model.modify_node and under Model.remove_child. Stdlib only, no axioms. *)
From SV Require Import Part.Model Part.Layout Part.LayoutBase Part.LayoutKeyed Part.Layout48 Part.Layout256 Part.LayoutProofs.
From Coq Require Import ZifyN ZifyNat ZifyBool.
Close Scope N_scope.

(* the key bytes of a Part/Model.v child list *)
Fixpoint ch_keys (ch : children) : list N :=
  match ch with CNil => [] | CCons b _ r => b :: ch_keys r end.

Lemma ch_keys_insert : forall b n ch, ch_keys (ch_insert b n ch) = ins b (ch_keys ch).
Proof. intros b n ch; induction ch as [|b' c r IH]; cbn; [reflexivity|]. destruct (b <? b')%N; cbn; congruence. Qed.
Lemma ch_keys_remove : forall b ch, ch_keys (ch_remove b ch) = rem b (ch_keys ch).
Proof. intros b ch; induction ch as [|b' c r IH]; cbn; [reflexivity|]. destruct (b' =? b)%N; cbn; congruence. Qed.
Lemma ch_len_keys : forall ch, ch_len ch = N.of_nat (length (ch_keys ch)).
Proof. induction ch as [|b c r IH]; cbn [ch_len ch_keys length]; [reflexivity|]. rewrite IH. lia. Qed.
Lemma ch_find_memb : forall b ch, memb b (ch_keys ch) = false -> ch_find b ch = None.
Proof.
  intros b ch; induction ch as [|b' c r IH]; cbn [ch_find ch_keys memb existsb]; [reflexivity|].
  intros H. apply orb_false_iff in H. destruct H as [H1 H2]. rewrite N.eqb_sym, H1. apply IH. exact H2.
Qed.

Lemma promote_kind_next : forall kd, promote_kind kd = next_kind kd.
Proof. reflexivity. Qed.

Definition opt_some {A} (o : option A) : bool := match o with Some _ => true | None => false end.

(* ---- adding a child: Model.modify_node, branch "free slot: promote if full, else clone; then insert a new leaf" ---- *)
Lemma modify_ch_absent : forall c md fk v s ch b key, memb b (ch_keys ch) = false -> modify_ch c md fk v s ch b key = None.
Proof.
  intros c md fk v s ch b key; induction ch as [|b' x r IH]; intros H; [reflexivity|].
  cbn [ch_keys memb existsb] in H. apply orb_false_iff in H. destruct H as [H1 H2].
  cbn [modify_ch]. rewrite N.eqb_sym, H1. change (existsb (N.eqb b) (ch_keys r)) with (memb b (ch_keys r)) in H2.
  rewrite (IH H2). reflexivity.
Qed.

Theorem link_add : forall c md fk v s kd t p w lf ch b rest key l,
  LWF l -> (b < 256)%N ->
  l_kind l = kd -> l_abs l = ch_keys ch -> l_leaf l = opt_some lf ->
  memb b (l_abs l) = false ->
  strip p key = Some (b :: rest) ->
  exists t2 w2 nl,
    m_node (modify_node c md fk v s (Inner kd t p w lf ch) key)
      = Inner (l_kind (l_add l b)) t2 p w2 lf (ch_insert b nl ch) /\
    ch_keys (ch_insert b nl ch) = l_abs (l_add l b) /\
    l_leaf (l_add l b) = opt_some lf.
Proof.
  intros c md fk v s kd t p w lf ch b rest key l HW Hb Hkd Habs Hlf Hm Hstrip.
  destruct (l_add_correct l b HW Hb Hm) as (_ & Ea & El & _ & Ek).
  cbn [modify_node]. fold (modify_ch c md fk v). rewrite Hstrip.
  destruct (clone_hdr c s t w) as [[t' w'] s1] eqn:Ec.
  rewrite modify_ch_absent by (rewrite <- Habs; exact Hm).
  assert (Ekd : (if (kd <? ch_len ch + 1)%N then promote_kind kd else kd) = l_kind (l_add l b)).
  { rewrite Ek. unfold add_kind. rewrite Hkd, promote_kind_next, ch_len_keys, <- Habs.
    destruct (LWF_abs l HW) as (_ & Es & _). rewrite Es. reflexivity. }
  destruct (kd <? ch_len ch + 1)%N.
  - destruct (fresh_if w (record w s)) as [w2 s2]. destruct (fresh c s2) as [lw s3]. cbn [m_node].
    eexists _, _, _. split; [rewrite Ekd; reflexivity|]. split; [|congruence].
    rewrite ch_keys_insert, Ea, Habs. reflexivity.
  - destruct (fresh c s1) as [lw s3]. cbn [m_node].
    eexists _, _, _. split; [rewrite Ekd; reflexivity|]. split; [|congruence].
    rewrite ch_keys_insert, Ea, Habs. reflexivity.
Qed.

(* ---- removing a child: Model.remove_child ---- *)
Lemma ch_other_two : forall b ch x, good (ch_keys ch) -> rem b (ch_keys ch) = [x] -> length (ch_keys ch) = 2 ->
  memb b (ch_keys ch) = true ->
  exists xn, ch_other b ch = Some xn /\ ch_find x ch = Some xn.
Proof.
  intros b ch x [HS _] Hr HL Hm.
  destruct ch as [|b1 c1 [|b2 c2 [|? ? ?]]]; cbn [ch_keys length] in HL; try discriminate.
  cbn [ch_keys rem ch_other ch_find memb existsb ssorted] in *.
  destruct HS as [H12 _]. apply Forall_cons_iff in H12. destruct H12 as [H12 _].
  destruct (N.eqb_spec b1 b) as [E1|E1].
  - subst b1. inversion Hr; subst x. clear Hr. exists c2.
    destruct (N.eqb_spec b2 b) as [E2|E2]; [lia|]. destruct (N.eqb_spec b b2) as [E3|E3]; [lia|].
    rewrite N.eqb_refl. split; reflexivity.
  - destruct (N.eqb_spec b2 b) as [E2|E2].
    + inversion Hr; subst x. exists c1. rewrite N.eqb_refl. split; reflexivity.
    + destruct (N.eqb_spec b b1); [congruence|]. destruct (N.eqb_spec b b2); [congruence|]. discriminate.
Qed.

Lemma leb_bridge : forall n m, (N.of_nat n <=? N.of_nat m)%N = (n <=? m).
Proof. intros. destruct (N.leb_spec (N.of_nat n) (N.of_nat m)), (Nat.leb_spec n m); try reflexivity; lia. Qed.

Theorem link_del : forall c s kd t p w lf ch b l,
  LWF l -> LOcc l -> (b < 256)%N ->
  l_kind l = kd -> l_abs l = ch_keys ch -> l_leaf l = opt_some lf ->
  memb b (l_abs l) = true ->
  match l_del l b with
  | LNode l' =>
    exists t' w' s' ip,
      remove_child c s kd t p w lf ch b = (Inner (l_kind l') t' p w' lf (ch_remove b ch), s', ip) /\
      ch_keys (ch_remove b ch) = l_abs l' /\ l_leaf l' = opt_some lf
  | LCollapsed (Some x) =>
    exists xn, ch_find x ch = Some xn /\ remove_child c s kd t p w lf ch b = (merge_child p xn, record w s, false)
  | LCollapsed None => False
  end.
Proof.
  intros c s kd t p w lf ch b l HW HO Hb Hkd Habs Hlf Hm.
  pose proof (l_del_correct l b HW HO Hb Hm) as HC.
  destruct (LWF_abs l HW) as (HG & Es & _ & _).
  assert (Elen : ch_len ch = N.of_nat (l_size l)) by (rewrite ch_len_keys, <- Habs, Es; reflexivity).
  destruct ((l_size l =? 2) && negb (l_leaf l)) eqn:Ecol.
  - destruct HC as (x & Ed & Er). rewrite Ed.
    apply andb_true_iff in Ecol. destruct Ecol as [E2 Enl]. apply Nat.eqb_eq in E2.
    rewrite Hlf in Enl. destruct lf as [lfr|]; [discriminate|].
    destruct (ch_other_two b ch x) as (xn & Eo & Ef); try (rewrite <- Habs; auto).
    + rewrite <- Es. exact E2.
    + exists xn. split; [exact Ef|]. unfold remove_child. rewrite Elen, E2, Eo. reflexivity.
  - destruct HC as (l' & Ed & _ & Ea & El & _ & Ek). rewrite Ed.
    assert (Hdef : remove_child c s kd t p w lf ch b =
      (if ((kd =? 256) && (ch_len ch <=? 49) || (kd =? 48) && (ch_len ch <=? 17) || (kd =? 16) && (ch_len ch <=? 5))%N
       then let kd' := (if kd =? 256 then 48 else if kd =? 48 then 16 else 4)%N in
            let '(w', s1) := fresh_if w s in (Inner kd' (c_tid c) p w' lf (ch_remove b ch), record w s1, false)
       else let '(t', w', s1) := clone_hdr c s t w in (Inner kd t' p w' lf (ch_remove b ch), s1, (t =? c_tid c)%N))).
    { unfold remove_child. rewrite Elen.
      destruct (N.eqb_spec (N.of_nat (l_size l)) 2) as [E2|E2]; [|reflexivity].
      destruct lf as [lfr|]; [reflexivity|].
      exfalso. rewrite Hlf in Ecol. cbn [opt_some negb] in Ecol. rewrite andb_true_r in Ecol. apply Nat.eqb_neq in Ecol. lia. }
    rewrite Hdef. rewrite Elen.
    change 49%N with (N.of_nat 49). change 17%N with (N.of_nat 17). change 5%N with (N.of_nat 5). rewrite !leb_bridge.
    unfold del_kind in Ek. rewrite Hkd in Ek.
    destruct ((kd =? 256)%N && (l_size l <=? 49) || (kd =? 48)%N && (l_size l <=? 17) || (kd =? 16)%N && (l_size l <=? 5)).
    + cbn zeta. destruct (fresh_if w s) as [w' s1]. eexists _, _, _, _. rewrite Ek. split; [reflexivity|].
      split; [rewrite ch_keys_remove, Ea, Habs; reflexivity | congruence].
    + destruct (clone_hdr c s t w) as [[t' w'] s1]. eexists _, _, _, _. rewrite Ek. split; [reflexivity|].
      split; [rewrite ch_keys_remove, Ea, Habs; reflexivity | congruence].
Qed.
