(* Part/Watch.v — watch channels: what Notify closes, when a txn is dirty, root watch. *)
From SV Require Import Base.Bytes Base.OrdMap Part.Model Part.Sem Part.Insert Part.Delete Part.Query Part.Refine Part.Cow.
From Coq Require Import ZifyN ZifyNat ZifyBool.
Open Scope N_scope.

(* Notify closes exactly the recorded channels, plus the root channel iff the txn is dirty *)
Lemma notify_closes x :
  snd (txn_notify x) = s_ws (t_st x) ++ (if t_dirty x && negb (t_rw x =? 0) then [t_rw x] else []).
Proof. reflexivity. Qed.

(* CommitAndNotify closes the same set; Commit alone returns a tree and closes nothing: the only
   function of the model that produces a set of closed channels is txn_notify *)
Lemma commit_notify_closes x : snd (txn_commit_notify x) = snd (txn_notify x).
Proof.
  unfold txn_commit_notify. destruct (txn_notify x) as [x1 cl]. destruct (txn_commit x1). reflexivity.
Qed.

(* nothing is recorded and nothing becomes dirty by reads, clones and iterators *)
Lemma bump_watches x : t_st (bump x) = t_st x /\ t_dirty (bump x) = t_dirty x /\ t_rw (bump x) = t_rw x.
Proof. repeat split. Qed.

(* deleting an absent key is not a change: the txn is returned unchanged *)
Lemma delete_absent_unchanged x key : txn_ok x -> om_get key (abs_txn x) = None -> txn_delete x key = (x, None).
Proof.
  intros [Hw _] Hg. unfold txn_delete, abs_txn in *. destruct (t_root x) as [n|]; auto. simpl in *.
  pose proof (proj1 (delete_spec (txn_ctx x)) n [] (t_st x) key Hw) as D.
  destruct (del_node (txn_ctx x) (t_st x) n key) as [|old repl s ip]; auto.
  destruct D as [G _]. congruence.
Qed.
Lemma delete_present_dirty x key v : txn_ok x -> om_get key (abs_txn x) = Some v ->
  t_dirty (fst (txn_delete x key)) = true /\ t_rw (fst (txn_delete x key)) = t_rw x.
Proof.
  intros [Hw _] Hg. unfold txn_delete, abs_txn in *. destruct (t_root x) as [n|]; simpl in *; [|discriminate].
  pose proof (proj1 (delete_spec (txn_ctx x)) n [] (t_st x) key Hw) as D.
  destruct (del_node (txn_ctx x) (t_st x) n key) as [|old repl s ip]; simpl in *; [congruence|auto].
Qed.
Lemma modify_dirty x md key v :
  t_dirty (fst (fst (fst (txn_modify x md key v)))) = true /\ t_rw (fst (fst (fst (txn_modify x md key v)))) = t_rw x.
Proof. unfold txn_modify. simpl. auto. Qed.

(* which operations change the map *)
Definition changes (m : omap N) (o : wop) : bool :=
  match o with
  | WIns _ _ | WMod _ _ _ => true
  | WDel k => match om_get k m with Some _ => true | None => false end
  | WBump => false
  end.
Fixpoint any_change (m : omap N) (ops : list wop) : bool :=
  match ops with [] => false | o :: r => changes m o || any_change (mstep m o) r end.

Lemma wstep_dirty x o : txn_ok x ->
  t_dirty (wstep x o) = t_dirty x || changes (abs_txn x) o /\ t_rw (wstep x o) = t_rw x.
Proof.
  intros H. destruct o as [k v|k v f|k|]; cbn [wstep changes].
  - destruct (modify_dirty x None k v) as [-> ->]. now rewrite orb_true_r.
  - destruct (modify_dirty x (Some f) k v) as [-> ->]. now rewrite orb_true_r.
  - destruct (om_get k (abs_txn x)) as [v|] eqn:G.
    + destruct (delete_present_dirty x k v H G) as [-> ->]. now rewrite orb_true_r.
    + rewrite (delete_absent_unchanged x k H G). simpl. now rewrite orb_false_r.
  - simpl. now rewrite orb_false_r.
Qed.

(* the txn is dirty after a history iff some operation inserted, replaced or deleted a key *)
Theorem dirty_iff_changed ops : forall x, txn_ok x ->
  t_dirty (fold_left wstep ops x) = t_dirty x || any_change (abs_txn x) ops /\
  t_rw (fold_left wstep ops x) = t_rw x.
Proof.
  induction ops as [|o ops IH]; intros x H; simpl.
  - now rewrite orb_false_r.
  - destruct (wstep_refines x o H) as [H1 H2]. destruct (wstep_dirty x o H) as [D R].
    destruct (IH _ H1) as [D2 R2]. rewrite D2, R2, D, R, H2. now rewrite orb_assoc.
Qed.

(* root watch: after Tree.Txn; ops; Notify the tree's root channel is closed iff something changed,
   and then it is in the closed set exactly once at the end *)
Theorem root_watch_closed_iff t next ops :
  tree_ok t -> tr_rw t <> 0 ->
  let x := fold_left wstep ops (tree_txn t next) in
  (In (tr_rw t) (snd (txn_notify x)) <-> any_change (abs_tree t) ops = true \/ In (tr_rw t) (s_ws (t_st x))).
Proof.
  intros Ht Hrw x. destruct (tree_txn_ok t next Ht) as [H1 H2].
  destruct (dirty_iff_changed ops _ H1) as [D R]. fold x in D, R. simpl in D, R. rewrite H2 in D.
  rewrite notify_closes, D, R. apply N.eqb_neq in Hrw. rewrite Hrw. simpl.
  destruct (any_change (abs_tree t) ops); simpl; rewrite in_app_iff; simpl; intuition congruence.
Qed.

(* ---- the channel Get(k) returns on a published tree is recorded when k is inserted/replaced ---- *)
Definition ws_mono (s s' : st) : Prop := forall a, In a (s_ws s) -> In a (s_ws s').

Lemma ws_mono_refl s : ws_mono s s. Proof. intros a H; exact H. Qed.
Lemma ws_mono_trans s1 s2 s3 : ws_mono s1 s2 -> ws_mono s2 s3 -> ws_mono s1 s3.
Proof. intros H1 H2 a H. auto. Qed.
Lemma record_mono w s : ws_mono s (record w s).
Proof. unfold record, ws_mono. destruct (w =? 0); simpl; auto. Qed.
Lemma record_in w s : w <> 0 -> In w (s_ws (record w s)).
Proof. unfold record. intros H. apply N.eqb_neq in H. rewrite H. simpl. auto. Qed.
Lemma fresh_mono c s : ws_mono s (snd (fresh c s)).
Proof. unfold fresh, ws_mono. destruct (c_ro c); simpl; auto. Qed.
Lemma fresh_if_mono w s : ws_mono s (snd (fresh_if w s)).
Proof. unfold fresh_if, ws_mono. destruct (w =? 0); simpl; auto. Qed.
Lemma clone_hdr_mono c s t w : ws_mono s (snd (clone_hdr c s t w)).
Proof.
  unfold clone_hdr. destruct (t =? c_tid c); simpl; [apply ws_mono_refl|].
  pose proof (fresh_mono c (record w s)) as F. destruct (fresh c (record w s)); simpl in *.
  eapply ws_mono_trans; [apply record_mono|exact F].
Qed.
Lemma clone_leaf_mono c s l : ws_mono s (snd (clone_leaf c s l)).
Proof.
  unfold clone_leaf. destruct (0 =? c_tid c); simpl; [apply ws_mono_refl|].
  pose proof (fresh_mono c (record (lf_w l) s)) as F. destruct (fresh c (record (lf_w l) s)); simpl in *.
  eapply ws_mono_trans; [apply record_mono|exact F].
Qed.
Lemma clone_hdr_records c s t w : t <> c_tid c -> w <> 0 -> In w (s_ws (snd (clone_hdr c s t w))).
Proof. intros H1 H2. rewrite (proj2 (clone_hdr_inplace_only c s t w H1)). now apply record_in. Qed.
Lemma clone_leaf_records c s l : c_tid c <> 0 -> lf_w l <> 0 -> In (lf_w l) (s_ws (snd (clone_leaf c s l))).
Proof. intros H1 H2. rewrite (clone_leaf_inplace_only c s l H1). now apply record_in. Qed.

Definition pick (w w0 : N) : N := if w =? 0 then w0 else w.
Lemma pick_cases w w0 : (pick w w0 = w0) \/ (pick w w0 = w /\ w <> 0).
Proof. unfold pick. destruct (N.eqb_spec w 0); auto. Qed.

Section Rec.
Variable c : ctx.
Variable md : option (N -> N -> N).
Variable fullKey : bytes.
Variable v : N.
Hypothesis Hc0 : c_tid c <> 0.

Lemma split_mono s this key : ws_mono s (m_st (split_node c fullKey v s this key)).
Proof.
  unfold split_node. cbv zeta. pose proof (fresh_mono c s) as F1. destruct (fresh c s) as [lw s1].
  pose proof (fresh_mono c s1) as F2. destruct (fresh c s1) as [nw s2]. simpl in *.
  eapply ws_mono_trans; eauto.
Qed.

Definition rec_ok (s : st) (w w0 : N) (r : mres) : Prop :=
  (w = w0 \/ In w (s_ws (m_st r))) /\ ws_mono s (m_st r).

Theorem modify_records :
  (forall n s key w0, no_inplace c n ->
     rec_ok s (snd (search_node n key w0)) w0 (modify_node c md fullKey v s n key)) /\
  (forall ch s b key w0, no_inplace_ch c ch ->
     match modify_ch c md fullKey v s ch b key with
     | Some (_, r) => rec_ok s (snd (search_ch ch b key w0)) w0 r
     | None => snd (search_ch ch b key w0) = w0
     end).
Proof.
  apply node_children_ind.
  - intros p l s key w0 _. cbn [modify_node search_node].
    destruct (bytes_eqb key p).
    + pose proof (clone_leaf_mono c s l) as M. pose proof (clone_leaf_records c s l Hc0) as R.
      destruct (clone_leaf c s l) as [l' s']. simpl in *. split; auto.
      fold (pick (lf_w l) w0). destruct (pick_cases (lf_w l) w0) as [->|[-> Hn]]; auto.
    + split; [left; reflexivity|apply split_mono].
  - intros kd t p w lf ch IH s key w0 [Ht Hc]. cbn [modify_node search_node]; fold (modify_ch c md fullKey v); fold search_ch.
    pose proof (clone_hdr_mono c s t w) as M1. pose proof (clone_hdr_records c s t w Ht) as R1.
    destruct (strip p key) as [[|b rest]|].
    + destruct (clone_hdr c s t w) as [[t' w'] s1]. simpl in M1, R1.
      destruct lf as [l|].
      * pose proof (clone_leaf_mono c s1 l) as M. pose proof (clone_leaf_records c s1 l Hc0) as R.
        destruct (clone_leaf c s1 l) as [l' s2]. simpl in *. split; [|eapply ws_mono_trans; eauto].
        fold (pick (lf_w l) w0). destruct (pick_cases (lf_w l) w0) as [->|[-> Hn]]; auto.
      * pose proof (fresh_mono c s1) as F. destruct (fresh c s1) as [lw s2]. simpl in *.
        split; [left; reflexivity|eapply ws_mono_trans; eauto].
    + fold (pick w w0).
      destruct (clone_hdr c s t w) as [[t' w'] s1] eqn:Ec. simpl in M1, R1.
      specialize (IH s1 b (b :: rest) (pick w w0) Hc).
      destruct (modify_ch c md fullKey v s1 ch b (b :: rest)) as [[ch' r]|].
      * destruct IH as [[E|I] M]. 
        -- unfold rec_ok. cbn [m_st]. split; [|eapply ws_mono_trans; eauto]. rewrite E.
           destruct (pick_cases w w0) as [->|[-> Hn]]; auto.
        -- unfold rec_ok. cbn [m_st]. split; [auto|eapply ws_mono_trans; eauto].
      * rewrite IH.
        assert (G : forall s2, ws_mono s s2 -> (w <> 0 -> In w (s_ws s2)) ->
                    (pick w w0 = w0 \/ In (pick w w0) (s_ws s2))).
        { intros s2 _ Hin. destruct (pick_cases w w0) as [->|[-> Hn]]; auto. }
        destruct (kd <? ch_len ch + 1).
        -- pose proof (fresh_if_mono w (record w s)) as F. destruct (fresh_if w (record w s)) as [w2 s2].
           pose proof (fresh_mono c s2) as F2. destruct (fresh c s2) as [lw s3]. simpl in *.
           assert (Mn : ws_mono s s3) by (eapply ws_mono_trans; [apply record_mono|eapply ws_mono_trans; eauto]).
           split; auto. apply G; auto. intros Hn. apply F2, F. now apply record_in.
        -- pose proof (fresh_mono c s1) as F2. destruct (fresh c s1) as [lw s3]. simpl in *.
           assert (Mn : ws_mono s s3) by (eapply ws_mono_trans; eauto).
           split; auto.
    + destruct (clone_hdr c s t w) as [[t' w'] s']. simpl in *. split; [left; reflexivity|].
      eapply ws_mono_trans; [exact M1|apply split_mono].
  - intros s b key w0 _. reflexivity.
  - intros b' x IHx r IHr s b key w0 [Hx Hr]. cbn [modify_ch search_ch]; fold (modify_node c md fullKey v);
      fold (modify_ch c md fullKey v); fold search_node; fold search_ch.
    destruct (b' =? b).
    + apply IHx; auto.
    + specialize (IHr s b key w0 Hr). destruct (modify_ch c md fullKey v s r b key) as [[r' res]|]; auto.
Qed.
End Rec.

(* Insert/Modify of k as the first write of a txn begun from a committed tree: the channel that
   Get(k) returned on that tree is closed by Notify *)
Theorem get_watch_closed_by_modify t next md key v :
  tree_ids_ok t -> snd (tree_get t key) <> 0 ->
  In (snd (tree_get t key)) (snd (txn_notify (fst (fst (fst (txn_modify (tree_txn t next) md key v)))))).
Proof.
  intros Hids Hnz. unfold tree_get, root_get in *. rewrite notify_closes.
  destruct (modify_dirty (tree_txn t next) md key v) as [D R]. rewrite D, R.
  unfold txn_modify. cbn [tree_txn t_root t_rw t_st].
  destruct (tr_root t) as [n|] eqn:Er.
  - unfold tree_ids_ok in Hids. rewrite Er in Hids. destruct Hids as [H0 Hle].
    assert (Hc0 : c_tid (txn_ctx (tree_txn t next)) <> 0) by (simpl; lia).
    assert (Hni : no_inplace (txn_ctx (tree_txn t next)) n)
      by (apply (proj1 (tids_lt_no_inplace _)); simpl; auto).
    destruct (proj1 (modify_records (txn_ctx (tree_txn t next)) md key v Hc0) n (mkSt [] next) key (tr_rw t) Hni) as [[E|I] _].
    + cbn [fst t_st]. rewrite E in *. apply in_or_app. right. apply N.eqb_neq in Hnz. rewrite Hnz. simpl. auto.
    + cbn [fst t_st]. apply in_or_app. left. exact I.
  - cbn [fst snd] in *. apply in_or_app. right. apply N.eqb_neq in Hnz. rewrite Hnz. simpl. auto.
Qed.

(* ---- Delete of a present key on a tree none of whose nodes is private to the txn ---- *)
Section RecDel.
Variable c : ctx.
Hypothesis Hc0 : c_tid c <> 0.

Lemma remove_child_records s kd t p w lf ch b : t <> c_tid c ->
  let r := remove_child c s kd t p w lf ch b in
  ws_mono s (snd (fst r)) /\ (w <> 0 -> In w (s_ws (snd (fst r)))) /\ snd r = false.
Proof.
  intros Ht. unfold remove_child.
  pose proof (clone_hdr_mono c s t w) as M1. pose proof (clone_hdr_records c s t w Ht) as R1.
  assert (Hf : (t =? c_tid c) = false) by now apply N.eqb_neq.
  destruct (ch_len ch =? 2); [destruct lf; [|destruct (ch_other b ch)]|].
  2:{ cbn [fst snd]. repeat split; [apply record_mono|apply record_in]. }
  all: destruct (_ || _);
    [pose proof (fresh_if_mono w s) as F; destruct (fresh_if w s) as [w' s1]; cbn [fst snd] in *;
     repeat split; [eapply ws_mono_trans; [exact F|apply record_mono]|intros Hn; now apply record_in]
    |destruct (clone_hdr c s t w) as [[t' w'] s1]; cbn [fst snd] in *; repeat split; auto].
Qed.

Definition drec_ok (s : st) (w0 : N) (w : N) (r : dres) : Prop :=
  match r with
  | DNone => True
  | DSome _ _ s' ip => ws_mono s s' /\ (w = w0 \/ In w (s_ws s')) /\ ip = false
  end.

Theorem delete_records :
  (forall n s key w0, no_inplace c n -> drec_ok s w0 (snd (search_node n key w0)) (del_node c s n key)) /\
  (forall ch s b key w0, no_inplace_ch c ch -> drec_ok s w0 (snd (search_ch ch b key w0)) (del_ch c s ch b key)).
Proof.
  apply node_children_ind.
  - intros p l s key w0 _. cbn [del_node search_node]. destruct (bytes_eqb key p); [|exact I].
    cbn [drec_ok snd]. repeat split.
    + eapply ws_mono_trans; apply record_mono.
    + fold (pick (lf_w l) w0). destruct (pick_cases (lf_w l) w0) as [->|[-> Hn]]; auto.
      right. apply record_mono. now apply record_in.
  - intros kd t p w lf ch IH s key w0 [Ht Hc]. cbn [del_node search_node]; fold (del_ch c); fold search_ch.
    destruct (strip p key) as [[|b rest]|]; [| |exact I].
    + destruct lf as [l|]; [|exact I]. cbn [snd]. fold (pick (lf_w l) w0).
      assert (G : forall s', ws_mono (record (lf_w l) s) s' ->
                  pick (lf_w l) w0 = w0 \/ In (pick (lf_w l) w0) (s_ws s')).
      { intros s' M. destruct (pick_cases (lf_w l) w0) as [->|[-> Hn]]; auto. right. apply M. now apply record_in. }
      destruct ch as [|b1 x1 [|b2 x2 r]].
      * cbn [drec_ok]. repeat split; [eapply ws_mono_trans; apply record_mono|apply G, record_mono].
      * cbn [drec_ok]. repeat split; [eapply ws_mono_trans; apply record_mono|apply G, record_mono].
      * pose proof (clone_hdr_mono c (record (lf_w l) s) t w) as M1.
        destruct (clone_hdr c (record (lf_w l) s) t w) as [[t' w'] s2]. cbn [drec_ok snd] in *.
        repeat split; [eapply ws_mono_trans; [apply record_mono|exact M1]|now apply G].
    + fold (pick w w0). specialize (IH s b (b :: rest) (pick w w0) Hc).
      destruct (del_ch c s ch b (b :: rest)) as [|old repl s1 ip]; [exact I|].
      destruct IH as (M & W & ->).
      assert (G : forall s', ws_mono s1 s' -> (w <> 0 -> In w (s_ws s')) ->
                  snd (search_ch ch b (b :: rest) (pick w w0)) = w0 \/
                  In (snd (search_ch ch b (b :: rest) (pick w w0))) (s_ws s')).
      { intros s' M' Hin. destruct W as [E|I0]; [|right; now apply M'].
        rewrite E. destruct (pick_cases w w0) as [->|[-> Hn]]; auto. }
      destruct repl as [x|].
      * pose proof (clone_hdr_mono c s1 t w) as M1. pose proof (clone_hdr_records c s1 t w Ht) as R1.
        destruct (clone_hdr c s1 t w) as [[t' w'] s2]. cbn [drec_ok snd] in *.
        repeat split; [eapply ws_mono_trans; eauto|now apply G|now apply N.eqb_neq].
      * pose proof (remove_child_records s1 kd t p w lf ch b Ht) as R.
        destruct (remove_child c s1 kd t p w lf ch b) as [[n' s2] ip']. cbn [fst snd] in R.
        destruct R as (M1 & R1 & ->). cbn [drec_ok].
        repeat split; [eapply ws_mono_trans; eauto|now apply G].
  - intros; exact I.
  - intros b' x IHx r IHr s b key w0 [Hx Hr]. cbn [del_ch search_ch]; fold (del_node c); fold (del_ch c);
      fold search_node; fold search_ch.
    destruct (b' =? b); auto.
Qed.
End RecDel.

(* Delete of k as the first write of a txn begun from a committed tree: if k was present, the
   channel Get(k) returned on that tree is closed by Notify *)
Theorem get_watch_closed_by_delete t next key :
  tree_ids_ok t -> snd (tree_get t key) <> 0 -> snd (txn_delete (tree_txn t next) key) <> None ->
  In (snd (tree_get t key)) (snd (txn_notify (fst (txn_delete (tree_txn t next) key)))).
Proof.
  intros Hids Hnz Hp. unfold tree_get, root_get, txn_delete in *. cbn [tree_txn t_root t_rw t_st] in *.
  destruct (tr_root t) as [n|] eqn:Er; [|simpl in Hp; congruence].
  unfold tree_ids_ok in Hids. rewrite Er in Hids. destruct Hids as [H0 Hle].
  set (x0 := tree_txn t next) in *.
  assert (Hc0 : c_tid (txn_ctx x0) <> 0) by (simpl; lia).
  assert (Hni : no_inplace (txn_ctx x0) n) by (apply (proj1 (tids_lt_no_inplace _)); simpl; auto).
  pose proof (proj1 (delete_records (txn_ctx x0)) n (mkSt [] next) key (tr_rw t) Hni) as D.
  change (t_st x0) with (mkSt [] next) in *.
  destruct (del_node (txn_ctx x0) (mkSt [] next) n key) as [|old repl s ip]; [simpl in Hp; congruence|].
  destruct D as (_ & [E|I0] & _); rewrite notify_closes; cbn [fst t_st t_dirty t_rw]; apply in_or_app.
  - right. rewrite E in *. apply N.eqb_neq in Hnz. simpl. rewrite Hnz. simpl. auto.
  - left. exact I0.
Qed.

(* ---- every inner node visited on the way to the key has its channel recorded; the channel
   Prefix(q) returns for a prefix q of the key is one of them (or the root channel) ---- *)
Fixpoint visit (n : node) (key : bytes) {struct n} : list N :=
  match n with
  | Leaf _ _ => []
  | Inner _ _ p w _ ch =>
    w :: match strip p key with Some ((b :: _) as rest) => visit_ch ch b rest | _ => [] end
  end
with visit_ch (ch : children) (b : N) (key : bytes) {struct ch} : list N :=
  match ch with CNil => [] | CCons b' x r => if b' =? b then visit x key else visit_ch r b key end.

Section RecPath.
Variable c : ctx.
Variable md : option (N -> N -> N).
Variable fullKey : bytes.
Variable v : N.
Hypothesis Hc0 : c_tid c <> 0.

Theorem modify_records_path :
  (forall n s key, no_inplace c n -> forall a, In a (visit n key) -> a <> 0 ->
     In a (s_ws (m_st (modify_node c md fullKey v s n key)))) /\
  (forall ch s b key, no_inplace_ch c ch ->
     match modify_ch c md fullKey v s ch b key with
     | Some (_, r) => forall a, In a (visit_ch ch b key) -> a <> 0 -> In a (s_ws (m_st r))
     | None => visit_ch ch b key = []
     end).
Proof.
  apply node_children_ind.
  - intros p l s key _ a []. 
  - intros kd t p w lf ch IH s key [Ht Hc] a Ha Hnz. cbn [visit] in Ha; fold visit_ch in Ha.
    pose proof (proj1 (modify_records c md fullKey v Hc0) (Inner kd t p w lf ch) s key 0 (conj Ht Hc)) as [_ Mall].
    pose proof (clone_hdr_records c s t w Ht) as R1.
    destruct Ha as [<-|Ha].
    + (* the node itself: recorded by clone/promote, then never dropped *)
      revert Mall. cbn [modify_node]; fold (modify_ch c md fullKey v). intros Mall.
      pose proof (proj2 (modify_records c md fullKey v Hc0) ch) as Mch.
      destruct (strip p key) as [[|b rest]|].
      * pose proof (clone_hdr_mono c s t w) as M1. destruct (clone_hdr c s t w) as [[t' w'] s1]. simpl in R1.
        destruct lf as [l|].
        -- pose proof (clone_leaf_mono c s1 l) as M. destruct (clone_leaf c s1 l) as [l' s2]. simpl in *. auto.
        -- pose proof (fresh_mono c s1) as F. destruct (fresh c s1) as [lw s2]. simpl in *. auto.
      * destruct (clone_hdr c s t w) as [[t' w'] s1] eqn:Ec. simpl in R1.
        specialize (Mch s1 b (b :: rest) 0 Hc).
        destruct (modify_ch c md fullKey v s1 ch b (b :: rest)) as [[ch' r]|].
        -- destruct Mch as [_ M]. cbn [m_st]. apply M. auto.
        -- destruct (kd <? ch_len ch + 1).
           ++ pose proof (fresh_if_mono w (record w s)) as F. destruct (fresh_if w (record w s)) as [w2 s2].
              pose proof (fresh_mono c s2) as F2. destruct (fresh c s2) as [lw s3]. simpl in *.
              apply F2, F. now apply record_in.
           ++ pose proof (fresh_mono c s1) as F2. destruct (fresh c s1) as [lw s3]. simpl in *. auto.
      * destruct (clone_hdr c s t w) as [[t' w'] s']. simpl in R1. apply split_mono. auto.
    + (* a node further down *)
      cbn [modify_node]; fold (modify_ch c md fullKey v).
      destruct (strip p key) as [[|b rest]|]; try (destruct Ha; fail).
      destruct (clone_hdr c s t w) as [[t' w'] s1] eqn:Ec.
      specialize (IH s1 b (b :: rest) Hc).
      destruct (modify_ch c md fullKey v s1 ch b (b :: rest)) as [[ch' r]|].
      * cbn [m_st]. auto.
      * rewrite IH in Ha. destruct Ha.
  - intros s b key _. reflexivity.
  - intros b' x IHx r IHr s b key [Hx Hr]. cbn [modify_ch visit_ch]; fold (modify_node c md fullKey v);
      fold (modify_ch c md fullKey v); fold visit; fold visit_ch.
    destruct (b' =? b).
    + apply IHx; auto.
    + specialize (IHr s b key Hr). destruct (modify_ch c md fullKey v s r b key) as [[r' res]|]; auto.
Qed.
End RecPath.

Lemma has_prefix_app_inv q : forall p k, has_prefix (p ++ k) q = true -> has_prefix p q = true \/ exists r, strip p q = Some r.
Proof.
  induction q as [|y q IH]; intros [|x p] k; simpl; auto.
  - intros _. right. eexists; reflexivity.
  - destruct (N.eqb_spec x y) as [->|Hne]; simpl; [|discriminate]. intros H.
    destruct (IH p k H) as [H1|[r H1]]; auto. right. rewrite ?N.eqb_refl. eauto.
Qed.

Lemma strip_prefix_key p q key b rest : strip p q = Some (b :: rest) -> has_prefix key q = true ->
  exists more, strip p key = Some (b :: more) /\ has_prefix (b :: more) (b :: rest) = true.
Proof.
  intros Hs Hk. apply strip_some in Hs. subst q. apply has_prefix_spec in Hk. destruct Hk as [r ->].
  rewrite <- app_assoc. rewrite strip_app. simpl. exists (rest ++ r). split; auto.
  rewrite N.eqb_refl. simpl. apply has_prefix_spec. eexists; reflexivity.
Qed.

Theorem prefix_watch_visited :
  (forall n q key w0, has_prefix key q = true ->
     snd (prefix_node n q w0) = w0 \/ (In (snd (prefix_node n q w0)) (visit n key) /\ snd (prefix_node n q w0) <> 0)) /\
  (forall ch b q key w0, has_prefix key q = true -> hd_is b q ->
     snd (prefix_ch ch b q w0) = w0 \/ (In (snd (prefix_ch ch b q w0)) (visit_ch ch b key) /\ snd (prefix_ch ch b q w0) <> 0)).
Proof.
  apply node_children_ind.
  - intros p l q key w0 _. cbn [prefix_node]. destruct (has_prefix p q); auto.
  - intros kd t p w lf ch IH q key w0 Hk. cbn [prefix_node visit]; fold prefix_ch; fold visit_ch.
    fold (pick w w0).
    destruct (has_prefix p q) eqn:Hp.
    + cbn [snd]. destruct (pick_cases w w0) as [->|[-> Hn]]; auto. right. split; simpl; auto.
    + destruct (strip p q) as [[|b rest]|] eqn:Es; auto.
      destruct (strip_prefix_key p q key b rest Es Hk) as (more & Ek & Hm). rewrite Ek.
      destruct (IH b (b :: rest) (b :: more) (pick w w0) Hm eq_refl) as [E|[I0 Hn]].
      * rewrite E. destruct (pick_cases w w0) as [->|[-> Hn]]; auto. right. split; simpl; auto.
      * right. split; simpl; auto.
  - intros b q key w0 _ _. left. reflexivity.
  - intros b' x IHx r IHr b q key w0 Hk Hb. cbn [prefix_ch visit_ch]; fold prefix_node; fold prefix_ch; fold visit; fold visit_ch.
    destruct (b' =? b); auto.
Qed.

(* Prefix(q) watch, first write of a txn begun from a committed tree: Insert/Modify of a key with
   prefix q closes the channel Prefix(q) returned on that tree *)
Theorem prefix_watch_closed_by_modify t next md key v q :
  tree_ids_ok t -> has_prefix key q = true -> snd (tree_prefix t q) <> 0 ->
  In (snd (tree_prefix t q)) (snd (txn_notify (fst (fst (fst (txn_modify (tree_txn t next) md key v)))))).
Proof.
  intros Hids Hq Hnz. unfold tree_prefix, root_prefix in *. rewrite notify_closes.
  destruct (modify_dirty (tree_txn t next) md key v) as [D R]. rewrite D, R.
  unfold txn_modify. cbn [tree_txn t_root t_rw t_st].
  assert (Root : tr_rw t <> 0 -> In (tr_rw t) (if true && negb (tr_rw t =? 0) then [tr_rw t] else []))
    by (intros H; apply N.eqb_neq in H; rewrite H; simpl; auto).
  destruct (tr_root t) as [n|] eqn:Er.
  - unfold tree_ids_ok in Hids. rewrite Er in Hids. destruct Hids as [H0 Hle].
    assert (Hc0 : c_tid (txn_ctx (tree_txn t next)) <> 0) by (simpl; lia).
    assert (Hni : no_inplace (txn_ctx (tree_txn t next)) n)
      by (apply (proj1 (tids_lt_no_inplace _)); simpl; auto).
    destruct (prefix_node n q (tr_rw t)) as [o w] eqn:Ep. cbn [snd] in Hnz.
    pose proof (proj1 prefix_watch_visited n q key (tr_rw t) Hq) as V. rewrite Ep in V. cbn [snd] in V.
    cbn [fst t_st]. apply in_or_app. destruct V as [->|[I0 _]]; [right; auto|left].
    apply (proj1 (modify_records_path (txn_ctx (tree_txn t next)) md key v Hc0)); auto.
  - cbn [fst snd] in *. apply in_or_app. right. auto.
Qed.

Section RecPathDel.
Variable c : ctx.

Theorem delete_records_path :
  (forall n s key, no_inplace c n ->
     match del_node c s n key with
     | DSome _ _ s' _ => forall a, In a (visit n key) -> a <> 0 -> In a (s_ws s')
     | DNone => True
     end) /\
  (forall ch s b key, no_inplace_ch c ch ->
     match del_ch c s ch b key with
     | DSome _ _ s' _ => forall a, In a (visit_ch ch b key) -> a <> 0 -> In a (s_ws s')
     | DNone => True
     end).
Proof.
  apply node_children_ind.
  - intros p l s key _. cbn [del_node]. destruct (bytes_eqb key p); [|exact I]. intros a [].
  - intros kd t p w lf ch IH s key [Ht Hc]. cbn [del_node visit]; fold (del_ch c); fold visit_ch.
    destruct (strip p key) as [[|b rest]|]; [| |exact I].
    + destruct lf as [l|]; [|exact I].
      destruct ch as [|b1 x1 [|b2 x2 r]].
      * intros a [<-|[]] Hn. now apply record_in.
      * intros a [<-|[]] Hn. now apply record_in.
      * pose proof (clone_hdr_records c (record (lf_w l) s) t w Ht) as R1.
        destruct (clone_hdr c (record (lf_w l) s) t w) as [[t' w'] s2]. simpl in R1.
        intros a [<-|[]] Hn. auto.
    + specialize (IH s b (b :: rest) Hc).
      pose proof (proj2 (delete_records c) ch s b (b :: rest) 0 Hc) as D.
      destruct (del_ch c s ch b (b :: rest)) as [|old repl s1 ip]; [exact I|].
      destruct D as (_ & _ & ->).
      destruct repl as [x|].
      * pose proof (clone_hdr_mono c s1 t w) as M1. pose proof (clone_hdr_records c s1 t w Ht) as R1.
        destruct (clone_hdr c s1 t w) as [[t' w'] s2]. simpl in M1, R1.
        intros a [<-|Ha] Hn; auto.
      * pose proof (remove_child_records c s1 kd t p w lf ch b Ht) as R.
        destruct (remove_child c s1 kd t p w lf ch b) as [[n' s2] ip']. cbn [fst snd] in R.
        destruct R as (M1 & R1 & _).
        intros a [<-|Ha] Hn; auto.
  - intros; exact I.
  - intros b' x IHx r IHr s b key [Hx Hr]. cbn [del_ch visit_ch]; fold (del_node c); fold (del_ch c); fold visit; fold visit_ch.
    destruct (b' =? b); [apply IHx|apply IHr]; auto.
Qed.
End RecPathDel.

(* Delete of a present key with prefix q closes the channel Prefix(q) returned on the committed tree *)
Theorem prefix_watch_closed_by_delete t next key q :
  tree_ids_ok t -> has_prefix key q = true -> snd (tree_prefix t q) <> 0 ->
  snd (txn_delete (tree_txn t next) key) <> None ->
  In (snd (tree_prefix t q)) (snd (txn_notify (fst (txn_delete (tree_txn t next) key)))).
Proof.
  intros Hids Hq Hnz Hp. unfold tree_prefix, root_prefix, txn_delete in *. cbn [tree_txn t_root t_rw t_st] in *.
  destruct (tr_root t) as [n|] eqn:Er; [|simpl in Hp; congruence].
  unfold tree_ids_ok in Hids. rewrite Er in Hids. destruct Hids as [H0 Hle].
  set (x0 := tree_txn t next) in *.
  assert (Hni : no_inplace (txn_ctx x0) n) by (apply (proj1 (tids_lt_no_inplace _)); simpl; auto).
  pose proof (proj1 (delete_records_path (txn_ctx x0)) n (mkSt [] next) key Hni) as D.
  change (t_st x0) with (mkSt [] next) in *.
  destruct (prefix_node n q (tr_rw t)) as [o w] eqn:Ep. cbn [snd] in Hnz.
  pose proof (proj1 prefix_watch_visited n q key (tr_rw t) Hq) as V. rewrite Ep in V. cbn [snd] in V.
  destruct (del_node (txn_ctx x0) (mkSt [] next) n key) as [|old repl s ip]; [simpl in Hp; congruence|].
  rewrite notify_closes; cbn [fst t_st t_dirty t_rw]; apply in_or_app.
  destruct V as [->|[I0 _]]; [right|left; auto].
  apply N.eqb_neq in Hnz. simpl. rewrite Hnz. simpl. auto.
Qed.

(* ---- InsertWatch / ModifyWatch: the returned channel is the channel Get returns for the key afterwards ---- *)
Lemma modify_ch_none c md fk v s b key : forall ch, modify_ch c md fk v s ch b key = None -> ch_find b ch = None.
Proof.
  induction ch as [|b' x r IH]; [reflexivity|].
  cbn [modify_ch ch_find]; fold (modify_node c md fk v); fold (modify_ch c md fk v).
  destruct (b' =? b); [discriminate|]. destruct (modify_ch c md fk v s r b key) as [[r' res]|]; [discriminate|auto].
Qed.
Lemma search_ch_insert b x key w : forall ch, ch_find b ch = None ->
  search_ch (ch_insert b x ch) b key w = search_node x key w.
Proof.
  induction ch as [|b' y r IH]; intros Hf.
  - cbn [ch_insert search_ch]; fold search_node. now rewrite N.eqb_refl.
  - cbn [ch_find] in Hf. cbn [ch_insert]. destruct (N.eqb_spec b' b) as [->|Hne]; [discriminate|].
    destruct (b <? b').
    + cbn [search_ch]; fold search_node. now rewrite N.eqb_refl.
    + cbn [search_ch]; fold search_node; fold search_ch. apply N.eqb_neq in Hne. rewrite Hne. auto.
Qed.

Section IW.
Variable c : ctx.
Variable md : option (N -> N -> N).
Variable fullKey : bytes.
Variable v : N.

Lemma split_watch s this key w0 :
  (is_leaf this = true /\ key <> node_prefix this) \/ strip (node_prefix this) key = None ->
  let r := split_node c fullKey v s this key in
  m_w r <> 0 -> snd (search_node (m_node r) key w0) = m_w r.
Proof.
  intros Hc. unfold split_node. cbv zeta.
  destruct (common_split key (node_prefix this)) as (k' & p' & Ek & Ep & Hd).
  set (cp := common key (node_prefix this)) in *. clearbody cp.
  destruct (fresh c s) as [lw s1]. destruct (fresh c s1) as [nw s2].
  assert (Sk : skipn (length cp) key = k') by (rewrite Ek; apply skipn_app_len).
  assert (Sp : skipn (length cp) (node_prefix this) = p') by (rewrite Ep; apply skipn_app_len).
  rewrite Sp, Sk. clear Sp Sk.
  assert (Hpp : node_prefix (set_prefix this p') = p') by (destruct this; reflexivity).
  rewrite Hpp. cbn [m_node m_w]. intros Hnz.
  assert (Pk : forall a, pick lw a = lw) by (intros a; unfold pick; apply N.eqb_neq in Hnz; now rewrite Hnz).
  assert (Es : strip cp key = Some k') by (rewrite Ek; apply strip_app).
  destruct p' as [|tb p'].
  - destruct Hc as [[Hl Hne]|Hs].
    2:{ rewrite Ep, Ek, app_nil_r, strip_app in Hs. discriminate. }
    destruct k' as [|kb k']; [rewrite app_nil_r in Ek, Ep; congruence|].
    cbn [search_node search_ch hd]; fold search_ch; fold search_node. rewrite Es.
    cbn [search_ch search_node]. rewrite N.eqb_refl. cbn [search_node]. rewrite bytes_eqb_refl. cbn [snd lf_w].
    apply Pk.
  - destruct k' as [|kb k'].
    + cbn [search_node]; fold search_ch. rewrite Es. cbn [snd lf_w]. apply Pk.
    + simpl in Hd. destruct (N.ltb_spec tb kb) as [Hlt|Hge].
      * cbn [search_node]; fold search_ch. rewrite Es. cbn [search_ch]; fold search_node; fold search_ch.
        assert (Hn : (tb =? kb) = false) by (apply N.eqb_neq; lia). rewrite Hn, N.eqb_refl.
        cbn [search_node]. rewrite bytes_eqb_refl. cbn [snd lf_w]. apply Pk.
      * cbn [search_node]; fold search_ch. rewrite Es. cbn [search_ch]; fold search_node; fold search_ch.
        rewrite N.eqb_refl. cbn [search_node]. rewrite bytes_eqb_refl. cbn [snd lf_w]. apply Pk.
Qed.

Theorem modify_watch_is_get :
  (forall n s key w0, let r := modify_node c md fullKey v s n key in
     m_w r <> 0 -> snd (search_node (m_node r) key w0) = m_w r) /\
  (forall ch s b key w0,
     match modify_ch c md fullKey v s ch b key with
     | Some (ch', r) => m_w r <> 0 -> snd (search_ch ch' b key w0) = m_w r
     | None => True
     end).
Proof.
  apply node_children_ind.
  - intros p l s key w0. cbn [modify_node].
    destruct (bytes_eqb key p) eqn:E.
    + destruct (clone_leaf c s l) as [l' s']. cbn [m_node m_w search_node]. rewrite E. cbn [snd lf_w].
      intros Hnz. unfold pick. apply N.eqb_neq in Hnz. now rewrite Hnz.
    + apply split_watch. left. split; auto. simpl. now apply bytes_eqb_false.
  - intros kd t p w lf ch IH s key w0. cbn [modify_node]; fold (modify_ch c md fullKey v).
    destruct (strip p key) as [[|b rest]|] eqn:Es.
    + destruct (clone_hdr c s t w) as [[t' w'] s1].
      destruct lf as [l|]; [destruct (clone_leaf c s1 l) as [l' s2]|destruct (fresh c s1) as [lw s2]];
        cbn [m_node m_w search_node]; rewrite Es; cbn [snd lf_w]; intros Hnz; apply N.eqb_neq in Hnz; now rewrite Hnz.
    + destruct (clone_hdr c s t w) as [[t' w'] s1] eqn:Ec.
      specialize (IH s1 b (b :: rest) (if w' =? 0 then w0 else w')).
      destruct (modify_ch c md fullKey v s1 ch b (b :: rest)) as [[ch' r]|] eqn:Em.
      * cbn [m_node m_w search_node]; fold search_ch. rewrite Es. exact IH.
      * apply modify_ch_none in Em.
        destruct (kd <? ch_len ch + 1).
        -- destruct (fresh_if w (record w s)) as [w2 s2]. destruct (fresh c s2) as [lw s3].
           cbn [m_node m_w search_node]; fold search_ch. rewrite Es, search_ch_insert by auto.
           cbn [search_node]. rewrite bytes_eqb_refl. cbn [snd lf_w]. intros Hnz. apply N.eqb_neq in Hnz. now rewrite Hnz.
        -- destruct (fresh c s1) as [lw s3].
           cbn [m_node m_w search_node]; fold search_ch. rewrite Es, search_ch_insert by auto.
           cbn [search_node]. rewrite bytes_eqb_refl. cbn [snd lf_w]. intros Hnz. apply N.eqb_neq in Hnz. now rewrite Hnz.
    + destruct (clone_hdr c s t w) as [[t' w'] s']. apply split_watch. right. exact Es.
  - intros; exact I.
  - intros b' x IHx r IHr s b key w0. cbn [modify_ch]; fold (modify_node c md fullKey v); fold (modify_ch c md fullKey v).
    destruct (b' =? b) eqn:Eb.
    + cbn [search_ch]; fold search_node. rewrite Eb. apply IHx.
    + specialize (IHr s b key w0). destruct (modify_ch c md fullKey v s r b key) as [[r' res]|]; [|exact I].
      cbn [search_ch]; fold search_node; fold search_ch. rewrite Eb. exact IHr.
Qed.
End IW.

(* InsertWatch/ModifyWatch (per-node watch mode): the channel handed out is the one Get(k) returns on the txn
   afterwards, hence on the tree it commits to *)
Theorem insert_watch_is_get_watch x md key v :
  t_ro x = false ->
  let '(x', _, _, w) := txn_modify x md key v in
  w <> 0 -> snd (txn_get x' key) = w /\ snd (tree_get (snd (txn_commit x')) key) = w.
Proof.
  intros Hro. unfold txn_modify, txn_get, tree_get, txn_commit, root_get. rewrite Hro.
  destruct (t_root x) as [n|].
  - cbn [t_root t_rw t_dirty]. cbn [tr_root tr_rw snd]. intros Hnz. split; apply (proj1 (modify_watch_is_get _ md key v)); auto.
  - destruct (fresh (txn_ctx x) (t_st x)) as [lw s1]. cbn [m_node m_w t_root t_rw t_dirty tr_root tr_rw snd search_node].
    rewrite bytes_eqb_refl. cbn [snd lf_w]. intros Hnz. apply N.eqb_neq in Hnz. now rewrite Hnz.
Qed.
