(* Part/Model.v — executable mechanism-level model of part.Tree (adaptive radix tree with
   path compression, per-node txn ids and watch channels). Go counterparts are named next
   to each definition (files part/node.go, part/txn.go, part/iterator.go, part/tree.go).
   No proofs here.

   Abstractions (validated by the correspondence run, named in lib/props.d/C11.json):
   - the four physical child layouts (node4/16/48/256) are one byte-sorted child list plus
     the kind tag (the tag's value is the capacity: 4, 16, 48, 256);
   - channels are positive numbers from a fresh counter, 0 is the nil channel;
   - Txn.watches (a Go map used as a set) is a list, duplicates allowed;
   - in-place mutation of a node private to the txn (node.txnID = txn.txnID) is the
     identity case of [clone_hdr]; the heap is not modelled (see Part/Cow.v for the id
     discipline that makes this sound);
   - the iterative loops of modify/delete/search are structural recursions over the path. *)
From SV Require Export Base.Bytes.
Open Scope N_scope.

(* node.go leaf[T] without its header prefix: full key, value, watch channel *)
Record leafrec := mkLeaf { lf_key : bytes; lf_val : N; lf_w : N }.

(* node.go header + leaf / node4 / node16 / node48 / node256.
   Leaf p l       : a leaf[T] used as a child (or root); p = header prefix
   Inner kd t p w lf ch : kind tag kd (= capacity), txnID t, prefix p, watch w, optional
                    leaf pointer lf, children sorted by key byte *)
Inductive node :=
| Leaf (p : bytes) (l : leafrec)
| Inner (kd t : N) (p : bytes) (w : N) (lf : option leafrec) (ch : children)
with children :=
| CNil
| CCons (b : N) (c : node) (r : children).

(* header.prefix / setPrefix / txnID / watch / getLeaf / children / size *)
Definition node_prefix (n : node) : bytes := match n with Leaf p _ => p | Inner _ _ p _ _ _ => p end.
Definition set_prefix (n : node) (q : bytes) : node :=
  match n with Leaf _ l => Leaf q l | Inner kd t _ w lf ch => Inner kd t q w lf ch end.
Definition node_tid (n : node) : N := match n with Leaf _ _ => 0 | Inner _ t _ _ _ _ => t end.
Definition node_watch (n : node) : N := match n with Leaf _ l => lf_w l | Inner _ _ _ w _ _ => w end.
Definition node_leaf (n : node) : option leafrec := match n with Leaf _ l => Some l | Inner _ _ _ _ lf _ => lf end.
Definition node_children (n : node) : children := match n with Leaf _ _ => CNil | Inner _ _ _ _ _ ch => ch end.
Definition is_leaf (n : node) : bool := match n with Leaf _ _ => true | _ => false end.

Fixpoint ch_len (ch : children) : N := match ch with CNil => 0 | CCons _ _ r => 1 + ch_len r end.
Definition node_size (n : node) : N := ch_len (node_children n).

(* header.find / findIndex (exact match part) *)
Fixpoint ch_find (b : N) (ch : children) : option node :=
  match ch with CNil => None | CCons b' c r => if b' =? b then Some c else ch_find b r end.
(* header.insert at the slot computed by findIndex: sorted insertion *)
Fixpoint ch_insert (b : N) (n : node) (ch : children) : children :=
  match ch with
  | CNil => CCons b n CNil
  | CCons b' c r => if b <? b' then CCons b n ch else CCons b' c (ch_insert b n r)
  end.
(* children()[idx] = n *)
Fixpoint ch_set (b : N) (n : node) (ch : children) : children :=
  match ch with CNil => CNil | CCons b' c r => if b' =? b then CCons b' n r else CCons b' c (ch_set b n r) end.
(* header.remove(idx) *)
Fixpoint ch_remove (b : N) (ch : children) : children :=
  match ch with CNil => CNil | CCons b' c r => if b' =? b then r else CCons b' c (ch_remove b r) end.
(* removeChild: the remaining child (index 0 or 1) *)
Fixpoint ch_other (b : N) (ch : children) : option node :=
  match ch with CNil => None | CCons b' c r => if b' =? b then ch_other b r else Some c end.
Definition ch_first (ch : children) : option node := match ch with CNil => None | CCons _ c _ => Some c end.

(* bytes.HasPrefix(key, p) + key[len(p):] *)
Fixpoint strip (p key : bytes) : option bytes :=
  match p, key with
  | [], _ => Some key
  | x :: p', y :: k' => if x =? y then strip p' k' else None
  | _ :: _, [] => None
  end.
(* node.go commonPrefix *)
Fixpoint common (a b : bytes) : bytes :=
  match a, b with x :: a', y :: b' => if x =? y then x :: common a' b' else [] | _, _ => [] end.

(* ---- transaction-local mutable state threaded through one operation ---- *)
(* Txn.watches and the global channel allocator (make(chan struct{})) *)
Record st := mkSt { s_ws : list N; s_next : N }.
(* Txn.txnID and Txn.opts.rootOnlyWatch(), constant during one operation *)
Record ctx := mkCtx { c_tid : N; c_ro : bool }.

(* if n.watch != nil { txn.watches[n.watch] = struct{}{} } *)
Definition record (w : N) (s : st) : st := if w =? 0 then s else mkSt (w :: s_ws s) (s_next s).
(* make(chan struct{}) unless rootOnlyWatch *)
Definition fresh (c : ctx) (s : st) : N * st :=
  if c_ro c then (0, s) else (s_next s, mkSt (s_ws s) (s_next s + 1)).
(* if n.watch != nil { x.watch = make(chan struct{}) } (promote, demote) *)
Definition fresh_if (w : N) (s : st) : N * st :=
  if w =? 0 then (0, s) else (s_next s, mkSt (s_ws s) (s_next s + 1)).

(* Txn.cloneNode on a non-leaf header: identity when already private to the txn *)
Definition clone_hdr (c : ctx) (s : st) (t w : N) : N * N * st :=
  if t =? c_tid c then (t, w, s)
  else let s1 := record w s in let '(w', s2) := fresh c s1 in (c_tid c, w', s2).
(* Txn.cloneNode on a leaf: leaf.txnID() is the constant 0 *)
Definition clone_leaf (c : ctx) (s : st) (l : leafrec) : leafrec * st :=
  if 0 =? c_tid c then (l, s)
  else let s1 := record (lf_w l) s in let '(w', s2) := fresh c s1 in (mkLeaf (lf_key l) (lf_val l) w', s2).
Definition clone_node (c : ctx) (s : st) (n : node) : node * st :=
  match n with
  | Leaf p l => let '(l', s') := clone_leaf c s l in (Leaf p l', s')
  | Inner kd t p w lf ch => let '(t', w', s') := clone_hdr c s t w in (Inner kd t' p w' lf ch, s')
  end.

(* header.promote: next kind *)
Definition promote_kind (kd : N) : N := if kd =? 4 then 16 else if kd =? 16 then 48 else 256.

(* ---- Txn.modify (Insert / Modify / InsertWatch / ModifyWatch) ---- *)
Record mres := mkM { m_node : node; m_st : st; m_old : option N; m_w : N; m_val : N }.

Section Modify.
Variable c : ctx.
Variable md : option (N -> N -> N).   (* the mod callback; None for Insert *)
Variable fullKey : bytes.
Variable v : N.

Definition new_val (old : N) : N := match md with Some f => f old v | None => v end.

(* txn.go modify, tail: "The target node ... has only a partially matching prefix": replace
   target by a new node4 holding target and the new leaf. [this] is the leaf copy (watch
   retained) or the cloned inner node. *)
Definition split_node (s : st) (this : node) (key : bytes) : mres :=
  let cp := common key (node_prefix this) in
  let this' := set_prefix this (skipn (length cp) (node_prefix this)) in
  let key' := skipn (length cp) key in
  let '(lw, s1) := fresh c s in
  let nl := mkLeaf fullKey v lw in
  let '(nw, s2) := fresh c s1 in
  let mk lf ch := Inner 4 (c_tid c) cp nw lf ch in
  let nn :=
    match node_prefix this', key' with
    | [], _ => mk (node_leaf this') (CCons (hd 0 key') (Leaf key' nl) CNil)
    | tb :: _, [] => mk (Some nl) (CCons tb this' CNil)
    | tb :: _, kb :: _ =>
      if tb <? kb then mk None (CCons tb this' (CCons kb (Leaf key' nl) CNil))
      else mk None (CCons kb (Leaf key' nl) (CCons tb this' CNil))
    end in
  mkM nn s2 None lw v.

(* modify: loop body + exact-match / split tail, as a recursion over the path.
   [key] is the part of the key not yet consumed. *)
Fixpoint modify_node (s : st) (n : node) (key : bytes) {struct n} : mres :=
  match n with
  | Leaf p l =>
    if bytes_eqb key p then
      (* exact match on a leaf: this = cloneNode(this); leaf.value = ... *)
      let '(l', s') := clone_leaf c s l in
      let nv := new_val (lf_val l) in
      mkM (Leaf p (mkLeaf (lf_key l') nv (lf_w l'))) s' (Some (lf_val l)) (lf_w l') nv
    else split_node s n key   (* leafCopy := *this.getLeaf(): watch retained *)
  | Inner kd t p w lf ch =>
    match strip p key with
    | None =>
      let '(t', w', s') := clone_hdr c s t w in split_node s' (Inner kd t' p w' lf ch) key
    | Some [] =>
      (* exact match on a non-leaf node *)
      let '(t', w', s1) := clone_hdr c s t w in
      match lf with
      | Some l =>
        let '(l', s2) := clone_leaf c s1 l in
        let nv := new_val (lf_val l) in
        mkM (Inner kd t' p w' (Some (mkLeaf (lf_key l') nv (lf_w l'))) ch) s2 (Some (lf_val l)) (lf_w l') nv
      | None =>
        let '(lw, s2) := fresh c s1 in
        mkM (Inner kd t' p w' (Some (mkLeaf fullKey v lw)) ch) s2 None lw v
      end
    | Some ((b :: _) as rest) =>
      let '(t', w', s1) := clone_hdr c s t w in
      match modify_ch s1 ch b rest with
      | Some (ch', r) => mkM (Inner kd t' p w' lf ch') (m_st r) (m_old r) (m_w r) (m_val r)
      | None =>
        (* free slot: promote if full, else clone; then insert a new leaf *)
        let '(kd2, t2, w2, s2) :=
          if kd <? ch_len ch + 1 then
            let '(w2, s2) := fresh_if w (record w s) in (promote_kind kd, c_tid c, w2, s2)
          else let '(t2, w2, s2) := clone_hdr c s t w in (kd, t2, w2, s2) in
        let '(lw, s3) := fresh c s2 in
        mkM (Inner kd2 t2 p w2 lf (ch_insert b (Leaf rest (mkLeaf fullKey v lw)) ch)) s3 None lw v
      end
    end
  end
with modify_ch (s : st) (ch : children) (b : N) (key : bytes) {struct ch} : option (children * mres) :=
  match ch with
  | CNil => None
  | CCons b' x r =>
    if b' =? b then let res := modify_node s x key in Some (CCons b' (m_node res) r, res)
    else match modify_ch s r b key with
         | Some (r', res) => Some (CCons b' x r', res)
         | None => None
         end
  end.
End Modify.

(* ---- Txn.delete / removeChild ---- *)
(* childClone := child.clone(false); childClone.watch = child.watch;
   childClone.setPrefix(Concat(parent.prefix(), childClone.prefix())) *)
Definition merge_child (pp : bytes) (child : node) : node := set_prefix child (pp ++ node_prefix child).

(* result of delete below a node: not found / found with the old value, the replacement
   of this node (None = drop it from its parent), the state, and whether the ancestors can
   be left alone ("parent.node == oldParent && parent.node.txnID() == txn.txnID") *)
Inductive dres := DNone | DSome (old : N) (repl : option node) (s : st) (inpl : bool).

Section Delete.
Variable c : ctx.

(* txn.go removeChild(parent, index) *)
Definition remove_child (s : st) (kd t : N) (p : bytes) (w : N) (lf : option leafrec) (ch : children) (b : N)
  : node * st * bool :=
  let size := ch_len ch in
  match (size =? 2), lf, ch_other b ch with
  | true, None, Some x => (merge_child p x, record w s, false)
  | _, _, _ =>
    if ((kd =? 256) && (size <=? 49)) || ((kd =? 48) && (size <=? 17)) || ((kd =? 16) && (size <=? 5)) then
      let kd' := if kd =? 256 then 48 else if kd =? 48 then 16 else 4 in
      let '(w', s1) := fresh_if w s in
      (Inner kd' (c_tid c) p w' lf (ch_remove b ch), record w s1, false)
    else
      let '(t', w', s1) := clone_hdr c s t w in
      (Inner kd t' p w' lf (ch_remove b ch), s1, t =? c_tid c)
  end.

Fixpoint del_node (s : st) (n : node) (key : bytes) {struct n} : dres :=
  match n with
  | Leaf p l =>
    if bytes_eqb key p then DSome (lf_val l) None (record (lf_w l) (record (lf_w l) s)) false else DNone
  | Inner kd t p w lf ch =>
    match strip p key with
    | None => DNone
    | Some [] =>
      match lf with
      | None => DNone
      | Some l =>
        let s1 := record (lf_w l) s in
        match ch with
        | CNil => DSome (lf_val l) None (record w s1) false
        | CCons _ x CNil => DSome (lf_val l) (Some (merge_child p x)) (record w s1) false
        | _ => let '(t', w', s2) := clone_hdr c s1 t w in DSome (lf_val l) (Some (Inner kd t' p w' None ch)) s2 false
        end
      end
    | Some ((b :: _) as rest) =>
      match del_ch s ch b rest with
      | DNone => DNone
      | DSome old (Some x) s1 true => DSome old (Some (Inner kd t p w lf (ch_set b x ch))) s1 true
      | DSome old (Some x) s1 false =>
        let '(t', w', s2) := clone_hdr c s1 t w in
        DSome old (Some (Inner kd t' p w' lf (ch_set b x ch))) s2 (t =? c_tid c)
      | DSome old None s1 _ =>
        let '(n', s2, ip) := remove_child s1 kd t p w lf ch b in DSome old (Some n') s2 ip
      end
    end
  end
with del_ch (s : st) (ch : children) (b : N) (key : bytes) {struct ch} : dres :=
  match ch with
  | CNil => DNone
  | CCons b' x r => if b' =? b then del_node s x key else del_ch s r b key
  end.
End Delete.

(* ---- node.go search ---- *)
Fixpoint search_node (n : node) (key : bytes) (w0 : N) {struct n} : option N * N :=
  match n with
  | Leaf p l =>
    if bytes_eqb key p then (Some (lf_val l), if lf_w l =? 0 then w0 else lf_w l) else (None, w0)
  | Inner kd t p w lf ch =>
    match strip p key with
    | None => (None, w0)
    | Some [] =>
      match lf with
      | Some l => (Some (lf_val l), if lf_w l =? 0 then w0 else lf_w l)
      | None => (None, w0)
      end
    | Some ((b :: _) as rest) => search_ch ch b rest (if w =? 0 then w0 else w)
    end
  end
with search_ch (ch : children) (b : N) (key : bytes) (w0 : N) {struct ch} : option N * N :=
  match ch with
  | CNil => (None, w0)
  | CCons b' x r => if b' =? b then search_node x key w0 else search_ch r b key w0
  end.

(* ---- iterator.go ---- *)
(* ordered traversal: leaf of the node first, then the children in key order *)
Fixpoint node_entries (n : node) : list (bytes * N) :=
  match n with
  | Leaf _ l => [(lf_key l, lf_val l)]
  | Inner _ _ _ _ lf ch =>
    (match lf with Some l => [(lf_key l, lf_val l)] | None => [] end) ++ ch_entries ch
  end
with ch_entries (ch : children) : list (bytes * N) :=
  match ch with CNil => [] | CCons _ x r => node_entries x ++ ch_entries r end.

(* Iterator{start, edges}; the edge stack has its top at the head of the list *)
Record iter := mkIter { it_start : option node; it_edges : list children }.
Definition iter_empty : iter := mkIter None [].
Definition new_iterator (n : option node) : iter := mkIter n [].

(* Iterator.All: everything still to be visited, in order *)
Definition iter_all (it : iter) : list (bytes * N) :=
  match it_start it with
  | Some n => node_entries n
  | None => flat_map ch_entries (it_edges it)
  end.

(* the loop of Iterator.Next on the edge stack; explicit fuel *)
Fixpoint next_edges (fuel : nat) (edges : list children) : option ((bytes * N) * list children) :=
  match fuel with
  | O => None
  | S f =>
    match edges with
    | [] => None
    | CNil :: rest => next_edges f rest
    | CCons _ n r :: rest =>
      let e1 := match r with CNil => rest | _ => r :: rest end in
      let e2 := match node_children n with CNil => e1 | chn => chn :: e1 end in
      match node_leaf n with
      | Some l => Some ((lf_key l, lf_val l), e2)
      | None => next_edges f e2
      end
    end
  end.
Fixpoint node_count (n : node) : nat :=
  match n with Leaf _ _ => 1%nat | Inner _ _ _ _ _ ch => S (ch_count ch) end
with ch_count (ch : children) : nat :=
  match ch with CNil => 1%nat | CCons _ x r => (node_count x + ch_count r + 1)%nat end.
Definition edges_fuel (edges : list children) : nat :=
  (fold_right (fun e a => ch_count e + a + 1) 1 edges)%nat.
(* Iterator.Next *)
Definition iter_next (it : iter) : option (bytes * N) * iter :=
  match it_start it with
  | Some n =>
    let e := match node_children n with CNil => [] | chn => [chn] end in
    match node_leaf n with
    | Some l => (Some (lf_key l, lf_val l), mkIter None e)
    | None =>
      match next_edges (edges_fuel e) e with
      | Some (kv, e') => (Some kv, mkIter None e')
      | None => (None, mkIter None [])
      end
    end
  | None =>
    match next_edges (edges_fuel (it_edges it)) (it_edges it) with
    | Some (kv, e') => (Some kv, mkIter None e')
    | None => (None, mkIter None [])
    end
  end.

(* iterator.go prefixSearch: (start node of the iterator, watch channel) *)
Fixpoint prefix_node (n : node) (q : bytes) (w0 : N) {struct n} : option node * N :=
  match n with
  | Leaf p l => if has_prefix p q then (Some n, w0) else (None, w0)
  | Inner kd t p w lf ch =>
    if has_prefix p q then (Some n, if w =? 0 then w0 else w)
    else match strip p q with
         | Some ((b :: _) as rest) => prefix_ch ch b rest (if w =? 0 then w0 else w)
         | _ => (None, w0)
         end
  end
with prefix_ch (ch : children) (b : N) (q : bytes) (w0 : N) {struct ch} : option node * N :=
  match ch with
  | CNil => (None, w0)
  | CCons b' x r => if b' =? b then prefix_node x q w0 else prefix_ch r b q w0
  end.

(* iterator.go traverseToMin *)
Fixpoint tmin (n : node) (edges : list children) {struct n} : list children :=
  match n with
  | Leaf _ _ => CCons 0 n CNil :: edges
  | Inner _ _ _ _ (Some _) _ => CCons 0 n CNil :: edges
  | Inner _ _ _ _ None ch =>
    match ch with
    | CNil => edges
    | CCons _ x r => tmin x (match r with CNil => edges | _ => r :: edges end)
    end
  end.

(* iterator.go lowerbound: the edge stack *)
Fixpoint lb_node (n : node) (key : bytes) (edges : list children) {struct n} : list children :=
  let p := node_prefix n in
  let kk := firstn (length p) key in
  if bytes_ltb p kk then edges
  else if bytes_eqb p kk then
    if (length p =? length key)%nat then CCons 0 n CNil :: edges
    else match n with
         | Leaf _ _ => edges
         | Inner kd _ _ _ _ ch =>
           let key' := skipn (length p) key in
           if kd =? 256 then lb_ch256 ch (hd 0 key') key' edges else lb_ch ch (hd 0 key') key' edges
         end
  else tmin n edges
with lb_ch (ch : children) (b : N) (key : bytes) (edges : list children) {struct ch} : list children :=
  match ch with
  | CNil => edges
  | CCons b' x r =>
    if b' <? b then lb_ch r b key edges
    else lb_node x key (match r with CNil => edges | _ => r :: edges end)
  end
with lb_ch256 (ch : children) (b : N) (key : bytes) (edges : list children) {struct ch} : list children :=
  match ch with
  | CNil => CNil :: edges
  | CCons b' x r =>
    if b' <? b then lb_ch256 r b key edges
    else if b' =? b then lb_node x key (r :: edges)
    else ch :: edges
  end.

(* ---- tree.go Tree / txn.go Txn ---- *)
Record tree := mkTree { tr_root : option node; tr_rw : N; tr_size : N; tr_ro : bool; tr_next : N }.
Record txn := mkTxn { t_root : option node; t_rw : N; t_size : N; t_ro : bool; t_tid : N;
                      t_dirty : bool; t_st : st }.

(* part.New: [next] is the global channel allocator *)
Definition tree_new (ro : bool) (next : N) : tree * N := (mkTree None next 0 ro 1, next + 1).   (* nextTxnID starts at 1 (fix in /repo): leaves report id 0 *)
(* Tree.Txn *)
Definition tree_txn (t : tree) (next : N) : txn :=
  mkTxn (tr_root t) (tr_rw t) (tr_size t) (tr_ro t) (tr_next t) false (mkSt [] next).
Definition txn_ctx (x : txn) : ctx := mkCtx (t_tid x) (t_ro x).
Definition bump (x : txn) : txn :=
  mkTxn (t_root x) (t_rw x) (t_size x) (t_ro x) (t_tid x + 1) (t_dirty x) (t_st x).

(* the mod callback used by the harness for Modify/ModifyWatch *)
Definition mod_fun (old new : N) : N := (old * 7 + new) mod 1000000.

(* Txn.ModifyWatch / InsertWatch (md = None): (txn', old, new value, watch) *)
Definition txn_modify (x : txn) (md : option (N -> N -> N)) (key : bytes) (v : N) : txn * option N * N * N :=
  let c := txn_ctx x in
  let r := match t_root x with
           | None => let '(lw, s1) := fresh c (t_st x) in mkM (Leaf key (mkLeaf key v lw)) s1 None lw v
           | Some n => modify_node c md key v (t_st x) n key
           end in
  let size := match m_old r with None => t_size x + 1 | Some _ => t_size x end in
  (mkTxn (Some (m_node r)) (t_rw x) size (t_ro x) (t_tid x) true (m_st r),
   m_old r, m_val r, if t_ro x then t_rw x else m_w r).
Definition txn_insert (x : txn) (key : bytes) (v : N) := txn_modify x None key v.

(* Txn.Delete *)
Definition txn_delete (x : txn) (key : bytes) : txn * option N :=
  match t_root x with
  | None => (x, None)
  | Some n =>
    match del_node (txn_ctx x) (t_st x) n key with
    | DNone => (x, None)
    | DSome old repl s _ => (mkTxn repl (t_rw x) (t_size x - 1) (t_ro x) (t_tid x) true s, Some old)
    end
  end.

(* search(root, rootWatch, key): Tree.Get / Txn.Get (no txnID bump) *)
Definition root_get (root : option node) (rw : N) (key : bytes) : option N * N :=
  match root with None => (None, rw) | Some n => search_node n key rw end.
Definition txn_get (x : txn) (key : bytes) := root_get (t_root x) (t_rw x) key.
Definition tree_get (t : tree) (key : bytes) := root_get (tr_root t) (tr_rw t) key.

(* prefixSearch(root, rootWatch, prefix) *)
Definition root_prefix (root : option node) (rw : N) (q : bytes) : iter * N :=
  match root with
  | None => (iter_empty, rw)
  | Some n => let '(o, w) := prefix_node n q rw in (new_iterator o, w)
  end.
(* lowerbound(root, key) *)
Definition root_lowerbound (root : option node) (key : bytes) : iter :=
  match root with None => iter_empty | Some n => mkIter None (lb_node n key []) end.

(* Tree.Prefix / LowerBound / Iterator: no ids involved *)
Definition tree_prefix (t : tree) (q : bytes) := root_prefix (tr_root t) (tr_rw t) q.
Definition tree_lowerbound (t : tree) (key : bytes) := root_lowerbound (tr_root t) key.
Definition tree_iterator (t : tree) := new_iterator (tr_root t).
(* Txn.Prefix / LowerBound / Iterator / All: txn.txnID++ first *)
Definition txn_prefix (x : txn) (q : bytes) : txn * (iter * N) := (bump x, root_prefix (t_root x) (t_rw x) q).
Definition txn_lowerbound (x : txn) (key : bytes) : txn * iter := (bump x, root_lowerbound (t_root x) key).
Definition txn_iterator (x : txn) : txn * iter := (bump x, new_iterator (t_root x)).
Definition txn_all (x : txn) : txn * list (bytes * N) := (bump x, iter_all (new_iterator (t_root x))).
(* Txn.Clone: txn.txnID++; the clone's nextTxnID is the bumped id *)
Definition txn_clone (x : txn) : txn * tree :=
  let x' := bump x in (x', mkTree (t_root x) (t_rw x) (t_size x) (t_ro x) (t_tid x')).

(* Txn.Commit (= commit()): new root watch only if dirty; txnID++ *)
Definition txn_commit (x : txn) : txn * tree :=
  let s := t_st x in
  let '(rw', s') := if t_dirty x then (s_next s, mkSt (s_ws s) (s_next s + 1)) else (t_rw x, s) in
  let x' := mkTxn (t_root x) (t_rw x) (t_size x) (t_ro x) (t_tid x + 1) (t_dirty x) s' in
  (x', mkTree (t_root x) rw' (t_size x) (t_ro x) (t_tid x + 1)).
(* Txn.Notify: the channels closed, and the txn afterwards *)
Definition txn_notify (x : txn) : txn * list N :=
  let s := t_st x in
  let closed := s_ws s ++ (if t_dirty x && negb (t_rw x =? 0) then [t_rw x] else []) in
  (mkTxn (t_root x) (if t_dirty x then 0 else t_rw x) (t_size x) (t_ro x) (t_tid x) (t_dirty x) (mkSt [] (s_next s)),
   closed).
(* Txn.CommitAndNotify: Notify then Commit *)
Definition txn_commit_notify (x : txn) : txn * tree * list N :=
  let '(x1, cl) := txn_notify x in let '(x2, t) := txn_commit x1 in (x2, t, cl).
