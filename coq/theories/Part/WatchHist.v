(* Part/WatchHist.v — C12 along whole histories: the channel Get(k) returned on a committed tree is closed
   by Notify whenever k is inserted, replaced or deleted at ANY position of the transaction. *)
From SV Require Import Base.Bytes Base.OrdMap Part.Model Part.Sem Part.Insert Part.Delete Part.Query Part.Refine Part.Cow Part.Watch Part.Stable.
From Coq Require Import ZifyN ZifyNat ZifyBool.
Open Scope N_scope.

Definition rgetw (r : option node) (rw : N) (k : bytes) : N := snd (root_get r rw k).
Lemma rgetw_some n rw k : rgetw (Some n) rw k = getw n k rw.
Proof. reflexivity. Qed.

Lemma privF_of_tids_lt (F : N -> Prop) c T : T < c_tid c ->
  (forall n, tids_le T n -> privF c F n) /\ (forall ch, tids_le_ch T ch -> privF_ch c F ch).
Proof.
  intros HT. apply node_children_ind.
  - intros; exact I.
  - intros kd t p w lf ch IH [H1 H2]. split; [intros E; lia|apply IH; exact H2].
  - intros; exact I.
  - intros b x IHx r IHr [H1 H2]. split; [apply IHx; exact H1|apply IHr; exact H2].
Qed.


Section Hist.
Variable next0 : N.      (* allocator bound: every channel allocated from here on satisfies F *)
Variable F : N -> Prop.  (* "allocated by the txn (and not the handle)" *)
Hypothesis HF : forall b, next0 <= b -> F b.
Variable k : bytes.
Variable a : N.          (* the handle: Get(k)'s channel *)
Hypothesis Ha0 : a <> 0.
Hypothesis HnF : ~ F a.  (* e.g. allocated before the txn began *)

Definition root_inv (c : ctx) (r : option node) : Prop :=
  match r with None => True | Some n => privF c F n /\ tids_le (c_tid c) n /\ tmono n end.
Definition TInv (x : txn) : Prop :=
  t_tid x <> 0 /\ root_inv (txn_ctx x) (t_root x) /\ next0 <= s_next (t_st x).

(* the handle is accounted for: recorded, or it is the root channel of a dirty txn, or still what Get(k) returns *)
Definition closedish (x : txn) : Prop := In a (s_ws (t_st x)) \/ (a = t_rw x /\ t_dirty x = true).
Definition J (x : txn) : Prop := closedish x \/ rgetw (t_root x) (t_rw x) k = a.

Lemma not_fresh : ~ F a.
Proof. exact HnF. Qed.

(* ---- one step ---- *)
Lemma modify_step x md k' v :
  TInv x -> J x ->
  let x' := fst (fst (fst (txn_modify x md k' v))) in
  TInv x' /\ J x' /\ (k' = k -> closedish x').
Proof.
  intros (Hc0 & Hr & Hn) HJ. unfold txn_modify. cbn zeta.
  destruct (t_root x) as [n|] eqn:Er.
  - destruct Hr as (Hp & Hl & Hm).
    pose proof (proj1 (modify_inv (txn_ctx x) Hc0 next0 F HF md k' v) n (t_st x) k' Hp Hl Hm Hn) as (P' & M' & N').
    pose proof (proj1 (modify_tids (txn_ctx x) md k' v) n (t_st x) k' Hl) as L'.
    pose proof (proj1 (modify_mono (txn_ctx x) md k' v) n (t_st x) k') as Mo.
    pose proof (proj1 (modify_stable (txn_ctx x) md k' v Hc0 F) n (t_st x) k' k (t_rw x) (t_rw x) Hp) as St.
    pose proof (proj1 (modify_records_gen (txn_ctx x) md k' v Hc0 F) n (t_st x) k' (t_rw x) Hp) as Rg.
    set (r := modify_node (txn_ctx x) md k' v (t_st x) n k') in *.
    cbn [fst t_tid t_root t_st t_rw t_dirty]. unfold TInv, J, closedish, rgetw, root_inv, txn_ctx in *.
    cbn [t_tid t_root t_st t_rw t_dirty t_ro root_get snd]. rewrite Er in HJ. cbn [root_get] in HJ.
    fold (getw n k (t_rw x)) in HJ. fold (getw (m_node r) k (t_rw x)).
    split; [auto|]. split.
    + destruct HJ as [[H|[H _]]|H]; [left; left; auto|left; right; auto|].
      rewrite H in St. destruct St as [E|[E|[E|E]]]; [left; right; auto|right; auto|left; left; auto|].
      exfalso. now apply not_fresh.
    + intros ->. destruct HJ as [[H|[H _]]|H]; [left; auto|right; auto|].
      unfold rec3 in Rg. rewrite H in Rg. destruct Rg as [E|[E|E]]; [right; auto|left; auto|].
      exfalso. now apply not_fresh.
  - pose proof (fresh_inv (txn_ctx x) Hc0 next0 F HF (t_st x) Hn) as [_ N1].
    destruct (fresh (txn_ctx x) (t_st x)) as [lw s1] eqn:Ef. cbn [fst snd m_node m_st m_old] in *.
    assert (Mo : ws_mono (t_st x) s1) by (pose proof (fresh_mono (txn_ctx x) (t_st x)) as M; now rewrite Ef in M).
    unfold TInv, J, closedish, rgetw, root_inv, txn_ctx in *. rewrite Er in HJ.
    cbn [t_tid t_root t_st t_rw t_dirty t_ro root_get snd] in *.
    split; [repeat split; auto; exact I|].
    assert (C : In a (s_ws s1) \/ a = t_rw x /\ true = true).
    { destruct HJ as [[H|[H _]]|H]; auto. }
    split; auto.
Qed.

Lemma delete_step x k' :
  TInv x -> J x ->
  let x' := fst (txn_delete x k') in
  TInv x' /\ J x' /\ (k' = k -> snd (txn_delete x k') <> None -> closedish x').
Proof.
  intros HT HJ. pose proof HT as (Hc0 & Hr & Hn). unfold txn_delete. cbn zeta.
  destruct (t_root x) as [n|] eqn:Er.
  2:{ cbn [fst snd]. split; [exact HT|]. split; [exact HJ|]. intros _ H. exfalso. apply H. reflexivity. }

  destruct Hr as (Hp & Hl & Hm).
  pose proof (proj1 (delete_inv (txn_ctx x) Hc0 next0 F HF) n (t_st x) k' Hp Hl Hm Hn) as Di.
  pose proof (proj1 (delete_tids (txn_ctx x)) n (t_st x) k' Hl) as Dt.
  pose proof (proj1 (delete_mono (txn_ctx x)) n (t_st x) k') as Mo.
  pose proof (proj1 (delete_stable (txn_ctx x) Hc0 F) n (t_st x) k' k (t_rw x) Hp Hl Hm) as St.
  pose proof (proj1 (delete_records_gen (txn_ctx x) Hc0 F) n (t_st x) k' (t_rw x) Hp Hl Hm) as Rg.
  destruct (del_node (txn_ctx x) (t_st x) n k') as [|old repl s' ip].
  - cbn [fst snd]. split; [exact HT|]. split; [exact HJ|]. intros _ H. exfalso. apply H. reflexivity.
  - cbn [fst snd dinv dres_tids dmono dstab] in *. destruct Di as [N' Di].
    unfold TInv, J, closedish, rgetw, root_inv, txn_ctx in *. rewrite Er in HJ.
    cbn [t_tid t_root t_st t_rw t_dirty t_ro root_get snd] in *. fold (getw n k (t_rw x)) in HJ.
    split; [split; [auto|split; [|auto]]; destruct repl as [n'|]; [|exact I]; tauto|].
    split.
    + destruct HJ as [[H|[H _]]|H]; [left; left; auto|left; right; auto|].
      destruct repl as [n'|].
      * cbn [root_get]. fold (getw n' k (t_rw x)). specialize (St (t_rw x)). rewrite H in St.
        destruct St as [E|[E|[E|E]]]; [left; right; auto|right; auto|left; left; auto|].
        exfalso. now apply not_fresh.
      * rewrite H in St. destruct St as [E|[E|E]]; [left; right; auto|left; left; auto|].
        exfalso. now apply not_fresh.
    + intros -> _. destruct HJ as [[H|[H _]]|H]; [left; auto|right; auto|].
      unfold rec3 in Rg. rewrite H in Rg. destruct Rg as [E|[E|E]]; [right; auto|left; auto|].
      exfalso. now apply not_fresh.
Qed.

Lemma bump_step x : TInv x -> J x -> TInv (bump x) /\ J (bump x).
Proof.
  intros (Hc0 & Hr & Hn) HJ. split; [|exact HJ].
  unfold TInv, bump, root_inv, txn_ctx in *. cbn [t_tid t_root t_st t_ro c_tid] in *.
  split; [lia|]. split; auto. destruct (t_root x) as [n|]; auto. destruct Hr as (Hp & Hl & Hm).
  repeat split; auto.
  - apply (proj1 (privF_of_tids_lt F (mkCtx (t_tid x + 1) (t_ro x)) (t_tid x) ltac:(simpl; lia))). exact Hl.
  - eapply (proj1 tids_le_mono); [|exact Hl]. lia.
Qed.

(* the side conditions are inductive along chains of transactions: ids (Part/Cow.v) and id monotonicity *)
Lemma wstep_TInv x o : TInv x -> TInv (wstep x o).
Proof.
  clear Ha0 HnF a k.
  intros (Hc0 & Hr & Hn). destruct o as [k' v|k' v f|k'|]; cbn [wstep].
  - unfold txn_modify. destruct (t_root x) as [n|] eqn:Er.
    + destruct Hr as (Hp & Hl & Hm).
      pose proof (proj1 (modify_inv (txn_ctx x) Hc0 next0 F HF None k' v) n (t_st x) k' Hp Hl Hm Hn) as (P' & M' & N').
      pose proof (proj1 (modify_tids (txn_ctx x) None k' v) n (t_st x) k' Hl) as L'.
      unfold TInv, root_inv, txn_ctx in *. cbn [fst t_tid t_root t_st t_ro]. auto.
    + pose proof (fresh_inv (txn_ctx x) Hc0 next0 F HF (t_st x) Hn) as [_ N1].
      destruct (fresh (txn_ctx x) (t_st x)) as [lw s1]. unfold TInv, root_inv, txn_ctx in *.
      cbn [fst snd t_tid t_root t_st t_ro m_node m_st] in *. repeat split; auto; exact I.
  - unfold txn_modify. destruct (t_root x) as [n|] eqn:Er.
    + destruct Hr as (Hp & Hl & Hm).
      pose proof (proj1 (modify_inv (txn_ctx x) Hc0 next0 F HF (Some f) k' v) n (t_st x) k' Hp Hl Hm Hn) as (P' & M' & N').
      pose proof (proj1 (modify_tids (txn_ctx x) (Some f) k' v) n (t_st x) k' Hl) as L'.
      unfold TInv, root_inv, txn_ctx in *. cbn [fst t_tid t_root t_st t_ro]. auto.
    + pose proof (fresh_inv (txn_ctx x) Hc0 next0 F HF (t_st x) Hn) as [_ N1].
      destruct (fresh (txn_ctx x) (t_st x)) as [lw s1]. unfold TInv, root_inv, txn_ctx in *.
      cbn [fst snd t_tid t_root t_st t_ro m_node m_st] in *. repeat split; auto; exact I.
  - unfold txn_delete. destruct (t_root x) as [n|] eqn:Er.
    2:{ cbn [fst]. unfold TInv. rewrite Er. auto. }
    destruct Hr as (Hp & Hl & Hm).
    pose proof (proj1 (delete_inv (txn_ctx x) Hc0 next0 F HF) n (t_st x) k' Hp Hl Hm Hn) as Di.
    pose proof (proj1 (delete_tids (txn_ctx x)) n (t_st x) k' Hl) as Dt.
    destruct (del_node (txn_ctx x) (t_st x) n k') as [|old repl s' ip].
    + cbn [fst]. unfold TInv, root_inv. rewrite Er. auto.
    + cbn [fst dinv dres_tids] in *. destruct Di as [N' Di]. unfold TInv, root_inv, txn_ctx in *.
      cbn [t_tid t_root t_st t_ro]. split; auto. split; auto. destruct repl as [n'|]; [tauto|exact I].
  - unfold TInv, bump, root_inv, txn_ctx in *. cbn [t_tid t_root t_st t_ro c_tid] in *.
    split; [lia|]. split; auto. destruct (t_root x) as [n|]; auto. destruct Hr as (Hp & Hl & Hm).
    repeat split; auto.
    + apply (proj1 (privF_of_tids_lt F (mkCtx (t_tid x + 1) (t_ro x)) (t_tid x) ltac:(simpl; lia))). exact Hl.
    + eapply (proj1 tids_le_mono); [|exact Hl]. lia.
Qed.


(* which operations touch k (a delete only if it reports an old value, i.e. the key was present) *)
Definition touches (x : txn) (o : wop) : Prop :=
  match o with
  | WIns k' _ | WMod k' _ _ => k' = k
  | WDel k' => k' = k /\ snd (txn_delete x k') <> None
  | WBump => False
  end.
Fixpoint touched (x : txn) (ops : list wop) : Prop :=
  match ops with [] => False | o :: r => touches x o \/ touched (wstep x o) r end.

Lemma wstep_J x o : TInv x -> J x -> TInv (wstep x o) /\ J (wstep x o) /\ (touches x o -> closedish (wstep x o)).
Proof.
  intros HT HJ. destruct o as [k' v|k' v f|k'|]; cbn [wstep touches].
  - apply modify_step; auto.
  - apply modify_step; auto.
  - destruct (delete_step x k' HT HJ) as (A & B & C). split; [exact A|]. split; [exact B|]. intros [E1 E2]. apply C; auto.
  - destruct (bump_step x HT HJ) as [A B]. split; [exact A|]. split; [exact B|]. intros [].
Qed.

Lemma closedish_step x o : TInv x -> closedish x -> closedish (wstep x o).
Proof.
  intros (Hc0 & Hr & Hn) [H|[H D]].
  - left. destruct o as [k' v|k' v f|k'|]; cbn [wstep].
    + unfold txn_modify. destruct (t_root x) as [n|]; cbn [fst t_st].
      * apply (proj1 (modify_mono (txn_ctx x) None k' v)). exact H.
      * pose proof (fresh_mono (txn_ctx x) (t_st x)) as M. destruct (fresh (txn_ctx x) (t_st x)). cbn [m_st]. auto.
    + unfold txn_modify. destruct (t_root x) as [n|]; cbn [fst t_st].
      * apply (proj1 (modify_mono (txn_ctx x) (Some f) k' v)). exact H.
      * pose proof (fresh_mono (txn_ctx x) (t_st x)) as M. destruct (fresh (txn_ctx x) (t_st x)). cbn [m_st]. auto.
    + unfold txn_delete. destruct (t_root x) as [n|]; [|exact H].
      pose proof (proj1 (delete_mono (txn_ctx x)) n (t_st x) k') as M.
      destruct (del_node (txn_ctx x) (t_st x) n k'); cbn [fst t_st]; auto.
    + exact H.
  - destruct o as [k' v|k' v f|k'|]; cbn [wstep].
    + right. destruct (modify_dirty x None k' v) as [-> ->]. auto.
    + right. destruct (modify_dirty x (Some f) k' v) as [-> ->]. auto.
    + right. unfold txn_delete. destruct (t_root x) as [n|]; [|auto].
      destruct (del_node (txn_ctx x) (t_st x) n k'); cbn [fst t_rw t_dirty]; auto.
    + right. auto.
Qed.

Lemma closedish_run ops : forall x, TInv x -> closedish x ->
  In a (snd (txn_notify (fold_left wstep ops x))).
Proof.
  induction ops as [|o ops IH]; intros x HT HC; cbn [fold_left].
  - rewrite notify_closes. apply in_or_app. destruct HC as [H|[H D]]; auto.
    right. rewrite D, <- H. apply N.eqb_neq in Ha0. rewrite Ha0. simpl. auto.
  - apply IH.
    + assert (HJ : J x) by (left; exact HC). apply (wstep_J x o HT HJ).
    + now apply closedish_step.
Qed.

Theorem touched_closed ops : forall x, TInv x -> J x -> touched x ops ->
  In a (snd (txn_notify (fold_left wstep ops x))).
Proof.
  induction ops as [|o ops IH]; intros x HT HJ Ht; cbn [touched] in Ht; [destruct Ht|].
  destruct (wstep_J x o HT HJ) as (HT' & HJ' & Hc). cbn [fold_left].
  destruct Ht as [Ht|Ht].
  - apply closedish_run; auto.
  - apply IH; auto.
Qed.
End Hist.

(* Get(k) watch over whole histories: the channel a (allocated before the txn, i.e. below its allocator) that
   Get(k) returned on the committed tree t is closed by Notify if k is inserted, replaced, or deleted while present,
   at any position of any sequence of operations of a txn begun from t *)
Definition root_tmono (r : option node) : Prop := match r with None => True | Some n => tmono n end.

Theorem get_watch_closed_history t next ops k :
  tree_ids_ok t -> tr_next t <> 0 -> root_tmono (tr_root t) ->
  snd (tree_get t k) <> 0 -> snd (tree_get t k) < next ->
  touched k (tree_txn t next) ops ->
  In (snd (tree_get t k)) (snd (txn_notify (fold_left wstep ops (tree_txn t next)))).
Proof.
  intros Hids Hnz Hm Ha0 Hold Ht.
  assert (HnF : ~ Fr next (snd (tree_get t k))) by (unfold Fr; lia).
  apply (touched_closed next (Fr next) (fun b h => h) k (snd (tree_get t k)) Ha0 HnF ops (tree_txn t next)); auto.
  - unfold TInv, tree_txn, root_inv, txn_ctx. cbn [t_tid t_root t_st t_ro s_next c_tid].
    split; auto. split; [|lia]. unfold tree_ids_ok, root_tmono in *. destruct (tr_root t) as [n|]; auto.
    destruct Hids as [H0 Hle]. repeat split; auto.
    + apply (proj1 (privF_of_tids_lt (Fr next) (mkCtx (tr_next t) (tr_ro t)) (tr_next t - 1) ltac:(simpl; lia))). exact Hle.
    + eapply (proj1 tids_le_mono); [|exact Hle]. lia.
  - right. reflexivity.
Qed.

Theorem history_keeps_tmono t next ops :
  tree_ids_ok t -> tr_next t <> 0 -> root_tmono (tr_root t) ->
  root_tmono (tr_root (snd (txn_commit (fold_left wstep ops (tree_txn t next))))).
Proof.
  intros Hids Hnz Hm.
  assert (HT : TInv next (Fr next) (tree_txn t next)).
  { unfold TInv, tree_txn, root_inv, txn_ctx. cbn [t_tid t_root t_st t_ro s_next c_tid].
    split; auto. split; [|lia]. unfold tree_ids_ok, root_tmono in *. destruct (tr_root t) as [n|]; auto.
    destruct Hids as [H0 Hle]. repeat split; auto.
    - apply (proj1 (privF_of_tids_lt (Fr next) (mkCtx (tr_next t) (tr_ro t)) (tr_next t - 1) ltac:(simpl; lia))). exact Hle.
    - eapply (proj1 tids_le_mono); [|exact Hle]. lia. }
  assert (G : forall ops x, TInv next (Fr next) x -> TInv next (Fr next) (fold_left wstep ops x)).
  { induction ops0 as [|o r IH]; intros x Hx; simpl; auto. apply IH. now apply (wstep_TInv next (Fr next) (fun b h => h)). }
  specialize (G ops _ HT). destruct G as (_ & Hr & _).
  unfold txn_commit. destruct (t_dirty _); cbn [snd tr_root]; unfold root_inv, root_tmono in *;
    destruct (t_root (fold_left wstep ops (tree_txn t next))); tauto.
Qed.
