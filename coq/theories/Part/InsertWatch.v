(* Part/InsertWatch.v — the channel handed out by InsertWatch/ModifyWatch is closed when the key is next changed,
   in the same transaction or in a later one. *)
From SV Require Import Base.Bytes Base.OrdMap Part.Model Part.Sem Part.Insert Part.Delete Part.Query Part.Refine Part.Cow Part.Watch Part.Stable Part.WatchHist.
From Coq Require Import ZifyN ZifyNat ZifyBool.
Open Scope N_scope.

(* channels of inner nodes: below the allocator / different from a given channel *)
Fixpoint inner_lt (B : N) (n : node) : Prop :=
  match n with
  | Leaf _ _ => True
  | Inner _ _ _ w _ ch => (w = 0 \/ w < B) /\ inner_lt_ch B ch
  end
with inner_lt_ch (B : N) (ch : children) : Prop :=
  match ch with CNil => True | CCons _ x r => inner_lt B x /\ inner_lt_ch B r end.
Fixpoint inner_ne (a : N) (n : node) : Prop :=
  match n with
  | Leaf _ _ => True
  | Inner _ _ _ w _ ch => w <> a /\ inner_ne_ch a ch
  end
with inner_ne_ch (a : N) (ch : children) : Prop :=
  match ch with CNil => True | CCons _ x r => inner_ne a x /\ inner_ne_ch a r end.

Lemma inner_lt_mono :
  (forall n B B', B <= B' -> inner_lt B n -> inner_lt B' n) /\
  (forall ch B B', B <= B' -> inner_lt_ch B ch -> inner_lt_ch B' ch).
Proof.
  apply node_children_ind; simpl; auto.
  - intros kd t p w lf ch IH B B' H [H1 H2]. split; [lia|eauto].
  - intros b x IHx r IHr B B' H [H1 H2]. split; eauto.
Qed.
Lemma inner_lt_ne :
  (forall n B a, B <= a -> a <> 0 -> inner_lt B n -> inner_ne a n) /\
  (forall ch B a, B <= a -> a <> 0 -> inner_lt_ch B ch -> inner_ne_ch a ch).
Proof.
  apply node_children_ind; simpl; auto.
  - intros kd t p w lf ch IH B a H Ha [H1 H2]. split; [lia|eauto].
  - intros b x IHx r IHr B a H Ha [H1 H2]. split; eauto.
Qed.
Lemma inner_lt_set_prefix B n q : inner_lt B (set_prefix n q) <-> inner_lt B n.
Proof. destruct n; simpl; tauto. Qed.
Lemma inner_ne_set_prefix a n q : inner_ne a (set_prefix n q) <-> inner_ne a n.
Proof. destruct n; simpl; tauto. Qed.
Lemma inner_lt_ch_insert B b p l : forall ch, inner_lt_ch B ch -> inner_lt_ch B (ch_insert b (Leaf p l) ch).
Proof. induction ch as [|b0 y r IH]; simpl; auto. intros [H1 H2]. destruct (b <? b0); simpl; auto. Qed.
Lemma inner_lt_ch_set B b x : forall ch, inner_lt B x -> inner_lt_ch B ch -> inner_lt_ch B (ch_set b x ch).
Proof. induction ch as [|b0 y r IH]; simpl; auto. intros Hx [H1 H2]. destruct (b0 =? b); simpl; auto. Qed.
Lemma inner_lt_ch_remove B b : forall ch, inner_lt_ch B ch -> inner_lt_ch B (ch_remove b ch).
Proof. induction ch as [|b0 y r IH]; simpl; auto. intros [H1 H2]. destruct (b0 =? b); simpl; auto. Qed.
Lemma inner_lt_ch_other B b : forall ch y, inner_lt_ch B ch -> ch_other b ch = Some y -> inner_lt B y.
Proof.
  induction ch as [|b0 z r IH]; simpl; [discriminate|]. intros y [H1 H2]. destruct (b0 =? b); eauto. intros [= <-]; auto.
Qed.

(* allocator facts; B >= 1 is the allocator before the step *)
Lemma fresh_alloc c s : let r := fresh c s in
  (fst r = 0 \/ (fst r = s_next s /\ s_next (snd r) = s_next s + 1)) /\ s_next s <= s_next (snd r).
Proof. unfold fresh. destruct (c_ro c); simpl; repeat split; auto; try lia. Qed.
Lemma fresh_if_alloc w s : let r := fresh_if w s in
  (fst r = 0 \/ (fst r = s_next s /\ s_next (snd r) = s_next s + 1)) /\ s_next s <= s_next (snd r).
Proof. unfold fresh_if. destruct (w =? 0); simpl; repeat split; auto; try lia. Qed.
Lemma record_next' w s : s_next (record w s) = s_next s.
Proof. unfold record. destruct (w =? 0); reflexivity. Qed.
Lemma clone_hdr_alloc c s t w : (w = 0 \/ w < s_next s) ->
  let r := clone_hdr c s t w in
  (snd (fst r) = 0 \/ snd (fst r) < s_next (snd r)) /\ s_next s <= s_next (snd r).
Proof.
  intros Hw. unfold clone_hdr. destruct (t =? c_tid c); cbn [fst snd]; [split; auto; lia|].
  pose proof (fresh_alloc c (record w s)) as Fa. rewrite record_next' in Fa.
  destruct (fresh c (record w s)) as [w' s2]. cbn [fst snd] in *. lia.
Qed.
Lemma clone_leaf_alloc c s l : c_tid c <> 0 ->
  let r := clone_leaf c s l in
  (lf_w (fst r) = 0 \/ (s_next s <= lf_w (fst r) /\ lf_w (fst r) < s_next (snd r))) /\ s_next s <= s_next (snd r).
Proof.
  intros Hc. unfold clone_leaf. destruct (N.eqb_spec 0 (c_tid c)); [congruence|].
  pose proof (fresh_alloc c (record (lf_w l) s)) as Fa. rewrite record_next' in Fa.
  destruct (fresh c (record (lf_w l) s)) as [w' s2]. cbn [fst snd lf_w] in *. lia.
Qed.

Section MW.
Variable c : ctx.
Variable md : option (N -> N -> N).
Variable fullKey : bytes.
Variable v : N.
Hypothesis Hc0 : c_tid c <> 0.

Definition mwf (B : N) (r : mres) : Prop :=
  (m_w r = 0 \/ (B <= m_w r /\ m_w r < s_next (m_st r))) /\
  (m_w r = 0 \/ inner_ne (m_w r) (m_node r)) /\
  inner_lt (s_next (m_st r)) (m_node r) /\
  B <= s_next (m_st r).

Lemma split_mwf s this key : inner_lt (s_next s) this -> mwf (s_next s) (split_node c fullKey v s this key).
Proof.
  intros Hl. unfold split_node. cbv zeta.
  pose proof (fresh_alloc c s) as F1. destruct (fresh c s) as [lw s1]. cbn [fst snd] in F1.
  pose proof (fresh_alloc c s1) as F2. destruct (fresh c s1) as [nw s2]. cbn [fst snd] in F2.
  set (this' := set_prefix this _).
  assert (L' : inner_lt (s_next s) this') by now apply inner_lt_set_prefix.
  assert (L2 : inner_lt (s_next s2) this') by (eapply (proj1 inner_lt_mono); [|exact L']; lia).
  assert (Ne : lw = 0 \/ inner_ne lw this').
  { destruct (N.eq_dec lw 0); auto. right. eapply (proj1 inner_lt_ne); [| |exact L']; lia. }
  unfold mwf. cbn [m_w m_st m_node].
  assert (Hnw : nw = 0 \/ nw < s_next s2) by lia.
  assert (Hne : lw = 0 \/ nw <> lw) by lia.
  split; [lia|]. split; [|split; [|lia]].
  - destruct Ne as [E|Ne]; [auto|]. destruct Hne as [E|Hne]; [auto|]. right.
    destruct (node_prefix this') as [|tb tl]; [|destruct (skipn _ key) as [|kb kl]; [|destruct (tb <? kb)]];
      simpl; repeat split; auto.
  - destruct (node_prefix this') as [|tb tl]; [|destruct (skipn _ key) as [|kb kl]; [|destruct (tb <? kb)]];
      simpl; repeat split; auto.
Qed.

Theorem modify_mwf :
  (forall n s key, inner_lt (s_next s) n -> mwf (s_next s) (modify_node c md fullKey v s n key)) /\
  (forall ch s b key, inner_lt_ch (s_next s) ch ->
     match modify_ch c md fullKey v s ch b key with
     | Some (ch', r) =>
       (m_w r = 0 \/ (s_next s <= m_w r /\ m_w r < s_next (m_st r))) /\
       (m_w r = 0 \/ inner_ne_ch (m_w r) ch') /\ inner_lt_ch (s_next (m_st r)) ch' /\ s_next s <= s_next (m_st r)
     | None => True
     end).
Proof.
  apply node_children_ind.
  - intros p l s key _. cbn [modify_node]. destruct (bytes_eqb key p).
    + pose proof (clone_leaf_alloc c s l Hc0) as Ca. destruct (clone_leaf c s l) as [l' s']. cbn [fst snd] in Ca.
      unfold mwf. cbn [m_w m_st m_node]. repeat split; try tauto. right. exact I.
    + apply split_mwf. exact I.
  - intros kd t p w lf ch IH s key [Hw Hc]. cbn [modify_node]; fold (modify_ch c md fullKey v).
    pose proof (clone_hdr_alloc c s t w Hw) as Ca.
    assert (Raise : forall B', s_next s <= B' -> inner_lt_ch B' ch)
      by (intros B' H; eapply (proj2 inner_lt_mono); eauto).
    assert (NeCh : forall a, s_next s <= a -> a <> 0 -> inner_ne_ch a ch)
      by (intros a H Ha; eapply (proj2 inner_lt_ne); eauto).
    destruct (strip p key) as [[|b rest]|].
    + destruct (clone_hdr c s t w) as [[t' w'] s1]. cbn [fst snd] in Ca. destruct Ca as [W1 N1].
      destruct lf as [l|].
      * pose proof (clone_leaf_alloc c s1 l Hc0) as Cl. destruct (clone_leaf c s1 l) as [l' s2]. cbn [fst snd] in Cl.
        unfold mwf. cbn [m_w m_st m_node lf_w]. destruct Cl as [Wl N2].
        split; [lia|]. split; [|split; [|lia]].
        -- destruct (N.eq_dec (lf_w l') 0); auto. right. split; [lia|]. apply NeCh; lia.
        -- split; [lia|]. apply Raise. lia.
      * pose proof (fresh_alloc c s1) as Fa. destruct (fresh c s1) as [lw s2]. cbn [fst snd] in Fa.
        unfold mwf. cbn [m_w m_st m_node]. split; [lia|]. split; [|split; [|lia]].
        -- destruct (N.eq_dec lw 0); auto. right. split; [lia|]. apply NeCh; lia.
        -- split; [lia|]. apply Raise. lia.
    + destruct (clone_hdr c s t w) as [[t' w'] s1] eqn:Ec. cbn [fst snd] in Ca. destruct Ca as [W1 N1].
      specialize (IH s1 b (b :: rest) (Raise _ N1)).
      destruct (modify_ch c md fullKey v s1 ch b (b :: rest)) as [[ch' r]|].
      * destruct IH as (A1 & A2 & A3 & A4). unfold mwf. cbn [m_w m_st m_node].
        split; [lia|]. split; [|split; [|lia]].
        -- destruct A2 as [E|A2]; [auto|]. destruct (N.eq_dec (m_w r) 0); auto. right. split; [lia|auto].
        -- split; [lia|auto].
      * destruct (kd <? ch_len ch + 1).
        -- pose proof (fresh_if_alloc w (record w s)) as Fi. rewrite record_next' in Fi.
           destruct (fresh_if w (record w s)) as [w2 s2]. cbn [fst snd] in Fi.
           pose proof (fresh_alloc c s2) as Fa. destruct (fresh c s2) as [lw s3]. cbn [fst snd] in Fa.
           unfold mwf. cbn [m_w m_st m_node]. split; [lia|]. split; [|split; [|lia]].
           ++ destruct (N.eq_dec lw 0); auto. right. split; [lia|]. 
              assert (G : inner_ne_ch lw ch) by (apply NeCh; lia).
              clear - G. induction ch as [|b0 y r IH]; simpl in *; auto. destruct G. destruct (b <? b0); simpl; auto.
           ++ split; [lia|]. apply inner_lt_ch_insert. apply Raise. lia.
        -- pose proof (fresh_alloc c s1) as Fa. destruct (fresh c s1) as [lw s3]. cbn [fst snd] in Fa.
           unfold mwf. cbn [m_w m_st m_node]. split; [lia|]. split; [|split; [|lia]].
           ++ destruct (N.eq_dec lw 0); auto. right. split; [lia|].
              assert (G : inner_ne_ch lw ch) by (apply NeCh; lia).
              clear - G. induction ch as [|b0 y r IH]; simpl in *; auto. destruct G. destruct (b <? b0); simpl; auto.
           ++ split; [lia|]. apply inner_lt_ch_insert. apply Raise. lia.
    + destruct (clone_hdr c s t w) as [[t' w'] s1]. cbn [fst snd] in Ca. destruct Ca as [W1 N1].
      pose proof (split_mwf s1 (Inner kd t' p w' lf ch) key) as Sm. 
      assert (Hl : inner_lt (s_next s1) (Inner kd t' p w' lf ch)) by (split; [lia|apply Raise; lia]).
      specialize (Sm Hl). unfold mwf in *. destruct Sm as (A1 & A2 & A3 & A4). repeat split; auto; lia.
  - intros; exact I.
  - intros b0 x IHx r IHr s b key [Hx Hr]. cbn [modify_ch]; fold (modify_node c md fullKey v); fold (modify_ch c md fullKey v).
    destruct (b0 =? b).
    + destruct (IHx s key Hx) as (A1 & A2 & A3 & A4). cbn [inner_ne_ch inner_lt_ch].
      split; [exact A1|]. split; [|split; [|exact A4]].
      * destruct (N.eq_dec (m_w (modify_node c md fullKey v s x key)) 0) as [E0|E0]; [left; exact E0|].
        destruct A2 as [E|A2]; [congruence|]. destruct A1 as [E|A1]; [congruence|]. right. split; auto.
        eapply (proj2 inner_lt_ne); [| |exact Hr]; lia.
      * split; auto. eapply (proj2 inner_lt_mono); eauto.
    + specialize (IHr s b key Hr). destruct (modify_ch c md fullKey v s r b key) as [[r' res]|]; [|exact I].
      destruct IHr as (A1 & A2 & A3 & A4). cbn [inner_ne_ch inner_lt_ch].
      split; [exact A1|]. split; [|split; [|exact A4]].
      * destruct (N.eq_dec (m_w res) 0) as [E0|E0]; [left; exact E0|].
        destruct A2 as [E|A2]; [congruence|]. destruct A1 as [E|A1]; [congruence|]. right. split; auto.
        eapply (proj1 inner_lt_ne); [| |exact Hx]; lia.
      * split; auto. eapply (proj1 inner_lt_mono); eauto.
Qed.
End MW.

Section DL.
Variable c : ctx.
Definition dil (B : N) (r : dres) : Prop :=
  match r with
  | DNone => True
  | DSome _ repl s' _ => B <= s_next s' /\ match repl with Some n' => inner_lt (s_next s') n' | None => True end
  end.

Lemma remove_child_il s kd t p w lf ch b :
  (w = 0 \/ w < s_next s) -> inner_lt_ch (s_next s) ch ->
  let r := remove_child c s kd t p w lf ch b in
  s_next s <= s_next (snd (fst r)) /\ inner_lt (s_next (snd (fst r))) (fst (fst r)).
Proof.
  intros Hw Hc. unfold remove_child.
  pose proof (clone_hdr_alloc c s t w Hw) as Ca. pose proof (fresh_if_alloc w s) as Fi.
  pose proof (inner_lt_ch_remove (s_next s) b ch Hc) as Lr.
  destruct (ch_len ch =? 2); [destruct lf; [|destruct (ch_other b ch) as [y|] eqn:Eo]|].
  2:{ cbn [fst snd]. rewrite record_next'. split; [lia|]. apply inner_lt_set_prefix. exact (inner_lt_ch_other _ b ch y Hc Eo). }
  all: destruct (_ || _);
    [destruct (fresh_if w s) as [w2 s2]; cbn [fst snd] in *; rewrite record_next'; split; [lia|];
     split; [lia|eapply (proj2 inner_lt_mono); [|exact Lr]; lia]
    |destruct (clone_hdr c s t w) as [[t' w'] s2]; cbn [fst snd] in *; split; [lia|];
     split; [lia|eapply (proj2 inner_lt_mono); [|exact Lr]; lia]].
Qed.

Theorem delete_il :
  (forall n s key, inner_lt (s_next s) n -> dil (s_next s) (del_node c s n key)) /\
  (forall ch s b key, inner_lt_ch (s_next s) ch -> dil (s_next s) (del_ch c s ch b key)).
Proof.
  apply node_children_ind.
  - intros p l s key _. cbn [del_node]. destruct (bytes_eqb key p); [|exact I]. cbn [dil]. rewrite !record_next'. split; [lia|exact I].
  - intros kd t p w lf ch IH s key [Hw Hc]. cbn [del_node]; fold (del_ch c).
    destruct (strip p key) as [[|b rest]|]; [| |exact I].
    + destruct lf as [l|]; [|exact I]. destruct ch as [|b1 x1 [|b2 x2 r]].
      * cbn [dil]. rewrite !record_next'. split; [lia|exact I].
      * cbn [dil]. rewrite !record_next'. split; [lia|]. apply inner_lt_set_prefix. simpl in Hc. tauto.
      * pose proof (clone_hdr_alloc c (record (lf_w l) s) t w) as Ca. rewrite record_next' in Ca. specialize (Ca Hw).
        destruct (clone_hdr c (record (lf_w l) s) t w) as [[t' w'] s2]. cbn [fst snd dil] in *.
        split; [lia|]. split; [lia|]. eapply (proj2 inner_lt_mono); [|exact Hc]. lia.
    + specialize (IH s b (b :: rest) Hc).
      destruct (del_ch c s ch b (b :: rest)) as [|old repl s1 ip]; [exact I|]. cbn [dil] in IH. destruct IH as [N1 IH].
      assert (Hw1 : w = 0 \/ w < s_next s1) by lia.
      assert (Hc1 : inner_lt_ch (s_next s1) ch) by (eapply (proj2 inner_lt_mono); eauto).
      destruct repl as [x'|].
      * destruct ip.
        -- cbn [dil]. split; [lia|]. split; auto. now apply inner_lt_ch_set.
        -- pose proof (clone_hdr_alloc c s1 t w Hw1) as Ca.
           destruct (clone_hdr c s1 t w) as [[t' w'] s2]. cbn [fst snd dil] in *. split; [lia|]. split; [lia|].
           apply inner_lt_ch_set; [eapply (proj1 inner_lt_mono); [|exact IH]; lia|eapply (proj2 inner_lt_mono); [|exact Hc1]; lia].
      * pose proof (remove_child_il s1 kd t p w lf ch b Hw1 Hc1) as R.
        destruct (remove_child c s1 kd t p w lf ch b) as [[n' s2] ip']. cbn [fst snd dil] in *. split; [lia|tauto].
  - intros; exact I.
  - intros b0 x IHx r IHr s b key [Hx Hr]. cbn [del_ch]; fold (del_node c); fold (del_ch c). destruct (b0 =? b); auto.
Qed.
End DL.

(* ---- transaction level ---- *)
Definition root_il (B : N) (r : option node) : Prop := match r with None => True | Some n => inner_lt B n end.
Definition IL (x : txn) : Prop := root_il (s_next (t_st x)) (t_root x).

Lemma wstep_IL x o : t_tid x <> 0 -> IL x -> IL (wstep x o) /\ s_next (t_st x) <= s_next (t_st (wstep x o)).
Proof.
  intros Hc0 H. unfold IL in *. destruct o as [k' v|k' v f|k'|]; cbn [wstep].
  - unfold txn_modify. destruct (t_root x) as [n|].
    + destruct (proj1 (modify_mwf (txn_ctx x) None k' v Hc0) n (t_st x) k' H) as (_ & _ & A3 & A4). cbn [fst t_st t_root]. auto.
    + pose proof (fresh_alloc (txn_ctx x) (t_st x)) as Fa. destruct (fresh (txn_ctx x) (t_st x)). cbn [fst snd t_st t_root m_st m_node] in *.
      split; [exact I|lia].
  - unfold txn_modify. destruct (t_root x) as [n|].
    + destruct (proj1 (modify_mwf (txn_ctx x) (Some f) k' v Hc0) n (t_st x) k' H) as (_ & _ & A3 & A4). cbn [fst t_st t_root]. auto.
    + pose proof (fresh_alloc (txn_ctx x) (t_st x)) as Fa. destruct (fresh (txn_ctx x) (t_st x)). cbn [fst snd t_st t_root m_st m_node] in *.
      split; [exact I|lia].
  - unfold txn_delete. destruct (t_root x) as [n|] eqn:Er; [|cbn [fst]; rewrite Er; split; [exact I|lia]].
    pose proof (proj1 (delete_il (txn_ctx x)) n (t_st x) k' H) as D.
    destruct (del_node (txn_ctx x) (t_st x) n k') as [|old repl s' ip]; cbn [fst t_st t_root].
    + rewrite Er. split; [exact H|lia].
    + destruct D as [N1 D]. split; auto; destruct repl; auto; exact I.
  - split; [exact H|]. simpl. lia.
Qed.

Lemma privF_and c (F1 : N -> Prop) w :
  (forall n, privF c F1 n -> inner_ne w n -> privF c (fun b => F1 b /\ b <> w) n) /\
  (forall ch, privF_ch c F1 ch -> inner_ne_ch w ch -> privF_ch c (fun b => F1 b /\ b <> w) ch).
Proof.
  apply node_children_ind.
  - intros; exact I.
  - intros kd t p w0 lf ch IH [H1 H2] [N1 N2]. split; [|apply IH; auto].
    intros E. destruct (H1 E) as [Z|Z]; [left; exact Z|right; split; auto].
  - intros; exact I.
  - intros b x IHx r IHr [H1 H2] [N1 N2]. split; [apply IHx|apply IHr]; auto.
Qed.

Lemma wstep_rw x o : t_rw (wstep x o) = t_rw x.
Proof.
  destruct o as [k' v|k' v f|k'|]; cbn [wstep]; try reflexivity.
  unfold txn_delete. destruct (t_root x); [|reflexivity]. destruct (del_node _ _ _ _); reflexivity.
Qed.
Lemma run_rw ops : forall x, t_rw (fold_left wstep ops x) = t_rw x.
Proof. induction ops as [|o r IH]; intros x; simpl; auto. now rewrite IH, wstep_rw. Qed.

Lemma run_J next0 (F : N -> Prop) (HF : forall b, next0 <= b -> F b) k a (Ha0 : a <> 0) (HnF : ~ F a) ops :
  forall x, TInv next0 F x -> J k a x -> TInv next0 F (fold_left wstep ops x) /\ J k a (fold_left wstep ops x).
Proof.
  induction ops as [|o r IH]; intros x HT HJ; simpl; auto.
  destruct (wstep_J next0 F HF k a Ha0 HnF x o HT HJ) as (A & B & _). auto.
Qed.

(* the transaction state right after InsertWatch/ModifyWatch *)
Lemma after_modify x md key v next0 :
  TInv next0 (Fr next0) x -> IL x -> t_ro x = false ->
  let x1 := fst (fst (fst (txn_modify x md key v))) in
  let w := snd (txn_modify x md key v) in
  TInv next0 (Fr next0) x1 /\ t_rw x1 = t_rw x /\
  (w = 0 \/ (s_next (t_st x) <= w /\ w < s_next (t_st x1))) /\
  (w = 0 \/ match t_root x1 with Some n => inner_ne w n | None => True end) /\
  (w <> 0 -> rgetw (t_root x1) (t_rw x1) key = w).
Proof.
  intros HT HI Hro. cbv zeta.
  assert (T1 : TInv next0 (Fr next0) (fst (fst (fst (txn_modify x md key v))))).
  { destruct md as [f|].
    - exact (wstep_TInv next0 (Fr next0) (fun b h => h) x (WMod key v f) HT).
    - exact (wstep_TInv next0 (Fr next0) (fun b h => h) x (WIns key v) HT). }
  split; [exact T1|]. split; [reflexivity|].
  pose proof (insert_watch_is_get_watch x md key v Hro) as G.
  destruct HT as (Hc0 & _ & _). unfold IL in HI.
  unfold txn_modify in *. rewrite Hro in *.
  destruct (t_root x) as [n|].
  - destruct (proj1 (modify_mwf (txn_ctx x) md key v Hc0) n (t_st x) key HI) as (A1 & A2 & _ & _).
    cbn [fst snd t_root t_st t_rw] in *. split; [exact A1|]. split; [exact A2|].
    intros Hn. exact (proj1 (G Hn)).
  - pose proof (fresh_alloc (txn_ctx x) (t_st x)) as Fa.
    destruct (fresh (txn_ctx x) (t_st x)) as [lw s1]. cbn [fst snd t_root t_st t_rw m_w m_node m_st] in *.
    split; [lia|]. split; [right; exact I|]. intros Hn. exact (proj1 (G Hn)).
Qed.

Theorem insert_watch_closes_on_next_change x md key v next0 :
  TInv next0 (Fr next0) x -> IL x -> t_rw x < s_next (t_st x) -> t_ro x = false ->
  let x1 := fst (fst (fst (txn_modify x md key v))) in
  let w := snd (txn_modify x md key v) in
  w <> 0 ->
  forall ops1,
    let xe := fold_left wstep ops1 x1 in
    (touched key x1 ops1 -> In w (snd (txn_notify xe))) /\
    (In w (snd (txn_notify xe)) \/
     (snd (tree_get (snd (txn_commit xe)) key) = w /\
      forall next2 ops2, w < next2 -> touched key (tree_txn (snd (txn_commit xe)) next2) ops2 ->
        In w (snd (txn_notify (fold_left wstep ops2 (tree_txn (snd (txn_commit xe)) next2)))))).
Proof.
  intros HT HI Hrw Hro. cbv zeta. intros Hw ops1.
  destruct (after_modify x md key v next0 HT HI Hro) as (T1 & Erw & Wf & Wn & Wg).
  set (x1 := fst (fst (fst (txn_modify x md key v)))) in *.
  set (w := snd (txn_modify x md key v)) in *.
  destruct Wf as [E|[W1 W2]]; [congruence|]. destruct Wn as [E|Wn]; [congruence|]. specialize (Wg Hw).
  set (B := s_next (t_st x1)).
  set (F := fun b => Fr next0 b /\ b <> w).
  destruct T1 as (Hc1 & Hr1 & Hn1).
  assert (HF : forall b, B <= b -> F b) by (intros b Hb; unfold F, Fr, B in *; split; lia).
  assert (HnF : ~ F w) by (intros [_ H]; congruence).
  assert (T2 : TInv B F x1).
  { unfold TInv. split; auto. split; [|unfold B; lia]. unfold root_inv in *.
    destruct (t_root x1) as [n1|]; auto. destruct Hr1 as (P1 & L1 & M1). repeat split; auto.
    apply (proj1 (privF_and (txn_ctx x1) (Fr next0) w)); auto. }
  assert (J1 : J key w x1) by (right; exact Wg).
  split.
  - intros Ht. exact (touched_closed B F HF key w Hw HnF ops1 x1 T2 J1 Ht).
  - destruct (run_J B F HF key w Hw HnF ops1 x1 T2 J1) as (Te & Je).
    set (xe := fold_left wstep ops1 x1) in *.
    destruct Je as [Ce|Ge].
    + left. exact (closedish_run B F HF key w Hw HnF [] xe Te Ce).
    + right.
      assert (Erwe : t_rw xe = t_rw x) by (unfold xe; rewrite run_rw; exact Erw).
      assert (Hne : w <> t_rw xe) by (rewrite Erwe; lia).
      destruct Te as (Hce & Hre & Hne2).
      assert (Eg : snd (tree_get (snd (txn_commit xe)) key) = w).
      { unfold tree_get, txn_commit, rgetw, root_get in *. destruct (t_dirty xe); cbn [snd tr_root tr_rw];
          (destruct (t_root xe) as [ne|]; [|cbn [snd] in *; congruence]);
          fold (getw ne key (t_rw xe)) in Ge;
          match goal with |- snd (search_node ne key ?u') = w =>
            fold (getw ne key u'); destruct (proj1 getw_cases ne key (t_rw xe) u') as [[E1 _]|E1]; congruence end. }
      split; [exact Eg|]. intros next2 ops2 Hlt Ht2. rewrite <- Eg at 1.
      apply get_watch_closed_history; try (rewrite Eg; auto); auto.
      * apply commit_publishes. unfold txn_ids_ok, root_tids_le, root_inv in *. destruct (t_root xe); [tauto|exact I].
      * unfold txn_commit. destruct (t_dirty xe); cbn [snd tr_next]; lia.
      * unfold txn_commit, root_tmono, root_inv in *. destruct (t_dirty xe); cbn [snd tr_root]; destruct (t_root xe); tauto.
Qed.

(* a handle that is not closed by a transaction is still what Get(k) returns on the tree it commits to *)
Theorem get_watch_closed_or_kept t next ops k :
  tree_ids_ok t -> tr_next t <> 0 -> root_tmono (tr_root t) ->
  snd (tree_get t k) <> 0 -> snd (tree_get t k) < next -> tr_rw t <> snd (tree_get t k) ->
  let xe := fold_left wstep ops (tree_txn t next) in
  In (snd (tree_get t k)) (snd (txn_notify xe)) \/ snd (tree_get (snd (txn_commit xe)) k) = snd (tree_get t k).
Proof.
  intros Hids Hnz Hm Ha0 Hold Hrw. cbv zeta. set (a := snd (tree_get t k)) in *.
  assert (HnF : ~ Fr next a) by (unfold Fr; lia).
  assert (T0 : TInv next (Fr next) (tree_txn t next)).
  { unfold TInv, tree_txn, root_inv, txn_ctx. cbn [t_tid t_root t_st t_ro s_next c_tid].
    split; auto. split; [|lia]. unfold tree_ids_ok, root_tmono in *. destruct (tr_root t) as [n|]; auto.
    destruct Hids as [H0 Hle]. repeat split; auto.
    - apply (proj1 (privF_of_tids_lt (Fr next) (mkCtx (tr_next t) (tr_ro t)) (tr_next t - 1) ltac:(simpl; lia))). exact Hle.
    - eapply (proj1 tids_le_mono); [|exact Hle]. lia. }
  assert (J0 : J k a (tree_txn t next)) by (right; reflexivity).
  destruct (run_J next (Fr next) (fun b h => h) k a Ha0 HnF ops _ T0 J0) as (Te & Je).
  set (xe := fold_left wstep ops (tree_txn t next)) in *.
  destruct Je as [Ce|Ge]; [left; exact (closedish_run next (Fr next) (fun b h => h) k a Ha0 HnF [] xe Te Ce)|right].
  assert (Erwe : t_rw xe = tr_rw t) by (unfold xe; rewrite run_rw; reflexivity).
  unfold tree_get, txn_commit, rgetw, root_get in *. destruct (t_dirty xe); cbn [snd tr_root tr_rw];
    (destruct (t_root xe) as [ne|]; [|cbn [snd] in *; congruence]);
    fold (getw ne k (t_rw xe)) in Ge;
    match goal with |- snd (search_node ne k ?u') = a =>
      fold (getw ne k u'); destruct (proj1 getw_cases ne k (t_rw xe) u') as [[E1 _]|E1]; congruence end.
Qed.
