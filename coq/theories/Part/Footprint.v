(* Part/Footprint.v — watch handles and the keys they cover (the part.Tree half of C06).

   A HANDLE is what a reader keeps from a committed tree: the channel of Get(k), of Prefix(q), or the
   root channel. Its COVERAGE is a set of keys: k itself; every key with prefix q; every key.
   The C12 history theorems (Part/WatchHist.v, Part/PrefixHist.v, Part/Fresh.v) are stated over the
   operations of a transaction ("some operation inserted / replaced / deleted-while-present a key ...").
   Here they are restated over the ordered maps the trees denote (Part/Refine.v abs_tree):
     if the map denoted by the tree before and after a transaction differ at a key the handle covers, the
     handle's channel is in the set closed by that transaction's Notify      (changed_key_closes_handle)
   and over chains of committed transactions:
     a handle not closed by a transaction is still the handle the next tree returns (handle_closed_or_kept),
     all side conditions are re-established by every commit (commit_tree_inv), hence if the maps denoted by
     the first and the last tree of a chain differ at a covered key, the Notify of one of the
     transactions of the chain closes the handle's channel           (chain_changed_key_closes_handle). *)
From SV Require Import Base.Bytes Base.OrdMap Part.Model Part.Sem Part.Refine Part.Cow Part.Watch Part.Stable
  Part.WatchHist Part.PStable Part.PrefixHist Part.InsertWatch Part.Fresh.
From Coq Require Import ZifyN ZifyNat ZifyBool.
Open Scope N_scope.

Inductive handle := HGet (k : bytes) | HPrefix (q : bytes) | HRoot.

(* the keys whose insertion, replacement or deletion must close the handle's channel *)
Definition h_covers (h : handle) (K : bytes) : bool :=
  match h with HGet k => bytes_eqb K k | HPrefix q => has_prefix K q | HRoot => true end.

(* the channel returned with the answer: Tree.Get / Tree.Prefix / Tree.RootWatch *)
Definition h_chan (t : tree) (h : handle) : N :=
  match h with
  | HGet k => snd (tree_get t k)
  | HPrefix q => snd (tree_prefix t q)
  | HRoot => tr_rw t
  end.

(* ---- the denoted maps along the operations of a transaction -------------------------------------------- *)
Lemma mstep_sorted m o : om_sorted m -> om_sorted (mstep m o).
Proof.
  intros S. destruct o; cbn [mstep]; auto using (@om_insert_sorted N), (@om_delete_sorted N).
Qed.

Lemma run_sorted ops : forall m, om_sorted m -> om_sorted (fold_left mstep ops m).
Proof. induction ops as [|o ops IH]; intros m S; cbn [fold_left]; auto. apply IH. now apply mstep_sorted. Qed.

Lemma bytes_dec (a b : bytes) : {a = b} + {a <> b}.
Proof. apply list_eq_dec. apply N.eq_dec. Qed.

Lemma binding_dec (a b : option N) : {a = b} + {a <> b}.
Proof. decide equality. apply N.eq_dec. Qed.

(* an operation that does not count as a change (Delete of an absent key, an id bump) changes no binding *)
Lemma mstep_nochange m o K : om_sorted m -> changes m o = false -> om_get K (mstep m o) = om_get K m.
Proof.
  intros S C. destruct o as [k v|k v f|k|]; cbn [changes mstep] in *; try discriminate; auto.
  destruct (om_get k m) eqn:G; [discriminate|].
  destruct (bytes_dec K k) as [->|Hne].
  - rewrite om_get_delete_same by assumption. now rewrite G.
  - now apply om_get_delete_other.
Qed.

(* an operation either touches k (in the sense of Part/WatchHist.v) or leaves k's binding alone *)
Lemma touches_or_same k x o : txn_ok x ->
  touches k x o \/ om_get k (mstep (abs_txn x) o) = om_get k (abs_txn x).
Proof.
  intros Hok. pose proof (abs_sorted _ (proj1 Hok)) as S. fold (abs_txn x) in S.
  destruct o as [k' v|k' v f|k'|]; cbn [touches mstep].
  - destruct (bytes_dec k' k) as [->|Hne]; [left; reflexivity|right]. apply om_get_insert_other; auto.
  - destruct (bytes_dec k' k) as [->|Hne]; [left; reflexivity|right]. apply om_get_insert_other; auto.
  - destruct (bytes_dec k' k) as [->|Hne].
    + pose proof (txn_delete_refines x k Hok) as R. destruct (txn_delete x k) as [x' old]. destruct R as (_ & _ & Eo).
      cbn [snd]. destruct old as [v|].
      * left. split; [reflexivity|discriminate].
      * right. rewrite om_get_delete_same by assumption. exact Eo.
    + right. apply om_get_delete_other; auto.
  - right. reflexivity.
Qed.

Lemma touches_p_or_same q x o : txn_ok x ->
  touches_p q x o \/ forall k, has_prefix k q = true -> om_get k (mstep (abs_txn x) o) = om_get k (abs_txn x).
Proof.
  intros Hok. pose proof (abs_sorted _ (proj1 Hok)) as S. fold (abs_txn x) in S.
  assert (Hne : forall k k', has_prefix k' q = false -> has_prefix k q = true -> k <> k') by (intros k k' H1 H2 ->; congruence).
  destruct o as [k' v|k' v f|k'|]; cbn [touches_p mstep].
  - destruct (has_prefix k' q) eqn:P; [left; reflexivity|right]. intros k Hk. apply om_get_insert_other; auto.
  - destruct (has_prefix k' q) eqn:P; [left; reflexivity|right]. intros k Hk. apply om_get_insert_other; auto.
  - destruct (has_prefix k' q) eqn:P.
    + pose proof (txn_delete_refines x k' Hok) as R. destruct (txn_delete x k') as [x' old]. destruct R as (_ & _ & Eo).
      cbn [snd]. destruct old as [v|].
      * left. split; [reflexivity|discriminate].
      * right. intros k Hk. destruct (bytes_dec k k') as [->|Hd].
        -- rewrite om_get_delete_same by assumption. exact Eo.
        -- apply om_get_delete_other; auto.
    + right. intros k Hk. apply om_get_delete_other; auto.
  - right. reflexivity.
Qed.

(* the maps differ at k after the operations => some operation touched k *)
Lemma differ_touched k ops : forall x, txn_ok x ->
  om_get k (fold_left mstep ops (abs_txn x)) <> om_get k (abs_txn x) -> touched k x ops.
Proof.
  induction ops as [|o ops IH]; intros x Hok Hd; cbn [fold_left touched] in *; [congruence|].
  destruct (wstep_refines x o Hok) as [Hok' Ea].
  destruct (touches_or_same k x o Hok) as [T|E]; [left; exact T|right].
  apply IH; auto. rewrite Ea, E. exact Hd.
Qed.

Lemma differ_touched_p q ops : forall x, txn_ok x ->
  (exists k, has_prefix k q = true /\ om_get k (fold_left mstep ops (abs_txn x)) <> om_get k (abs_txn x)) ->
  touched_p q x ops.
Proof.
  induction ops as [|o ops IH]; intros x Hok [k [Hk Hd]]; cbn [fold_left touched_p] in *; [congruence|].
  destruct (wstep_refines x o Hok) as [Hok' Ea].
  destruct (touches_p_or_same q x o Hok) as [T|E]; [left; exact T|right].
  apply IH; auto. exists k. split; auto. rewrite Ea, (E k Hk). exact Hd.
Qed.

Lemma differ_any_change ops : forall m, om_sorted m ->
  (exists K, om_get K (fold_left mstep ops m) <> om_get K m) -> any_change m ops = true.
Proof.
  induction ops as [|o ops IH]; intros m S [K HK]; cbn [fold_left any_change] in *; [congruence|].
  destruct (changes m o) eqn:C; [reflexivity|]. cbn [orb]. apply IH; [now apply mstep_sorted|].
  exists K. now rewrite (mstep_nochange m o K S C).
Qed.

(* ---- the side conditions of the C12 history theorems, as one invariant of committed trees --------------- *)
(* tree_ok: radix-tree well-formedness (C11); tree_ids_ok / root_tmono: the txn-id discipline (C11, C12);
   CKt: channel accounting w.r.t. the channel allocator `next` (C12_new_tree_channels_open) *)
Definition tree_inv (t : tree) (next : N) : Prop :=
  tree_ok t /\ tree_ids_ok t /\ tr_next t <> 0 /\ root_tmono (tr_root t) /\ CKt t next /\ tr_rw t <> 0.

Lemma tree_inv_new ro next : 0 < next -> tree_inv (fst (tree_new ro next)) (next + 1).
Proof.
  intros Hp. unfold tree_inv. split; [apply tree_new_ok|]. split; [apply tree_new_ids|].
  split; [cbn; lia|]. split; [exact I|]. split; [now apply tree_new_CKt|cbn; lia].
Qed.

Lemma tree_inv_mono t next next' : next <= next' -> tree_inv t next -> tree_inv t next'.
Proof.
  intros Hl (A & B & C & D & E & G). split; [exact A|]. split; [exact B|]. split; [exact C|]. split; [exact D|].
  split; [eapply CKt_mono; eauto|exact G].
Qed.

(* with a non-nil root channel no handle is the nil channel *)
Lemma pick_nz w u : u <> 0 -> pick w u <> 0.
Proof. unfold pick. destruct (N.eqb_spec w 0); auto. Qed.

Lemma getw_nz :
  (forall n k u, u <> 0 -> getw n k u <> 0) /\ (forall ch b k u, u <> 0 -> getw_ch ch b k u <> 0).
Proof.
  apply node_children_ind.
  - intros p l k u Hu. rewrite getw_leaf. destruct (bytes_eqb k p); auto using pick_nz.
  - intros kd t p w lf ch IH k u Hu. rewrite getw_inner. destruct (strip p k) as [[|b rest]|]; auto.
    + destruct lf; auto using pick_nz.
    + apply IH. now apply pick_nz.
  - intros b k u Hu. exact Hu.
  - intros b0 x IHx r IHr b k u Hu. unfold getw_ch in *. cbn [search_ch]; fold search_node; fold search_ch.
    destruct (b0 =? b); [apply IHx|apply IHr]; auto.
Qed.

Lemma pgetw_nz :
  (forall n q u, u <> 0 -> pgetw n q u <> 0) /\ (forall ch b q u, u <> 0 -> pgetw_ch ch b q u <> 0).
Proof.
  apply node_children_ind.
  - intros p l q u Hu. now rewrite pgetw_leaf.
  - intros kd t p w lf ch IH q u Hu. rewrite pgetw_inner. destruct (has_prefix p q); [now apply pick_nz|].
    destruct (strip p q) as [[|b rest]|]; auto. apply IH. now apply pick_nz.
  - intros b q u Hu. exact Hu.
  - intros b0 x IHx r IHr b q u Hu. rewrite pgetw_ch_cons. destruct (b0 =? b); [apply IHx|apply IHr]; auto.
Qed.

Lemma h_chan_nz t h : tr_rw t <> 0 -> h_chan t h <> 0.
Proof.
  intros Hr. destruct h as [k|q|]; cbn [h_chan]; auto.
  - unfold tree_get, root_get. destruct (tr_root t) as [n|]; cbn [snd]; auto. now apply (proj1 getw_nz).
  - unfold tree_prefix. fold (rpgetw (tr_root t) (tr_rw t) q). destruct (tr_root t) as [n|]; auto.
    rewrite rpgetw_some. now apply (proj1 pgetw_nz).
Qed.

(* every channel handed out is older than the allocator *)
Lemma h_chan_lt t next h : CKt t next -> h_chan t h <> 0 -> h_chan t h < next.
Proof.
  intros [Hb Hu Hw Hr Hp] Hn. cbn [s_next] in *.
  assert (Rw : tr_rw t <> 0 -> tr_rw t < next) by (intros H0; destruct Hr as [E|[L _]]; [congruence|exact L]).
  assert (Occ : forall a, a <> 0 -> (1 <= Croot (tr_root t) a)%nat -> a < next).
  { intros a Ha Hc. destruct (N.lt_ge_cases a next) as [L|G]; auto. rewrite (Hb a Ha G) in Hc. lia. }
  destruct h as [k|q|]; cbn [h_chan] in *; auto.
  - unfold tree_get, root_get in *. destruct (tr_root t) as [n|]; cbn [snd Croot] in *; auto.
    fold (getw n k (tr_rw t)) in *.
    destruct (proj1 getw_occurs n k (tr_rw t)) as [E|E]; [rewrite E in *; auto|apply Occ; auto].
  - unfold tree_prefix in *. fold (rpgetw (tr_root t) (tr_rw t) q) in *.
    destruct (tr_root t) as [n|]; cbn [Croot] in *; [|rewrite rpgetw_none in *; auto].
    rewrite rpgetw_some in *.
    destruct (proj1 pgetw_occurs n q (tr_rw t)) as [E|E]; [rewrite E in *; auto|apply Occ; auto].
Qed.

Lemma tree_txn_TInv t next : tree_ids_ok t -> tr_next t <> 0 -> root_tmono (tr_root t) ->
  TInv next (Fr next) (tree_txn t next).
Proof.
  intros Hids Hnz Hm.
  unfold TInv, tree_txn, root_inv, txn_ctx. cbn [t_tid t_root t_st t_ro s_next c_tid].
  split; auto. split; [|lia]. unfold tree_ids_ok, root_tmono in *. destruct (tr_root t) as [n|]; auto.
  destruct Hids as [H0 Hle]. repeat split; auto.
  - apply (proj1 (privF_of_tids_lt (Fr next) (mkCtx (tr_next t) (tr_ro t)) (tr_next t - 1) ltac:(simpl; lia))). exact Hle.
  - eapply (proj1 tids_le_mono); [|exact Hle]. lia.
Qed.

Lemma run_TInv next0 ops : forall x, TInv next0 (Fr next0) x -> TInv next0 (Fr next0) (fold_left wstep ops x).
Proof.
  induction ops as [|o r IH]; intros x Hx; cbn [fold_left]; auto.
  apply IH. now apply (wstep_TInv next0 (Fr next0) (fun b h => h)).
Qed.

Lemma run_Jp next0 q a (Ha0 : a <> 0) (HnF : ~ Fr next0 a) ops : forall x,
  TInv next0 (Fr next0) x -> Jp q a x -> Jp q a (fold_left wstep ops x).
Proof.
  induction ops as [|o r IH]; intros x HT HJ; cbn [fold_left]; auto.
  apply IH.
  - now apply (wstep_TInv next0 (Fr next0) (fun b h => h)).
  - exact (proj1 (wstep_Jp next0 (Fr next0) q a Ha0 HnF x o HT HJ)).
Qed.

(* ---- ONE transaction: a changed covered key closes the handle ---------------------------------------------- *)
(* T: committed tree; h: a handle taken on T; ops: ALL write operations of the next transaction on T (any number,
   any order, interleaved with reads = id bumps). If the map denoted by the tree the transaction commits differs
   from the map denoted by T at a key covered by h, then h's channel is in the set closed by the transaction's
   Notify — i.e. closed no later than the return of the Commit that made the change. *)
Theorem changed_key_closes_handle t next ops h :
  tree_inv t next ->
  let xe := fold_left wstep ops (tree_txn t next) in
  (exists K, h_covers h K = true /\ om_get K (abs_tree (snd (txn_commit xe))) <> om_get K (abs_tree t)) ->
  In (h_chan t h) (snd (txn_notify xe)).
Proof.
  intros (Hok & Hids & Hnz & Hm & Hck & Hrw). cbv zeta. intros [K [Hc Hd]].
  pose proof (h_chan_nz t h Hrw) as Hn0.
  destruct (tree_txn_ok t next Hok) as [Tok Ta].
  destruct (history_refines ops _ Tok) as [Xok Xa].
  destruct (txn_commit_ok _ Xok) as (_ & Ca & _). rewrite Ca, Xa in Hd.
  pose proof (h_chan_lt t next h Hck Hn0) as Hlt.
  destruct h as [k|q|]; cbn [h_covers h_chan] in *.
  - apply bytes_eqb_spec in Hc. subst K.
    apply get_watch_closed_history; auto. apply differ_touched; auto.
  - apply prefix_watch_closed_history; auto. apply differ_touched_p; auto. exists K. auto.
  - apply root_watch_closed_iff_exact; auto. apply differ_any_change.
    + apply abs_sorted. apply Hok.
    + exists K. exact Hd.
Qed.

(* write_txn.go Commit calls tx.Commit() on every index first and tx.Notify() after the root is stored: the set closed
   is the same as with Notify before Commit (txn_commit_notify) *)
Lemma notify_after_commit x : snd (txn_notify (fst (txn_commit x))) = snd (txn_notify x).
Proof. unfold txn_commit, txn_notify. destruct (t_dirty x); reflexivity. Qed.

(* ---- a handle that a transaction does not close is still the handle of the tree it commits ------------------- *)
Lemma commit_root x : tr_root (snd (txn_commit x)) = t_root x /\
  tr_rw (snd (txn_commit x)) = (if t_dirty x then s_next (t_st x) else t_rw x).
Proof. unfold txn_commit. destruct (t_dirty x); auto. Qed.

Theorem handle_closed_or_kept t next ops h :
  tree_inv t next ->
  let xe := fold_left wstep ops (tree_txn t next) in
  In (h_chan t h) (snd (txn_notify xe)) \/ h_chan (snd (txn_commit xe)) h = h_chan t h.
Proof.
  intros (Hok & Hids & Hnz & Hm & Hck & Hrw). cbv zeta.
  pose proof (h_chan_nz t h Hrw) as Ha0.
  pose proof (h_chan_lt t next h Hck Ha0) as Hlt.
  set (a := h_chan t h) in *.
  assert (HnF : ~ Fr next a) by (unfold Fr; lia).
  pose proof (tree_txn_TInv t next Hids Hnz Hm) as T0.
  pose proof (run_TInv next ops _ T0) as Te.
  set (xe := fold_left wstep ops (tree_txn t next)) in *.
  assert (Erw : t_rw xe = tr_rw t) by (unfold xe; rewrite run_rw; reflexivity).
  destruct (commit_root xe) as [Er Ew].
  assert (Cl : closedish a xe -> In a (snd (txn_notify xe))).
  { intros C. exact (closedish_run next (Fr next) (fun b h => h) [] a Ha0 HnF [] xe Te C). }
  destruct h as [k|q|]; cbn [h_chan] in *.
  - assert (J0 : J k a (tree_txn t next)) by (right; reflexivity).
    destruct (run_J next (Fr next) (fun b h => h) k a Ha0 HnF ops _ T0 J0) as (_ & Je). fold xe in Je.
    destruct Je as [Ce|Ge]; [left; auto|].
    unfold tree_get. rewrite Er, Ew. unfold rgetw in Ge.
    destruct (t_dirty xe) eqn:D; [|right; exact Ge].
    destruct (N.eq_dec a (t_rw xe)) as [E|Ne]; [left; apply Cl; right; auto|right].
    unfold root_get in *. destruct (t_root xe) as [ne|]; [|cbn [snd] in *; congruence].
    fold (getw ne k (t_rw xe)) in Ge. fold (getw ne k (s_next (t_st xe))).
    destruct (proj1 getw_cases ne k (t_rw xe) (s_next (t_st xe))) as [[E1 _]|E1]; congruence.
  - assert (J0 : Jp q a (tree_txn t next)) by (right; reflexivity).
    pose proof (run_Jp next q a Ha0 HnF ops _ T0 J0) as Je. fold xe in Je.
    destruct Je as [Ce|Ge]; [left; auto|].
    unfold tree_prefix. rewrite Er, Ew. fold (rpgetw (t_root xe) (if t_dirty xe then s_next (t_st xe) else t_rw xe) q).
    destruct (t_dirty xe) eqn:D; [|right; exact Ge].
    destruct (N.eq_dec a (t_rw xe)) as [E|Ne]; [left; apply Cl; right; auto|right].
    destruct (t_root xe) as [ne|]; [|rewrite rpgetw_none in *; congruence].
    rewrite rpgetw_some in *.
    destruct (proj1 pgetw_cases ne q (t_rw xe) (s_next (t_st xe))) as [[E1 _]|E1]; congruence.
  - rewrite Ew. destruct (t_dirty xe) eqn:D; [left|right; exact Erw].
    apply Cl. right. split; [symmetry; exact Erw|exact D].
Qed.

(* every commit re-establishes the invariant, for the allocator as the transaction left it *)
Theorem commit_tree_inv t next ops : tree_inv t next ->
  let xe := fold_left wstep ops (tree_txn t next) in
  tree_inv (snd (txn_commit xe)) (s_next (t_st (fst (txn_commit xe)))) /\
  abs_tree (snd (txn_commit xe)) = fold_left mstep ops (abs_tree t) /\
  next <= s_next (t_st (fst (txn_commit xe))).
Proof.
  intros (Hok & Hids & Hnz & Hm & Hck & Hrw). cbv zeta.
  destruct (tree_txn_ok t next Hok) as [Tok Ta].
  destruct (history_refines ops _ Tok) as [Xok Xa].
  destruct (txn_commit_ok _ Xok) as (Cok & Ca & _).
  pose proof (ck_pos _ _ _ Hck) as Hpos. cbn [s_next] in Hpos.
  pose proof (run_TInv next ops _ (tree_txn_TInv t next Hids Hnz Hm)) as Te.
  pose proof (new_tree_channels_open t next ops Hck Hnz) as Nt. cbv zeta in Nt. destruct Nt as (_ & _ & _ & Nck).
  set (xe := fold_left wstep ops (tree_txn t next)) in *.
  destruct Te as (Hce & Hre & Hne).
  split; [|split].
  - split; [exact Cok|]. split; [|split; [|split; [|split; [exact Nck|]]]].
    + apply commit_publishes. unfold txn_ids_ok, root_tids_le, root_inv in *. destruct (t_root xe); [tauto|exact I].
    + unfold txn_commit. destruct (t_dirty xe); cbn [snd tr_next]; lia.
    + unfold txn_commit, root_tmono, root_inv in *. destruct (t_dirty xe); cbn [snd tr_root]; destruct (t_root xe); tauto.
    + destruct (commit_root xe) as [_ ->]. destruct (t_dirty xe); [lia|]. unfold xe. now rewrite run_rw.
  - rewrite Ca, Xa. reflexivity.
  - unfold txn_commit. destruct (t_dirty xe); cbn [fst t_st s_next]; lia.
Qed.

(* ---- chains of committed transactions ----------------------------------------------------------------------------- *)
(* a chain: each element = (gap, ops): `gap` channels are allocated elsewhere (other trees share the allocator)
   before the transaction begins on the tree committed by the previous one *)
Fixpoint chain_end (t : tree) (next : N) (txns : list (N * list wop)) : tree * N :=
  match txns with
  | [] => (t, next)
  | (gap, ops) :: rest =>
    let xe := fold_left wstep ops (tree_txn t (next + gap)) in
    chain_end (snd (txn_commit xe)) (s_next (t_st (fst (txn_commit xe)))) rest
  end.
(* the sets closed by the Notify of each transaction of the chain *)
Fixpoint chain_closed (t : tree) (next : N) (txns : list (N * list wop)) : list (list N) :=
  match txns with
  | [] => []
  | (gap, ops) :: rest =>
    let xe := fold_left wstep ops (tree_txn t (next + gap)) in
    snd (txn_notify xe) :: chain_closed (snd (txn_commit xe)) (s_next (t_st (fst (txn_commit xe)))) rest
  end.

Theorem chain_tree_inv txns : forall t next, tree_inv t next ->
  tree_inv (fst (chain_end t next txns)) (snd (chain_end t next txns)).
Proof.
  induction txns as [|[gap ops] rest IH]; intros t next H; cbn [chain_end]; auto.
  apply IH. apply commit_tree_inv. eapply tree_inv_mono; [|exact H]. lia.
Qed.

(* NO MISSED CHANGE over histories of transactions: if the map denoted by the last tree differs from the map
   denoted by the tree the handle was taken on, at a key the handle covers, then the Notify of one of the
   transactions in between closed the handle's channel *)
Theorem chain_changed_key_closes_handle txns : forall t next h,
  tree_inv t next ->
  (exists K, h_covers h K = true /\
             om_get K (abs_tree (fst (chain_end t next txns))) <> om_get K (abs_tree t)) ->
  exists cl, In cl (chain_closed t next txns) /\ In (h_chan t h) cl.
Proof.
  induction txns as [|[gap ops] rest IH]; intros t next h HI [K [Hc Hd]]; cbn [chain_end chain_closed] in *.
  - cbn [fst] in Hd. congruence.
  - assert (HI' : tree_inv t (next + gap)) by (eapply tree_inv_mono; [|exact HI]; lia).
    pose proof (changed_key_closes_handle t (next + gap) ops h HI') as Ch. cbv zeta in Ch.
    pose proof (handle_closed_or_kept t (next + gap) ops h HI') as Ck. cbv zeta in Ck.
    pose proof (commit_tree_inv t (next + gap) ops HI') as Ci. cbv zeta in Ci. destruct Ci as (Ci & _ & _).
    set (xe := fold_left wstep ops (tree_txn t (next + gap))) in *.
    destruct Ck as [Cl|Kept]; [eexists; split; [left; reflexivity|exact Cl]|].
    destruct (in_dec N.eq_dec (h_chan t h) (snd (txn_notify xe))) as [Cl|Ncl];
      [eexists; split; [left; reflexivity|exact Cl]|].
    destruct (binding_dec (om_get K (abs_tree (snd (txn_commit xe)))) (om_get K (abs_tree t))) as [E|Ne].
    + destruct (IH (snd (txn_commit xe)) (s_next (t_st (fst (txn_commit xe)))) h Ci) as [cl [I1 I2]].
      * exists K. split; auto. now rewrite E.
      * exists cl. split; [right; exact I1|]. now rewrite <- Kept.
    + exfalso. apply Ncl. apply Ch. exists K. auto.
Qed.

(* non-vacuity: a tree with keys [1], [1;2], [2]; the handle of Prefix([1]) taken on it; two later transactions, the
   second of which deletes [1;2] (after re-inserting an unrelated key): the closed set of the second contains the
   handle's channel, and the first one kept it *)
Example chain_nonvacuous :
  let t0 := fst (tree_new false 1) in
  let t1 := snd (txn_commit (fold_left wstep [WIns [1] 10; WIns [1;2] 11; WIns [2] 12] (tree_txn t0 2))) in
  let next1 := 20 in
  let h := HPrefix [1] in
  let txns := [(0, [WIns [2] 13]); (3, [WIns [3] 1; WBump; WDel [1;2]])] in
  tree_inv t0 2 /\ tree_inv t1 next1 /\ h_chan t1 h <> 0 /\
  h_covers h [1;2] = true /\
  om_get [1;2] (abs_tree (fst (chain_end t1 next1 txns))) <> om_get [1;2] (abs_tree t1) /\
  map (fun cl => existsb (N.eqb (h_chan t1 h)) cl) (chain_closed t1 next1 txns) = [false; true].
Proof.
  cbv zeta.
  assert (I0 : tree_inv (fst (tree_new false 1)) 2) by (apply (tree_inv_new false 1); lia).
  split; [exact I0|]. split.
  - eapply tree_inv_mono; [|exact (proj1 (commit_tree_inv _ 2 [WIns [1] 10; WIns [1;2] 11; WIns [2] 12] I0))].
    vm_compute. discriminate.
  - vm_compute. repeat split; auto; discriminate.
Qed.

Print Assumptions changed_key_closes_handle.
Print Assumptions chain_changed_key_closes_handle.
