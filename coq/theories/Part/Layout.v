(* Part/Layout.v — executable mechanism-level model of the four physical child layouts of
   the adaptive radix tree nodes (part/node.go node4 / node16 / node48 / node256) and of the
   code of part/txn.go that adds a child to / removes a child from an inner node.
   Go counterparts are named next to each definition. No proofs here (Part/LayoutProofs*.v).

   A child is identified by its key byte (header.key() = prefix[0]); nil is [None].
   Arrays are lists of their full length, unused ("stale") slots included: they are part of
   the state (node.go remove leaves keys[newSize] = 255 / children[newSize] = nil behind,
   fresh arrays are 0 / nil, clone copies everything).
   Sizes and slot indices are [nat]; key bytes and the kind tag (= capacity, as in
   Part/Model.v) are [N]. Where the Go code would panic (index out of range, nil
   dereference) the model is total and does something harmless; those places are marked
   "(Go: panic)" and are unreachable from well-formed layouts (LayoutProofs: LWF). *)
From SV Require Export Base.Bytes.
Open Scope N_scope.

(* node4[T] / node16[T] / node48[T] / node256[T] with their header: kind (capacity), size,
   leaf != nil, keys [4]/[16]byte ([] for 48/256), index [256]uint8 ([] unless node48;
   1-based position in children, 0 = absent), children [cap]*header[T] *)
Record layout := mkL {
  l_kind : N;
  l_size : nat;
  l_leaf : bool;
  l_keys : list N;
  l_index : list nat;
  l_children : list (option N) }.

(* header.cap (0 stands for "panic: unknown node kind") *)
Definition l_cap_of (kd : N) : nat :=
  if kd =? 4 then 4%nat else if kd =? 16 then 16%nat else if kd =? 48 then 48%nat
  else if kd =? 256 then 256%nat else 0%nat.
Definition l_cap (l : layout) : nat := l_cap_of (l_kind l).

(* ---- Go array primitives ---- *)
(* a[i] = x   (Go: panic when i is out of range; here: no change) *)
Fixpoint set_nth {A} (i : nat) (x : A) (l : list A) : list A :=
  match l, i with
  | [], _ => []
  | _ :: r, O => x :: r
  | y :: r, S j => y :: set_nth j x r
  end.
(* copy(a[idx+1:size+1], a[idx:size+1]); a[idx] = x   (header.insert, node4/node16) *)
Definition arr_insert {A} (idx size : nat) (x : A) (l : list A) : list A :=
  firstn idx l ++ x :: firstn (size - idx) (skipn idx l) ++ skipn (S size) l.
(* copy(a[idx:size], a[idx+1:size]); a[size-1] = fill   (header.remove, node4/node16) *)
Definition arr_remove {A} (idx size : nat) (fill : A) (l : list A) : list A :=
  firstn idx l ++ firstn (size - S idx) (skipn (S idx) l) ++ fill :: skipn size l.
(* copy(dst[:], src) for len(src) <= len(dst) *)
Definition copy_into {A} (src dst : list A) : list A := src ++ skipn (length src) dst.
(* the elements of l except the one at position i (demotion loops: "if i != index") *)
Definition skip_nth {A} (i : nat) (l : list A) : list A := firstn i l ++ skipn (S i) l.

Definition is_some {A} (o : option A) : bool := match o with Some _ => true | None => false end.
(* child.key() (Go: nil dereference panic for None) *)
Definition child_key (c : option N) : N := match c with Some k => k | None => 0 end.
Definition key_at (ks : list N) (i : nat) : N := nth i ks 0.
Definition child_at (ch : list (option N)) (i : nat) : option N := nth i ch None.

(* header.children(): [0:size] of the array, the whole array for node256 *)
Definition l_children_go (l : layout) : list (option N) :=
  if l_kind l =? 256 then l_children l else firstn (l_size l) (l_children l).
(* the non-nil entries, in slot order: what iteration sees *)
Fixpoint cat_some (l : list (option N)) : list N :=
  match l with [] => [] | Some k :: r => k :: cat_some r | None :: r => cat_some r end.
(* the abstraction: child key bytes in the order of header.children() *)
Definition l_abs (l : layout) : list N := cat_some (l_children_go l).

(* ---- header.findIndex ---- *)
(* node16: for i := 0; i < size; i++ { k := keys[i]; if k >= key { ... } }; return nil, size *)
Fixpoint find16_loop (cnt i : nat) (keys : list N) (ch : list (option N)) (key : N) (size : nat) : bool * nat :=
  match cnt with
  | O => (false, size)
  | S c =>
    let k := key_at keys i in
    if key <=? k then (if k =? key then (is_some (child_at ch i), i) else (false, i))
    else find16_loop c (S i) keys ch key size
  end.
(* node48: for lo < hi { mid := (lo+hi)/2; if children[mid].key() < key { lo = mid+1 } else { hi = mid } } *)
Fixpoint bsearch48 (fuel : nat) (ch : list (option N)) (key : N) (lo hi : nat) : nat :=
  match fuel with
  | O => lo
  | S f =>
    if (lo <? hi)%nat then
      let mid := ((lo + hi) / 2)%nat in
      if child_key (child_at ch mid) <? key then bsearch48 f ch key (S mid) hi
      else bsearch48 f ch key lo mid
    else lo
  end.

(* header.findIndex(key): (child != nil, index) *)
Definition l_findIndex (l : layout) (key : N) : bool * nat :=
  let size := l_size l in
  let keys := l_keys l in
  let ch := l_children l in
  if l_kind l =? 4 then
    (* switch { case keys[0] >= key: i = 0 ... case keys[3] >= key: i = 3 }: all four slots, size ignored *)
    let i := if key <=? key_at keys 0 then 0%nat else if key <=? key_at keys 1 then 1%nat
             else if key <=? key_at keys 2 then 2%nat else if key <=? key_at keys 3 then 3%nat else size in
    if (i <? size)%nat && (key_at keys i =? key) then (is_some (child_at ch i), i) else (false, i)
  else if l_kind l =? 16 then find16_loop size 0 keys ch key size
  else if l_kind l =? 48 then
    let idx := nth (N.to_nat key) (l_index l) 0%nat in
    if negb (idx =? 0)%nat then (is_some (child_at ch (idx - 1)), (idx - 1)%nat)
    else
      (* children[0].key(), children[size-1].key(): (Go: panic when size = 0) *)
      if key <? child_key (child_at ch 0) then (false, 0%nat)
      else if child_key (child_at ch (size - 1)) <? key then (false, size)
      else (false, bsearch48 size ch key 0 size)
  else
    (* node256: children[key], int(key) *)
    (is_some (child_at ch (N.to_nat key)), N.to_nat key).

(* ---- header.find ---- *)
(* bytes.IndexByte(keys[:size], key) then children[idx] *)
Fixpoint find16_scan (cnt i : nat) (keys : list N) (ch : list (option N)) (key : N) : bool :=
  match cnt with
  | O => false
  | S c => if key_at keys i =? key then is_some (child_at ch i) else find16_scan c (S i) keys ch key
  end.
(* header.find(key) != nil *)
Definition l_find (l : layout) (key : N) : bool :=
  let keys := l_keys l in
  let ch := l_children l in
  if l_kind l =? 4 then
    (* switch key { case keys[0]: return children[0] ... case keys[3]: return children[3] }: size ignored *)
    if key_at keys 0 =? key then is_some (child_at ch 0)
    else if key_at keys 1 =? key then is_some (child_at ch 1)
    else if key_at keys 2 =? key then is_some (child_at ch 2)
    else if key_at keys 3 =? key then is_some (child_at ch 3)
    else false
  else if l_kind l =? 16 then find16_scan (l_size l) 0 keys ch key
  else if l_kind l =? 48 then
    let idx := nth (N.to_nat key) (l_index l) 0%nat in
    if (idx =? 0)%nat then false else is_some (child_at ch (idx - 1))
  else is_some (child_at ch (N.to_nat key)).

(* ---- header.insert(idx, child) ---- *)
(* node48: for i := size-1; i >= idx; i-- { c := children[i]; index[c.key()] = i+2; children[i+1] = c }
   [cnt] iterations, [i] counts down. (uint8(i+2) does not truncate: i+1 < 48.) *)
Fixpoint ins48_loop (cnt i : nat) (ix : list nat) (ch : list (option N)) : list nat * list (option N) :=
  match cnt with
  | O => (ix, ch)
  | S c =>
    let cc := child_at ch i in
    let ix' := match cc with Some k => set_nth (N.to_nat k) (i + 2)%nat ix | None => ix (* Go: panic *) end in
    ins48_loop c (i - 1)%nat ix' (set_nth (S i) cc ch)
  end.
Definition l_insert (l : layout) (idx : nat) (child : N) : layout :=
  let size := l_size l in
  if (l_kind l =? 4) || (l_kind l =? 16) then
    mkL (l_kind l) (S size) (l_leaf l)
        (arr_insert idx size child (l_keys l)) (l_index l)
        (arr_insert idx size (Some child) (l_children l))
  else if l_kind l =? 48 then
    let '(ix, ch) := ins48_loop (size - idx) (size - 1) (l_index l) (l_children l) in
    mkL (l_kind l) (S size) (l_leaf l) (l_keys l)
        (set_nth (N.to_nat child) (S idx) ix) (set_nth idx (Some child) ch)
  else
    (* node256: children[child.key()] = child; idx unused *)
    mkL (l_kind l) (S size) (l_leaf l) (l_keys l) (l_index l)
        (set_nth (N.to_nat child) (Some child) (l_children l)).

(* ---- header.remove(idx) ---- *)
(* node48: for i := idx; i < newSize; i++ { child := children[i+1]; children[i] = child; index[child.key()] = i+1 } *)
Fixpoint rem48_loop (cnt i : nat) (ix : list nat) (ch : list (option N)) : list nat * list (option N) :=
  match cnt with
  | O => (ix, ch)
  | S c =>
    let child := child_at ch (S i) in
    let ix' := match child with Some k => set_nth (N.to_nat k) (S i) ix | None => ix (* Go: panic *) end in
    rem48_loop c (S i) ix' (set_nth i child ch)
  end.
Definition l_remove (l : layout) (idx : nat) : layout :=
  let size := l_size l in
  let newSize := (size - 1)%nat in
  if (l_kind l =? 4) || (l_kind l =? 16) then
    mkL (l_kind l) newSize (l_leaf l)
        (arr_remove idx size 255 (l_keys l)) (l_index l)
        (arr_remove idx size None (l_children l))
  else if l_kind l =? 48 then
    (* key := children[idx].key(); loop; index[key] = 0; children[newSize] = nil *)
    let key := child_key (child_at (l_children l) idx) in
    let '(ix, ch) := rem48_loop (newSize - idx) idx (l_index l) (l_children l) in
    mkL (l_kind l) newSize (l_leaf l) (l_keys l)
        (set_nth (N.to_nat key) 0%nat ix) (set_nth newSize None ch)
  else
    (* node256: children[idx] = nil *)
    mkL (l_kind l) newSize (l_leaf l) (l_keys l) (l_index l) (set_nth idx None (l_children l)).

(* ---- header.promote ---- *)
(* node16 -> node48: for i, k := range node16.keys[:size] { node48.index[k] = uint8(i + 1) } *)
Fixpoint promote_index (i : nat) (ks : list N) (ix : list nat) : list nat :=
  match ks with [] => ix | k :: r => promote_index (S i) r (set_nth (N.to_nat k) (S i) ix) end.
(* node48 -> node256: for _, child := range node48.children[:size] { node256.children[child.key()] = child } *)
Fixpoint promote_children256 (cs : list (option N)) (ch : list (option N)) : list (option N) :=
  match cs with
  | [] => ch
  | c :: r => promote_children256 r (set_nth (N.to_nat (child_key c)) c ch)   (* Go: panic on nil c *)
  end.
Definition l_promote (l : layout) : layout :=
  let size := l_size l in
  if l_kind l =? 4 then
    (* node16{}: copy(children[:], n4.children[:size]); copy(keys[:], n4.keys[:size]) *)
    mkL 16 size (l_leaf l)
        (copy_into (firstn size (l_keys l)) (repeat 0 16)) []
        (copy_into (firstn size (l_children l)) (repeat None 16))
  else if l_kind l =? 16 then
    mkL 48 size (l_leaf l) []
        (promote_index 0 (firstn size (l_keys l)) (repeat 0%nat 256))
        (copy_into (firstn size (l_children l)) (repeat None 48))
  else if l_kind l =? 48 then
    mkL 256 size (l_leaf l) [] []
        (promote_children256 (firstn size (l_children l)) (repeat None 256))
  else l.   (* Go: panic("BUG: should not need to promote node256") *)

(* ---- txn.go removeChild(parent, index) ---- *)
(* the new parent, or "replaced by the remaining child" (its key byte; None = Go: nil panic) *)
Inductive lres := LNode (l : layout) | LCollapsed (c : option N).

(* node256 -> node48: for k, n := range children { if k != index && n != nil
     { index[k] = uint8(len(children)+1); children = append(children, n) } } *)
Fixpoint demote256_loop (k : nat) (slots : list (option N)) (index : nat) (ix : list nat) (acc : list (option N))
  : list nat * list (option N) :=
  match slots with
  | [] => (ix, acc)
  | c :: rest =>
    if negb (k =? index)%nat && is_some c
    then demote256_loop (S k) rest index (set_nth k (S (length acc)) ix) (acc ++ [c])
    else demote256_loop (S k) rest index ix acc
  end.

Definition l_removeChild (l : layout) (index : nat) : lres :=
  let size := l_size l in
  if (size =? 2)%nat && negb (l_leaf l) then
    (* (Go: panic("expected node4") unless kind 4.) child := parent.node4().children[remainingIndex] *)
    LCollapsed (child_at (l_children l) (if (index =? 0)%nat then 1%nat else 0%nat))
  else if (l_kind l =? 256) && (size <=? 49)%nat then
    let '(ix, acc) := demote256_loop 0 (l_children l) index (repeat 0%nat 256) [] in
    LNode (mkL 48 (size - 1) (l_leaf l) [] ix (copy_into acc (repeat None 48)))
  else if (l_kind l =? 48) && (size <=? 17)%nat then
    (* for i, child := range parent.children() { if i != index { children[idx] = child; keys[idx] = child.key(); idx++ } } *)
    let cs := skip_nth index (firstn size (l_children l)) in
    LNode (mkL 16 (size - 1) (l_leaf l) (copy_into (map child_key cs) (repeat 0 16)) []
               (copy_into cs (repeat None 16)))
  else if (l_kind l =? 16) && (size <=? 5)%nat then
    (* for i := range size { if i != index { children[idx] = n16.children[i]; keys[idx] = n16.keys[i]; idx++ } } *)
    LNode (mkL 4 (size - 1) (l_leaf l)
               (copy_into (skip_nth index (firstn size (l_keys l))) (repeat 0 4)) []
               (copy_into (skip_nth index (firstn size (l_children l))) (repeat None 4)))
  else
    (* newParent = txn.cloneNode(parent) (arrays copied, stale slots included); newParent.remove(index) *)
    LNode (l_remove l index).

(* ---- txn.go modify: the loop body that adds a child to an inner node ---- *)
(* child, idx := this.findIndex(key[0]); child == nil:
     if this.size()+1 > this.cap() { this = this.promote() } else { this = txn.cloneNode(this) }
     this.insert(idx, leaf)
   child != nil (key [k] already present): the parent is cloned and the child replaced in
   place (children()[idx] = clone of the leaf): the layout does not change. *)
Definition l_add (l : layout) (k : N) : layout :=
  let '(found, idx) := l_findIndex l k in
  if found then l
  else
    let this := if (l_cap l <? l_size l + 1)%nat then l_promote l else l in
    l_insert this idx k.

(* ---- txn.go delete, for a child that is a leaf: target, idx = parent.findIndex(key[0]);
   nil: not found, nothing changes; else parent.node = txn.removeChild(parent.node, idx) ---- *)
Definition l_del (l : layout) (k : N) : lres :=
  let '(found, idx) := l_findIndex l k in
  if found then l_removeChild l idx else LNode l.

(* header.setLeaf *)
Definition l_setleaf (l : layout) (b : bool) : layout :=
  mkL (l_kind l) (l_size l) b (l_keys l) (l_index l) (l_children l).

(* ---- the root of a tree holding only keys of length <= 1 (the harness' trees) ---- *)
(* Txn.root: nil | a leaf[T] with key [] (None) or [k] | an inner node with empty prefix *)
Inductive lroot := RNil | RLeaf (k : option N) | RNode (l : layout).

(* txn.go modify, tail: newNode := &node4[T]{}; children[0..1] / keys[0..1] / setSize *)
Definition new_node4 (lf : bool) (ks : list N) : layout :=
  mkL 4 (length ks) lf (copy_into ks (repeat 0 4)) [] (copy_into (map (@Some N) ks) (repeat None 4)).

(* Txn.Insert([]byte{k}, v) *)
Definition r_add (r : lroot) (k : N) : lroot :=
  match r with
  | RNil => RLeaf (Some k)                                  (* root == nil: newLeaf *)
  | RLeaf None => RNode (new_node4 true [k])               (* "target has shorter key than new leaf" *)
  | RLeaf (Some j) =>
    if j =? k then r                                        (* exact match: value replaced *)
    else if j <? k then RNode (new_node4 false [j; k])      (* "target node has smaller key than new leaf" *)
    else RNode (new_node4 false [k; j])
  | RNode l => RNode (l_add l k)
  end.
(* Txn.Insert([]byte{}, v) *)
Definition r_addleaf (r : lroot) : lroot :=
  match r with
  | RNil => RLeaf None
  | RLeaf None => r
  | RLeaf (Some j) => RNode (new_node4 true [j])            (* "new leaf has shorter key than target" *)
  | RNode l => RNode (l_setleaf l true)                     (* exact match on a non-leaf node *)
  end.
(* Txn.Delete([]byte{k}) *)
Definition r_del (r : lroot) (k : N) : lroot :=
  match r with
  | RNil => r
  | RLeaf None => r                                         (* leaf.findIndex = nil, 0 *)
  | RLeaf (Some j) => if j =? k then RNil else r
  | RNode l =>
    match l_del l k with
    | LNode l' => RNode l'
    | LCollapsed (Some c) => RLeaf (Some c)
    | LCollapsed None => RNil                               (* Go: nil panic *)
    end
  end.
(* Txn.Delete([]byte{}): target == root *)
Definition r_delleaf (r : lroot) : lroot :=
  match r with
  | RNil => r
  | RLeaf None => RNil
  | RLeaf (Some _) => r
  | RNode l =>
    if l_leaf l then
      if (l_size l =? 0)%nat then RNil
      else if (l_size l =? 1)%nat then
        match child_at (l_children_go l) 0 with Some c => RLeaf (Some c) | None => RNil (* Go: nil panic *) end
      else RNode (l_setleaf l false)
    else r
  end.
(* VerifFind / VerifFindIndex: false / (false, 0) unless the root is an inner node *)
Definition r_find (r : lroot) (k : N) : bool := match r with RNode l => l_find l k | _ => false end.
Definition r_findIndex (r : lroot) (k : N) : bool * nat :=
  match r with RNode l => l_findIndex l k | _ => (false, 0%nat) end.
