(* Part/LayoutRefuted.v — seeded-style variants of the node layout code, refuted by concrete
   witnesses (vm_compute): why each detail of header.remove / removeChild / the stale-slot
   pattern matters. *)
From SV Require Import Part.Layout Part.LayoutBase Part.LayoutKeyed Part.Layout48 Part.Layout256 Part.LayoutProofs.
From Coq Require Import ZifyN ZifyNat ZifyBool.
Close Scope N_scope.

Lemma LInv_fold : forall ks l, LInv l -> Forall (fun k => (k < 256)%N) ks -> LInv (fold_left l_add ks l).
Proof.
  induction ks as [|k r IH]; intros l HI HB; cbn [fold_left]; [exact HI|].
  apply Forall_cons_iff in HB. destruct HB as [Hk HB]. apply IH; [apply LInv_add; assumption|exact HB].
Qed.
Lemma LInv_empty : LInv (new_node4 false []).
Proof. apply LInv_new_node4; [split; cbn; auto|cbn; lia]. Qed.
Lemma bytes_seq : forall a n, a + n <= 256 -> Forall (fun k => (k < 256)%N) (map N.of_nat (seq a n)).
Proof. intros a n H. apply Forall_forall. intros k Hk. apply in_map_iff in Hk. destruct Hk as (j & <- & Hj). apply in_seq in Hj. lia. Qed.

(* (1) node4/node16 remove that does not clear the vacated child slot (node.go: children[newSize] = nil
   omitted): node4's find ignores the size, so the stale key 255 written by the same remove finds the
   stale child. *)
Definition l_remove_noclear (l : layout) (idx : nat) : layout :=
  let size := l_size l in
  mkL (l_kind l) (size - 1) (l_leaf l) (arr_remove idx size 255%N (l_keys l)) (l_index l)
      (arr_remove idx size (child_at (l_children l) (size - 1)) (l_children l)).

Theorem remove_noclear_refuted : exists l idx key,
  LInv l /\ idx < l_size l /\
  l_find (l_remove_noclear l idx) key = true /\ ~ In key (l_abs (l_remove_noclear l idx)).
Proof.
  exists (fold_left l_add [1%N; 2%N] (new_node4 true [])), 0, 255%N.
  split; [apply LInv_fold; [apply LInv_new_node4; [split; cbn; auto|cbn; lia]|repeat constructor]|].
  split; [vm_compute; lia|]. split; [vm_compute; reflexivity|].
  vm_compute. intros [H|[]]. discriminate.
Qed.

(* (2) the stale-slot pattern (255s before 0s) is needed by node4's findIndex, which looks at all
   four key slots: with a 0 before a 255 it returns an index beyond the size (header.insert would
   then slice children[4:3] and panic) *)
Theorem stale_pattern_needed_refuted : exists l key,
  l_kind l = 4%N /\ l_size l = 2 /\ l_abs l = [5%N; 9%N] /\
  l_keys l = [5%N; 9%N; 0%N; 255%N] /\ l_children l = [Some 5%N; Some 9%N; None; None] /\
  snd (l_findIndex l key) = 3 /\ rank key (l_abs l) = 2.
Proof.
  exists (mkL 4 2 false [5%N; 9%N; 0%N; 255%N] [] [Some 5%N; Some 9%N; None; None]), 200%N.
  vm_compute. repeat split; reflexivity.
Qed.

(* (3) node48 remove that forgets "index[key] = 0": find still finds the removed key *)
Definition l_remove48_noindex (l : layout) (idx : nat) : layout :=
  let newSize := l_size l - 1 in
  let '(ix, ch) := rem48_loop (newSize - idx) idx (l_index l) (l_children l) in
  mkL (l_kind l) newSize (l_leaf l) (l_keys l) ix (set_nth newSize None ch).

Definition node48_0_17 : layout := fold_left l_add (map N.of_nat (seq 0 18)) (new_node4 false []).

Theorem remove48_noindex_refuted : exists l idx key,
  LInv l /\ l_kind l = 48%N /\ l_findIndex l key = (true, idx) /\
  l_find (l_remove48_noindex l idx) key = true /\ ~ In key (l_abs (l_remove48_noindex l idx)).
Proof.
  exists node48_0_17, 0, 0%N.
  split; [apply LInv_fold; [exact LInv_empty|apply bytes_seq; lia]|].
  split; [vm_compute; reflexivity|]. split; [vm_compute; reflexivity|]. split; [vm_compute; reflexivity|].
  vm_compute. intros H. repeat (destruct H as [H|H]; [discriminate|]). exact H.
Qed.

(* (4) a demotion threshold off by one (node48 -> node16 only when size <= 16): removeChild leaves a
   node48 with 16 children behind, below the occupancy bound of its kind (validateTree:
   "node48 has fewer children than 17"), and the kind differs from Part/Model.v's remove_child *)
Definition l_removeChild_t16 (l : layout) (index : nat) : lres :=
  let size := l_size l in
  if (l_kind l =? 48)%N && (size <=? 16) then l_removeChild l index
  else if (l_kind l =? 48)%N then LNode (l_remove l index) else l_removeChild l index.

Theorem demote_threshold_refuted : exists l idx l',
  LInv l /\ l_removeChild_t16 l idx = LNode l' /\ ~ LOcc l' /\
  l_kind l' <> del_kind (l_kind l) (l_size l).
Proof.
  exists (fold_left l_add (map N.of_nat (seq 0 17)) (new_node4 false [])), 3.
  eexists. split; [apply LInv_fold; [exact LInv_empty|apply bytes_seq; lia]|].
  split; [vm_compute; reflexivity|]. split.
  - intros (_ & H48 & _). cbn [l_kind l_size] in H48. specialize (H48 eq_refl). lia.
  - vm_compute. discriminate.
Qed.
