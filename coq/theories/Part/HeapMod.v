(* Part/HeapMod.v — Txn.modify on the heap (Part/Heap.v hmod) refines Part/Model.v modify_node:
   same outputs, the new root represents the model's new tree; writes go only to cells of the
   footprint (owned cells under the root), everything else is appended. Also the lemmas about
   child lists, node replacement ([node_finish]) and merge shared with HeapDel.v. *)
From SV Require Import Base.Bytes Part.Model Part.Sem Part.Heap Part.HeapBase.
From Coq Require Import ZArith List Bool Lia ZifyN ZifyNat ZifyBool.
Import ListNotations.
Open Scope N_scope.

Lemma modify_ch_find c md fk v s b key : forall ch,
  modify_ch c md fk v s ch b key =
  match ch_find b ch with
  | Some x => Some (ch_set b (m_node (modify_node c md fk v s x key)) ch, modify_node c md fk v s x key)
  | None => None
  end.
Proof.
  induction ch as [|b' x r IH]; [reflexivity|].
  cbn [modify_ch ch_find ch_set]; fold (modify_node c md fk v); fold (modify_ch c md fk v).
  destruct (b' =? b); [reflexivity|]. rewrite IH. destruct (ch_find b r); reflexivity.
Qed.

Lemma ch_find_height b : forall ch x, ch_find b ch = Some x -> (height x <= height_ch ch)%nat.
Proof.
  induction ch as [|b' y r IH]; intros x; cbn [ch_find height_ch]; [discriminate|].
  destruct (b' =? b); [intros [= ->]; lia|]. intros H. specialize (IH _ H). lia.
Qed.

Lemma node_prefix_set n q : node_prefix (set_prefix n q) = q.
Proof. destruct n; reflexivity. Qed.

(* P holds of every address not yet allocated *)
Definition Pext {P : nat -> Prop} (h : heap) : Prop := forall x, (length h <= x)%nat -> P x.
Lemma Pext_mono {P : nat -> Prop} h h' : @Pext P h -> (length h <= length h')%nat -> @Pext P h'.
Proof. intros H L x Hx. apply H. lia. Qed.

Section Common.
Context {P : nat -> Prop}.
Variable c : ctx.
Notation tid := (c_tid c).
Hypothesis T0 : 0 < tid.

Notation Trep := (@trep P tid).
Notation Tchs := (@tchs P tid).
Notation Plrep := (@plrep P).
Notation owned := (owned_cell tid).
Notation Ext := (ext tid).

Lemma clone_hdr_tid s t w t' w' s' : clone_hdr c s t w = (t', w', s') -> t' = tid.
Proof.
  unfold clone_hdr. destruct (N.eqb_spec t tid) as [E|_]; [intros [= <- _ _]; exact E|].
  destruct (fresh c (record w s)). intros [= <- _ _]. reflexivity.
Qed.

Lemma trep_inv h a t F : Trep h a t F ->
  (exists p l, t = Leaf p l /\ nth_error h a = Some (CLeaf p l) /\ P a /\ F = []) \/
  (exists kd t0 p w ol tch lf ch Fc, t = Inner kd t0 p w ol tch /\
     nth_error h a = Some (CInner kd t0 p w lf ch) /\ Plrep h lf ol /\ Tchs h ch tch Fc /\
     ((t0 < tid /\ P a /\ Fc = [] /\ F = []) \/ (t0 = tid /\ ~ In a Fc /\ F = a :: Fc))).
Proof.
  intros T. destruct T as [a p l Hn Pa|a kd t p w lf ch ol tch Hn Ht Pa Hl Tc|a kd p w lf ch ol tch F Hn Hl Tc Na].
  - left. eauto 8.
  - right. exists kd, t, p, w, ol, tch, lf, ch, []. auto 10.
  - right. exists kd, tid, p, w, ol, tch, lf, ch, F. auto 10.
Qed.

(* ---------- child lists ---------- *)
Lemma tchs_len h ch tch F : Tchs h ch tch F -> hc_len ch = ch_len tch.
Proof. induction 1 as [|b x r n tr F1 F2 _ _ IH _]; cbn [hc_len ch_len]; congruence. Qed.

Lemma tchs_find_none h b ch tch F : Tchs h ch tch F -> hc_find b ch = None -> ch_find b tch = None.
Proof.
  induction 1 as [|b' x r n tr F1 F2 _ _ IH _]; cbn [hc_find ch_find]; [auto|].
  destruct (b' =? b); [discriminate|auto].
Qed.

Definition sub (F' F : list nat) (h : heap) : Prop := forall y, In y F' -> In y F \/ (length h <= y)%nat.

Lemma tchs_F_lt h ch tch F : Tchs h ch tch F -> forall x, In x F -> (x < length h)%nat.
Proof. intros T x Hx. eapply owned_lt. eapply (proj2 (trep_F_cell tid h)); eauto. Qed.
Lemma trep_F_lt h a t F : Trep h a t F -> forall x, In x F -> (x < length h)%nat.
Proof. intros T x Hx. eapply owned_lt. eapply (proj1 (trep_F_cell tid h)); eauto. Qed.

(* the zipper: take the child for byte b out, put a new child back after the heap was extended
   by writes inside the old child's footprint *)
Lemma tchs_split h b ch tch F : Tchs h ch tch F -> forall cc, hc_find b ch = Some cc ->
  exists n Fn, ch_find b tch = Some n /\ Trep h cc n Fn /\ incl Fn F /\
    forall h' W c' n' Fn', Ext h h' W -> incl W Fn -> (forall x, In x W -> owned h x) ->
      Trep h' c' n' Fn' -> sub Fn' Fn h ->
      exists F', Tchs h' (hc_set b c' ch) (ch_set b n' tch) F' /\ sub F' F h.
Proof.
  induction 1 as [|b' x r n tr F1 F2 T1 T2 IH D]; intros cc; cbn [hc_find ch_find hc_set ch_set]; [discriminate|].
  destruct (b' =? b).
  - intros [= <-]. exists n, F1. split; [reflexivity|]. split; [exact T1|]. split; [apply incl_appl, incl_refl|].
    intros h' W c' n' Fn' E IW OW T' S. exists (Fn' ++ F2). split.
    + constructor; [exact T'| |].
      * eapply (proj2 (trep_ext tid h h' W T0 E OW)); [exact T2|]. intros y Hy Hy2. exact (D y (IW y Hy) Hy2).
      * intros y Hy Hy2. destruct (S y Hy) as [H|H]; [exact (D y H Hy2)|].
        pose proof (tchs_F_lt _ _ _ _ T2 y Hy2). lia.
    + intros y Hy. apply in_app_or in Hy as [Hy|Hy]; [destruct (S y Hy); [left; apply in_or_app|]; auto|left; apply in_or_app; auto].
  - intros Hf. destruct (IH cc Hf) as (n0 & Fn & Hc & Tn & In2 & K). exists n0, Fn. split; [exact Hc|].
    split; [exact Tn|]. split; [apply incl_appr, In2|].
    intros h' W c' n' Fn' E IW OW T' S. destruct (K h' W c' n' Fn' E IW OW T' S) as (F' & Tc' & S').
    exists (F1 ++ F'). split.
    + constructor; [|exact Tc'|].
      * eapply (proj1 (trep_ext tid h h' W T0 E OW)); [exact T1|]. intros y Hy Hy1. exact (D y Hy1 (In2 y (IW y Hy))).
      * intros y Hy1 Hy. destruct (S' y Hy) as [H|H]; [exact (D y Hy1 H)|].
        pose proof (trep_F_lt _ _ _ _ T1 y Hy1). lia.
    + intros y Hy. apply in_app_or in Hy as [Hy|Hy]; [left; apply in_or_app; auto|].
      destruct (S' y Hy); [left; apply in_or_app|]; auto.
Qed.

Lemma tchs_insert_frozen h b la n ch tch F : Tchs h ch tch F -> Trep h la n [] ->
  Tchs h (hc_insert b la ch) (ch_insert b n tch) F.
Proof.
  intros T Tl. induction T as [|b' x r n' tr F1 F2 T1 T2 IH D]; cbn [hc_insert ch_insert].
  - change (@nil nat) with (@nil nat ++ []). constructor; [exact Tl|constructor|apply disj_nil_l].
  - destruct (b <? b').
    + change (F1 ++ F2) with ([] ++ (F1 ++ F2)). constructor; [exact Tl|constructor; auto|apply disj_nil_l].
    + constructor; auto.
Qed.

Lemma tchs_remove h b ch tch F : Tchs h ch tch F ->
  exists F', Tchs h (hc_remove b ch) (ch_remove b tch) F' /\ incl F' F.
Proof.
  induction 1 as [|b' x r n tr F1 F2 T1 T2 IH D]; cbn [hc_remove ch_remove].
  - exists []. split; [constructor|apply incl_refl].
  - destruct (b' =? b).
    + exists F2. split; [exact T2|apply incl_appr, incl_refl].
    + destruct IH as (F' & T' & I'). exists (F1 ++ F'). split.
      * constructor; auto. intros y H1 H2. exact (D y H1 (I' y H2)).
      * apply incl_app; [apply incl_appl, incl_refl|apply incl_appr, I'].
Qed.

Lemma tchs_other h b ch tch F : Tchs h ch tch F ->
  match hc_other b ch with
  | None => ch_other b tch = None
  | Some x => exists n Fn, ch_other b tch = Some n /\ Trep h x n Fn /\ incl Fn F
  end.
Proof.
  induction 1 as [|b' x r n tr F1 F2 T1 T2 IH D]; cbn [hc_other ch_other]; [reflexivity|].
  destruct (b' =? b).
  - destruct (hc_other b r) as [y|]; [|exact IH]. destruct IH as (n0 & Fn & H1 & H2 & H3).
    exists n0, Fn. split; [exact H1|]. split; [exact H2|apply incl_appr, H3].
  - exists n, F1. split; [reflexivity|]. split; [exact T1|apply incl_appl, incl_refl].
Qed.

(* ---------- replacing a node: cloneNode + writes ---------- *)
Lemma tchs_ext h h' W ch tch F : Ext h h' W -> (forall x, In x W -> owned h x) -> Tchs h ch tch F ->
  disj W F -> Tchs h' ch tch F.
Proof. intros E OW T D. eapply (proj2 (trep_ext tid h h' W T0 E OW)); eauto. Qed.
Lemma trep_ext1 h h' W a t F : Ext h h' W -> (forall x, In x W -> owned h x) -> Trep h a t F ->
  disj W F -> Trep h' a t F.
Proof. intros E OW T D. eapply (proj1 (trep_ext tid h h' W T0 E OW)); eauto. Qed.

Lemma node_alloc h kd p w lf ch ol tch Fc : Plrep h lf ol -> Tchs h ch tch Fc ->
  let nc := CInner kd tid p w lf ch in
  Trep (h ++ [nc]) (length h) (Inner kd tid p w ol tch) (length h :: Fc) /\ Ext h (h ++ [nc]) [].
Proof.
  intros Hl Tc nc. assert (E : Ext h (h ++ [nc]) []) by apply ext_alloc. split; [|exact E].
  assert (OW : forall x, In x (@nil nat) -> owned h x) by (intros x []).
  apply (tr_own tid _ _ kd p w lf ch ol tch Fc).
  - apply nth_error_app_new.
  - eapply plrep_ext; eauto.
  - eapply tchs_ext; eauto. apply disj_nil_l.
  - intros Hi. pose proof (tchs_F_lt _ _ _ _ Tc _ Hi). lia.
Qed.

Lemma node_finish h a kd t0 p0 w0 lf0 ch0 Fc F h' W kd' p' w' lf' ch' ol' tch' Fc' :
  nth_error h a = Some (CInner kd t0 p0 w0 lf0 ch0) ->
  ((t0 < tid /\ P a /\ Fc = [] /\ F = []) \/ (t0 = tid /\ ~ In a Fc /\ F = a :: Fc)) ->
  Ext h h' W -> incl W Fc ->
  Plrep h' lf' ol' -> Tchs h' ch' tch' Fc' -> sub Fc' Fc h ->
  forall h2 a2, hput c h' a t0 (CInner kd' tid p' w' lf' ch') = (h2, a2) ->
  Trep h2 a2 (Inner kd' tid p' w' ol' tch') (a2 :: Fc') /\ sub (a2 :: Fc') F h /\ Ext h h2 F.
Proof.
  intros Hn St E IW Hl Tc S h2 a2. unfold hput, alloc.
  pose proof E as (L & _ & OE).
  destruct St as [(Ht & Pa & -> & ->)|(-> & Na & ->)].
  - destruct (N.eqb_spec t0 tid) as [Et|_]; [lia|]. intros [= <- <-].
    destruct (node_alloc h' kd' p' w' lf' ch' ol' tch' Fc' Hl Tc) as (T' & E').
    split; [exact T'|]. split.
    + intros y [<-|Hy]; [right; lia|]. destruct (S y Hy) as [[]|H]. right; exact H.
    + eapply ext_weaken; [eapply ext_trans; eauto|]. intros y Hy. apply in_app_or in Hy as [Hy|[]]. exact (IW y Hy).
  - rewrite N.eqb_refl. intros [= <- <-].
    assert (La : (a < length h)%nat) by (eapply nth_error_lt; eauto).
    assert (Oa : owned h a) by (red; eauto 8).
    assert (Oa' : owned h' a) by auto.
    assert (Na' : ~ In a Fc'). { intros Hi. destruct (S a Hi) as [H|H]; [exact (Na H)|lia]. }
    set (nc := CInner kd' tid p' w' lf' ch').
    assert (E' : Ext h' (upd h' a nc) [a]) by (apply ext_upd; lia).
    assert (OW : forall x, In x [a] -> owned h' x) by (intros x [<-|[]]; exact Oa').
    split; [|split].
    + apply (tr_own tid _ _ kd' p' w' lf' ch' ol' tch' Fc').
      * apply nth_error_upd_eq. lia.
      * eapply plrep_ext; eauto.
      * eapply tchs_ext; eauto. intros y [<-|[]] Hy. exact (Na' Hy).
      * exact Na'.
    + intros y [<-|Hy]; [left; now left|]. destruct (S y Hy) as [H|H]; [left; now right|right; exact H].
    + eapply ext_weaken; [eapply ext_trans; eauto|]. intros y Hy. apply in_app_or in Hy as [Hy|[<-|[]]]; [right; exact (IW y Hy)|now left].
Qed.

(* childClone := child.clone(false); watch retained; prefix extended: a new cell with the child's id *)
Lemma hmerge_spec h pp x n Fn : @Pext P h -> Trep h x n Fn ->
  forall h1 x', hmerge h pp x = (h1, x') ->
  exists F', Trep h1 x' (merge_child pp n) F' /\ sub F' Fn h /\ Ext h h1 [].
Proof.
  intros PE T h1 x'. unfold hmerge, alloc. intros [= <- <-].
  assert (OW : forall y, In y (@nil nat) -> owned h y) by (intros y []).
  destruct (trep_inv _ _ _ _ T) as [(p & l & -> & Hn & Pa & ->)|(kd & t0 & p & w & ol & tch & lf & ch & Fc & -> & Hn & Hl & Tc & St)];
    rewrite (hget_some _ _ _ Hn); cbn [cell_set_prefix cell_prefix merge_child set_prefix node_prefix].
  - exists []. split; [|split; [intros y []|apply ext_alloc]]. constructor; [apply nth_error_app_new|apply PE; lia].
  - destruct St as [(Ht & Pa & -> & ->)|(-> & Na & ->)].
    + exists []. split; [|split; [intros y []|apply ext_alloc]].
      apply (tr_old tid _ _ kd t0 (pp ++ p) w lf ch ol tch); [apply nth_error_app_new|exact Ht|apply PE; lia| |].
      * eapply plrep_ext; eauto. apply ext_alloc.
      * eapply tchs_ext; eauto; [apply ext_alloc|apply disj_nil_l].
    + destruct (node_alloc h kd (pp ++ p) w lf ch ol tch Fc Hl Tc) as (T' & E'). exists (length h :: Fc).
      split; [exact T'|]. split; [|exact E']. intros y [<-|Hy]; [right; lia|left; now right].
Qed.
End Common.

(* ---------- Txn.modify ---------- *)
Section Modify.
Context {P : nat -> Prop}.
Variable c : ctx.
Notation tid := (c_tid c).
Hypothesis T0 : 0 < tid.
Variable md : option (N -> N -> N).
Variable fk : bytes.
Variable v : N.

Notation Trep := (@trep P tid).
Notation Tchs := (@tchs P tid).
Notation Plrep := (@plrep P).
Notation owned := (owned_cell tid).
Notation Ext := (ext tid).
Notation PExt := (@Pext P).

(* the heap result agrees with the model result: outputs, representation, frame *)
Definition mspec (h : heap) (F : list nat) (r : hres) (m : mres) : Prop :=
  r_st r = m_st m /\ r_old r = m_old m /\ r_w r = m_w m /\ r_val r = m_val m /\
  exists F', Trep (r_heap r) (r_addr r) (m_node m) F' /\ sub F' F h /\ Ext h (r_heap r) F.

Lemma mspec_weaken h0 F0 h F r m : mspec h F r m -> Ext h0 h F0 -> incl F F0 -> mspec h0 F0 r m.
Proof.
  intros (A & B & C & D & F' & T & S & E) E0 I. split; [exact A|]. split; [exact B|]. split; [exact C|]. split; [exact D|].
  exists F'. split; [exact T|]. split.
  - intros y Hy. destruct (S y Hy) as [H|H]; [left; auto|right]. destruct E0 as (L & _). lia.
  - eapply ext_weaken; [eapply ext_trans; eauto|]. intros y Hy. apply in_app_or in Hy as [Hy|Hy]; auto.
Qed.

Lemma leaf_alloc h p l : PExt h -> Trep (h ++ [CLeaf p l]) (length h) (Leaf p l) [] /\ Plrep (h ++ [CLeaf p l]) (Some (length h)) (Some l).
Proof.
  intros PE. split; [constructor; [apply nth_error_app_new|apply PE; lia]|].
  cbn [plrep]. split; [apply PE; lia|]. exists p, l. split; [apply nth_error_app_new|reflexivity].
Qed.

(* the split tail *)
Lemma hsplit_spec s h ta this key tl Fthis : PExt h ->
  let cp := common key (node_prefix this) in
  let this' := set_prefix this (skipn (length cp) (node_prefix this)) in
  Trep h ta this' Fthis -> Plrep h tl (node_leaf this') ->
  mspec h Fthis (hsplit c fk v s h ta (node_prefix this') tl cp (skipn (length cp) key)) (split_node c fk v s this key).
Proof.
  intros PE cp this' T Hl. unfold hsplit, split_node, alloc. fold cp. fold this'.
  destruct (fresh c s) as [lw s1]. destruct (fresh c s1) as [nw s2].
  set (key' := skipn (length cp) key). set (nl := mkLeaf fk v lw).
  set (h1 := h ++ [CLeaf key' nl]).
  destruct (leaf_alloc h key' nl PE) as (TL & PL). fold h1 in TL, PL.
  assert (E1 : Ext h h1 []) by apply ext_alloc.
  assert (OW : forall y, In y (@nil nat) -> owned h y) by (intros y []).
  assert (T1 : Trep h1 ta this' Fthis) by (eapply trep_ext1; eauto; apply disj_nil_l).
  assert (Hl1 : Plrep h1 tl (node_leaf this')) by (eapply plrep_ext; eauto).
  assert (L1 : length h1 = S (length h)) by (unfold h1; rewrite app_length; simpl; lia).
  assert (Fin : forall lf ch ol tch Fc, Plrep h1 lf ol -> Tchs h1 ch tch Fc -> sub Fc Fthis h ->
            mspec h Fthis (mkHR (h1 ++ [CInner 4 tid cp nw lf ch]) (length h1) s2 None lw v)
                          (mkM (Inner 4 tid cp nw ol tch) s2 None lw v)).
  { intros lf ch ol tch Fc Hlf Tc S. repeat (split; [reflexivity|]). cbn [r_heap r_addr m_node].
    destruct (node_alloc c T0 h1 4 cp nw lf ch ol tch Fc Hlf Tc) as (T' & E').
    exists (length h1 :: Fc). split; [exact T'|]. split.
    - intros y [<-|Hy]; [right; lia|auto].
    - eapply ext_weaken; [eapply ext_trans; eauto|]. intros y []. }
  cbn [r_heap r_addr r_st r_old r_w r_val].
  destruct (node_prefix this') as [|tb tpl] eqn:Etp.
  - apply (Fin tl [(hd 0 key', length h)] (node_leaf this') (CCons (hd 0 key') (Leaf key' nl) CNil) []).
    + exact Hl1.
    + change (@nil nat) with (@nil nat ++ []). constructor; [exact TL|constructor|apply disj_nil_l].
    + intros y [].
  - destruct key' as [|kb kl] eqn:Ek.
    + apply (Fin (Some (length h)) [(tb, ta)] (Some nl) (CCons tb this' CNil) (Fthis ++ [])).
      * exact PL.
      * constructor; [exact T1|constructor|apply disj_nil_r].
      * intros y Hy. rewrite app_nil_r in Hy. auto.
    + destruct (tb <? kb).
      * apply (Fin None [(tb, ta); (kb, length h)] None (CCons tb this' (CCons kb (Leaf (kb :: kl) nl) CNil)) (Fthis ++ ([] ++ []))).
        -- reflexivity.
        -- constructor; [exact T1| |apply disj_nil_r]. constructor; [exact TL|constructor|apply disj_nil_l].
        -- intros y Hy. cbn [app] in Hy. rewrite app_nil_r in Hy. auto.
      * apply (Fin None [(kb, length h); (tb, ta)] None (CCons kb (Leaf (kb :: kl) nl) (CCons tb this' CNil)) ([] ++ (Fthis ++ []))).
        -- reflexivity.
        -- constructor; [exact TL| |apply disj_nil_l]. constructor; [exact T1|constructor|apply disj_nil_r].
        -- intros y Hy. cbn [app] in Hy. rewrite app_nil_r in Hy. auto.
Qed.

Theorem hmod_spec : forall f s h a key t F, PExt h -> Trep h a t F -> (height t <= f)%nat ->
  mspec h F (hmod c md fk v f s h a key) (modify_node c md fk v s t key).
Proof.
  induction f as [|f IH]; intros s h a key t F PE T Hh; [destruct t; cbn [height] in Hh; lia|].
  assert (OW0 : forall y, In y (@nil nat) -> owned h y) by (intros y []).
  destruct (trep_inv c _ _ _ _ T) as [(p & l & -> & Hn & Pa & ->)|(kd & t0 & p & w & ol & tch & lf & ch & Fc & -> & Hn & Hl & Tc & St)];
    cbn [hmod modify_node]; fold (modify_ch c md fk v); rewrite (hget_some _ _ _ Hn).
  - (* leaf *)
    destruct (bytes_eqb key p).
    + unfold hleaf_update, alloc. destruct (clone_leaf c s l) as [l' s']. destruct (N.eqb_spec 0 tid) as [E0|_]; [lia|].
      repeat (split; [reflexivity|]). cbn [r_heap r_addr m_node lf_w lf_val lf_key].
      exists []. split; [apply leaf_alloc; exact PE|]. split; [intros y []|apply ext_alloc].
    + unfold alloc. set (cp := common key p). set (h1 := h ++ [CLeaf (skipn (length cp) p) l]).
      destruct (leaf_alloc h (skipn (length cp) p) l PE) as (TL & PL). fold h1 in TL, PL.
      assert (E1 : Ext h h1 []) by apply ext_alloc.
      assert (PE1 : PExt h1) by (eapply Pext_mono; [exact PE|apply E1]).
      pose proof (hsplit_spec s h1 (length h) (Leaf p l) key (Some (length h)) [] PE1) as K.
      cbn [node_prefix set_prefix node_leaf] in K. fold cp in K. specialize (K TL PL).
      eapply mspec_weaken; [exact K|exact E1|apply incl_refl].
  - (* inner node *)
    assert (SubFc : incl Fc F). { destruct St as [(_ & _ & -> & ->)|(_ & _ & ->)]; [apply incl_refl|apply incl_tl, incl_refl]. }
    destruct (strip p key) as [[|b rest]|] eqn:Es.
    + (* exact match *)
      destruct (clone_hdr c s t0 w) as [[t' w'] s1] eqn:Ec. pose proof (clone_hdr_tid c _ _ _ _ _ _ Ec) as ->.
      destruct lf as [la|]; cbn [plrep] in Hl.
      * destruct Hl as (Pla & q & l & Hq & ->). rewrite (hget_some _ _ _ Hq). cbn [cell_leafrec cell_prefix].
        unfold hleaf_update, alloc. destruct (clone_leaf c s1 l) as [l' s2]. destruct (N.eqb_spec 0 tid) as [E0|_]; [lia|].
        set (nl := mkLeaf (lf_key l') (new_val md v (lf_val l)) (lf_w l')).
        set (h1 := h ++ [CLeaf q nl]).
        destruct (leaf_alloc h q nl PE) as (_ & PL). fold h1 in PL.
        assert (E1 : Ext h h1 []) by apply ext_alloc.
        destruct (hput c h1 a t0 (CInner kd tid p w' (Some (length h)) ch)) as [h2 a2] eqn:Ep.
        assert (Tc1 : Tchs h1 ch tch Fc) by (eapply tchs_ext; eauto; apply disj_nil_l).
        destruct (node_finish c T0 h a kd t0 p w (Some la) ch Fc F h1 [] kd p w' (Some (length h)) ch (Some nl) tch Fc
                    Hn St E1 (incl_nil_l _) PL Tc1 (fun y Hy => or_introl Hy) h2 a2 Ep) as (T' & S' & E').
        repeat (split; [reflexivity|]). cbn [r_heap r_addr m_node]. eauto.
      * subst ol. destruct (fresh c s1) as [lw s2]. unfold alloc.
        set (nl := mkLeaf fk v lw). set (h1 := h ++ [CLeaf p nl]).
        destruct (leaf_alloc h p nl PE) as (_ & PL). fold h1 in PL.
        assert (E1 : Ext h h1 []) by apply ext_alloc.
        destruct (hput c h1 a t0 (CInner kd tid p w' (Some (length h)) ch)) as [h2 a2] eqn:Ep.
        assert (Tc1 : Tchs h1 ch tch Fc) by (eapply tchs_ext; eauto; apply disj_nil_l).
        destruct (node_finish c T0 h a kd t0 p w None ch Fc F h1 [] kd p w' (Some (length h)) ch (Some nl) tch Fc
                    Hn St E1 (incl_nil_l _) PL Tc1 (fun y Hy => or_introl Hy) h2 a2 Ep) as (T' & S' & E').
        repeat (split; [reflexivity|]). cbn [r_heap r_addr m_node]. eauto.
    + (* descend / free slot *)
      destruct (clone_hdr c s t0 w) as [[t' w'] s1] eqn:Ec. pose proof (clone_hdr_tid c _ _ _ _ _ _ Ec) as ->.
      rewrite modify_ch_find.
      destruct (hc_find b ch) as [cc|] eqn:Ef.
      * destruct (tchs_split c T0 h b ch tch Fc Tc cc Ef) as (n & Fn & Hcf & Tn & InFn & K). rewrite Hcf.
        assert (Hh' : (height n <= f)%nat). { pose proof (ch_find_height _ _ _ Hcf). cbn [height] in Hh. lia. }
        destruct (IH s1 h cc (b :: rest) n Fn PE Tn Hh') as (A1 & A2 & A3 & A4 & Fn' & Tn' & Sn' & En').
        set (r := hmod c md fk v f s1 h cc (b :: rest)) in *. set (m := modify_node c md fk v s1 n (b :: rest)) in *.
        assert (OWn : forall y, In y Fn -> owned h y) by (intros y Hy; eapply (proj1 (trep_F_cell tid h)); eauto).
        destruct (K (r_heap r) Fn (r_addr r) (m_node m) Fn' En' (incl_refl _) OWn Tn' Sn') as (Fc' & Tc' & Sc').
        destruct (hput c (r_heap r) a t0 (CInner kd tid p w' lf (hc_set b (r_addr r) ch))) as [h2 a2] eqn:Ep.
        assert (Hl' : Plrep (r_heap r) lf ol) by (eapply plrep_ext; eauto).
        destruct (node_finish c T0 h a kd t0 p w lf ch Fc F (r_heap r) Fn kd p w' lf (hc_set b (r_addr r) ch) ol
                    (ch_set b (m_node m) tch) Fc' Hn St En' InFn Hl' Tc' Sc' h2 a2 Ep) as (T' & S' & E').
        cbn [m_node m_st m_old m_w m_val]. split; [exact A1|]. split; [exact A2|]. split; [exact A3|]. split; [exact A4|].
        cbn [r_heap r_addr]. eauto.
      * rewrite (tchs_find_none c _ _ _ _ _ Tc Ef). rewrite (tchs_len c _ _ _ _ Tc).
        destruct (kd <? ch_len tch + 1).
        -- destruct (fresh_if w (record w s)) as [w2 s2]. destruct (fresh c s2) as [lw s3]. unfold alloc.
           set (nl := mkLeaf fk v lw). set (h1 := h ++ [CLeaf (b :: rest) nl]).
           destruct (leaf_alloc h (b :: rest) nl PE) as (TL & _). fold h1 in TL.
           assert (E1 : Ext h h1 []) by apply ext_alloc.
           assert (Tc1 : Tchs h1 ch tch Fc) by (eapply tchs_ext; eauto; apply disj_nil_l).
           assert (Hl1 : Plrep h1 lf ol) by (eapply plrep_ext; eauto).
           pose proof (tchs_insert_frozen c h1 b (length h) _ _ _ _ Tc1 TL) as Tc2.
           destruct (node_alloc c T0 h1 (promote_kind kd) p w2 lf _ ol _ Fc Hl1 Tc2) as (T' & E').
           repeat (split; [reflexivity|]). cbn [r_heap r_addr m_node].
           exists (length h1 :: Fc). split; [exact T'|]. split.
           ++ intros y [<-|Hy]; [right; destruct E1; lia|left; auto].
           ++ eapply ext_weaken; [eapply ext_trans; eauto|]. intros y [].
        -- destruct (fresh c s1) as [lw s3]. unfold alloc.
           set (nl := mkLeaf fk v lw). set (h1 := h ++ [CLeaf (b :: rest) nl]).
           destruct (leaf_alloc h (b :: rest) nl PE) as (TL & _). fold h1 in TL.
           assert (E1 : Ext h h1 []) by apply ext_alloc.
           assert (Tc1 : Tchs h1 ch tch Fc) by (eapply tchs_ext; eauto; apply disj_nil_l).
           assert (Hl1 : Plrep h1 lf ol) by (eapply plrep_ext; eauto).
           pose proof (tchs_insert_frozen c h1 b (length h) _ _ _ _ Tc1 TL) as Tc2.
           destruct (hput c h1 a t0 (CInner kd tid p w' lf (hc_insert b (length h) ch))) as [h2 a2] eqn:Ep.
           destruct (node_finish c T0 h a kd t0 p w lf ch Fc F h1 [] kd p w' lf _ ol _ Fc
                       Hn St E1 (incl_nil_l _) Hl1 Tc2 (fun y Hy => or_introl Hy) h2 a2 Ep) as (T' & S' & E').
           repeat (split; [reflexivity|]). cbn [r_heap r_addr m_node]. eauto.
    + (* prefix mismatch: split *)
      destruct (clone_hdr c s t0 w) as [[t' w'] s1] eqn:Ec. pose proof (clone_hdr_tid c _ _ _ _ _ _ Ec) as ->.
      set (cp := common key p).
      destruct (hput c h a t0 (CInner kd tid (skipn (length cp) p) w' lf ch)) as [h1 ta] eqn:Ep.
      destruct (node_finish c T0 h a kd t0 p w lf ch Fc F h [] kd (skipn (length cp) p) w' lf ch ol tch Fc
                  Hn St (ext_refl _ _ _) (incl_nil_l _) Hl Tc (fun y Hy => or_introl Hy) h1 ta Ep) as (T' & S' & E').
      assert (PE1 : PExt h1) by (eapply Pext_mono; [exact PE|apply E']).
      assert (Hl1 : Plrep h1 lf ol).
      { eapply plrep_ext; [exact E'| |exact Hl]. intros y Hy. eapply (proj1 (trep_F_cell tid h)); eauto. }
      pose proof (hsplit_spec s1 h1 ta (Inner kd tid p w' ol tch) key lf (ta :: Fc) PE1) as K.
      cbn [node_prefix set_prefix node_leaf] in K. fold cp in K. specialize (K T' Hl1).
      destruct K as (A1 & A2 & A3 & A4 & F' & TF & SF & EF).
      split; [exact A1|]. split; [exact A2|]. split; [exact A3|]. split; [exact A4|].
      exists F'. split; [exact TF|]. split.
      * intros y Hy. destruct (SF y Hy) as [H|H]; [exact (S' y H)|right; destruct E'; lia].
      * assert (EE : Ext h (r_heap (hsplit c fk v s1 h1 ta (skipn (length cp) p) lf cp (skipn (length cp) key))) (F ++ (ta :: Fc))).
        { eapply ext_trans; eauto. }
        destruct EE as (L & A & O). split; [exact L|]. split; [|exact O].
        intros y cl Hy Ny. destruct (Nat.lt_ge_cases y (length h)) as [Hlt|Hge].
        -- apply A; [exact Hy|]. intros Hi. apply in_app_or in Hi as [Hi|Hi]; [exact (Ny Hi)|].
           destruct (S' y Hi) as [H|H]; [exact (Ny H)|lia].
        -- apply nth_error_lt in Hy. lia.
Qed.
End Modify.
