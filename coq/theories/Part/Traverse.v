(* Part/Traverse.v — Prefix search refines om_prefix; Iterator.Next agrees with Iterator.All. *)
From SV Require Import Base.Bytes Base.OrdMap Part.Model Part.Sem Part.Insert Part.Delete Part.Query Part.Refine.
From Coq Require Import ZifyN ZifyNat ZifyBool.
Open Scope N_scope.

Definition opt_entries (o : option node) : list ent := match o with Some m => node_entries m | None => [] end.

Lemma has_prefix_app_l p : forall k q, has_prefix (p ++ k) (p ++ q) = has_prefix k q.
Proof. induction p as [|x p IH]; intros; simpl; auto. now rewrite N.eqb_refl, IH. Qed.
Lemma has_prefix_weaken p : forall q k, has_prefix p q = true -> has_prefix (p ++ k) q = true.
Proof.
  induction p as [|x p IH]; intros [|y q] k; simpl; auto; try discriminate.
  - destruct k; auto.
  - destruct (x =? y); simpl; auto.
Qed.

Lemma om_prefix_pre p q (L : list ent) : om_prefix (p ++ q) (map (pre p) L) = map (pre p) (om_prefix q L).
Proof.
  unfold om_prefix. induction L as [|[k v] L IH]; simpl; auto.
  rewrite has_prefix_app_l. destruct (has_prefix k q); simpl; now rewrite IH.
Qed.
Lemma om_prefix_all p q (L : list ent) : has_prefix p q = true -> om_prefix q (map (pre p) L) = map (pre p) L.
Proof.
  intros H. unfold om_prefix. induction L as [|[k v] L IH]; simpl; auto.
  rewrite has_prefix_weaken by auto. now rewrite IH.
Qed.
Lemma has_prefix_app_inv q : forall p k, has_prefix (p ++ k) q = true -> has_prefix p q = true \/ exists r, strip p q = Some r.
Proof.
  induction q as [|y q IH]; intros [|x p] k; simpl; auto.
  - intros _. right. eexists; reflexivity.
  - destruct (N.eqb_spec x y) as [->|Hne]; simpl; [|discriminate]. intros H.
    destruct (IH p k H) as [H1|[r H1]]; auto. right. rewrite ?N.eqb_refl. eauto.
Qed.
Lemma om_prefix_none p q (L : list ent) : has_prefix p q = false -> strip p q = None -> om_prefix q (map (pre p) L) = [].
Proof.
  intros H1 H2. unfold om_prefix. induction L as [|[k v] L IH]; simpl; auto.
  destruct (has_prefix (p ++ k) q) eqn:E; auto.
  destruct (has_prefix_app_inv q p k E) as [H|[r H]]; congruence.
Qed.
Lemma om_prefix_app q (L1 L2 : list ent) : om_prefix q (L1 ++ L2) = om_prefix q L1 ++ om_prefix q L2.
Proof. unfold om_prefix. apply filter_app. Qed.
Lemma om_prefix_starts_other b b' q (L : list ent) : starts b' L -> b' <> b -> om_prefix (b :: q) L = [].
Proof.
  intros H Hne. unfold om_prefix. induction L as [|[k v] L IH]; simpl; auto.
  inversion H; subst. simpl in *. destruct k as [|c k]; simpl in *; [tauto|]. subst c.
  apply N.eqb_neq in Hne. rewrite Hne. simpl. auto.
Qed.

Lemma prefix_ch_find b q w : forall ch,
  prefix_ch ch b q w = match ch_find b ch with Some x => prefix_node x q w | None => (None, w) end.
Proof.
  induction ch as [|b' x r IH]; [reflexivity|].
  cbn [prefix_ch ch_find]; fold prefix_node; fold prefix_ch. destruct (b' =? b); auto.
Qed.

(* entries of the children that can match a query starting with b: only the child under b *)
Lemma om_prefix_children acc b q : forall ch, wfk_ch acc ch ->
  om_prefix (b :: q) (ents_ch ch) = match ch_find b ch with Some x => om_prefix (b :: q) (ents x) | None => [] end.
Proof.
  induction ch as [|b' x r IH]; simpl; auto. intros (Hh & Hx & Hg & Hr). rewrite om_prefix_app.
  destruct (N.eqb_spec b' b) as [->|Hne].
  - assert (E : om_prefix (b :: q) (ents_ch r) = []).
    { rewrite IH by auto. destruct (ch_find b r) as [y|] eqn:Ef; auto.
      pose proof (ch_gt_find _ _ _ _ Hg Ef). lia. }
    now rewrite E, app_nil_r.
  - rewrite (om_prefix_starts_other b b' q (ents x)); auto. now apply ents_starts.
Qed.

Theorem prefix_spec :
  (forall n acc q w, wfk acc n -> opt_entries (fst (prefix_node n q w)) = map (pre acc) (om_prefix q (ents n))) /\
  (forall ch acc x q w, wfk_ch acc ch -> (exists b, ch_find b ch = Some x) ->
     opt_entries (fst (prefix_node x q w)) = map (pre acc) (om_prefix q (ents x))).
Proof.
  apply node_children_ind.
  - intros p l acc q w H. cbn [prefix_node ents]. unfold om_prefix. simpl filter.
    destruct (has_prefix p q); simpl; auto. simpl in H. unfold pre; simpl. now rewrite H.
  - intros kd t p w lf ch IH acc q w0 Hw. pose proof Hw as [Hl Hc].
    cbn [prefix_node]; fold prefix_ch.
    destruct (has_prefix p q) eqn:Hp.
    + cbn [fst opt_entries]. rewrite (proj1 entries_ents _ acc Hw). cbn [ents]. now rewrite om_prefix_all.
    + destruct (strip p q) as [[|b rest]|] eqn:Es.
      * apply strip_nil_rest in Es. subst q. exfalso.
        assert (has_prefix p p = true) by (apply has_prefix_spec; exists []; now rewrite app_nil_r). congruence.
      * rewrite prefix_ch_find. apply strip_some in Es. subst q. cbn [ents].
        rewrite om_prefix_pre, om_prefix_app.
        assert (E0 : om_prefix (b :: rest) (lfe lf) = []) by (destruct lf; reflexivity).
        rewrite E0, app_nil_l, (om_prefix_children (acc ++ p)) by auto.
        destruct (ch_find b ch) as [x|] eqn:Ef; [|reflexivity].
        rewrite <- map_pre_app. eapply IH; eauto.
      * cbn [fst opt_entries ents]. now rewrite om_prefix_none.
  - intros acc x q w _ [b H]. simpl in H. discriminate.
  - intros b' y IHy r IHr acc x q w (_ & Hy & _ & Hr) [b Hf]. simpl in Hf.
    destruct (b' =? b).
    + injection Hf as <-. eapply IHy; eauto.
    + eapply IHr; eauto.
Qed.

(* Tree.Prefix / Txn.Prefix: the iterator yields exactly the entries whose key starts with q *)
Theorem root_prefix_refines r rw q : wf_root r -> iter_all (fst (root_prefix r rw q)) = om_prefix q (abs_root r).
Proof.
  destruct r as [n|]; [|reflexivity]. intros H. unfold root_prefix, abs_root.
  pose proof (proj1 prefix_spec n [] q rw H) as P. destruct (prefix_node n q rw) as [o w]. cbn [fst] in *.
  rewrite map_pre_nil in P. rewrite <- P. destruct o; reflexivity.
Qed.

(* ---- Iterator.Next agrees with Iterator.All ---- *)
Definition leaf_part (n : node) : list ent :=
  match node_leaf n with Some l => [(lf_key l, lf_val l)] | None => [] end.
Lemma node_entries_split n : node_entries n = leaf_part n ++ ch_entries (node_children n).
Proof. destruct n as [p l|kd t p w [l|] ch]; reflexivity. Qed.

Lemma edges_fuel_pos e : (1 <= edges_fuel e)%nat.
Proof. unfold edges_fuel. induction e; simpl; lia. Qed.
Lemma edges_fuel_cons c e : edges_fuel (c :: e) = (ch_count c + edges_fuel e + 1)%nat.
Proof. reflexivity. Qed.

Definition next_ok (edges : list children) (r : option (ent * list children)) : Prop :=
  match flat_map ch_entries edges with
  | [] => r = None
  | kv :: rest => exists e', r = Some (kv, e') /\ flat_map ch_entries e' = rest
  end.

Lemma next_edges_spec : forall fuel edges, (edges_fuel edges <= fuel)%nat -> next_ok edges (next_edges fuel edges).
Proof.
  induction fuel as [|f IH]; intros edges Hf.
  - pose proof (edges_fuel_pos edges). lia.
  - destruct edges as [|[|b n r] rest].
    + reflexivity.
    + cbn [next_edges]. rewrite edges_fuel_cons in Hf. cbn [ch_count] in Hf.
      specialize (IH rest ltac:(lia)). unfold next_ok in *. exact IH.
    + cbn [next_edges]. rewrite edges_fuel_cons in Hf. cbn [ch_count] in Hf.
      set (e1 := match r with CNil => rest | _ => r :: rest end).
      set (e2 := match node_children n with CNil => e1 | chn => chn :: e1 end).
      assert (F1 : flat_map ch_entries e1 = ch_entries r ++ flat_map ch_entries rest)
        by (unfold e1; destruct r; reflexivity).
      assert (F2 : flat_map ch_entries e2 = ch_entries (node_children n) ++ ch_entries r ++ flat_map ch_entries rest)
        by (unfold e2; destruct (node_children n); simpl; rewrite F1; reflexivity).
      assert (Fall : flat_map ch_entries (CCons b n r :: rest) = leaf_part n ++ flat_map ch_entries e2).
      { cbn [flat_map ch_entries]. rewrite node_entries_split, F2, <- !app_assoc. reflexivity. }
      unfold next_ok. rewrite Fall. unfold leaf_part.
      destruct (node_leaf n) as [l|] eqn:El.
      * simpl. exists e2. split; reflexivity.
      * simpl. apply IH.
        assert (C1 : (edges_fuel e1 <= ch_count r + edges_fuel rest + 1)%nat)
          by (unfold e1; destruct r; rewrite ?edges_fuel_cons; cbn [ch_count]; lia).
        assert (Cn : (node_count n = S (ch_count (node_children n)))%nat)
          by (destruct n; [discriminate|reflexivity]).
        unfold e2. destruct (node_children n) eqn:En; rewrite ?edges_fuel_cons; cbn [ch_count] in *; lia.
Qed.

Theorem iter_next_agrees_all it :
  match iter_next it with
  | (Some kv, it') => iter_all it = kv :: iter_all it'
  | (None, it') => iter_all it = [] /\ iter_all it' = []
  end.
Proof.
  unfold iter_next, iter_all. destruct (it_start it) as [n|].
  - set (e := match node_children n with CNil => [] | chn => [chn] end).
    assert (Fe : flat_map ch_entries e = ch_entries (node_children n))
      by (unfold e; destruct (node_children n); simpl; rewrite ?app_nil_r; reflexivity).
    rewrite node_entries_split. unfold leaf_part. destruct (node_leaf n) as [l|].
    + cbn [it_start it_edges]. now rewrite Fe.
    + pose proof (next_edges_spec (edges_fuel e) e (le_n _)) as S. unfold next_ok in S. rewrite Fe in S. simpl.
      destruct (ch_entries (node_children n)) as [|kv rest].
      * rewrite S. cbn [it_start it_edges]. auto.
      * destruct S as (e' & -> & E). cbn [it_start it_edges]. now rewrite E.
  - pose proof (next_edges_spec (edges_fuel (it_edges it)) (it_edges it) (le_n _)) as S. unfold next_ok in S.
    destruct (flat_map ch_entries (it_edges it)) as [|kv rest].
    + rewrite S. cbn [it_start it_edges]. auto.
    + destruct S as (e' & -> & E). cbn [it_start it_edges]. now rewrite E.
Qed.

(* ---- LowerBound ---- *)
Lemma om_lb_pre p k (L : list ent) : om_lower_bound (p ++ k) (map (pre p) L) = map (pre p) (om_lower_bound k L).
Proof.
  induction L as [|[k' v'] L IH]; simpl; auto. rewrite bytes_ltb_app. destruct (bytes_ltb k' k); auto.
Qed.
Lemma om_lb_app_l k (L1 L2 : list ent) : all_lt L1 k -> om_lower_bound k (L1 ++ L2) = om_lower_bound k L2.
Proof.
  induction L1 as [|[k' v'] L1 IH]; simpl; auto. intros H. inversion H; subst. simpl in *.
  assert (E : bytes_ltb k' k = true) by now apply bytes_ltb_spec. rewrite E. auto.
Qed.
Lemma om_lb_all_lt k (L : list ent) : all_lt L k -> om_lower_bound k L = [].
Proof. intros H. rewrite <- (app_nil_r L). now rewrite om_lb_app_l. Qed.
Lemma ltb_false_of_gt a b : lex_lt b a -> bytes_ltb a b = false.
Proof. intros H. now destruct (ltb_of_gt a b H). Qed.
Lemma om_lb_all_gt k (L : list ent) : all_gt L k -> om_lower_bound k L = L.
Proof.
  destruct L as [|[k' v'] L]; simpl; auto. intros H. inversion H; subst. simpl in *.
  now rewrite ltb_false_of_gt.
Qed.
Lemma om_lb_app_r k (L1 L2 : list ent) : all_gt L2 k -> om_lower_bound k (L1 ++ L2) = om_lower_bound k L1 ++ L2.
Proof.
  intros H. induction L1 as [|[k' v'] L1 IH]; simpl; [now apply om_lb_all_gt|].
  destruct (bytes_ltb k' k); auto.
Qed.
Lemma om_lb_hd_ge k (L : list ent) : (forall kv, In kv L -> bytes_ltb (fst kv) k = false) -> om_lower_bound k L = L.
Proof.
  destruct L as [|[k' v'] L]; simpl; auto. intros H. specialize (H (k', v') (or_introl eq_refl)). simpl in H.
  now rewrite H.
Qed.

Lemma ents_pref n : exists L, ents n = map (pre (node_prefix n)) L.
Proof.
  destruct n as [p l|kd t p w lf ch]; simpl.
  - exists [([], lf_val l)]. unfold pre; simpl. now rewrite app_nil_r.
  - eexists; reflexivity.
Qed.

(* the three outcomes of comparing the node prefix with the same-length head of the key *)
Lemma lb_lt p key : lex_lt p (firstn (length p) key) -> forall k, lex_lt (p ++ k) key.
Proof.
  intros H k.
  destruct (lex_lt_cases _ _ H) as [(y & r & E)|D].
  - exfalso. pose proof (firstn_le_length (length p) key) as L. rewrite E in L. rewrite app_length in L. simpl in L. lia.
  - rewrite <- (firstn_skipn (length p) key). now apply lex_diverge_app.
Qed.
Lemma lb_gt p key : lex_lt (firstn (length p) key) p -> forall k, lex_lt key (p ++ k).
Proof.
  intros H k. destruct (lex_lt_cases _ _ H) as [(y & r & E)|D].
  - assert (Lk : (length key < length p)%nat).
    { pose proof (f_equal (@length N) E) as EL. rewrite app_length, firstn_length in EL. simpl in EL. lia. }
    rewrite firstn_all2 in E by lia. rewrite E, <- app_assoc. simpl. apply lex_lt_prefix.
  - rewrite <- (firstn_skipn (length p) key). now apply lex_diverge_app.
Qed.

Lemma tmin_entries :
  (forall n edges, flat_map ch_entries (tmin n edges) = node_entries n ++ flat_map ch_entries edges) /\
  (forall ch edges, match ch with
     | CNil => True
     | CCons _ x r => flat_map ch_entries (tmin x (match r with CNil => edges | _ => r :: edges end)) =
                      node_entries x ++ ch_entries r ++ flat_map ch_entries edges
     end).
Proof.
  apply node_children_ind.
  - intros p l edges. simpl. rewrite ?app_nil_r. reflexivity.
  - intros kd t p w lf ch IH edges. destruct lf as [l|].
    + cbn [tmin flat_map ch_entries]. rewrite ?app_nil_r. reflexivity.
    + cbn [tmin node_entries]; fold ch_entries. specialize (IH edges). destruct ch as [|b x r]; [reflexivity|].
      cbn [ch_entries]; fold node_entries. rewrite IH. simpl. now rewrite <- app_assoc.
  - intros; exact I.
  - intros b x IHx r IHr edges. rewrite IHx. destruct r; simpl; auto.
Qed.


Lemma cmp3 p key :
  (bytes_ltb p (firstn (length p) key) = true /\ forall k, lex_lt (p ++ k) key) \/
  (bytes_ltb p (firstn (length p) key) = false /\ bytes_eqb p (firstn (length p) key) = true /\
   key = p ++ skipn (length p) key) \/
  (bytes_ltb p (firstn (length p) key) = false /\ bytes_eqb p (firstn (length p) key) = false /\
   forall k, lex_lt key (p ++ k)).
Proof.
  destruct (bytes_cmp_cases p (firstn (length p) key)) as [[E Hp]|[[E [L Hl]]|[E [L Hl]]]].
  - right; left. repeat split; auto.
    + rewrite <- Hp. apply bytes_ltb_irrefl.
    + rewrite Hp at 1. now rewrite firstn_skipn.
  - left. split; auto. now apply lb_lt.
  - right; right. repeat split; auto. now apply lb_gt.
Qed.

Lemma all_lt_pre p key (L : list ent) : (forall k, lex_lt (p ++ k) key) -> all_lt (map (pre p) L) key.
Proof. intros H. unfold all_lt. apply Forall_map. apply Forall_forall. intros [k v] _. simpl. apply H. Qed.
Lemma all_gt_pre p key (L : list ent) : (forall k, lex_lt key (p ++ k)) -> all_gt (map (pre p) L) key.
Proof. intros H. unfold all_gt. apply Forall_map. apply Forall_forall. intros [k v] _. simpl. apply H. Qed.
Lemma len_eq_skipn_nil (p key : bytes) : key = p ++ skipn (length p) key ->
  ((length p =? length key)%nat = true <-> skipn (length p) key = []).
Proof.
  intros E. rewrite Nat.eqb_eq. split; intros H.
  - apply skipn_all2. lia.
  - rewrite E at 1. rewrite H, app_nil_r. reflexivity.
Qed.

Theorem lb_spec :
  (forall n acc key edges, wfk acc n ->
     flat_map ch_entries (lb_node n key edges) =
     map (pre acc) (om_lower_bound key (ents n)) ++ flat_map ch_entries edges) /\
  (forall ch acc b rest edges, wfk_ch acc ch ->
     flat_map ch_entries (lb_ch ch b (b :: rest) edges) =
     map (pre acc) (om_lower_bound (b :: rest) (ents_ch ch)) ++ flat_map ch_entries edges /\
     flat_map ch_entries (lb_ch256 ch b (b :: rest) edges) =
     map (pre acc) (om_lower_bound (b :: rest) (ents_ch ch)) ++ flat_map ch_entries edges).
Proof.
  apply node_children_ind.
  - (* Leaf *)
    intros p l acc key edges Hw. cbn [lb_node node_prefix].
    destruct (cmp3 p key) as [(L & Hlt)|[(L & E & Hk)|(L & E & Hgt)]]; rewrite L; try rewrite E.
    + destruct (ents_pref (Leaf p l)) as [Lx Ex]. rewrite Ex. cbn [node_prefix].
      rewrite om_lb_all_lt by now apply all_lt_pre. reflexivity.
    + pose proof (len_eq_skipn_nil p key Hk) as Hiff. destruct (skipn (length p) key) as [|b rest] eqn:Es.
      * assert (Hl : (length p =? length key)%nat = true) by (apply Hiff; reflexivity).
        rewrite Hl. rewrite app_nil_r in Hk. subst key. cbn [flat_map ch_entries node_entries ents om_lower_bound].
        rewrite bytes_ltb_irrefl. simpl in Hw. unfold pre; simpl. now rewrite Hw, ?app_nil_r.
      * assert (Hl : (length p =? length key)%nat = false).
        { destruct ((length p =? length key)%nat); auto. exfalso. assert (X : b :: rest = []) by (apply Hiff; reflexivity). discriminate. }
        rewrite Hl, Hk. cbn [ents om_lower_bound]. rewrite <- (app_nil_r p) at 1. rewrite bytes_ltb_app. reflexivity.
    + destruct (ents_pref (Leaf p l)) as [Lx Ex]. rewrite (proj1 tmin_entries), (proj1 entries_ents _ acc Hw).
      rewrite Ex. cbn [node_prefix]. rewrite om_lb_all_gt by now apply all_gt_pre. reflexivity.
  - (* Inner *)
    intros kd t p w lf ch IH acc key edges Hw. pose proof Hw as [Hl Hc].
    cbn [lb_node node_prefix]; fold lb_ch; fold lb_ch256.
    destruct (cmp3 p key) as [(L & Hlt)|[(L & E & Hk)|(L & E & Hgt)]]; rewrite L; try rewrite E.
    + cbn [ents]. rewrite om_lb_all_lt by now apply all_lt_pre. reflexivity.
    + pose proof (len_eq_skipn_nil p key Hk) as Hiff. destruct (skipn (length p) key) as [|b rest] eqn:Es.
      * assert (Hlen : (length p =? length key)%nat = true) by (apply Hiff; reflexivity).
        rewrite Hlen. rewrite app_nil_r in Hk. subst key. cbn [flat_map ch_entries].
        rewrite (proj1 entries_ents _ acc Hw), app_nil_r. f_equal. f_equal.
        symmetry. apply om_lb_hd_ge. intros [k v] Hin. cbn [ents] in Hin. apply in_map_iff in Hin.
        destruct Hin as ([k0 v0] & Eq & _). injection Eq as <- <-. simpl.
        rewrite <- (app_nil_r p) at 2. rewrite bytes_ltb_app. now destruct k0.
      * assert (Hlen : (length p =? length key)%nat = false).
        { destruct ((length p =? length key)%nat); auto. exfalso. assert (X : b :: rest = []) by (apply Hiff; reflexivity). discriminate. }
        rewrite Hlen, Hk. cbn [hd ents]. rewrite om_lb_pre.
        assert (Lf : all_lt (lfe lf) (b :: rest)) by (destruct lf; simpl; repeat constructor).
        rewrite om_lb_app_l by auto. rewrite <- map_pre_app.
        destruct (IH (acc ++ p) b rest edges Hc) as [I1 I2]. destruct (kd =? 256); auto.
    + rewrite (proj1 tmin_entries), (proj1 entries_ents _ acc Hw). cbn [ents].
      rewrite om_lb_all_gt by now apply all_gt_pre. reflexivity.
  - intros acc b rest edges _. simpl. auto.
  - intros b' x IHx r IHr acc b rest edges (Hh & Hx & Hg & Hr).
    cbn [lb_ch lb_ch256 ents_ch]; fold lb_node; fold lb_ch; fold lb_ch256.
    destruct (IHr acc b rest edges Hr) as [R1 R2].
    assert (Er : ch_entries r = map (pre acc) (ents_ch r)) by (apply (proj2 entries_ents); auto).
    assert (Push : flat_map ch_entries (match r with CNil => edges | _ => r :: edges end) =
                   ch_entries r ++ flat_map ch_entries edges) by (destruct r; reflexivity).
    destruct (N.ltb_spec b' b) as [Hlt|Hge].
    + assert (A : all_lt (ents x) (b :: rest)) by (eapply starts_lt; eauto; now apply ents_starts).
      rewrite om_lb_app_l by auto. auto.
    + assert (G : all_gt (ents_ch r) (b :: rest)).
      { destruct (N.eq_dec b' b) as [->|Hne]; [eapply ents_ch_all_gt; eauto|].
        eapply ents_ch_all_gt; eauto. eapply ch_gt_trans; [|exact Hg]. lia. }
      rewrite om_lb_app_r by auto. rewrite map_app, <- app_assoc. rewrite Er in Push.
      split.
      * rewrite (IHx acc (b :: rest) _ Hx), Push. reflexivity.
      * destruct (N.eqb_spec b' b) as [->|Hne].
        -- rewrite (IHx acc (b :: rest) _ Hx). cbn [flat_map]. rewrite Er. reflexivity.
        -- assert (Gx : all_gt (ents x) (b :: rest)) by (eapply starts_gt; [apply ents_starts; eauto|lia]).
           rewrite om_lb_all_gt by auto. cbn [flat_map ch_entries]; fold node_entries; fold ch_entries.
           rewrite (proj1 entries_ents _ acc Hx), Er, <- app_assoc. reflexivity.
Qed.

(* Tree.LowerBound / Txn.LowerBound: exactly the entries with key >= k, in order *)
Theorem root_lowerbound_refines r k : wf_root r -> iter_all (root_lowerbound r k) = om_lower_bound k (abs_root r).
Proof.
  destruct r as [n|]; [|reflexivity]. intros H. unfold root_lowerbound, iter_all, abs_root. cbn [it_start it_edges].
  rewrite (proj1 lb_spec n [] k [] H). simpl. now rewrite app_nil_r, map_pre_nil.
Qed.
