(* Part/LayoutBase.v — list / array lemmas and strictly sorted key lists used by the
   proofs about Part/Layout.v. Stdlib only. *)
From SV Require Import Part.Layout.
From Coq Require Import ZifyN ZifyNat ZifyBool.
Close Scope N_scope.

(* ---------- set_nth ---------- *)
Lemma set_nth_length : forall A i (x : A) l, length (set_nth i x l) = length l.
Proof. intros A i x l; revert i; induction l as [|y r IH]; intros [|i]; cbn; auto. Qed.

Lemma nth_set_nth : forall A i j (x d : A) l, i < length l ->
  nth j (set_nth i x l) d = if j =? i then x else nth j l d.
Proof.
  intros A i j x d l; revert i j; induction l as [|y r IH]; intros i j Hi; cbn in Hi; [lia|].
  destruct i as [|i], j as [|j]; cbn; auto.
  rewrite IH by lia. reflexivity.
Qed.

Lemma set_nth_app_r : forall A (a : list A) i x l, set_nth (length a + i) x (a ++ l) = a ++ set_nth i x l.
Proof. intros A a; induction a as [|y a IH]; intros; cbn; [reflexivity|]. rewrite IH; reflexivity. Qed.

Lemma set_nth_mid : forall A (a : list A) y x r, set_nth (length a) x (a ++ y :: r) = a ++ x :: r.
Proof. intros. rewrite <- (Nat.add_0_r (length a)), set_nth_app_r. reflexivity. Qed.

Lemma set_nth_map_seq : forall A (f : nat -> A) i x a n, a <= i < a + n ->
  set_nth (i - a) x (map f (seq a n)) = map (fun j => if j =? i then x else f j) (seq a n).
Proof.
  intros A f i x a n; revert a; induction n as [|n IH]; intros a H; [lia|].
  cbn [seq map]. destruct (Nat.eq_dec i a) as [->|Hne].
  - rewrite Nat.sub_diag; cbn. rewrite Nat.eqb_refl. f_equal.
    apply map_ext_in; intros j Hj; apply in_seq in Hj. destruct (Nat.eqb_spec j a); [lia|reflexivity].
  - replace (i - a) with (S (i - S a)) by lia. cbn. destruct (Nat.eqb_spec a i); [lia|]. f_equal.
    apply IH; lia.
Qed.

(* ---------- extensionality over nth ---------- *)
Lemma list_ext_nth : forall A (d : A) (l1 l2 : list A), length l1 = length l2 ->
  (forall j, j < length l1 -> nth j l1 d = nth j l2 d) -> l1 = l2.
Proof. intros A d l1 l2 HL H. apply (nth_ext l1 l2 d d HL H). Qed.

(* ---------- arr_insert / arr_remove / copy_into / skip_nth on decomposed arrays ---------- *)
Lemma arr_insert_app : forall A (a b : list A) y rest x,
  arr_insert (length a) (length a + length b) x (a ++ b ++ y :: rest) = a ++ x :: b ++ rest.
Proof.
  intros. unfold arr_insert.
  rewrite firstn_app, firstn_all, Nat.sub_diag, firstn_O, app_nil_r.
  rewrite skipn_app, skipn_all, Nat.sub_diag, skipn_O. cbn [app].
  replace (length a + length b - length a) with (length b) by lia.
  rewrite firstn_app, firstn_all, Nat.sub_diag, firstn_O, app_nil_r.
  f_equal. f_equal. f_equal.
  replace (S (length a + length b)) with (length (a ++ b ++ [y])) by (rewrite !app_length; cbn; lia).
  replace (a ++ b ++ y :: rest) with ((a ++ b ++ [y]) ++ rest) by (rewrite <- !app_assoc; reflexivity).
  rewrite skipn_app, skipn_all, Nat.sub_diag, skipn_O. reflexivity.
Qed.

Lemma arr_remove_app : forall A (a b : list A) y rest fill,
  arr_remove (length a) (length a + S (length b)) fill (a ++ y :: b ++ rest) = a ++ b ++ fill :: rest.
Proof.
  intros. unfold arr_remove.
  rewrite firstn_app, firstn_all, Nat.sub_diag, firstn_O, app_nil_r.
  f_equal.
  replace (S (length a)) with (length (a ++ [y])) by (rewrite app_length; cbn; lia).
  replace (a ++ y :: b ++ rest) with ((a ++ [y]) ++ b ++ rest) at 1 by (rewrite <- app_assoc; reflexivity).
  rewrite skipn_app, skipn_all, Nat.sub_diag, skipn_O. cbn [app].
  rewrite app_length; cbn [length].
  replace (length a + S (length b) - (length a + 1)) with (length b) by lia.
  rewrite firstn_app, firstn_all, Nat.sub_diag, firstn_O, app_nil_r.
  f_equal. f_equal.
  replace (length a + S (length b)) with (length (a ++ y :: b)) by (rewrite app_length; cbn; lia).
  replace (a ++ y :: b ++ rest) with ((a ++ y :: b) ++ rest) by (rewrite <- app_assoc; reflexivity).
  rewrite skipn_app, skipn_all, Nat.sub_diag, skipn_O. reflexivity.
Qed.

Lemma firstn_app_exact : forall A (a b : list A), firstn (length a) (a ++ b) = a.
Proof. intros. rewrite firstn_app, firstn_all, Nat.sub_diag, firstn_O, app_nil_r. reflexivity. Qed.
Lemma skipn_app_exact : forall A (a b : list A), skipn (length a) (a ++ b) = b.
Proof. intros. rewrite skipn_app, skipn_all, Nat.sub_diag, skipn_O. reflexivity. Qed.

Lemma skip_nth_app : forall A (a b : list A) y, skip_nth (length a) (a ++ y :: b) = a ++ b.
Proof.
  intros. unfold skip_nth. rewrite firstn_app_exact. f_equal.
  replace (S (length a)) with (length (a ++ [y])) by (rewrite app_length; cbn; lia).
  replace (a ++ y :: b) with ((a ++ [y]) ++ b) by (rewrite <- app_assoc; reflexivity).
  apply skipn_app_exact.
Qed.

Lemma copy_into_repeat : forall A (src : list A) d n, length src <= n ->
  copy_into src (repeat d n) = src ++ repeat d (n - length src).
Proof.
  intros. unfold copy_into. f_equal.
  replace n with (length src + (n - length src)) at 1 by lia.
  rewrite repeat_app. rewrite <- (repeat_length d (length src)) at 1. apply skipn_app_exact.
Qed.

Lemma nth_app_exact : forall A (a : list A) y r d, nth (length a) (a ++ y :: r) d = y.
Proof. intros. rewrite app_nth2, Nat.sub_diag by lia. reflexivity. Qed.

(* ---------- cat_some ---------- *)
Lemma cat_some_map_some : forall ks, cat_some (map (@Some N) ks) = ks.
Proof. induction ks; cbn; congruence. Qed.
Lemma cat_some_app : forall a b, cat_some (a ++ b) = cat_some a ++ cat_some b.
Proof. induction a as [|[x|] a IH]; intros; cbn; rewrite ?IH; reflexivity. Qed.
Lemma cat_some_repeat_none : forall n, cat_some (repeat None n) = [].
Proof. induction n; cbn; auto. Qed.

(* ---------- strictly sorted byte lists ---------- *)
Fixpoint ssorted (ks : list N) : Prop :=
  match ks with [] => True | k :: r => Forall (fun x => (k < x)%N) r /\ ssorted r end.
(* the key lists of nodes: strictly increasing bytes *)
Definition good (ks : list N) : Prop := ssorted ks /\ Forall (fun x => (x < 256)%N) ks.

(* number of keys smaller than k: the insertion position *)
Definition rank (k : N) (ks : list N) : nat := length (filter (fun x => (x <? k)%N) ks).
Definition memb (k : N) (ks : list N) : bool := existsb (N.eqb k) ks.
(* sorted insertion / removal: the child-list operations of Part/Model.v (ch_insert / ch_remove) on the key bytes *)
Fixpoint ins (k : N) (ks : list N) : list N :=
  match ks with [] => [k] | x :: r => if (k <? x)%N then k :: ks else x :: ins k r end.
Fixpoint rem (k : N) (ks : list N) : list N :=
  match ks with [] => [] | x :: r => if (x =? k)%N then r else x :: rem k r end.
(* 1 + position of k, 0 when absent: the contents of node48.index *)
Fixpoint pos_in (k : N) (ks : list N) : nat :=
  match ks with
  | [] => 0
  | x :: r => if (x =? k)%N then 1 else match pos_in k r with 0 => 0 | S p => S (S p) end
  end.

Lemma memb_In : forall k ks, memb k ks = true <-> In k ks.
Proof.
  intros; unfold memb; rewrite existsb_exists; split.
  - intros [x [Hx He]]. apply N.eqb_eq in He; subst; auto.
  - intros H; exists k; split; auto. apply N.eqb_refl.
Qed.
Lemma memb_false : forall k ks, memb k ks = false <-> ~ In k ks.
Proof. intros. rewrite <- memb_In. destruct (memb k ks); split; congruence. Qed.
Lemma memb_app : forall k a b, memb k (a ++ b) = memb k a || memb k b.
Proof. intros; unfold memb; apply existsb_app. Qed.

Lemma ssorted_app : forall a b, ssorted (a ++ b) <->
  ssorted a /\ ssorted b /\ (forall x y, In x a -> In y b -> (x < y)%N).
Proof.
  induction a as [|k a IH]; intros b; cbn.
  - split; [intros H; repeat split; auto; intros ? ? []|tauto].
  - rewrite IH, Forall_app, !Forall_forall. split.
    + intros [[H1 H2] [H3 [H4 H5]]]. repeat split; auto.
      intros x y [<-|Hx] Hy; auto.
    + intros [[H1 H2] [H3 H4]]. repeat split; auto.
Qed.

Lemma ssorted_NoDup_in : forall k r, Forall (fun x => (k < x)%N) r -> ~ In k r.
Proof. intros k r H Hin. rewrite Forall_forall in H. specialize (H _ Hin). lia. Qed.

(* the split of a sorted list at k, with everything the layout proofs need about it *)
Lemma split_at : forall k ks, ssorted ks ->
  exists a b, ks = a ++ b /\ Forall (fun x => (x < k)%N) a /\ Forall (fun x => (k <= x)%N) b /\
    rank k ks = length a /\
    memb k ks = (match b with x :: _ => (x =? k)%N | [] => false end) /\
    memb k a = false /\
    (memb k ks = false -> ins k ks = a ++ k :: b /\ Forall (fun x => (k < x)%N) b) /\
    (forall b', b = k :: b' -> rem k ks = a ++ b' /\ Forall (fun x => (k < x)%N) b' /\ pos_in k ks = S (length a)).
Proof.
  intros k ks; induction ks as [|x r IH]; intros HS.
  - exists [], []. cbn. repeat split; auto; try discriminate.
  - destruct HS as [Hx HS]. destruct (N.ltb_spec x k) as [Hlt|Hge].
    + destruct (IH HS) as (a & b & E & Ha & Hb & Hr & Hm & Hma & Hi & Hd). exists (x :: a), b.
      assert (Hxk : (k =? x)%N = false) by (apply N.eqb_neq; lia).
      assert (Hxk' : (x =? k)%N = false) by (apply N.eqb_neq; lia).
      assert (Hkx : (k <? x)%N = false) by (apply N.ltb_ge; lia).
      assert (Hxlt : (x <? k)%N = true) by (apply N.ltb_lt; lia).
      repeat split.
      * cbn; congruence.
      * constructor; auto.
      * assumption.
      * unfold rank in *; cbn. rewrite Hxlt. cbn. congruence.
      * cbn [memb existsb]. rewrite Hxk. exact Hm.
      * cbn [memb existsb]. rewrite Hxk. exact Hma.
      * cbn [memb existsb ins] in H |- *. rewrite Hxk in H. cbn in H. rewrite Hkx. destruct (Hi H) as [-> _]. reflexivity.
      * cbn [memb existsb] in H. rewrite Hxk in H. apply (Hi H).
      * cbn [rem]. rewrite Hxk'. destruct (Hd _ H) as [-> _]. reflexivity.
      * apply (Hd _ H).
      * cbn [pos_in]. rewrite Hxk'. destruct (Hd _ H) as (_ & _ & ->). reflexivity.
    + exists [], (x :: r).
      assert (Hall : Forall (fun y => (k <= y)%N) (x :: r)).
      { constructor; auto. eapply Forall_impl; [|exact Hx]. cbn; intros; lia. }
      assert (Hr0 : filter (fun y => (y <? k)%N) (x :: r) = []).
      { clear - Hall. induction Hall as [|y l Hy _ IHl]; cbn; auto. destruct (N.ltb_spec y k); [lia|auto]. }
      assert (Hmr : x <> k -> memb k r = false).
      { intros Hne. apply memb_false. intros Hin. rewrite Forall_forall in Hx. specialize (Hx _ Hin). lia. }
      repeat split; auto.
      * unfold rank. rewrite Hr0. reflexivity.
      * cbn [memb existsb]. rewrite (N.eqb_sym k x). destruct (N.eqb_spec x k) as [->|Hne]; cbn; auto.
      * cbn [memb existsb ins] in H |- *. apply orb_false_iff in H. destruct H as [H _].
        apply N.eqb_neq in H. destruct (N.ltb_spec k x); [reflexivity|lia].
      * cbn [memb existsb] in H. apply orb_false_iff in H. destruct H as [H _]. apply N.eqb_neq in H.
        constructor; [lia|]. eapply Forall_impl; [|exact Hx]. cbn; intros; lia.
      * inversion H; subst. cbn [rem]. rewrite N.eqb_refl. reflexivity.
      * inversion H; subst. exact Hx.
      * inversion H; subst. cbn [pos_in]. rewrite N.eqb_refl. reflexivity.
Qed.

(* ---------- pos_in ---------- *)
Lemma pos_in_app : forall k a b,
  pos_in k (a ++ b) = match pos_in k a with
                      | S p => S p
                      | 0 => match pos_in k b with 0 => 0 | S p => length a + S p end
                      end.
Proof.
  intros k a b; induction a as [|x a IH]; cbn [app pos_in length].
  - destruct (pos_in k b); reflexivity.
  - destruct (x =? k)%N; [reflexivity|]. rewrite IH.
    destruct (pos_in k a); [|reflexivity]. destruct (pos_in k b) as [|q]; [reflexivity|].
    rewrite !Nat.add_succ_r. cbn [Nat.add]. reflexivity.
Qed.

Lemma pos_in_memb : forall k ks, memb k ks = negb (pos_in k ks =? 0).
Proof.
  intros k ks; induction ks as [|x r IH]; cbn [memb existsb pos_in]; [reflexivity|].
  rewrite (N.eqb_sym k x). destruct (x =? k)%N; cbn [orb]; [reflexivity|].
  change (existsb (N.eqb k) r) with (memb k r). rewrite IH. destruct (pos_in k r); reflexivity.
Qed.

Lemma pos_in_zero : forall k ks, memb k ks = false -> pos_in k ks = 0.
Proof. intros k ks H. rewrite pos_in_memb in H. destruct (pos_in k ks); [reflexivity|discriminate]. Qed.

Lemma pos_in_nth : forall k ks p, pos_in k ks = S p -> p < length ks /\ nth p ks 0%N = k.
Proof.
  intros k ks; induction ks as [|x r IH]; intros p H; cbn [pos_in] in H; [discriminate|].
  destruct (N.eqb_spec x k) as [->|Hne].
  - inversion H; subst. cbn. split; [lia|reflexivity].
  - destruct (pos_in k r) as [|q] eqn:E; [discriminate|]. inversion H; subst.
    destruct (IH q eq_refl) as [H1 H2]. cbn. split; [lia|exact H2].
Qed.

(* ---------- the canonical node48.index of a key list ---------- *)
Definition index_of (ks : list N) : list nat := map (fun j => pos_in (N.of_nat j) ks) (seq 0 256).

Lemma index_of_length : forall ks, length (index_of ks) = 256.
Proof. intros; unfold index_of; rewrite map_length, seq_length; reflexivity. Qed.

Lemma nth_index_of : forall ks j, j < 256 -> nth j (index_of ks) 0 = pos_in (N.of_nat j) ks.
Proof.
  intros ks j Hj. unfold index_of.
  rewrite (nth_indep _ 0 ((fun j => pos_in (N.of_nat j) ks) 0)) by (rewrite map_length, seq_length; exact Hj).
  rewrite (map_nth (fun j => pos_in (N.of_nat j) ks) (seq 0 256) 0 j), seq_nth by exact Hj. reflexivity.
Qed.

Lemma index_ext : forall ix ks, length ix = 256 ->
  (forall j, j < 256 -> nth j ix 0 = pos_in (N.of_nat j) ks) -> ix = index_of ks.
Proof.
  intros ix ks HL H. apply (list_ext_nth _ 0); [rewrite index_of_length; exact HL|].
  intros j Hj. rewrite HL in Hj. rewrite H, nth_index_of by exact Hj. reflexivity.
Qed.

(* ---------- nth on a sorted list split at k ---------- *)
Lemma nth_map_some : forall (ks : list N) rest i, i < length ks ->
  nth i (map (@Some N) ks ++ rest) None = Some (nth i ks 0%N).
Proof.
  intros ks rest i Hi. rewrite app_nth1 by (rewrite map_length; exact Hi).
  rewrite (nth_indep _ None (Some 0%N)) by (rewrite map_length; exact Hi). apply (map_nth (@Some N) ks 0%N i).
Qed.

Lemma nth_split_lo : forall (a b : list N) k i, Forall (fun x => (x < k)%N) a -> i < length a -> (nth i (a ++ b) 0 < k)%N.
Proof.
  intros a b k i Ha Hi. rewrite app_nth1 by exact Hi. rewrite Forall_forall in Ha. apply Ha. apply nth_In; exact Hi.
Qed.
Lemma nth_split_hi : forall (a b : list N) k i, Forall (fun x => (k < x)%N) b -> length a <= i < length a + length b ->
  (k < nth i (a ++ b) 0)%N.
Proof.
  intros a b k i Hb Hi. rewrite app_nth2 by lia. rewrite Forall_forall in Hb. apply Hb. apply nth_In; lia.
Qed.

(* ---------- good lists: closure and counting ---------- *)
Lemma good_app_inv : forall a k b, good (a ++ k :: b) ->
  Forall (fun x => (x < k)%N) a /\ Forall (fun x => (k < x)%N) b /\ (k < 256)%N /\ good (a ++ b) /\
  memb k a = false /\ memb k b = false.
Proof.
  intros a k b [HS HB]. apply ssorted_app in HS. destruct HS as (Ha & Hkb & Hab). cbn in Hkb. destruct Hkb as [Hkb Hb].
  rewrite Forall_app in HB. destruct HB as [HBa HBkb]. apply Forall_cons_iff in HBkb. destruct HBkb as [Hk HBb].
  assert (Hak : Forall (fun x => (x < k)%N) a).
  { rewrite Forall_forall; intros x Hx. apply Hab; [exact Hx|left; reflexivity]. }
  repeat split; auto.
  - apply ssorted_app. repeat split; auto. intros x y Hx Hy. apply Hab; [exact Hx|right; exact Hy].
  - rewrite Forall_app; split; auto.
  - apply memb_false. intros Hin. rewrite Forall_forall in Hak. specialize (Hak _ Hin). lia.
  - apply memb_false. apply ssorted_NoDup_in. exact Hkb.
Qed.

Lemma good_ins : forall a k b, good (a ++ b) -> Forall (fun x => (x < k)%N) a -> Forall (fun x => (k < x)%N) b ->
  (k < 256)%N -> good (a ++ k :: b).
Proof.
  intros a k b [HS HB] Ha Hb Hk. apply ssorted_app in HS. destruct HS as (HSa & HSb & Hab).
  rewrite Forall_app in HB. destruct HB as [HBa HBb]. split.
  - apply ssorted_app. repeat split; auto.
    intros x y Hx [<-|Hy].
    + rewrite Forall_forall in Ha. apply Ha; exact Hx.
    + apply Hab; auto.
  - rewrite Forall_app; split; auto.
Qed.

(* a strictly increasing list of numbers below n has at most n elements *)
Lemma ssorted_bound : forall ks lo, ssorted ks -> Forall (fun x => (lo <= x)%N) ks ->
  Forall (fun x => (x < 256)%N) ks -> (lo <= 256)%N -> (N.of_nat (length ks) + lo <= 256)%N.
Proof.
  induction ks as [|x r IH]; intros lo HS Hlo HB Hl; cbn [length].
  - lia.
  - destruct HS as [Hx HS]. apply Forall_cons_iff in Hlo. destruct Hlo as [Hlx _].
    apply Forall_cons_iff in HB. destruct HB as [Hbx HB].
    assert (H : (N.of_nat (length r) + (x + 1) <= 256)%N).
    { apply IH; auto; [|lia]. eapply Forall_impl; [|exact Hx]. cbn; intros; lia. }
    lia.
Qed.
Lemma good_length : forall ks, good ks -> length ks <= 256.
Proof.
  intros ks [HS HB]. pose proof (ssorted_bound ks 0%N HS) as H.
  assert (H0 : Forall (fun x => (0 <= x)%N) ks) by (apply Forall_forall; intros; lia).
  specialize (H H0 HB). lia.
Qed.
