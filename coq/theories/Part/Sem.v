(* Part/Sem.v — denotation of model trees as association lists (ents), the key/order
   well-formedness invariant (wfk), and locality lemmas for the OrdMap operations. *)
From SV Require Import Base.Bytes Base.OrdMap Part.Model.
From Coq Require Import ZifyN ZifyNat ZifyBool.
Open Scope N_scope.

Scheme node_mind := Induction for node Sort Prop
  with children_mind := Induction for children Sort Prop.
Combined Scheme node_children_ind from node_mind, children_mind.

Definition ent := (bytes * N)%type.
Definition pre (p : bytes) (kv : ent) : ent := (p ++ fst kv, snd kv).
Definition lfe (lf : option leafrec) : list ent := match lf with Some l => [([], lf_val l)] | None => [] end.

(* entries with keys relative to the position of the node (prefixes only; full keys stored
   in the leaves are tied to these by wfk) *)
Fixpoint ents (n : node) : list ent :=
  match n with
  | Leaf p l => [(p, lf_val l)]
  | Inner _ _ p _ lf ch => map (pre p) (lfe lf ++ ents_ch ch)
  end
with ents_ch (ch : children) : list ent :=
  match ch with CNil => [] | CCons _ x r => ents x ++ ents_ch r end.

Fixpoint ch_gt (b : N) (ch : children) : Prop :=
  match ch with CNil => True | CCons b' _ r => b < b' /\ ch_gt b r end.
Definition hd_is (b : N) (p : bytes) : Prop := match p with c :: _ => c = b | [] => False end.

(* acc = concatenation of the prefixes above the node *)
Fixpoint wfk (acc : bytes) (n : node) : Prop :=
  match n with
  | Leaf p l => lf_key l = acc ++ p
  | Inner _ _ p _ lf ch =>
    match lf with Some l => lf_key l = acc ++ p | None => True end /\ wfk_ch (acc ++ p) ch
  end
with wfk_ch (acc : bytes) (ch : children) : Prop :=
  match ch with
  | CNil => True
  | CCons b x r => hd_is b (node_prefix x) /\ wfk acc x /\ ch_gt b r /\ wfk_ch acc r
  end.

Definition all_lt (L : list ent) (k : bytes) : Prop := Forall (fun kv => lex_lt (fst kv) k) L.
Definition all_gt (L : list ent) (k : bytes) : Prop := Forall (fun kv => lex_lt k (fst kv)) L.
Definition starts (b : N) (L : list ent) : Prop := Forall (fun kv => hd_is b (fst kv)) L.

(* ---- comparisons under a common prefix ---- *)
Lemma bytes_eqb_app p a b : bytes_eqb (p ++ a) (p ++ b) = bytes_eqb a b.
Proof. induction p as [|x p IH]; simpl; auto. now rewrite N.eqb_refl, IH. Qed.
Lemma bytes_ltb_app p a b : bytes_ltb (p ++ a) (p ++ b) = bytes_ltb a b.
Proof. induction p as [|x p IH]; simpl; auto. now rewrite N.ltb_irrefl, N.eqb_refl, IH. Qed.

Lemma ltb_of_lt a b : lex_lt a b -> bytes_eqb a b = false /\ bytes_ltb a b = true.
Proof.
  intros H. destruct (bytes_cmp_cases a b) as [[_ ->]|[[E [L _]]|[_ [_ H2]]]]; auto.
  - now apply lex_lt_irrefl in H.
  - exfalso. eapply lex_lt_asym; eauto.
Qed.
Lemma ltb_of_gt a b : lex_lt b a -> bytes_eqb a b = false /\ bytes_ltb a b = false.
Proof.
  intros H. destruct (bytes_cmp_cases a b) as [[_ ->]|[[_ [_ H2]]|[E [L _]]]]; auto.
  - now apply lex_lt_irrefl in H.
  - exfalso. eapply lex_lt_asym; eauto.
Qed.

(* ---- locality of om_insert / om_delete / om_get over concatenation ---- *)
Section Loc.
Variable k : bytes.
Lemma om_insert_app_l v (L1 L2 : list ent) : all_lt L1 k -> om_insert k v (L1 ++ L2) = L1 ++ om_insert k v L2.
Proof.
  induction L1 as [|[k' v'] L1 IH]; simpl; intros H; auto. inversion H; subst. simpl in *.
  destruct (ltb_of_gt k k') as [-> ->]; auto. now rewrite IH.
Qed.
Lemma om_insert_app_r v (L1 L2 : list ent) : all_gt L2 k -> om_insert k v (L1 ++ L2) = om_insert k v L1 ++ L2.
Proof.
  intros H. induction L1 as [|[k' v'] L1 IH]; simpl.
  - destruct L2 as [|[k2 v2] L2]; simpl; auto. inversion H; subst; simpl in *.
    now destruct (ltb_of_lt k k2) as [-> ->].
  - destruct (bytes_eqb k k'); auto. destruct (bytes_ltb k k'); auto. simpl. now rewrite IH.
Qed.
Lemma om_delete_app_l (L1 L2 : list ent) : all_lt L1 k -> om_delete k (L1 ++ L2) = L1 ++ om_delete k L2.
Proof.
  induction L1 as [|[k' v'] L1 IH]; simpl; intros H; auto. inversion H; subst. simpl in *.
  destruct (ltb_of_gt k k') as [-> ->]; auto. now rewrite IH.
Qed.
Lemma om_delete_app_r (L1 L2 : list ent) : all_gt L2 k -> om_delete k (L1 ++ L2) = om_delete k L1 ++ L2.
Proof.
  intros H. induction L1 as [|[k' v'] L1 IH]; simpl.
  - destruct L2 as [|[k2 v2] L2]; simpl; auto. inversion H; subst; simpl in *.
    now destruct (ltb_of_lt k k2) as [-> ->].
  - destruct (bytes_eqb k k'); auto. destruct (bytes_ltb k k'); auto. simpl. now rewrite IH.
Qed.
Lemma om_get_app_l (L1 L2 : list ent) : all_lt L1 k -> om_get k (L1 ++ L2) = om_get k L2.
Proof.
  induction L1 as [|[k' v'] L1 IH]; simpl; intros H; auto. inversion H; subst. simpl in *.
  destruct (ltb_of_gt k k') as [-> ->]; auto.
Qed.
Lemma om_get_app_r (L1 L2 : list ent) : all_gt L2 k -> om_get k (L1 ++ L2) = om_get k L1.
Proof.
  intros H. induction L1 as [|[k' v'] L1 IH]; simpl.
  - destruct L2 as [|[k2 v2] L2]; simpl; auto. inversion H; subst; simpl in *.
    now destruct (ltb_of_lt k k2) as [-> ->].
  - destruct (bytes_eqb k k'); auto. destruct (bytes_ltb k k'); auto.
Qed.
End Loc.

Lemma om_insert_pre p k v (L : list ent) : om_insert (p ++ k) v (map (pre p) L) = map (pre p) (om_insert k v L).
Proof.
  induction L as [|[k' v'] L IH]; simpl; auto.
  unfold pre at 1; simpl. rewrite bytes_eqb_app, bytes_ltb_app.
  destruct (bytes_eqb k k'); auto. destruct (bytes_ltb k k'); auto. simpl. now rewrite IH.
Qed.
Lemma om_delete_pre p k (L : list ent) : om_delete (p ++ k) (map (pre p) L) = map (pre p) (om_delete k L).
Proof.
  induction L as [|[k' v'] L IH]; simpl; auto.
  unfold pre at 1; simpl. rewrite bytes_eqb_app, bytes_ltb_app.
  destruct (bytes_eqb k k'); auto. destruct (bytes_ltb k k'); auto. simpl. now rewrite IH.
Qed.
Lemma om_get_pre p k (L : list ent) : om_get (p ++ k) (map (pre p) L) = om_get k L.
Proof.
  induction L as [|[k' v'] L IH]; simpl; auto.
  rewrite bytes_eqb_app, bytes_ltb_app.
  destruct (bytes_eqb k k'); auto. destruct (bytes_ltb k k'); auto.
Qed.

(* ---- strip / common ---- *)
Lemma strip_some p : forall key rest, strip p key = Some rest <-> key = p ++ rest.
Proof.
  induction p as [|x p IH]; intros [|y k] rest; simpl.
  - split; [intros [= <-]|intros <-]; reflexivity.
  - split; [intros [= <-]|intros <-]; reflexivity.
  - split; [discriminate|intros H; discriminate].
  - destruct (N.eqb_spec x y) as [->|Hne].
    + rewrite IH. split; [intros ->; reflexivity|intros [= ->]; reflexivity].
    + split; [discriminate|intros [= E _]; congruence].
Qed.
Lemma strip_app p rest : strip p (p ++ rest) = Some rest.
Proof. now apply strip_some. Qed.

(* key and p split at their common prefix; the remainders differ at the head (or one is empty) *)
Lemma common_split a : forall b, exists a' b', a = common a b ++ a' /\ b = common a b ++ b' /\
  match a', b' with x :: _, y :: _ => x <> y | _, _ => True end.
Proof.
  induction a as [|x a IH]; intros [|y b]; simpl.
  - exists [], []; auto.
  - exists [], (y :: b); auto.
  - exists (x :: a), []; auto.
  - destruct (N.eqb_spec x y) as [->|Hne].
    + destruct (IH b) as [a' [b' [E1 [E2 H]]]]. exists a', b'. simpl. repeat split; auto; congruence.
    + exists (x :: a), (y :: b). simpl. auto.
Qed.
Lemma skipn_app_len {A} (l r : list A) : skipn (length l) (l ++ r) = r.
Proof. induction l; simpl; auto. Qed.

(* ---- entry lists and first bytes ---- *)
Lemma starts_lt b b' r L : starts b L -> b < b' -> all_lt L (b' :: r).
Proof.
  unfold starts, all_lt. intros H Hb. eapply Forall_impl; [|exact H]. intros [k v]; simpl.
  destruct k as [|c k]; simpl; [tauto|]. intros ->. now apply lex_hd.
Qed.
Lemma starts_gt b b' r L : starts b' L -> b < b' -> all_gt L (b :: r).
Proof.
  unfold starts, all_gt. intros H Hb. eapply Forall_impl; [|exact H]. intros [k v]; simpl.
  destruct k as [|c k]; simpl; [tauto|]. intros ->. now apply lex_hd.
Qed.
Lemma starts_nil_gt b L : starts b L -> all_gt L [].
Proof.
  unfold starts, all_gt. intros H. eapply Forall_impl; [|exact H]. intros [k v]; simpl.
  destruct k as [|c k]; simpl; [tauto|]. intros _. constructor.
Qed.
Lemma starts_pre b tl L : starts b (map (pre (b :: tl)) L).
Proof. unfold starts. apply Forall_map. apply Forall_forall. intros; simpl; auto. Qed.
Lemma ents_starts x b : hd_is b (node_prefix x) -> starts b (ents x).
Proof.
  destruct x as [p l|kd t p w lf ch]; simpl; destruct p as [|c p]; simpl; try tauto; intros ->.
  - repeat constructor.
  - apply starts_pre.
Qed.
Lemma all_lt_app L1 L2 k : all_lt L1 k -> all_lt L2 k -> all_lt (L1 ++ L2) k.
Proof. unfold all_lt. intros. apply Forall_app; auto. Qed.
Lemma all_gt_app L1 L2 k : all_gt L1 k -> all_gt L2 k -> all_gt (L1 ++ L2) k.
Proof. unfold all_gt. intros. apply Forall_app; auto. Qed.

Lemma ch_gt_trans b b' r : b < b' -> ch_gt b' r -> ch_gt b r.
Proof. induction r as [|b2 x r IH]; simpl; auto. intros H [H1 H2]. split; [lia|auto]. Qed.

(* all entries below children whose bytes exceed b are above any key starting with b *)
Lemma ents_ch_all_gt acc r : forall b tl, wfk_ch acc r -> ch_gt b r -> all_gt (ents_ch r) (b :: tl).
Proof.
  induction r as [|b' x r IH]; simpl; intros b tl Hw Hg; [constructor|].
  destruct Hw as [Hh [_ [_ Hr]]]. destruct Hg as [Hb Hg].
  apply all_gt_app; [|now apply IH]. eapply starts_gt; eauto. now apply ents_starts.
Qed.
Lemma ents_ch_nil_gt acc r : wfk_ch acc r -> all_gt (ents_ch r) [].
Proof.
  induction r as [|b' x r IH]; simpl; intros Hw; [constructor|].
  destruct Hw as [Hh [_ [_ Hr]]]. apply all_gt_app; auto. eapply starts_nil_gt. apply ents_starts; eauto.
Qed.

(* set_prefix and entries *)
Lemma ents_set_prefix n q1 q2 : ents (set_prefix n (q1 ++ q2)) = map (pre q1) (ents (set_prefix n q2)).
Proof.
  destruct n as [p l|kd t p w lf ch]; simpl; auto.
  rewrite map_map. apply map_ext. intros [k v]. unfold pre; simpl. now rewrite app_assoc.
Qed.
Lemma set_prefix_id n : set_prefix n (node_prefix n) = n.
Proof. destruct n; reflexivity. Qed.
Lemma map_pre_nil L : map (pre []) L = L.
Proof. induction L as [|[k v] L IH]; simpl; auto. now rewrite IH. Qed.
Lemma map_pre_app p q L : map (pre (p ++ q)) L = map (pre p) (map (pre q) L).
Proof. rewrite map_map. apply map_ext. intros [k v]. unfold pre; simpl. now rewrite app_assoc. Qed.
