(* Part/Layout48.v — node48 (index[256] of 1-based positions + dense children[48]):
   canonical form, lookups (incl. the binary search of findIndex), the index-maintaining
   loops of insert / remove, promotion 16->48 and the arrays of the demotion 48->16. *)
From SV Require Import Part.Layout Part.LayoutBase Part.LayoutKeyed.
From Coq Require Import ZifyN ZifyNat ZifyBool.
Close Scope N_scope.
Ltac Zify.zify_post_hook ::= Z.div_mod_to_equations.

(* a well-formed node48 holding the sorted keys ks *)
Definition canon48 (lf : bool) (ks : list N) : layout :=
  mkL 48 (length ks) lf [] (index_of ks) (map (@Some N) ks ++ repeat None (48 - length ks)).

Lemma abs48 : forall lf ks, l_abs (canon48 lf ks) = ks.
Proof.
  intros. unfold l_abs, l_children_go. cbn [l_kind l_size l_children canon48 N.eqb Pos.eqb].
  rewrite <- (map_length (@Some N) ks) at 1. rewrite firstn_app_exact. apply cat_some_map_some.
Qed.

Lemma nth_index_key : forall ks key, (key < 256)%N -> nth (N.to_nat key) (index_of ks) 0 = pos_in key ks.
Proof. intros ks key Hk. rewrite nth_index_of by lia. rewrite N2Nat.id. reflexivity. Qed.

(* ---- find ---- *)
Lemma find48 : forall lf ks key, (key < 256)%N -> l_find (canon48 lf ks) key = memb key ks.
Proof.
  intros lf ks key Hk. unfold l_find. cbn [l_kind l_index l_children canon48 N.eqb Pos.eqb].
  rewrite nth_index_key by exact Hk. rewrite pos_in_memb.
  destruct (pos_in key ks) as [|p] eqn:E; [reflexivity|].
  destruct (pos_in_nth _ _ _ E) as [Hp _]. cbn [Nat.eqb negb]. unfold child_at.
  replace (S p - 1) with p by lia. rewrite nth_map_some by exact Hp. reflexivity.
Qed.

(* ---- findIndex ---- *)
Lemma bsearch48_spec : forall fuel a b rest key lo hi,
  Forall (fun x => (x < key)%N) a -> Forall (fun x => (key < x)%N) b ->
  lo <= length a <= hi -> hi <= length a + length b -> hi - lo <= fuel ->
  bsearch48 fuel (map (@Some N) (a ++ b) ++ rest) key lo hi = length a.
Proof.
  induction fuel as [|f IH]; intros a b rest key lo hi Ha Hb Hlo Hhi Hf; cbn [bsearch48].
  - lia.
  - destruct (Nat.ltb_spec lo hi) as [Hlt|Hge]; [|lia].
    assert (Hmid : lo <= (lo + hi) / 2 < hi) by lia.
    unfold child_at. rewrite nth_map_some by (rewrite app_length; lia). cbn [child_key].
    destruct (N.ltb_spec (nth ((lo + hi) / 2) (a ++ b) 0%N) key) as [Hk|Hk].
    + assert ((lo + hi) / 2 < length a).
      { destruct (Nat.lt_ge_cases ((lo + hi) / 2) (length a)) as [|Hc]; [assumption|].
        pose proof (nth_split_hi a b key ((lo + hi) / 2) Hb). lia. }
      apply IH; auto; lia.
    + assert (length a <= (lo + hi) / 2).
      { destruct (Nat.lt_ge_cases ((lo + hi) / 2) (length a)) as [Hc|]; [|assumption].
        pose proof (nth_split_lo a b key ((lo + hi) / 2) Ha Hc). lia. }
      apply IH; auto; lia.
Qed.

Lemma findIndex48 : forall lf ks key, good ks -> 1 <= length ks <= 48 -> (key < 256)%N ->
  l_findIndex (canon48 lf ks) key = (memb key ks, rank key ks).
Proof.
  intros lf ks key [HS HB] HL Hk.
  destruct (split_at key ks HS) as (a & b & E & Ha & Hb & Hr & Hm & Hma & Hi & Hd).
  unfold l_findIndex. cbn [l_kind l_size l_index l_children canon48 N.eqb Pos.eqb].
  rewrite nth_index_key by exact Hk. rewrite Hr.
  destruct (memb key ks) eqn:Em.
  - (* exact match through the index *)
    destruct b as [|x b']; [discriminate|]. symmetry in Hm. apply N.eqb_eq in Hm. subst x.
    destruct (Hd b' eq_refl) as (_ & _ & Hp). rewrite Hp. cbn [Nat.eqb negb].
    replace (S (length a) - 1) with (length a) by lia. unfold child_at.
    rewrite nth_map_some by (rewrite E, app_length; cbn; lia). reflexivity.
  - rewrite (pos_in_zero _ _ Em). cbn [Nat.eqb negb].
    destruct (Hi eq_refl) as [_ Hb']. rewrite E in *. rewrite app_length in HL.
    unfold child_at. rewrite !nth_map_some by (rewrite app_length; lia). cbn [child_key].
    destruct (N.ltb_spec key (nth 0 (a ++ b) 0%N)) as [H0|H0].
    + destruct a as [|x a]; [reflexivity|].
      pose proof (nth_split_lo (x :: a) b key 0 Ha) as Hn. cbn [length] in Hn. lia.
    + destruct (N.ltb_spec (nth (length (a ++ b) - 1) (a ++ b) 0%N) key) as [H1|H1].
      * rewrite app_length in *. destruct b as [|y b]; [cbn; f_equal; lia|].
        pose proof (nth_split_hi a (y :: b) key (length a + length (y :: b) - 1) Hb'). cbn [length] in *. lia.
      * f_equal. apply bsearch48_spec; auto; rewrite ?app_length; lia.
Qed.

(* ---- insert: the loop shifting children[idx..size-1] up by one and re-indexing them ---- *)
Lemma ins48_loop_spec : forall Bk A c0 C ix, length ix = 256 -> Forall (fun x => (x < 256)%N) Bk ->
  exists ix', ins48_loop (length Bk) (length A + length Bk - 1) ix (A ++ map (@Some N) Bk ++ c0 :: C)
              = (ix', A ++ match Bk with [] => [c0] | x :: _ => Some x :: map (@Some N) Bk end ++ C) /\
    length ix' = 256 /\
    forall j, j < 256 -> nth j ix' 0 = match pos_in (N.of_nat j) Bk with 0 => nth j ix 0 | S t => length A + t + 2 end.
Proof.
  intros Bk. induction Bk as [|b Bk' IH] using rev_ind; intros A c0 C ix HL HB.
  - exists ix. cbn. repeat split; auto.
  - rewrite Forall_app in HB. destruct HB as [HB' Hb]. apply Forall_cons_iff in Hb. destruct Hb as [Hb _].
    rewrite app_length. cbn [length]. rewrite Nat.add_1_r. cbn [ins48_loop].
    replace (length A + S (length Bk') - 1) with (length A + length Bk') by lia.
    rewrite map_app. cbn [map]. rewrite <- !app_assoc. cbn [app].
    assert (Ech : child_at (A ++ map Some Bk' ++ Some b :: c0 :: C) (length A + length Bk') = Some b).
    { unfold child_at. rewrite app_assoc. rewrite <- (map_length (@Some N) Bk'), <- app_length. apply nth_app_exact. }
    rewrite Ech.
    assert (Eset : set_nth (S (length A + length Bk')) (Some b) (A ++ map Some Bk' ++ Some b :: c0 :: C)
                   = A ++ map Some Bk' ++ Some b :: Some b :: C).
    { replace (A ++ map Some Bk' ++ Some b :: c0 :: C) with ((A ++ map Some Bk' ++ [Some b]) ++ c0 :: C)
        by (rewrite <- !app_assoc; reflexivity).
      replace (S (length A + length Bk')) with (length (A ++ map Some Bk' ++ [Some b]))
        by (rewrite !app_length, map_length; cbn; lia).
      rewrite set_nth_mid. rewrite <- !app_assoc. reflexivity. }
    rewrite Eset.
    destruct (IH A (Some b) (Some b :: C) (set_nth (N.to_nat b) (length A + length Bk' + 2) ix)) as (ix' & E1 & E2 & E3);
      [rewrite set_nth_length; exact HL | exact HB' |].
    exists ix'. split; [|split; [exact E2|]].
    + rewrite E1. f_equal. destruct Bk' as [|y Bk']; cbn [app map]; rewrite <- ?app_assoc; reflexivity.
    + intros j Hj. rewrite E3 by exact Hj. rewrite pos_in_app. cbn [pos_in].
      destruct (pos_in (N.of_nat j) Bk') as [|t]; [|reflexivity].
      rewrite nth_set_nth by lia.
      destruct (N.eqb_spec b (N.of_nat j)) as [->|Hne].
      * rewrite Nat2N.id, Nat.eqb_refl, Nat.add_1_r. lia.
      * destruct (Nat.eqb_spec j (N.to_nat b)); [lia|reflexivity].
Qed.

Lemma insert48 : forall lf a b k, good (a ++ k :: b) -> length a + length b < 48 ->
  l_insert (canon48 lf (a ++ b)) (length a) k = canon48 lf (a ++ k :: b).
Proof.
  intros lf a b k HG HL.
  destruct (good_app_inv a k b HG) as (Ha & Hb & Hk & [HSab HBab] & Hma & Hmb).
  rewrite Forall_app in HBab. destruct HBab as [HBa HBb].
  unfold l_insert. cbn [l_kind l_size l_leaf l_keys l_index l_children canon48 N.eqb Pos.eqb orb].
  rewrite app_length. replace (length a + length b - length a) with (length b) by lia.
  replace (48 - (length a + length b)) with (S (48 - (length a + S (length b)))) by lia.
  cbn [repeat]. rewrite map_app, <- app_assoc.
  destruct (ins48_loop_spec b (map Some a) None (repeat None (48 - (length a + S (length b)))) (index_of (a ++ b))
              (index_of_length _) HBb) as (ix' & E1 & E2 & E3).
  rewrite map_length in E1, E3. rewrite E1. unfold canon48. f_equal.
  - rewrite app_length. cbn [length]. lia.
  - apply index_ext; [rewrite set_nth_length; exact E2|].
    intros j Hj. rewrite nth_set_nth by lia. rewrite E3 by exact Hj.
    rewrite nth_index_of by exact Hj. rewrite !pos_in_app. cbn [pos_in].
    destruct (Nat.eqb_spec j (N.to_nat k)) as [->|Hne].
    + rewrite N2Nat.id, N.eqb_refl. rewrite (pos_in_zero _ _ Hma). lia.
    + destruct (N.eqb_spec k (N.of_nat j)) as [->|Hne']; [rewrite Nat2N.id in Hne; lia|].
      destruct (pos_in (N.of_nat j) b) as [|t] eqn:Eb.
      * destruct (pos_in (N.of_nat j) a); reflexivity.
      * assert (Hja : pos_in (N.of_nat j) a = 0).
        { apply pos_in_zero. apply memb_false. intros Hin.
          destruct (pos_in_nth _ _ _ Eb) as [Ht Hn]. rewrite Forall_forall in Ha, Hb.
          specialize (Ha _ Hin). specialize (Hb (nth t b 0%N) (nth_In _ _ Ht)). lia. }
        rewrite Hja. lia.
  - rewrite <- (map_length (@Some N) a). destruct b as [|x b].
    + cbn [app map]. rewrite set_nth_mid. rewrite map_app. cbn [map length]. rewrite <- app_assoc.
      rewrite !app_length, map_length. cbn [length app]. reflexivity.
    + cbn [app]. rewrite set_nth_mid. rewrite !map_app. cbn [map]. rewrite <- !app_assoc.
      rewrite !app_length, map_length. cbn [length app]. reflexivity.
Qed.

Lemma last_cons_indep : forall A (l : list A) x d1 d2, last (x :: l) d1 = last (x :: l) d2.
Proof. induction l as [|y l IH]; intros; [reflexivity|]. cbn [last] in *. apply IH. Qed.

(* ---- remove: the loop shifting children[idx+1..size-1] down by one and re-indexing them ---- *)
Lemma rem48_loop_spec : forall Bk A c0 C ix, length ix = 256 -> Forall (fun x => (x < 256)%N) Bk -> ssorted Bk ->
  exists ix', rem48_loop (length Bk) (length A) ix (A ++ c0 :: map (@Some N) Bk ++ C)
              = (ix', A ++ map (@Some N) Bk ++ last (map (@Some N) Bk) c0 :: C) /\
    length ix' = 256 /\
    forall j, j < 256 -> nth j ix' 0 = match pos_in (N.of_nat j) Bk with 0 => nth j ix 0 | S t => length A + t + 1 end.
Proof.
  intros Bk. induction Bk as [|b Bk' IH]; intros A c0 C ix HL HB HS.
  - exists ix. cbn. repeat split; auto.
  - apply Forall_cons_iff in HB. destruct HB as [Hb HB']. destruct HS as [Hbs HS'].
    cbn [length rem48_loop map app].
    assert (Ech : child_at (A ++ c0 :: Some b :: map Some Bk' ++ C) (S (length A)) = Some b).
    { unfold child_at. replace (A ++ c0 :: Some b :: map Some Bk' ++ C) with ((A ++ [c0]) ++ Some b :: map Some Bk' ++ C)
        by (rewrite <- app_assoc; reflexivity).
      replace (S (length A)) with (length (A ++ [c0])) by (rewrite app_length; cbn; lia). apply nth_app_exact. }
    rewrite Ech. rewrite set_nth_mid.
    destruct (IH (A ++ [Some b]) (Some b) C (set_nth (N.to_nat b) (S (length A)) ix)) as (ix' & E1 & E2 & E3);
      [rewrite set_nth_length; exact HL | exact HB' | exact HS' |].
    rewrite app_length in E1, E3. cbn [length] in E1, E3. rewrite Nat.add_1_r in E1. rewrite <- app_assoc in E1. cbn [app] in E1.
    exists ix'. split; [|split; [exact E2|]].
    + rewrite E1. rewrite <- app_assoc. cbn [app]. f_equal. f_equal. f_equal. f_equal.
      destruct Bk' as [|y Bk']; [reflexivity|]. f_equal. cbn [map last]. apply last_cons_indep.
    + intros j Hj. rewrite E3 by exact Hj. cbn [pos_in].
      destruct (N.eqb_spec b (N.of_nat j)) as [->|Hne].
      * rewrite pos_in_zero by (apply memb_false, ssorted_NoDup_in; exact Hbs).
        rewrite nth_set_nth by lia. rewrite Nat2N.id, Nat.eqb_refl. lia.
      * destruct (pos_in (N.of_nat j) Bk') as [|t]; [|lia].
        rewrite nth_set_nth by lia. destruct (Nat.eqb_spec j (N.to_nat b)); [lia|reflexivity].
Qed.

Lemma remove48 : forall lf a b k, good (a ++ k :: b) -> length a + S (length b) <= 48 ->
  l_remove (canon48 lf (a ++ k :: b)) (length a) = canon48 lf (a ++ b).
Proof.
  intros lf a b k HG HL.
  destruct (good_app_inv a k b HG) as (Ha & Hb & Hk & [HSab HBab] & Hma & Hmb).
  rewrite Forall_app in HBab. destruct HBab as [HBa HBb].
  apply ssorted_app in HSab. destruct HSab as (HSa & HSb & Hab).
  unfold l_remove. cbn [l_kind l_size l_leaf l_keys l_index l_children canon48 N.eqb Pos.eqb orb].
  rewrite app_length. cbn [length]. replace (length a + S (length b) - 1 - length a) with (length b) by lia.
  rewrite map_app. cbn [map]. rewrite <- app_assoc. cbn [app].
  assert (Ek : child_at (map Some a ++ Some k :: map Some b ++ repeat None (48 - (length a + S (length b)))) (length a) = Some k).
  { unfold child_at. rewrite <- (map_length (@Some N) a). apply nth_app_exact. }
  rewrite Ek. cbn [child_key].
  destruct (rem48_loop_spec b (map Some a) (Some k) (repeat None (48 - (length a + S (length b)))) (index_of (a ++ k :: b))
              (index_of_length _) HBb HSb) as (ix' & E1 & E2 & E3).
  rewrite map_length in E1, E3. rewrite E1. unfold canon48. f_equal.
  - rewrite app_length. lia.
  - apply index_ext; [rewrite set_nth_length; exact E2|].
    intros j Hj. rewrite nth_set_nth by lia. rewrite E3 by exact Hj.
    rewrite nth_index_of by exact Hj. rewrite !pos_in_app. cbn [pos_in].
    destruct (Nat.eqb_spec j (N.to_nat k)) as [->|Hne].
    + rewrite N2Nat.id. rewrite (pos_in_zero _ _ Hma), (pos_in_zero _ _ Hmb). reflexivity.
    + destruct (N.eqb_spec k (N.of_nat j)) as [->|Hne']; [rewrite Nat2N.id in Hne; lia|].
      destruct (pos_in (N.of_nat j) b) as [|t] eqn:Eb.
      * destruct (pos_in (N.of_nat j) a); reflexivity.
      * assert (Hja : pos_in (N.of_nat j) a = 0).
        { apply pos_in_zero. apply memb_false. intros Hin.
          destruct (pos_in_nth _ _ _ Eb) as [Ht Hn]. specialize (Hab _ _ Hin (nth_In b 0%N Ht)). lia. }
        rewrite Hja. lia.
  - replace (length a + S (length b) - 1) with (length (map (@Some N) a ++ map (@Some N) b))
      by (rewrite app_length, !map_length; lia).
    rewrite app_assoc. rewrite set_nth_mid. rewrite map_app, <- app_assoc.
    replace (48 - length (a ++ b)) with (S (48 - (length a + S (length b)))) by (rewrite app_length; lia).
    rewrite <- app_assoc. reflexivity.
Qed.

(* ---- promote 16 -> 48 ---- *)
Lemma promote_index_spec : forall ks i ix, length ix = 256 -> Forall (fun x => (x < 256)%N) ks -> ssorted ks ->
  length (promote_index i ks ix) = 256 /\
  forall j, j < 256 -> nth j (promote_index i ks ix) 0 = match pos_in (N.of_nat j) ks with 0 => nth j ix 0 | S p => i + S p end.
Proof.
  induction ks as [|k r IH]; intros i ix HL HB HS; cbn [promote_index pos_in].
  - split; auto.
  - apply Forall_cons_iff in HB. destruct HB as [Hk HB]. destruct HS as [Hks HS].
    destruct (IH (S i) (set_nth (N.to_nat k) (S i) ix)) as [E1 E2]; [rewrite set_nth_length; exact HL | exact HB | exact HS |].
    split; [exact E1|]. intros j Hj. rewrite E2 by exact Hj.
    destruct (N.eqb_spec k (N.of_nat j)) as [->|Hne].
    + rewrite pos_in_zero by (apply memb_false, ssorted_NoDup_in; exact Hks).
      rewrite nth_set_nth by lia. rewrite Nat2N.id, Nat.eqb_refl. lia.
    + destruct (pos_in (N.of_nat j) r) as [|t]; [|lia].
      rewrite nth_set_nth by lia. destruct (Nat.eqb_spec j (N.to_nat k)); [lia|reflexivity].
Qed.

Lemma promote_16 : forall lf ks m z, good ks -> length ks <= 48 ->
  l_promote (canon_keyed 16 lf ks m z) = canon48 lf ks.
Proof.
  intros lf ks m z [HS HB] HL. unfold l_promote, canon_keyed, canon48.
  cbn [l_kind l_size l_leaf l_keys l_children N.eqb Pos.eqb]. f_equal.
  - rewrite firstn_app_exact.
    destruct (promote_index_spec ks 0 (repeat 0 256) (repeat_length _ _) HB HS) as [E1 E2].
    apply index_ext; [exact E1|]. intros j Hj. rewrite E2 by exact Hj.
    destruct (pos_in (N.of_nat j) ks); [|reflexivity].
    apply nth_repeat.
  - rewrite <- (map_length (@Some N) ks) at 1. rewrite firstn_app_exact.
    rewrite copy_into_repeat by (rewrite map_length; lia). rewrite map_length. reflexivity.
Qed.

(* ---- the arrays rebuilt by the demotion 48 -> 16 ---- *)
Lemma demote_48_arrays : forall lf a b k, length a + length b <= 16 ->
  let cs := skip_nth (length a) (firstn (length (a ++ k :: b)) (l_children (canon48 lf (a ++ k :: b)))) in
  mkL 16 (length (a ++ k :: b) - 1) lf (copy_into (map child_key cs) (repeat 0%N 16)) [] (copy_into cs (repeat None 16))
  = canon_keyed 16 lf (a ++ b) 0 (16 - length (a ++ b)).
Proof.
  intros lf a b k HL. cbn zeta. unfold canon48, canon_keyed. cbn [l_children].
  assert (E1 : forall R, firstn (length (a ++ k :: b)) (map (@Some N) (a ++ k :: b) ++ R) = map (@Some N) (a ++ k :: b)).
  { intros R. rewrite <- (map_length (@Some N) (a ++ k :: b)). apply firstn_app_exact. }
  rewrite E1.
  assert (E2 : skip_nth (length a) (map (@Some N) (a ++ k :: b)) = map (@Some N) (a ++ b)).
  { rewrite !map_app. cbn [map]. rewrite <- (map_length (@Some N) a). apply skip_nth_app. }
  rewrite E2.
  assert (Ek : map child_key (map (@Some N) (a ++ b)) = a ++ b).
  { rewrite map_map. cbn [child_key]. apply map_id. }
  rewrite Ek. rewrite !copy_into_repeat by (rewrite ?map_length, app_length; lia).
  f_equal.
  - rewrite !app_length. cbn [length]. lia.
  - rewrite map_length. reflexivity.
Qed.
