(* Part/Delete.v — Txn.delete / removeChild refine om_delete and preserve wfk. *)
From SV Require Import Base.Bytes Base.OrdMap Part.Model Part.Sem Part.Insert.
From Coq Require Import ZifyN ZifyNat ZifyBool.
Open Scope N_scope.

Lemma wfk_merge acc p x : wfk (acc ++ p) x -> wfk acc (merge_child p x).
Proof.
  intros H. unfold merge_child. apply wfk_set_prefix. now rewrite set_prefix_id.
Qed.
Lemma ents_merge p x : ents (merge_child p x) = map (pre p) (ents x).
Proof. unfold merge_child. rewrite ents_set_prefix. now rewrite set_prefix_id. Qed.
Lemma prefix_merge p x : node_prefix (merge_child p x) = p ++ node_prefix x.
Proof. destruct x; reflexivity. Qed.

Lemma om_delete_all_gt k (L : list ent) : all_gt L k -> om_delete k L = L.
Proof.
  destruct L as [|[k' v'] L]; simpl; auto. intros H. inversion H; subst; simpl in *.
  now destruct (ltb_of_lt k k') as [-> ->].
Qed.
Lemma om_delete_all_lt k (L : list ent) : all_lt L k -> om_delete k L = L.
Proof. intros H. rewrite <- (app_nil_r L) at 1. rewrite om_delete_app_l by auto. simpl. now rewrite app_nil_r. Qed.

Lemma ch_gt_remove b0 b ch : ch_gt b0 ch -> ch_gt b0 (ch_remove b ch).
Proof.
  induction ch as [|b' y r IH]; simpl; auto. intros [H1 H2]. destruct (b' =? b); simpl; auto.
Qed.
Lemma ch_gt_set b0 b x ch : ch_gt b0 ch -> ch_gt b0 (ch_set b x ch).
Proof.
  induction ch as [|b' y r IH]; simpl; auto. intros [H1 H2]. destruct (b' =? b); simpl; auto.
Qed.

Lemma ch_find_none_get acc b tl : forall ch,
  wfk_ch acc ch -> ch_find b ch = None -> om_get (b :: tl) (ents_ch ch) = None.
Proof.
  intros ch Hw Hf.
  destruct (ch_insert_spec acc b (b :: tl) (mkLeaf (acc ++ b :: tl) 0 0) ch Hw Hf eq_refl eq_refl) as (_ & _ & G).
  exact G.
Qed.

Lemma ch_find_get acc b tl : forall ch x,
  wfk_ch acc ch -> ch_find b ch = Some x -> om_get (b :: tl) (ents_ch ch) = om_get (b :: tl) (ents x).
Proof.
  induction ch as [|b' y r IH]; simpl; intros x Hw Hf; [discriminate|].
  destruct Hw as (Hhy & Hy & Hg & Hr).
  destruct (N.eqb_spec b' b) as [->|Hne].
  - injection Hf as ->. rewrite om_get_app_r; auto. eapply ents_ch_all_gt; eauto.
  - assert (Hlt : b' < b) by (eapply ch_gt_find; eauto).
    rewrite om_get_app_l; auto. eapply starts_lt; eauto. now apply ents_starts.
Qed.

Lemma om_get_strip_none p key (L : list ent) : strip p key = None -> om_get key (map (pre p) L) = None.
Proof.
  intros Hs. induction L as [|[k' v'] L IH]; simpl; auto.
  destruct (bytes_eqb key (p ++ k')) eqn:E.
  - apply bytes_eqb_spec in E. subst key. rewrite strip_app in Hs. discriminate.
  - destruct (bytes_ltb key (p ++ k')); auto.
Qed.

(* the child found under byte b is replaced *)
Lemma ch_set_spec acc b tl x' : forall ch x,
  wfk_ch acc ch -> ch_find b ch = Some x -> wfk acc x' -> hd_is b (node_prefix x') ->
  ents x' = om_delete (b :: tl) (ents x) ->
  wfk_ch acc (ch_set b x' ch) /\
  ents_ch (ch_set b x' ch) = om_delete (b :: tl) (ents_ch ch) /\
  om_get (b :: tl) (ents_ch ch) = om_get (b :: tl) (ents x).
Proof.
  induction ch as [|b' y r IH]; simpl; intros x Hw Hf Hx' Hh He; [discriminate|].
  destruct Hw as (Hhy & Hy & Hg & Hr).
  destruct (N.eqb_spec b' b) as [->|Hne].
  - injection Hf as ->. simpl.
    assert (G : all_gt (ents_ch r) (b :: tl)) by (eapply ents_ch_all_gt; eauto).
    rewrite om_delete_app_r, om_get_app_r by auto. rewrite He. repeat split; auto.
  - assert (Hlt : b' < b) by (eapply ch_gt_find; eauto).
    destruct (IH x Hr Hf Hx' Hh He) as (W & E & G).
    assert (A : all_lt (ents y) (b :: tl)) by (eapply starts_lt; eauto; now apply ents_starts).
    simpl. rewrite om_delete_app_l, om_get_app_l by auto. rewrite E. repeat split; auto.
    now apply ch_gt_set.
Qed.

(* the child found under byte b disappears *)
Lemma ch_remove_spec acc b tl : forall ch x,
  wfk_ch acc ch -> ch_find b ch = Some x -> om_delete (b :: tl) (ents x) = [] ->
  wfk_ch acc (ch_remove b ch) /\
  ents_ch (ch_remove b ch) = om_delete (b :: tl) (ents_ch ch) /\
  om_get (b :: tl) (ents_ch ch) = om_get (b :: tl) (ents x).
Proof.
  induction ch as [|b' y r IH]; simpl; intros x Hw Hf He; [discriminate|].
  destruct Hw as (Hhy & Hy & Hg & Hr).
  destruct (N.eqb_spec b' b) as [->|Hne].
  - injection Hf as ->.
    assert (G : all_gt (ents_ch r) (b :: tl)) by (eapply ents_ch_all_gt; eauto).
    rewrite om_delete_app_r, om_get_app_r by auto. rewrite He. repeat split; auto.
  - assert (Hlt : b' < b) by (eapply ch_gt_find; eauto).
    destruct (IH x Hr Hf He) as (W & E & G).
    assert (A : all_lt (ents y) (b :: tl)) by (eapply starts_lt; eauto; now apply ents_starts).
    simpl. rewrite om_delete_app_l, om_get_app_l by auto. rewrite E. repeat split; auto.
    now apply ch_gt_remove.
Qed.

(* with two children, removing the one under b leaves exactly ch_other *)
Lemma ch_two_remove b : forall ch y x,
  ch_len ch = 2 -> ch_find b ch = Some y -> ch_other b ch = Some x ->
  ents_ch (ch_remove b ch) = ents x /\ forall acc, wfk_ch acc ch -> wfk acc x.
Proof.
  intros ch y x Hl Hf Ho.
  destruct ch as [|b1 x1 [|b2 x2 [|b3 x3 r]]]; cbn [ch_len] in Hl; try lia.
  simpl in *. destruct (N.eqb_spec b1 b) as [->|N1].
  - destruct (b2 =? b); [discriminate|]. injection Ho as ->. simpl. rewrite app_nil_r. split; auto.
    intros acc H. tauto.
  - injection Ho as ->. destruct (N.eqb_spec b2 b) as [->|N2]; [|discriminate].
    simpl. rewrite app_nil_r. split; auto. intros acc H. tauto.
Qed.

Section Del.
Variable c : ctx.

Lemma remove_child_spec acc s kd t p w lf ch b tl y :
  wfk_ch (acc ++ p) ch -> match lf with Some l => lf_key l = acc ++ p | None => True end ->
  ch_find b ch = Some y -> om_delete (b :: tl) (ents y) = [] ->
  let n' := fst (fst (remove_child c s kd t p w lf ch b)) in
  wfk acc n' /\
  ents n' = map (pre p) (lfe lf ++ om_delete (b :: tl) (ents_ch ch)) /\
  (forall b0, hd_is b0 p -> hd_is b0 (node_prefix n')).
Proof.
  intros Hc Hl Hf Hd. destruct (ch_remove_spec (acc ++ p) b tl ch y Hc Hf Hd) as (W & E & _).
  unfold remove_child.
  assert (Generic : forall kd' t' w', wfk acc (Inner kd' t' p w' lf (ch_remove b ch)) /\
    ents (Inner kd' t' p w' lf (ch_remove b ch)) = map (pre p) (lfe lf ++ om_delete (b :: tl) (ents_ch ch)) /\
    (forall b0, hd_is b0 p -> hd_is b0 (node_prefix (Inner kd' t' p w' lf (ch_remove b ch))))).
  { intros. simpl. rewrite E. repeat split; auto. }
  destruct (ch_len ch =? 2) eqn:E2; [destruct lf as [l|]; [|destruct (ch_other b ch) as [x|] eqn:Eo]|].
  2:{ (* merge with the remaining child *)
    apply N.eqb_eq in E2. destruct (ch_two_remove b ch y x E2 Hf Eo) as (Ee & Wx).
    cbn [fst]. rewrite ents_merge, prefix_merge. simpl lfe. rewrite <- E, Ee. simpl.
    repeat split; auto.
    - apply wfk_merge; auto.
    - intros b0 H. now apply hd_is_app. }
  all: destruct (_ || _); [destruct (fresh_if w s) as [w' s1]|destruct (clone_hdr c s t w) as [[t' w'] s1]];
    cbn [fst]; apply Generic.
Qed.

Definition dspec (acc : bytes) (n : node) (key : bytes) (r : dres) : Prop :=
  match r with
  | DNone => om_get key (ents n) = None
  | DSome old repl _ _ =>
    om_get key (ents n) = Some old /\
    match repl with
    | Some n' => wfk acc n' /\ ents n' = om_delete key (ents n) /\
                 (forall b, hd_is b (node_prefix n) -> hd_is b (node_prefix n'))
    | None => om_delete key (ents n) = []
    end
  end.

Lemma del_ch_find s b key : forall ch,
  del_ch c s ch b key = match ch_find b ch with Some x => del_node c s x key | None => DNone end.
Proof.
  induction ch as [|b' x r IH]; [reflexivity|].
  cbn [del_ch ch_find]; fold (del_node c); fold (del_ch c). destruct (b' =? b); auto.
Qed.

Lemma ch_find_wfk acc b : forall ch x, wfk_ch acc ch -> ch_find b ch = Some x -> wfk acc x /\ hd_is b (node_prefix x).
Proof.
  induction ch as [|b' y r IH]; simpl; intros x Hw Hf; [discriminate|].
  destruct Hw as (Hh & Hy & _ & Hr). destruct (N.eqb_spec b' b) as [->|Hne]; auto.
  injection Hf as ->. auto.
Qed.

Theorem delete_spec :
  (forall n acc s key, wfk acc n -> dspec acc n key (del_node c s n key)) /\
  (forall ch acc s x key, wfk_ch acc ch -> wfk acc x -> (exists b, ch_find b ch = Some x) ->
     dspec acc x key (del_node c s x key)).
Proof.
  apply node_children_ind.
  - (* Leaf *)
    intros p l acc s key Hw. cbn [del_node].
    destruct (bytes_cmp_cases key p) as [[E ->]|[[E [L _]]|[E [L _]]]]; rewrite E; simpl; rewrite E; auto.
    + now rewrite L.
    + now rewrite L.
  - (* Inner *)
    intros kd t p w lf ch IH acc s key Hw. cbn [del_node]; fold (del_ch c).
    destruct Hw as [Hl Hc].
    destruct (strip p key) as [[|b rest]|] eqn:Es.
    + apply strip_nil_rest in Es. subst key.
      destruct lf as [l|].
      * assert (G : all_gt (ents_ch ch) []) by (eapply ents_ch_nil_gt; eauto).
        assert (Dl : om_delete p (ents (Inner kd t p w (Some l) ch)) = map (pre p) (ents_ch ch))
          by (cbn [ents lfe]; rewrite om_delete_pre_nil; reflexivity).
        assert (Gt : om_get p (ents (Inner kd t p w (Some l) ch)) = Some (lf_val l))
          by (cbn [ents lfe]; rewrite om_get_pre_nil; reflexivity).
        destruct ch as [|b1 x1 [|b2 x2 r]].
        -- cbn [dspec]. rewrite Gt, Dl. split; auto.
        -- cbn [dspec]. rewrite Gt, Dl. split; auto. rewrite ents_merge, prefix_merge. simpl. rewrite app_nil_r.
           repeat split; auto. { apply wfk_merge. simpl in Hc. tauto. } intros b H. now apply hd_is_app.
        -- destruct (clone_hdr c (record (lf_w l) s) t w) as [[t' w'] s2]. cbn [dspec]. rewrite Gt, Dl.
           repeat split; auto; simpl in Hc; tauto.
      * simpl. rewrite om_get_pre_nil. apply om_get_all_gt. eapply ents_ch_nil_gt; eauto.
    + apply strip_some in Es. subst key. rewrite del_ch_find.
      assert (Lf : all_lt (lfe lf) (b :: rest)) by (destruct lf; simpl; repeat constructor).
      assert (Gp : om_get (p ++ b :: rest) (ents (Inner kd t p w lf ch)) = om_get (b :: rest) (ents_ch ch))
        by (cbn [ents]; now rewrite om_get_pre, om_get_app_l by auto).
      assert (Dp : om_delete (p ++ b :: rest) (ents (Inner kd t p w lf ch)) =
                   map (pre p) (lfe lf ++ om_delete (b :: rest) (ents_ch ch)))
        by (cbn [ents]; now rewrite om_delete_pre, om_delete_app_l by auto).
      destruct (ch_find b ch) as [x|] eqn:Ef.
      * destruct (ch_find_wfk _ _ _ _ Hc Ef) as [Wx Hx].
        specialize (IH (acc ++ p) s x (b :: rest) Hc Wx (ex_intro _ b Ef)).
        destruct (del_node c s x (b :: rest)) as [|old repl s1 ip]; cbn [dspec] in IH.
        -- cbn [dspec]. rewrite Gp. erewrite ch_find_get; eauto.
        -- destruct IH as [Go IH]. destruct repl as [x'|].
           ++ destruct IH as (Wx' & Ex' & Hp).
              destruct (ch_set_spec (acc ++ p) b rest x' ch x Hc Ef Wx' (Hp _ Hx) Ex') as (W & E & G).
              destruct ip.
              ** cbn [dspec]. rewrite Gp, Dp, G. cbn [ents wfk node_prefix]. rewrite E. repeat split; auto.
              ** destruct (clone_hdr c s1 t w) as [[t' w'] s2].
                 cbn [dspec]. rewrite Gp, Dp, G. cbn [ents wfk node_prefix]. rewrite E. repeat split; auto.
           ++ destruct (ch_remove_spec (acc ++ p) b rest ch x Hc Ef IH) as (_ & _ & G).
              pose proof (remove_child_spec acc s1 kd t p w lf ch b rest x Hc Hl Ef IH) as R.
              destruct (remove_child c s1 kd t p w lf ch b) as [[n' s2] ip']. cbn [fst] in R.
              destruct R as (W & E & Hp).
              cbn [dspec]. rewrite Gp, Dp, G. repeat split; auto.
      * cbn [dspec]. rewrite Gp. eapply ch_find_none_get; eauto.
    + cbn [dspec ents]. now apply om_get_strip_none.
  - intros acc s x key _ _ [b H]. simpl in H. discriminate.
  - intros b' y IHy r IHr acc s x key Hw Wx [b Hf]. simpl in Hf.
    destruct Hw as (_ & Hy & _ & Hr).
    destruct (b' =? b).
    + injection Hf as <-. now apply IHy.
    + apply IHr; eauto.
Qed.
End Del.
