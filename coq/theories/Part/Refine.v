(* Part/Refine.v — Txn/Tree level refinement to Base/OrdMap and histories. *)
From SV Require Import Base.Bytes Base.OrdMap Part.Model Part.Sem Part.Insert Part.Delete Part.Query.
From Coq Require Import ZifyN ZifyNat ZifyBool.
Open Scope N_scope.

Definition abs_root (r : option node) : omap N := match r with None => [] | Some n => ents n end.
Definition wf_root (r : option node) : Prop := match r with None => True | Some n => wfk [] n end.
Definition abs_txn (x : txn) : omap N := abs_root (t_root x).
Definition abs_tree (t : tree) : omap N := abs_root (tr_root t).
Definition len_ok (sz : N) (m : omap N) : Prop := sz = N.of_nat (length m).
Definition txn_ok (x : txn) : Prop := wf_root (t_root x) /\ len_ok (t_size x) (abs_txn x).
Definition tree_ok (t : tree) : Prop := wf_root (tr_root t) /\ len_ok (tr_size t) (abs_tree t).

Lemma abs_sorted r : wf_root r -> om_sorted (abs_root r).
Proof. destruct r as [n|]; simpl; auto. intros H. eapply (proj1 ents_sorted); eauto. Qed.

Lemma om_insert_length k v (m : omap N) :
  length (om_insert k v m) = match om_get k m with Some _ => length m | None => S (length m) end.
Proof.
  induction m as [|[k' v'] m IH]; simpl; auto.
  destruct (bytes_eqb k k'); simpl; auto. destruct (bytes_ltb k k'); simpl; auto.
  rewrite IH. destruct (om_get k m); auto.
Qed.
Lemma om_delete_length k (m : omap N) :
  length (om_delete k m) = match om_get k m with Some _ => pred (length m) | None => length m end.
Proof.
  induction m as [|[k' v'] m IH]; simpl; auto.
  destruct (bytes_eqb k k'); simpl; auto. destruct (bytes_ltb k k'); simpl; auto.
  rewrite IH. destruct (om_get k m) eqn:E; auto. destruct m; simpl in *; [discriminate|auto].
Qed.

(* Insert / Modify / InsertWatch / ModifyWatch *)
Theorem txn_modify_refines x md key v :
  txn_ok x ->
  let '(x', old, nv, _) := txn_modify x md key v in
  txn_ok x' /\
  abs_txn x' = om_insert key nv (abs_txn x) /\
  old = om_get key (abs_txn x) /\
  nv = match old with Some o => new_val md v o | None => v end.
Proof.
  intros [Hw Hl]. unfold txn_modify, txn_ok, abs_txn in *.
  destruct (t_root x) as [n|] eqn:Er; simpl in Hw, Hl.
  - pose proof (proj1 (modify_spec (txn_ctx x) md key v) n [] (t_st x) key Hw eq_refl) as (W & E & O & V & _).
    set (r := modify_node (txn_ctx x) md key v (t_st x) n key) in *. simpl.
    rewrite E, O. repeat split; auto.
    + unfold len_ok in *. rewrite om_insert_length, Hl. destruct (om_get key (ents n)); lia.
    + now rewrite <- O.
  - destruct (fresh (txn_ctx x) (t_st x)) as [lw s1]. cbn [m_node m_old m_val t_root t_size abs_root wf_root wfk ents].
    unfold len_ok in *. simpl in *. repeat split; auto. lia.
Qed.

(* Delete *)
Theorem txn_delete_refines x key :
  txn_ok x ->
  let '(x', old) := txn_delete x key in
  txn_ok x' /\ abs_txn x' = om_delete key (abs_txn x) /\ old = om_get key (abs_txn x).
Proof.
  intros [Hw Hl]. unfold txn_delete, txn_ok, abs_txn in *.
  destruct (t_root x) as [n|] eqn:Er; simpl in Hw, Hl.
  - pose proof (proj1 (delete_spec (txn_ctx x)) n [] (t_st x) key Hw) as D.
    destruct (del_node (txn_ctx x) (t_st x) n key) as [|old repl s ip]; cbn [dspec] in D.
    + rewrite Er. cbn [abs_root wf_root]. repeat split; auto.
      * pose proof (om_delete_length key (ents n)) as L. rewrite D in L.
        assert (S : om_sorted (ents n)) by (eapply (proj1 ents_sorted); eauto).
        assert (S2 : om_sorted (om_delete key (ents n))) by now apply om_delete_sorted.
        symmetry. apply om_ext; auto. intros k.
        destruct (bytes_cmp_cases k key) as [[_ ->]|[[Eq _]|[Eq _]]].
        -- rewrite om_get_delete_same; auto.
        -- apply om_get_delete_other; auto. now apply bytes_eqb_false.
        -- apply om_get_delete_other; auto. now apply bytes_eqb_false.
    + destruct D as [G D]. cbn [t_root t_size abs_root]. rewrite G.
      assert (Ln : len_ok (t_size x - 1) (om_delete key (ents n))).
      { unfold len_ok in *. rewrite om_delete_length, G, Hl. lia. }
      destruct repl as [n'|]; cbn [abs_root wf_root].
      * destruct D as (W & E & _). rewrite E. repeat split; auto.
      * rewrite D in *. repeat split; auto.
  - rewrite Er. simpl. repeat split; auto.
Qed.

(* Get *)
Theorem root_get_refines r rw key : wf_root r -> fst (root_get r rw key) = om_get key (abs_root r).
Proof. destruct r as [n|]; simpl; auto. intros H. eapply (proj1 search_spec); eauto. Qed.

(* full iteration: Iterator.All on a fresh iterator *)
Theorem iter_all_refines r : wf_root r -> iter_all (new_iterator r) = abs_root r.
Proof.
  destruct r as [n|]; [|reflexivity]. intros H. unfold iter_all, new_iterator, abs_root. cbn [it_start].
  rewrite (proj1 entries_ents n [] H). apply map_pre_nil.
Qed.

(* Tree.Txn, Clone, Commit, New *)
Lemma tree_txn_ok t next : tree_ok t -> txn_ok (tree_txn t next) /\ abs_txn (tree_txn t next) = abs_tree t.
Proof. intros [H1 H2]. repeat split; auto. Qed.
Lemma txn_commit_ok x : txn_ok x -> tree_ok (snd (txn_commit x)) /\ abs_tree (snd (txn_commit x)) = abs_txn x
  /\ txn_ok (fst (txn_commit x)) /\ abs_txn (fst (txn_commit x)) = abs_txn x.
Proof. intros [H1 H2]. unfold txn_commit. destruct (t_dirty x); repeat split; auto. Qed.
Lemma txn_clone_ok x : txn_ok x -> tree_ok (snd (txn_clone x)) /\ abs_tree (snd (txn_clone x)) = abs_txn x
  /\ txn_ok (fst (txn_clone x)) /\ abs_txn (fst (txn_clone x)) = abs_txn x.
Proof. intros [H1 H2]. repeat split; auto. Qed.
Lemma txn_notify_ok x : txn_ok x -> txn_ok (fst (txn_notify x)) /\ abs_txn (fst (txn_notify x)) = abs_txn x.
Proof. intros [H1 H2]. repeat split; auto. Qed.
Lemma tree_new_ok ro next : tree_ok (fst (tree_new ro next)) /\ abs_tree (fst (tree_new ro next)) = [].
Proof. repeat split; auto. Qed.
Lemma bump_ok x : txn_ok x -> txn_ok (bump x) /\ abs_txn (bump x) = abs_txn x.
Proof. intros [H1 H2]. repeat split; auto. Qed.

(* ---- histories: any sequence of write operations and id bumps (Clone, Iterator, Prefix,
   LowerBound, All only bump txnID) inside a txn ---- *)
Inductive wop :=
| WIns (k : bytes) (v : N)
| WMod (k : bytes) (v : N) (f : N -> N -> N)
| WDel (k : bytes)
| WBump.

Definition wstep (x : txn) (o : wop) : txn :=
  match o with
  | WIns k v => fst (fst (fst (txn_modify x None k v)))
  | WMod k v f => fst (fst (fst (txn_modify x (Some f) k v)))
  | WDel k => fst (txn_delete x k)
  | WBump => bump x
  end.
Definition mstep (m : omap N) (o : wop) : omap N :=
  match o with
  | WIns k v => om_insert k v m
  | WMod k v f => om_insert k (match om_get k m with Some o => f o v | None => v end) m
  | WDel k => om_delete k m
  | WBump => m
  end.

Lemma wstep_refines x o : txn_ok x -> txn_ok (wstep x o) /\ abs_txn (wstep x o) = mstep (abs_txn x) o.
Proof.
  intros H. destruct o as [k v|k v f|k|]; cbn [wstep mstep].
  - pose proof (txn_modify_refines x None k v H) as R. destruct (txn_modify x None k v) as [[[x' old] nv] w].
    destruct R as (A & B & C & D). cbn [fst]. split; auto. rewrite B, D. now destruct old.
  - pose proof (txn_modify_refines x (Some f) k v H) as R. destruct (txn_modify x (Some f) k v) as [[[x' old] nv] w].
    destruct R as (A & B & C & D). cbn [fst]. split; auto. rewrite B, D, C. reflexivity.
  - pose proof (txn_delete_refines x k H) as R. destruct (txn_delete x k) as [x' old].
    destruct R as (A & B & C). cbn [fst]. auto.
  - now apply bump_ok.
Qed.

Theorem history_refines ops : forall x, txn_ok x ->
  txn_ok (fold_left wstep ops x) /\ abs_txn (fold_left wstep ops x) = fold_left mstep ops (abs_txn x).
Proof.
  induction ops as [|o ops IH]; intros x H; simpl; auto.
  destruct (wstep_refines x o H) as [H1 H2]. destruct (IH _ H1) as [H3 H4]. split; auto. now rewrite H4, H2.
Qed.

(* a chain of transactions, each committed (with or without Notify) on the previous tree *)
Fixpoint run_txns (t : tree) (next : N) (txns : list (list wop)) : list tree :=
  match txns with
  | [] => []
  | ops :: rest =>
    let x := fold_left wstep ops (tree_txn t next) in
    let t' := snd (txn_commit x) in
    t' :: run_txns t' (s_next (t_st (fst (txn_commit x)))) rest
  end.
Fixpoint run_abs (m : omap N) (txns : list (list wop)) : list (omap N) :=
  match txns with
  | [] => []
  | ops :: rest => let m' := fold_left mstep ops m in m' :: run_abs m' rest
  end.

Theorem chain_refines txns : forall t next, tree_ok t ->
  Forall tree_ok (run_txns t next txns) /\ map abs_tree (run_txns t next txns) = run_abs (abs_tree t) txns.
Proof.
  induction txns as [|ops rest IH]; intros t next H; simpl; auto.
  destruct (tree_txn_ok t next H) as [H1 H2].
  destruct (history_refines ops _ H1) as [H3 H4].
  destruct (txn_commit_ok _ H3) as (H5 & H6 & _).
  destruct (IH (snd (txn_commit (fold_left wstep ops (tree_txn t next))))
               (s_next (t_st (fst (txn_commit (fold_left wstep ops (tree_txn t next)))))) H5) as [H7 H8].
  split; [constructor; auto|]. rewrite H8, H6, H4, H2. reflexivity.
Qed.

(* persistence over histories: the versions produced by a chain are not affected by any
   continuation of the chain (the model is pure; the id discipline that justifies reading
   the Go heap this way is Part/Cow.v) *)
Theorem chain_persistent txns0 : forall txns1 t next,
  exists later, run_txns t next (txns0 ++ txns1) = run_txns t next txns0 ++ later.
Proof.
  induction txns0 as [|ops rest IH]; intros txns1 t next; simpl.
  - eexists; reflexivity.
  - destruct (IH txns1 (snd (txn_commit (fold_left wstep ops (tree_txn t next))))
                (s_next (t_st (fst (txn_commit (fold_left wstep ops (tree_txn t next))))))) as [l E].
    exists l. now rewrite E.
Qed.
