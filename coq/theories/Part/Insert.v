(* Part/Insert.v — Txn.modify (Insert/Modify) refines om_insert and preserves wfk. *)
From SV Require Import Base.Bytes Base.OrdMap Part.Model Part.Sem.
From Coq Require Import ZifyN ZifyNat ZifyBool.
Open Scope N_scope.

Lemma wfk_set_prefix n acc q1 q2 : wfk acc (set_prefix n (q1 ++ q2)) <-> wfk (acc ++ q1) (set_prefix n q2).
Proof. destruct n as [p l|kd t p w lf ch]; simpl; now rewrite !app_assoc. Qed.

Lemma hd_is_app b p q : hd_is b p -> hd_is b (p ++ q).
Proof. destruct p; simpl; [tauto|auto]. Qed.

Lemma om_get_all_gt k (L : list ent) : all_gt L k -> om_get k L = None.
Proof.
  destruct L as [|[k' v'] L]; simpl; auto. intros H. inversion H; subst; simpl in *.
  now destruct (ltb_of_lt k k') as [-> ->].
Qed.
Lemma om_insert_all_gt k v (L : list ent) : all_gt L k -> om_insert k v L = (k, v) :: L.
Proof.
  destruct L as [|[k' v'] L]; simpl; auto. intros H. inversion H; subst; simpl in *.
  now destruct (ltb_of_lt k k') as [-> ->].
Qed.
Lemma om_insert_all_lt k v (L : list ent) : all_lt L k -> om_insert k v L = L ++ [(k, v)].
Proof. intros H. rewrite <- (app_nil_r L) at 1. now rewrite om_insert_app_l. Qed.
Lemma om_get_all_lt k (L : list ent) : all_lt L k -> om_get k L = None.
Proof. intros H. rewrite <- (app_nil_r L). now rewrite om_get_app_l. Qed.

Lemma om_insert_pre_nil p v (L : list ent) : om_insert p v (map (pre p) L) = map (pre p) (om_insert [] v L).
Proof. rewrite <- (app_nil_r p) at 1. apply om_insert_pre. Qed.
Lemma om_get_pre_nil p (L : list ent) : om_get p (map (pre p) L) = om_get [] L.
Proof. rewrite <- (app_nil_r p) at 1. apply om_get_pre. Qed.
Lemma om_delete_pre_nil p (L : list ent) : om_delete p (map (pre p) L) = map (pre p) (om_delete [] L).
Proof. rewrite <- (app_nil_r p) at 1. apply om_delete_pre. Qed.

Lemma ch_gt_insert b0 b x ch : b0 < b -> ch_gt b0 ch -> ch_gt b0 (ch_insert b x ch).
Proof.
  induction ch as [|b' y r IH]; simpl; intros Hb H; auto.
  destruct H as [H1 H2]. destruct (b <? b'); simpl; auto.
Qed.

(* insertion of a new leaf into a free slot *)
Lemma ch_insert_spec acc b rest nl : forall ch,
  wfk_ch acc ch -> ch_find b ch = None -> hd_is b rest -> lf_key nl = acc ++ rest ->
  wfk_ch acc (ch_insert b (Leaf rest nl) ch) /\
  ents_ch (ch_insert b (Leaf rest nl) ch) = om_insert rest (lf_val nl) (ents_ch ch) /\
  om_get rest (ents_ch ch) = None.
Proof.
  destruct rest as [|c tl]; [simpl; tauto|]. intros ch. simpl hd_is. intros Hw Hf -> Hk.
  induction ch as [|b' x r IH]; simpl in *.
  - repeat split; auto.
  - destruct Hw as (Hh & Hx & Hg & Hr). destruct (N.eqb_spec b' b) as [->|Hne]; [discriminate|].
    destruct (N.ltb_spec b b') as [Hlt|Hge]; simpl.
    + assert (G : all_gt (ents x ++ ents_ch r) (b :: tl)).
      { apply all_gt_app; [eapply starts_gt; eauto; now apply ents_starts|].
        eapply ents_ch_all_gt; eauto. eapply ch_gt_trans; eauto. }
      repeat split; auto.
      * eapply ch_gt_trans; eauto.
      * now rewrite om_insert_all_gt.
      * now rewrite om_get_all_gt.
    + assert (Hlt : b' < b) by lia. destruct (IH Hr Hf) as (W & E & G).
      assert (A : all_lt (ents x) (b :: tl)) by (eapply starts_lt; eauto; now apply ents_starts).
      repeat split; auto.
      * now apply ch_gt_insert.
      * rewrite om_insert_app_l by auto. now rewrite E.
      * now rewrite om_get_app_l.
Qed.

Lemma ch_gt_find b0 b y r : ch_gt b0 r -> ch_find b r = Some y -> b0 < b.
Proof.
  induction r as [|b' x r IH]; simpl; [discriminate|]. intros [H1 H2].
  destruct (N.eqb_spec b' b) as [->|Hne]; auto.
Qed.

Section Ins.
Variable c : ctx.
Variable md : option (N -> N -> N).
Variable fullKey : bytes.
Variable v : N.

Definition mspec (acc : bytes) (n : node) (key : bytes) (r : mres) : Prop :=
  wfk acc (m_node r) /\
  ents (m_node r) = om_insert key (m_val r) (ents n) /\
  m_old r = om_get key (ents n) /\
  m_val r = match m_old r with Some o => new_val md v o | None => v end /\
  (forall b, hd_is b key -> hd_is b (node_prefix n) -> hd_is b (node_prefix (m_node r))).

Lemma hd_is_common b k p : hd_is b k -> hd_is b p -> hd_is b (common k p).
Proof. destruct k, p; simpl; try tauto. intros -> ->. now rewrite N.eqb_refl. Qed.

Lemma split_spec acc s this key :
  wfk acc this -> fullKey = acc ++ key ->
  (is_leaf this = true /\ key <> node_prefix this) \/ strip (node_prefix this) key = None ->
  mspec acc this key (split_node c fullKey v s this key).
Proof.
  intros Hw Hk Hc. unfold split_node, mspec. cbv zeta.
  assert (Hhd : forall b, hd_is b key -> hd_is b (node_prefix this) -> hd_is b (common key (node_prefix this)))
    by (intros; now apply hd_is_common).
  destruct (common_split key (node_prefix this)) as (k' & p' & Ek & Ep & Hd).
  set (cp := common key (node_prefix this)) in *. clearbody cp.
  assert (Ethis : this = set_prefix this (cp ++ p')) by (rewrite <- Ep; symmetry; apply set_prefix_id).
  destruct (fresh c s) as [lw s1]. destruct (fresh c s1) as [nw s2].
  assert (Sk : skipn (length cp) key = k') by (rewrite Ek; apply skipn_app_len).
  assert (Sp : skipn (length cp) (node_prefix this) = p') by (rewrite Ep; apply skipn_app_len).
  rewrite Sp, Sk. clear Sp Sk.
  assert (Hw' : wfk (acc ++ cp) (set_prefix this p')) by (apply wfk_set_prefix; now rewrite <- Ethis).
  assert (Ee : ents this = map (pre cp) (ents (set_prefix this p'))) by (rewrite Ethis at 1; apply ents_set_prefix).
  assert (Hpp : node_prefix (set_prefix this p') = p') by (destruct this; reflexivity).
  rewrite Hpp. cbn [m_node m_old m_val]. rewrite Ee, Ek.
  assert (Hfk : fullKey = (acc ++ cp) ++ k') by (rewrite Hk, Ek; now rewrite app_assoc).
  destruct p' as [|tb p'].
  - (* the target's prefix is a proper prefix of the key: target must be a leaf *)
    destruct Hc as [[Hl Hne]|Hs].
    2:{ rewrite Ep, Ek, app_nil_r, strip_app in Hs. discriminate. }
    destruct this as [p l|]; [|discriminate]. simpl in *. rewrite app_nil_r in Ep. subst p.
    destruct k' as [|kb k']; [rewrite app_nil_r in Ek; congruence|].
    simpl. repeat split; auto.
    + unfold pre; simpl. rewrite !app_nil_r.
      assert (L : lex_lt cp (cp ++ kb :: k')) by apply lex_lt_prefix.
      destruct (ltb_of_gt (cp ++ kb :: k') cp L) as [-> ->]. reflexivity.
    + assert (L : lex_lt cp (cp ++ kb :: k')) by apply lex_lt_prefix.
      rewrite !app_nil_r. now destruct (ltb_of_gt (cp ++ kb :: k') cp L) as [-> ->].
  - assert (St : starts tb (ents (set_prefix this (tb :: p')))) by (apply ents_starts; now rewrite Hpp).
    destruct k' as [|kb k'].
    + (* the key ends inside the target's prefix: new node carries the new leaf *)
      simpl. repeat split; auto; try (intros b0 H1 H2; apply Hhd; [now rewrite Ek|auto]); try (rewrite Hpp; reflexivity).
      * now rewrite app_nil_r in Hfk.
      * rewrite om_insert_pre, app_nil_r.
        rewrite om_insert_all_gt by (eapply starts_nil_gt; eauto). reflexivity.
      * rewrite om_get_pre. rewrite om_get_all_gt; auto. eapply starts_nil_gt; eauto.
    + destruct (N.ltb_spec tb kb) as [Hlt|Hge]; simpl.
      * repeat split; auto; try (intros b0 H1 H2; apply Hhd; [now rewrite Ek|auto]); try (rewrite Hpp; reflexivity).
        -- rewrite om_insert_pre, om_insert_all_lt by (eapply starts_lt; eauto).
           now rewrite ?app_nil_r.
        -- rewrite om_get_pre, om_get_all_lt; auto. eapply starts_lt; eauto.
      * assert (Hlt : kb < tb) by (simpl in Hd; lia).
        repeat split; auto; try (intros b0 H1 H2; apply Hhd; [now rewrite Ek|auto]); try (rewrite Hpp; reflexivity).
        -- rewrite om_insert_pre, om_insert_all_gt by (eapply starts_gt; eauto).
           now rewrite ?app_nil_r.
        -- rewrite om_get_pre, om_get_all_gt; auto. eapply starts_gt; eauto.
Qed.

Lemma clone_leaf_val s l : lf_key (fst (clone_leaf c s l)) = lf_key l /\ lf_val (fst (clone_leaf c s l)) = lf_val l.
Proof. unfold clone_leaf. destruct (0 =? c_tid c); simpl; auto. destruct (fresh c _); simpl; auto. Qed.

Lemma bytes_eqb_false a b : bytes_eqb a b = false -> a <> b.
Proof. intros H ->. now rewrite bytes_eqb_refl in H. Qed.

Lemma strip_nil_rest p key : strip p key = Some [] -> key = p.
Proof. intros H. apply strip_some in H. now rewrite app_nil_r in H. Qed.

Definition chspec (acc : bytes) (ch : children) (b : N) (rest : bytes) (o : option (children * mres)) : Prop :=
  match o with
  | Some (ch', r) =>
    wfk_ch acc ch' /\ ents_ch ch' = om_insert rest (m_val r) (ents_ch ch) /\
    m_old r = om_get rest (ents_ch ch) /\
    m_val r = match m_old r with Some o => new_val md v o | None => v end /\
    (forall b0, ch_gt b0 ch -> ch_gt b0 ch') /\ (exists y, ch_find b ch = Some y)
  | None => ch_find b ch = None
  end.

Theorem modify_spec :
  (forall n acc s key, wfk acc n -> fullKey = acc ++ key ->
     mspec acc n key (modify_node c md fullKey v s n key)) /\
  (forall ch acc s b rest, wfk_ch acc ch -> hd_is b rest -> fullKey = acc ++ rest ->
     chspec acc ch b rest (modify_ch c md fullKey v s ch b rest)).
Proof.
  apply node_children_ind.
  - (* Leaf *)
    intros p l acc s key Hw Hk. cbn [modify_node]; fold (modify_ch c md fullKey v); fold (modify_node c md fullKey v).
    destruct (bytes_eqb key p) eqn:E.
    + apply bytes_eqb_spec in E. subst key.
      pose proof (clone_leaf_val s l) as [K V]. destruct (clone_leaf c s l) as [l' s']. simpl in K, V.
      unfold mspec; cbn [m_node m_old m_val ents wfk node_prefix]. simpl in Hw.
      rewrite K. simpl. rewrite bytes_eqb_refl. repeat split; auto.
    + apply split_spec; auto. left. split; auto. now apply bytes_eqb_false.
  - (* Inner *)
    intros kd t p w lf ch IH acc s key Hw Hk. cbn [modify_node]; fold (modify_ch c md fullKey v); fold (modify_node c md fullKey v).
    destruct (strip p key) as [[|b rest]|] eqn:Es.
    + (* exact match *)
      apply strip_nil_rest in Es. subst key.
      destruct (clone_hdr c s t w) as [[t' w'] s1]. destruct Hw as [Hl Hc].
      destruct lf as [l|].
      * pose proof (clone_leaf_val s1 l) as [K V]. destruct (clone_leaf c s1 l) as [l' s2]. simpl in K, V.
        unfold mspec; cbn [m_node m_old m_val ents wfk node_prefix lfe]. rewrite K.
        rewrite om_insert_pre_nil, om_get_pre_nil. simpl.
        repeat split; auto.
      * destruct (fresh c s1) as [lw s2].
        unfold mspec; cbn [m_node m_old m_val ents wfk node_prefix lfe lf_key].
        rewrite om_insert_pre_nil, om_get_pre_nil. simpl.
        assert (G : all_gt (ents_ch ch) []) by (eapply ents_ch_nil_gt; eauto).
        rewrite om_insert_all_gt, om_get_all_gt by auto. repeat split; auto.
    + (* descend *)
      apply strip_some in Es. subst key. destruct Hw as [Hl Hc].
      assert (Hfk : fullKey = (acc ++ p) ++ b :: rest) by (rewrite Hk; now rewrite app_assoc).
      destruct (clone_hdr c s t w) as [[t' w'] s1] eqn:Ec.
      specialize (IH (acc ++ p) s1 b (b :: rest) Hc eq_refl Hfk).
      assert (Lf : all_lt (lfe lf) (b :: rest)) by (destruct lf; simpl; repeat constructor).
      destruct (modify_ch c md fullKey v s1 ch b (b :: rest)) as [[ch' r]|]; simpl in IH.
      * destruct IH as (W & E & O & Vv & _ & _).
        unfold mspec; cbn [m_node m_old m_val ents wfk node_prefix].
        rewrite om_insert_pre, om_get_pre, om_insert_app_l, om_get_app_l by auto.
        rewrite E. repeat split; auto.
      * (* free slot *)
        set (hdr := if kd <? ch_len ch + 1 then _ else _).
        destruct hdr as [[[kd2 t2] w2] s2]. destruct (fresh c s2) as [lw s3].
        destruct (ch_insert_spec (acc ++ p) b (b :: rest) (mkLeaf fullKey v lw) ch Hc IH eq_refl Hfk) as (W & E & G).
        unfold mspec; cbn [m_node m_old m_val ents wfk node_prefix].
        rewrite om_insert_pre, om_get_pre, om_insert_app_l, om_get_app_l by auto.
        rewrite E, G. repeat split; auto.
    + (* prefix mismatch *)
      destruct (clone_hdr c s t w) as [[t' w'] s'].
      pose proof (split_spec acc s' (Inner kd t' p w' lf ch) key) as S. simpl in S.
      unfold mspec in *. simpl in *. apply S; auto.
  - (* CNil *)
    intros acc s b rest _ _ _. simpl. reflexivity.
  - (* CCons *)
    intros b' x IHx r IHr acc s b rest Hw Hb Hk. cbn [modify_ch]; fold (modify_node c md fullKey v); fold (modify_ch c md fullKey v).
    destruct Hw as (Hh & Hx & Hg & Hr).
    destruct rest as [|c0 tl]; [simpl in Hb; tauto|]. simpl in Hb. subst c0.
    destruct (N.eqb_spec b' b) as [->|Hne].
    + specialize (IHx acc s (b :: tl) Hx Hk). destruct IHx as (W & E & O & Vv & Hp).
      assert (G : all_gt (ents_ch r) (b :: tl)) by (eapply ents_ch_all_gt; eauto).
      simpl. rewrite om_insert_app_r, om_get_app_r by auto. rewrite E.
      repeat split; auto; try (apply Hp; simpl; auto); try tauto; try (apply Hgt; tauto).
      exists x. now rewrite N.eqb_refl.
    + specialize (IHr acc s b (b :: tl) Hr eq_refl Hk).
      destruct (modify_ch c md fullKey v s r b (b :: tl)) as [[r' res]|]; simpl in *.
      * destruct IHr as (W & E & O & Vv & Hgt & [y Hy]).
        assert (Hlt : b' < b) by (eapply ch_gt_find; eauto).
        assert (A : all_lt (ents x) (b :: tl)) by (eapply starts_lt; eauto; now apply ents_starts).
        rewrite om_insert_app_l, om_get_app_l by auto. rewrite E.
        repeat split; auto; try tauto; try (apply Hgt; tauto).
        exists y. rewrite <- N.eqb_neq in Hne. now rewrite Hne.
      * rewrite <- N.eqb_neq in Hne. now rewrite Hne.
Qed.
End Ins.
