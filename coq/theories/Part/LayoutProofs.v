(* Part/LayoutProofs.v — the physical child layouts of node4/16/48/256 (Part/Layout.v) refine
   the sorted child list: well-formedness invariant LWF, correctness of find / findIndex,
   refinement of the transaction-level add / delete of a child including promotions,
   demotions and the collapse into the last child. Stdlib only, no axioms. *)
From SV Require Import Part.Layout Part.LayoutBase Part.LayoutKeyed Part.Layout48 Part.Layout256.
From Coq Require Import ZifyN ZifyNat ZifyBool.
Close Scope N_scope.

(* Well-formed layouts: exactly the canonical images of a strictly sorted list of bytes.
   - node4/node16: keys = ks ++ 255^m ++ 0^z, children = Some ks ++ nil^(m+z), |ks|+m+z = cap;
   - node48: children = Some ks ++ nil.., index[k] = 1 + position of k in ks (0 if absent), 1 <= |ks| <= 48;
   - node256: children[k] = Some k iff k in ks.
   The slot-wise reading of this definition is [LWF_clauses] below. *)
Inductive LWF : layout -> Prop :=
| LWF_keyed : forall kd lf ks m z, (kd = 4 \/ kd = 16)%N -> good ks -> length ks + m + z = l_cap_of kd ->
    LWF (canon_keyed kd lf ks m z)
| LWF_48 : forall lf ks, good ks -> 1 <= length ks <= 48 -> LWF (canon48 lf ks)
| LWF_256 : forall lf ks, good ks -> LWF (canon256 lf ks).

(* the occupancy bounds of the kinds (txn.go validateTree asserts them) *)
Definition LOcc (l : layout) : Prop :=
  (l_kind l = 16%N -> 5 <= l_size l) /\ (l_kind l = 48%N -> 17 <= l_size l) /\ (l_kind l = 256%N -> 49 <= l_size l).

(* ---- the abstraction of a well-formed layout ---- *)
Theorem LWF_abs : forall l, LWF l ->
  good (l_abs l) /\ l_size l = length (l_abs l) /\ l_size l <= l_cap l /\
  (l_kind l = 4 \/ l_kind l = 16 \/ l_kind l = 48 \/ l_kind l = 256)%N.
Proof.
  intros l H; destruct H as [kd lf ks m z Hkd HG Hcap | lf ks HG HL | lf ks HG].
  - rewrite abs_keyed by exact Hkd. unfold l_cap. cbn [l_kind l_size canon_keyed].
    split; [exact HG|]. split; [reflexivity|]. split; [lia|]. destruct Hkd as [-> | ->]; auto.
  - rewrite abs48. unfold l_cap. cbn. split; [exact HG|]. split; [reflexivity|]. split; [lia|]. auto.
  - rewrite abs256 by exact HG. unfold l_cap. cbn. pose proof (good_length ks HG).
    split; [exact HG|]. split; [reflexivity|]. split; [lia|]. auto.
Qed.

(* the empty node4 and the node4s built by Txn.modify's split are well-formed *)
Lemma new_node4_canon : forall lf ks, length ks <= 4 -> new_node4 lf ks = canon_keyed 4 lf ks 0 (4 - length ks).
Proof.
  intros lf ks HL. unfold new_node4, canon_keyed.
  rewrite !copy_into_repeat by (rewrite ?map_length; lia). rewrite map_length. reflexivity.
Qed.
Theorem LWF_new_node4 : forall lf ks, good ks -> length ks <= 4 -> LWF (new_node4 lf ks) /\ l_abs (new_node4 lf ks) = ks.
Proof.
  intros lf ks HG HL. rewrite new_node4_canon by exact HL. split.
  - apply LWF_keyed; auto. change (l_cap_of 4) with 4. lia.
  - apply abs_keyed; auto.
Qed.

(* ---- find / findIndex ---- *)
Theorem l_find_correct : forall l key, LWF l -> (key < 256)%N -> l_find l key = memb key (l_abs l).
Proof.
  intros l key H Hk; destruct H as [kd lf ks m z Hkd HG Hcap | lf ks HG HL | lf ks HG].
  - rewrite abs_keyed by exact Hkd. apply find_keyed; auto.
  - rewrite abs48. apply find48; auto.
  - rewrite abs256 by exact HG. apply find256; auto.
Qed.

Theorem l_findIndex_correct : forall l key, LWF l -> (key < 256)%N ->
  l_findIndex l key = (memb key (l_abs l),
                       if (l_kind l =? 256)%N then N.to_nat key else rank key (l_abs l)).
Proof.
  intros l key H Hk; destruct H as [kd lf ks m z Hkd HG Hcap | lf ks HG HL | lf ks HG].
  - rewrite abs_keyed by exact Hkd. cbn [l_kind canon_keyed].
    replace (kd =? 256)%N with false by (destruct Hkd as [-> | ->]; reflexivity).
    apply findIndex_keyed; auto. apply HG.
  - rewrite abs48. apply findIndex48; auto.
  - rewrite abs256 by exact HG. apply findIndex256; auto.
Qed.

(* ---- promotion keeps the child list ---- *)
(* (a node48 must hold at least one child: findIndex reads children[0]; promotion happens at size = cap) *)
Theorem l_promote_correct : forall l, LWF l -> l_kind l <> 256%N -> 1 <= l_size l ->
  LWF (l_promote l) /\ l_abs (l_promote l) = l_abs l /\ l_leaf (l_promote l) = l_leaf l /\
  l_kind (l_promote l) = (if l_kind l =? 4 then 16 else if l_kind l =? 16 then 48 else 256)%N.
Proof.
  intros l H Hnk H1; destruct H as [kd lf ks m z Hkd HG Hcap | lf ks HG HL | lf ks HG].
  - cbn [l_size canon_keyed] in H1. destruct Hkd as [-> | ->]; cbn in Hcap.
    + rewrite promote_4 by lia. rewrite !abs_keyed by auto. repeat split; auto.
      apply LWF_keyed; auto. change (l_cap_of 16) with 16. lia.
    + rewrite promote_16 by (auto; lia). rewrite abs48, abs_keyed by auto. repeat split; auto.
      apply LWF_48; auto. lia.
  - rewrite promote_48 by exact HG. rewrite abs256, abs48 by exact HG. repeat split; auto. apply LWF_256; auto.
  - cbn in Hnk. congruence.
Qed.

(* ---- adding a child (Txn.insert on the parent, incl. promotion) ---- *)
(* header.promote: next kind (the same function as Part/Model.v promote_kind) *)
Definition next_kind (kd : N) : N := (if kd =? 4 then 16 else if kd =? 16 then 48 else 256)%N.
(* the kind after adding one child: promotion exactly when size + 1 > cap (the kind tag is the capacity) *)
Definition add_kind (kd : N) (size : nat) : N := if (kd <? N.of_nat size + 1)%N then next_kind kd else kd.

Theorem l_add_present : forall l k, LWF l -> (k < 256)%N -> memb k (l_abs l) = true -> l_add l k = l.
Proof.
  intros l k H Hk Hm. unfold l_add. rewrite l_findIndex_correct by assumption. rewrite Hm. reflexivity.
Qed.

Theorem l_add_correct : forall l k, LWF l -> (k < 256)%N -> memb k (l_abs l) = false ->
  LWF (l_add l k) /\ l_abs (l_add l k) = ins k (l_abs l) /\ l_leaf (l_add l k) = l_leaf l /\
  l_size (l_add l k) = S (l_size l) /\ l_kind (l_add l k) = add_kind (l_kind l) (l_size l).
Proof.
  intros l k H Hk Hmem.
  pose proof (l_findIndex_correct l k H Hk) as HFI. unfold l_add. rewrite HFI, Hmem. clear HFI.
  destruct H as [kd lf ks m z Hkd HG Hcap | lf ks HG HL | lf ks HG].
  - rewrite abs_keyed in * by exact Hkd.
    destruct (split_at k ks (proj1 HG)) as (a & b & E & Ha & Hb & Hr & _ & _ & Hi & _).
    destruct (Hi Hmem) as [Eins Hb']. subst ks. rewrite Eins, Hr.
    assert (HG' : good (a ++ k :: b)) by (apply good_ins; auto).
    replace (l_kind (canon_keyed kd lf (a ++ b) m z) =? 256)%N with false by (destruct Hkd as [-> | ->]; reflexivity).
    unfold l_cap, add_kind. cbn [l_kind l_size l_leaf canon_keyed].
    rewrite app_length in Hcap.
    destruct (Nat.ltb_spec (l_cap_of kd) (length (a ++ b) + 1)) as [Hfull|Hroom]; rewrite app_length in *.
    + (* full: promote first *)
      destruct Hkd as [-> | ->]; cbn in Hcap, Hfull.
      * rewrite promote_4 by (rewrite app_length; lia). rewrite insert_keyed by (auto; rewrite app_length; lia).
        rewrite abs_keyed by auto. cbn [l_kind l_size l_leaf canon_keyed].
        replace (4 <? N.of_nat (length a + length b) + 1)%N with true by (symmetry; apply N.ltb_lt; lia).
        repeat split; auto; [|rewrite !app_length; cbn; lia].
        apply LWF_keyed; auto. rewrite !app_length in *. cbn [length next_stale fst snd]. change (l_cap_of 16) with 16. lia.
      * rewrite (promote_16 lf (a ++ b) m z HG) by (rewrite app_length; lia).
        rewrite insert48 by (auto; lia). rewrite abs48. cbn [l_kind l_size l_leaf canon48].
        replace (16 <? N.of_nat (length a + length b) + 1)%N with true by (symmetry; apply N.ltb_lt; lia).
        repeat split; auto; [|rewrite !app_length; cbn; lia].
        apply LWF_48; auto. rewrite app_length. cbn [length]. lia.
    + rewrite insert_keyed by (auto; lia). rewrite abs_keyed by auto. cbn [l_kind l_size l_leaf canon_keyed].
      replace (kd <? N.of_nat (length a + length b) + 1)%N with false
        by (symmetry; apply N.ltb_ge; destruct Hkd as [-> | ->]; cbn in Hroom; lia).
      repeat split; auto; [|rewrite !app_length; cbn; lia].
      apply LWF_keyed; auto. rewrite app_length. cbn [length].
      destruct (stale_uncons m z) as (y & _ & Hsum); [destruct Hkd as [-> | ->]; cbn in Hroom, Hcap; lia|]. lia.
  - rewrite abs48 in *.
    destruct (split_at k ks (proj1 HG)) as (a & b & E & Ha & Hb & Hr & _ & _ & Hi & _).
    destruct (Hi Hmem) as [Eins Hb']. subst ks. rewrite Eins, Hr.
    assert (HG' : good (a ++ k :: b)) by (apply good_ins; auto).
    unfold l_cap, add_kind. cbn [l_kind l_size l_leaf canon48 N.eqb Pos.eqb]. change (l_cap_of 48) with 48.
    rewrite app_length in *.
    destruct (Nat.ltb_spec 48 (length a + length b + 1)) as [Hfull|Hroom].
    + rewrite promote_48 by exact HG. rewrite (insert256 lf a b k (length a) Hk). rewrite abs256 by exact HG'.
      cbn [l_kind l_size l_leaf canon256].
      replace (48 <? N.of_nat (length a + length b) + 1)%N with true by (symmetry; apply N.ltb_lt; lia).
      repeat split; auto; [|rewrite !app_length; cbn; lia]. apply LWF_256; auto.
    + rewrite insert48 by (auto; lia). rewrite abs48. cbn [l_kind l_size l_leaf canon48].
      replace (48 <? N.of_nat (length a + length b) + 1)%N with false by (symmetry; apply N.ltb_ge; lia).
      repeat split; auto; [|rewrite !app_length; cbn; lia]. apply LWF_48; auto. rewrite app_length. cbn [length]. lia.
  - rewrite abs256 in * by exact HG.
    destruct (split_at k ks (proj1 HG)) as (a & b & E & Ha & Hb & Hr & _ & _ & Hi & _).
    destruct (Hi Hmem) as [Eins Hb']. subst ks. rewrite Eins.
    assert (HG' : good (a ++ k :: b)) by (apply good_ins; auto).
    pose proof (good_length _ HG') as HL'. rewrite app_length in HL'. cbn [length] in HL'.
    unfold l_cap, add_kind. cbn [l_kind l_size l_leaf canon256 N.eqb Pos.eqb]. change (l_cap_of 256) with 256.
    rewrite app_length in *.
    destruct (Nat.ltb_spec 256 (length a + length b + 1)) as [Hfull|Hroom]; [lia|].
    rewrite (insert256 lf a b k (N.to_nat k) Hk). rewrite abs256 by exact HG'. cbn [l_kind l_size l_leaf canon256].
    replace (256 <? N.of_nat (length a + length b) + 1)%N with false by (symmetry; apply N.ltb_ge; lia).
    repeat split; auto; [|rewrite !app_length; cbn; lia]. apply LWF_256; auto.
Qed.

(* ---- removing a child (Txn.delete: findIndex, removeChild) ---- *)
(* the kind after removeChild (non-collapse case): the demotion thresholds 49 / 17 / 5 as coded;
   the same expression as in Part/Model.v remove_child *)
Definition del_kind (kd : N) (size : nat) : N :=
  if ((kd =? 256)%N && (size <=? 49)) || ((kd =? 48)%N && (size <=? 17)) || ((kd =? 16)%N && (size <=? 5))
  then (if (kd =? 256)%N then 48 else if (kd =? 48)%N then 16 else 4)%N
  else kd.

Theorem l_del_absent : forall l k, LWF l -> (k < 256)%N -> memb k (l_abs l) = false -> l_del l k = LNode l.
Proof.
  intros l k H Hk Hm. unfold l_del. rewrite l_findIndex_correct by assumption. rewrite Hm. reflexivity.
Qed.

Lemma present_split : forall k ks, good ks -> memb k ks = true ->
  exists a b, ks = a ++ k :: b /\ rem k ks = a ++ b /\ rank k ks = length a.
Proof.
  intros k ks [HS HB] Hm.
  destruct (split_at k ks HS) as (a & b & E & Ha & Hb & Hr & Hmb & _ & _ & Hd).
  rewrite Hm in Hmb. destruct b as [|x b']; [discriminate|]. symmetry in Hmb. apply N.eqb_eq in Hmb. subst x.
  destruct (Hd b' eq_refl) as (Er & _ & _). exists a, b'. auto.
Qed.

Theorem l_del_correct : forall l k, LWF l -> LOcc l -> (k < 256)%N -> memb k (l_abs l) = true ->
  if (l_size l =? 2) && negb (l_leaf l)
  then exists c, l_del l k = LCollapsed (Some c) /\ rem k (l_abs l) = [c]
  else exists l', l_del l k = LNode l' /\ LWF l' /\ l_abs l' = rem k (l_abs l) /\ l_leaf l' = l_leaf l /\
                  l_size l' = l_size l - 1 /\ l_kind l' = del_kind (l_kind l) (l_size l).
Proof.
  intros l k H HO Hk Hmem.
  pose proof (l_findIndex_correct l k H Hk) as HFI. unfold l_del. rewrite HFI, Hmem. clear HFI.
  destruct HO as (HO16 & HO48 & HO256).
  destruct H as [kd lf ks m z Hkd HG Hcap | lf ks HG HL | lf ks HG].
  - rewrite abs_keyed in * by exact Hkd.
    destruct (present_split k ks HG Hmem) as (a & b & E & Er & Hr). subst ks. rewrite Er, Hr.
    destruct (good_app_inv a k b HG) as (_ & _ & _ & HG' & _ & _).
    replace (l_kind (canon_keyed kd lf (a ++ k :: b) m z) =? 256)%N with false by (destruct Hkd as [-> | ->]; reflexivity).
    unfold l_removeChild, del_kind. cbn [l_kind l_size l_leaf l_children canon_keyed] in *.
    rewrite app_length in *. cbn [length] in *.
    destruct ((length a + S (length b) =? 2) && negb lf) eqn:Ecol.
    + apply andb_true_iff in Ecol. destruct Ecol as [E2 _]. apply Nat.eqb_eq in E2.
      destruct a as [|c [|? ?]]; cbn [length] in E2.
      * destruct b as [|c [|? ?]]; cbn [length] in E2; try lia. exists c. split; reflexivity.
      * destruct b as [|? ?]; cbn [length] in E2; try lia. exists c. split; reflexivity.
      * lia.
    + replace (kd =? 256)%N with false by (destruct Hkd as [-> | ->]; reflexivity).
      replace (kd =? 48)%N with false by (destruct Hkd as [-> | ->]; reflexivity).
      cbn [andb orb].
      destruct ((kd =? 16)%N && (length a + S (length b) <=? 5)) eqn:Edem.
      * apply andb_true_iff in Edem. destruct Edem as [E16 E5]. apply N.eqb_eq in E16. apply Nat.leb_le in E5. subst kd.
        pose proof (demote_16_arrays lf a b m z k) as HD. rewrite app_length in HD. cbn [length] in HD.
        cbn [l_keys l_children canon_keyed] in HD.
        exists (canon_keyed 4 lf (a ++ b) 0 (4 - length (a ++ b))). split; [f_equal; rewrite <- HD by lia; reflexivity|].
        rewrite abs_keyed by auto. cbn [l_leaf l_size l_kind canon_keyed]. rewrite app_length.
        repeat split; auto; [|lia]. apply LWF_keyed; auto. change (l_cap_of 4) with 4. rewrite app_length. lia.
      * exists (canon_keyed kd lf (a ++ b) (S m) z). split; [f_equal; apply remove_keyed; exact Hkd|].
        rewrite abs_keyed by auto. cbn [l_leaf l_size l_kind canon_keyed]. rewrite app_length.
        repeat split; auto; [|lia]. apply LWF_keyed; auto. rewrite app_length. lia.
  - rewrite abs48 in *.
    destruct (present_split k ks HG Hmem) as (a & b & E & Er & Hr). subst ks. rewrite Er, Hr.
    destruct (good_app_inv a k b HG) as (_ & _ & _ & HG' & _ & _).
    unfold l_removeChild, del_kind. cbn [l_kind l_size l_leaf l_children canon48 N.eqb Pos.eqb] in *.
    specialize (HO48 eq_refl). rewrite app_length in *. cbn [length] in *.
    replace (length a + S (length b) =? 2) with false by (symmetry; apply Nat.eqb_neq; lia).
    cbn [andb orb].
    destruct (Nat.leb_spec (length a + S (length b)) 17) as [E17|E17].
    + pose proof (demote_48_arrays lf a b k) as HD. cbn zeta in HD. rewrite app_length in HD. cbn [length] in HD.
      cbn [l_children canon48] in HD. rewrite app_length in HD. cbn [length] in HD.
      exists (canon_keyed 16 lf (a ++ b) 0 (16 - length (a ++ b))). split; [f_equal; rewrite <- HD by lia; reflexivity|].
      rewrite abs_keyed by auto. cbn [l_leaf l_size l_kind canon_keyed]. rewrite app_length.
      repeat split; auto; [|lia]. apply LWF_keyed; auto. change (l_cap_of 16) with 16. rewrite app_length. lia.
    + exists (canon48 lf (a ++ b)). split; [f_equal; apply remove48; [exact HG|lia]|].
      rewrite abs48. cbn [l_leaf l_size l_kind canon48]. rewrite app_length.
      repeat split; auto; [|lia]. apply LWF_48; auto. rewrite app_length. lia.
  - rewrite abs256 in * by exact HG.
    destruct (present_split k ks HG Hmem) as (a & b & E & Er & Hr). subst ks. rewrite Er.
    destruct (good_app_inv a k b HG) as (_ & _ & _ & HG' & Hma & Hmb).
    unfold l_removeChild, del_kind. cbn [l_kind l_size l_leaf l_children canon256 N.eqb Pos.eqb] in *.
    specialize (HO256 eq_refl). rewrite app_length in *. cbn [length] in *.
    replace (length a + S (length b) =? 2) with false by (symmetry; apply Nat.eqb_neq; lia).
    cbn [andb orb].
    destruct (Nat.leb_spec (length a + S (length b)) 49) as [E49|E49].
    + pose proof (demote_256_arrays lf a b k HG) as HD. rewrite app_length in HD. cbn [length] in HD.
      cbn [l_children canon256] in HD.
      destruct (demote256_loop 0 (slots256 (a ++ k :: b)) (N.to_nat k) (repeat 0 256) []) as [ix acc].
      exists (canon48 lf (a ++ b)). split; [f_equal; rewrite <- HD by lia; reflexivity|].
      rewrite abs48. cbn [l_leaf l_size l_kind canon48]. rewrite app_length.
      repeat split; auto; [|lia]. apply LWF_48; auto. rewrite app_length. lia.
    + exists (canon256 lf (a ++ b)). split; [f_equal; apply remove256; auto|].
      rewrite abs256 by exact HG'. cbn [l_leaf l_size l_kind canon256]. rewrite app_length.
      repeat split; auto; [|lia]. apply LWF_256; auto.
Qed.

(* ---- Prop-level readings ---- *)
Theorem l_find_iff : forall l key, LWF l -> (key < 256)%N -> (l_find l key = true <-> In key (l_abs l)).
Proof. intros l key H Hk. rewrite l_find_correct by assumption. apply memb_In. Qed.

(* findIndex: found iff present; the index is the number of smaller children (the insertion
   position) for node4/16/48, and int(key) for node256 *)
Theorem l_findIndex_iff : forall l key, LWF l -> (key < 256)%N ->
  (fst (l_findIndex l key) = true <-> In key (l_abs l)) /\
  (l_kind l <> 256%N -> snd (l_findIndex l key) = length (filter (fun x => (x <? key)%N) (l_abs l))) /\
  (l_kind l = 256%N -> snd (l_findIndex l key) = N.to_nat key).
Proof.
  intros l key H Hk. rewrite l_findIndex_correct by assumption. cbn [fst snd]. split; [apply memb_In|].
  split; intros Hkd.
  - apply N.eqb_neq in Hkd. rewrite Hkd. reflexivity.
  - rewrite Hkd. reflexivity.
Qed.

(* ---- the occupancy bounds are preserved; LInv = everything true of a reachable inner node ---- *)
Definition LInv (l : layout) : Prop := LWF l /\ LOcc l.

Lemma LOcc_add : forall l k, LWF l -> LOcc l -> (k < 256)%N -> memb k (l_abs l) = false -> LOcc (l_add l k).
Proof.
  intros l k H (HO16 & HO48 & HO256) Hk Hm.
  destruct (l_add_correct l k H Hk Hm) as (_ & _ & _ & Hs & Hkd).
  destruct (LWF_abs l H) as (_ & _ & Hcap & Hkinds). unfold l_cap in Hcap.
  unfold LOcc. rewrite Hs, Hkd. unfold add_kind, next_kind.
  destruct Hkinds as [E|[E|[E|E]]]; rewrite E in *; cbn in Hcap; cbn [N.eqb Pos.eqb];
    match goal with |- context[(?x <? ?y)%N] => destruct (N.ltb_spec x y) end;
    (split; [|split]); intro Hc; try discriminate Hc; try lia;
    try (specialize (HO16 eq_refl)); try (specialize (HO48 eq_refl)); try (specialize (HO256 eq_refl)); lia.
Qed.

Lemma LOcc_del : forall l l' k, LWF l -> LOcc l -> (k < 256)%N -> memb k (l_abs l) = true ->
  l_del l k = LNode l' -> LOcc l'.
Proof.
  intros l l' k H HO Hk Hm Hd.
  pose proof (l_del_correct l k H HO Hk Hm) as HC.
  destruct ((l_size l =? 2) && negb (l_leaf l)).
  - destruct HC as (c & E & _). congruence.
  - destruct HC as (l'' & E & _ & _ & _ & Hs & Hkd). rewrite Hd in E. inversion E; subst l''. clear E.
    destruct HO as (HO16 & HO48 & HO256).
    destruct (LWF_abs l H) as (_ & _ & Hcap & Hkinds).
    unfold LOcc. rewrite Hs, Hkd. unfold del_kind.
    destruct Hkinds as [E|[E|[E|E]]]; rewrite E in *; cbn [N.eqb Pos.eqb andb orb].
    + repeat split; intros; discriminate.
    + specialize (HO16 eq_refl). destruct (Nat.leb_spec (l_size l) 5); repeat split; intros; try discriminate; lia.
    + specialize (HO48 eq_refl). destruct (Nat.leb_spec (l_size l) 17); repeat split; intros; try discriminate; lia.
    + specialize (HO256 eq_refl). destruct (Nat.leb_spec (l_size l) 49); repeat split; intros; try discriminate; lia.
Qed.

Theorem LInv_new_node4 : forall lf ks, good ks -> length ks <= 4 -> LInv (new_node4 lf ks).
Proof.
  intros lf ks HG HL. split; [apply LWF_new_node4; assumption|].
  rewrite new_node4_canon by exact HL. repeat split; cbn; intros; discriminate.
Qed.

Theorem LInv_add : forall l k, LInv l -> (k < 256)%N -> LInv (l_add l k).
Proof.
  intros l k [H HO] Hk. destruct (memb k (l_abs l)) eqn:Em.
  - rewrite l_add_present by assumption. split; assumption.
  - split; [apply l_add_correct; assumption | apply LOcc_add; assumption].
Qed.

Theorem LInv_del : forall l l' k, LInv l -> (k < 256)%N -> l_del l k = LNode l' -> LInv l'.
Proof.
  intros l l' k [H HO] Hk Hd. destruct (memb k (l_abs l)) eqn:Em.
  - split; [|eapply LOcc_del; eassumption].
    pose proof (l_del_correct l k H HO Hk Em) as HC.
    destruct ((l_size l =? 2) && negb (l_leaf l)).
    + destruct HC as (c & E & _). congruence.
    + destruct HC as (l'' & E & HW & _). rewrite Hd in E. inversion E; subst. exact HW.
  - rewrite l_del_absent in Hd by assumption. inversion Hd; subst. split; assumption.
Qed.
