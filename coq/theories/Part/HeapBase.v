(* Part/HeapBase.v — basic lemmas about the heap model Part/Heap.v: cells, the relational
   denotation rep (deterministic; acyclic, so den with fuel = heap size computes it),
   reachability, heap extension [ext] (append + in-place writes to a write set), and trep: the
   representation invariant of a transaction (frozen cells: leaves and inner nodes below the txn
   id; owned cells: inner nodes carrying the txn id, forming an unshared tree with footprint F). *)
From SV Require Import Base.Bytes Part.Model Part.Sem Part.Heap.
From Coq Require Import ZArith List Bool Lia ZifyN ZifyNat ZifyBool.
Import ListNotations.
Open Scope N_scope.

(* ---------- cells ---------- *)
Lemma upd_length h : forall a n, length (upd h a n) = length h.
Proof. induction h as [|x h IH]; intros [|a] n; simpl; auto. Qed.
Lemma nth_error_upd_eq h : forall a n, (a < length h)%nat -> nth_error (upd h a n) a = Some n.
Proof. induction h as [|x h IH]; intros [|a] n H; simpl in *; try lia; auto. apply IH. lia. Qed.
Lemma nth_error_upd_neq h : forall a b n, a <> b -> nth_error (upd h a n) b = nth_error h b.
Proof. induction h as [|x h IH]; intros [|a] [|b] n H; simpl; auto; try congruence. Qed.
Lemma hget_some h a n : nth_error h a = Some n -> hget h a = n.
Proof. intros H. unfold hget. now apply nth_error_nth. Qed.
Lemma nth_error_lt (h : heap) a n : nth_error h a = Some n -> (a < length h)%nat.
Proof. intros H. apply nth_error_Some. congruence. Qed.
Lemma nth_error_app_old (h l : heap) a n : nth_error h a = Some n -> nth_error (h ++ l) a = Some n.
Proof. intros H. rewrite nth_error_app1; [exact H|]. eapply nth_error_lt; eauto. Qed.
Lemma nth_error_app_new (h : heap) n : nth_error (h ++ [n]) (length h) = Some n.
Proof. rewrite nth_error_app2 by lia. now rewrite Nat.sub_diag. Qed.

Definition disj (A B : list nat) : Prop := forall x, In x A -> In x B -> False.
Lemma disj_sym A B : disj A B -> disj B A.
Proof. intros D x H1 H2. exact (D x H2 H1). Qed.
Lemma disj_nil_l B : disj [] B.
Proof. intros x []. Qed.
Lemma disj_nil_r A : disj A [].
Proof. intros x _ []. Qed.

(* ---------- rep: the relational denotation ---------- *)
Inductive lrep (h : heap) : option nat -> option leafrec -> Prop :=
| lrep_none : lrep h None None
| lrep_some la p l : nth_error h la = Some (CLeaf p l) -> lrep h (Some la) (Some l).

Inductive rep (h : heap) : nat -> node -> Prop :=
| rep_leaf a p l : nth_error h a = Some (CLeaf p l) -> rep h a (Leaf p l)
| rep_inner a kd t p w lf ch ol tch : nth_error h a = Some (CInner kd t p w lf ch) ->
    lrep h lf ol -> reps h ch tch -> rep h a (Inner kd t p w ol tch)
with reps (h : heap) : list (N * nat) -> children -> Prop :=
| reps_nil : reps h [] CNil
| reps_cons b c r n tr : rep h c n -> reps h r tr -> reps h ((b, c) :: r) (CCons b n tr).
Scheme rep_mind := Minimality for rep Sort Prop
  with reps_mind := Minimality for reps Sort Prop.
Combined Scheme rep_reps_ind from rep_mind, reps_mind.

Definition rep_root (h : heap) (r : option nat) (t : option node) : Prop :=
  match r with None => t = None | Some a => exists n, t = Some n /\ rep h a n end.

Lemma lrep_det h lf ol : lrep h lf ol -> forall ol', lrep h lf ol' -> ol = ol'.
Proof. intros H ol' H'. destruct H; inversion H'; subst; auto. congruence. Qed.

Lemma rep_det h :
  (forall a t, rep h a t -> forall t', rep h a t' -> t = t') /\
  (forall ch tch, reps h ch tch -> forall tch', reps h ch tch' -> tch = tch').
Proof.
  apply rep_reps_ind.
  - intros a p l Hn t' H'. inversion H'; subst; congruence.
  - intros a kd t p w lf ch ol tch Hn Hl _ IH t' H'. inversion H'; subst; try congruence.
    match goal with H : nth_error h a = Some (CInner _ _ _ _ _ _) |- _ => rewrite Hn in H; injection H as -> -> -> -> -> -> end.
    f_equal; [eapply lrep_det; eauto|auto].
  - intros tch' H'. inversion H'. reflexivity.
  - intros b c r n tr _ IH1 _ IH2 tch' H'. inversion H'; subst. f_equal; auto.
Qed.

Fixpoint height (n : node) : nat :=
  match n with Leaf _ _ => 1%nat | Inner _ _ _ _ _ ch => S (height_ch ch) end
with height_ch (ch : children) : nat :=
  match ch with CNil => O | CCons _ x r => Nat.max (height x) (height_ch r) end.

Lemma den_leaf_lrep h lf ol : lrep h lf ol -> den_leaf h lf = Some ol.
Proof. intros H. destruct H; cbn [den_leaf]; [reflexivity|]. now rewrite H. Qed.

Lemma denf_rep h :
  (forall a t, rep h a t -> forall f, (height t <= f)%nat -> denf f h a = Some t) /\
  (forall ch tch, reps h ch tch -> forall f, (height_ch tch <= f)%nat -> den_ch (denf f h) ch = Some tch).
Proof.
  apply rep_reps_ind.
  - intros a p l Hn f Hf. destruct f as [|f]; [cbn [height] in Hf; lia|]. cbn [denf]. now rewrite Hn.
  - intros a kd t p w lf ch ol tch Hn Hl _ IH f Hf. destruct f as [|f]; [cbn [height] in Hf; lia|].
    cbn [denf height] in *. rewrite Hn, (den_leaf_lrep _ _ _ Hl), IH by lia. reflexivity.
  - intros f _. reflexivity.
  - intros b c r n tr _ IH1 _ IH2 f Hf. cbn [den_ch height_ch] in *. rewrite IH1, IH2 by lia. reflexivity.
Qed.

(* pigeonhole: a chain of distinct ancestor cells plus the height below fits in the heap *)
Lemma pigeon (h : heap) l : NoDup l -> (forall a, In a l -> (a < length h)%nat) -> (length l <= length h)%nat.
Proof.
  intros ND Hb. replace (length h) with (length (seq 0 (length h))) by apply seq_length.
  apply NoDup_incl_length; [exact ND|]. intros x Hx. apply in_seq. specialize (Hb x Hx). lia.
Qed.

Lemma rep_height_aux h :
  (forall a t, rep h a t -> forall l, NoDup l -> (forall x, In x l -> (x < length h)%nat) ->
     (forall x t', In x l -> rep h x t' -> (node_count t < node_count t')%nat) ->
     (height t + length l <= length h)%nat) /\
  (forall ch tch, reps h ch tch -> forall l, NoDup l -> (forall x, In x l -> (x < length h)%nat) ->
     (forall x t', In x l -> rep h x t' -> (ch_count tch < node_count t')%nat) ->
     (height_ch tch + length l <= length h)%nat).
Proof.
  apply rep_reps_ind.
  - intros a p l Hn L ND Hb Hs.
    assert (Rt : rep h a (Leaf p l)) by (constructor; auto).
    assert (Na : ~ In a L). { intros Hi. specialize (Hs a _ Hi Rt). lia. }
    assert (ND' : NoDup (a :: L)) by (constructor; auto).
    pose proof (pigeon h (a :: L) ND') as Hp. cbn [length height] in *. apply Hp.
    intros x [<-|Hx]; [eapply nth_error_lt; eauto|auto].
  - intros a kd t p w lf ch ol tch Hn Hl Rc IH L ND Hb Hs.
    assert (Rt : rep h a (Inner kd t p w ol tch)) by (econstructor; eauto).
    assert (Na : ~ In a L). { intros Hi. specialize (Hs a _ Hi Rt). lia. }
    assert (ND' : NoDup (a :: L)) by (constructor; auto).
    specialize (IH (a :: L) ND'). cbn [length height] in *.
    assert (height_ch tch + S (length L) <= length h)%nat; [|lia]. apply IH.
    + intros x [<-|Hx]; [eapply nth_error_lt; eauto|auto].
    + intros x t' [<-|Hx] Rx.
      * rewrite <- (proj1 (rep_det h) _ _ Rt _ Rx). cbn [node_count]. lia.
      * specialize (Hs x t' Hx Rx). cbn [node_count] in Hs. lia.
  - intros L ND Hb _. cbn [height_ch]. apply pigeon; auto.
  - intros b c r n tr _ IH1 _ IH2 L ND Hb Hs. cbn [height_ch].
    assert (height n + length L <= length h)%nat.
    { apply IH1; auto. intros x t' Hx Rx. specialize (Hs x t' Hx Rx). cbn [ch_count] in Hs. lia. }
    assert (height_ch tr + length L <= length h)%nat.
    { apply IH2; auto. intros x t' Hx Rx. specialize (Hs x t' Hx Rx). cbn [ch_count] in Hs. lia. }
    lia.
Qed.

Lemma rep_height h a t : rep h a t -> (height t <= length h)%nat.
Proof.
  intros R. pose proof (proj1 (rep_height_aux h) a t R [] (NoDup_nil _)) as H. cbn [length] in H.
  specialize (H ltac:(intros x []) ltac:(intros x t' [])). lia.
Qed.

Theorem rep_den h a t : rep h a t -> den h a = Some t.
Proof. intros R. apply (proj1 (denf_rep h)); [exact R|]. eapply rep_height; eauto. Qed.

Lemma rep_root_den h r t : rep_root h r t -> den_root h r = t.
Proof. destruct r as [a|]; cbn [rep_root den_root]; [|congruence]. intros (n & -> & R). now apply rep_den. Qed.

(* ---------- reach ---------- *)
Inductive reach (h : heap) : nat -> nat -> Prop :=
| reach_here a : reach h a a
| reach_step a cl c x : nth_error h a = Some cl -> In c (cell_ptrs cl) -> reach h c x -> reach h a x.
Definition reach_root (h : heap) (r : option nat) (x : nat) : Prop :=
  match r with None => False | Some a => reach h a x end.

Lemma reach_trans h a b : reach h a b -> forall x, reach h b x -> reach h a x.
Proof. induction 1 as [a|a cl c y Hn Hi _ IH]; intros x Hx; [exact Hx|]. eapply reach_step; eauto. Qed.

Lemma reach_inv h a x : reach h a x ->
  a = x \/ exists cl c, nth_error h a = Some cl /\ In c (cell_ptrs cl) /\ reach h c x.
Proof. intros H. destruct H as [a|a cl c x Hn Hi Hr]; [now left|right; eauto]. Qed.
Lemma reach_leaf h a p l x : nth_error h a = Some (CLeaf p l) -> reach h a x -> x = a.
Proof.
  intros Hn Hx. apply reach_inv in Hx as [->|(cl & c & Hn' & Hi & _)]; [reflexivity|].
  rewrite Hn in Hn'. injection Hn' as <-. destruct Hi.
Qed.

Lemma in_ptrs_leaf kd t p w la ch : In la (cell_ptrs (CInner kd t p w (Some la) ch)).
Proof. cbn [cell_ptrs]. apply in_or_app. left. now left. Qed.
Lemma in_ptrs_child kd t p w lf ch b c : In (b, c) ch -> In c (cell_ptrs (CInner kd t p w lf ch)).
Proof. intros H. cbn [cell_ptrs]. apply in_or_app. right. apply in_map_iff. exists (b, c). auto. Qed.
Lemma in_ptrs_inv kd t p w lf ch x : In x (cell_ptrs (CInner kd t p w lf ch)) ->
  lf = Some x \/ exists b, In (b, x) ch.
Proof.
  cbn [cell_ptrs]. intros H. apply in_app_or in H as [H|H].
  - destruct lf as [la|]; [destruct H as [<-|[]]; auto|destruct H].
  - right. apply in_map_iff in H as ([b c] & <- & H). eauto.
Qed.

(* frame: a represented pointer is not affected by changes outside what it reaches *)
Lemma rep_frame h h' :
  (forall a t, rep h a t -> (forall x, reach h a x -> nth_error h' x = nth_error h x) -> rep h' a t) /\
  (forall ch tch, reps h ch tch ->
     (forall b c x, In (b, c) ch -> reach h c x -> nth_error h' x = nth_error h x) -> reps h' ch tch).
Proof.
  apply rep_reps_ind.
  - intros a p l Hn Hf. constructor. rewrite Hf; [exact Hn|constructor].
  - intros a kd t p w lf ch ol tch Hn Hl _ IH Hf. econstructor.
    + rewrite Hf; [exact Hn|constructor].
    + destruct Hl as [|la q l Hl]; [constructor|]. apply (lrep_some _ _ q). rewrite Hf; [exact Hl|].
      eapply reach_step; [exact Hn|apply in_ptrs_leaf|constructor].
    + apply IH. intros b c x Hi Hx. apply Hf. eapply reach_step; [exact Hn|eapply in_ptrs_child; eauto|exact Hx].
  - intros _. constructor.
  - intros b c r n tr _ IH1 _ IH2 Hf. constructor.
    + apply IH1. intros x Hx. eapply Hf; [now left|exact Hx].
    + apply IH2. intros b' c' x Hi Hx. eapply Hf; [right; exact Hi|exact Hx].
Qed.

Lemma reach_lt h :
  (forall a t, rep h a t -> forall x, reach h a x -> (x < length h)%nat) /\
  (forall ch tch, reps h ch tch -> forall b c x, In (b, c) ch -> reach h c x -> (x < length h)%nat).
Proof.
  apply rep_reps_ind.
  - intros a p l Hn x Hx. inversion Hx; subst; [eapply nth_error_lt; eauto|].
    match goal with H : nth_error h a = Some cl |- _ => rewrite Hn in H; injection H as <- end.
    match goal with H : In _ (cell_ptrs _) |- _ => destruct H end.
  - intros a kd t p w lf ch ol tch Hn Hl _ IH x Hx. inversion Hx as [|a' cl c' x' Hn' Hi Hr]; subst; [eapply nth_error_lt; eauto|].
    rewrite Hn in Hn'. injection Hn' as <-. apply in_ptrs_inv in Hi as [->|(b & Hi)].
    + inversion Hl as [|la q l Hq]; subst. inversion Hr as [|a' cl c'' x' Hn' Hi' Hr']; subst; [eapply nth_error_lt; eauto|].
      rewrite Hq in Hn'. injection Hn' as <-. destruct Hi'.
    + eapply IH; eauto.
  - intros b c x [].
  - intros b c r n tr _ IH1 _ IH2 b' c' x [E|Hi] Hx; [injection E as <- <-; auto|eauto].
Qed.

Lemma reach_frame h h' :
  (forall a t, rep h a t -> (forall x, reach h a x -> nth_error h' x = nth_error h x) ->
     forall x, reach h' a x -> reach h a x) /\
  (forall ch tch, reps h ch tch ->
     (forall b c x, In (b, c) ch -> reach h c x -> nth_error h' x = nth_error h x) ->
     forall b c x, In (b, c) ch -> reach h' c x -> reach h c x).
Proof.
  apply rep_reps_ind.
  - intros a p l Hn Hf x Hx. inversion Hx as [|a' cl c' x' Hn' Hi Hr]; subst; [constructor|].
    rewrite Hf in Hn' by constructor. rewrite Hn in Hn'. injection Hn' as <-. destruct Hi.
  - intros a kd t p w lf ch ol tch Hn Hl _ IH Hf x Hx. inversion Hx as [|a' cl c' x' Hn' Hi Hr]; subst; [constructor|].
    rewrite Hf in Hn' by constructor. rewrite Hn in Hn'. injection Hn' as <-.
    pose proof Hi as Hi0. apply in_ptrs_inv in Hi as [->|(b & Hi)].
    + inversion Hl as [|la q l Hq]; subst. eapply reach_step; [exact Hn|exact Hi0|].
      inversion Hr as [|a' cl c'' x' Hn' Hi' Hr']; subst; [constructor|].
      rewrite Hf in Hn'; [|eapply reach_step; [exact Hn|exact Hi0|constructor]].
      rewrite Hq in Hn'. injection Hn' as <-. destruct Hi'.
    + eapply reach_step; [exact Hn|exact Hi0|]. eapply IH; eauto.
      intros b' c0 y Hi' Hy. apply Hf. eapply reach_step; [exact Hn|eapply in_ptrs_child; eauto|exact Hy].
  - intros _ b c x [].
  - intros b c r n tr _ IH1 _ IH2 Hf b' c' x [E|Hi] Hx.
    + injection E as <- <-. apply IH1; auto. intros y Hy. eapply Hf; [now left|exact Hy].
    + eapply IH2; eauto. intros b0 c0 y Hi' Hy. eapply Hf; [right; exact Hi'|exact Hy].
Qed.

Lemma rep_reach h :
  (forall a t, rep h a t -> forall x, reach h a x -> exists t', rep h x t') /\
  (forall ch tch, reps h ch tch -> forall b c x, In (b, c) ch -> reach h c x -> exists t', rep h x t').
Proof.
  apply rep_reps_ind.
  - intros a p l Hn x Hx. rewrite (reach_leaf _ _ _ _ _ Hn Hx). eexists. eapply rep_leaf; eauto.
  - intros a kd t p w lf ch ol tch Hn Hl Rc IH x Hx.
    apply reach_inv in Hx as [<-|(cl & c' & Hn' & Hi & Hr)]; [eexists; eapply rep_inner; eauto|].
    rewrite Hn in Hn'. injection Hn' as <-. apply in_ptrs_inv in Hi as [->|(b & Hi)].
    + inversion Hl as [|la q l Hq]; subst. rewrite (reach_leaf _ _ _ _ _ Hq Hr). eexists. eapply rep_leaf; eauto.
    + eapply IH; eauto.
  - intros b c x [].
  - intros b c r n tr _ IH1 _ IH2 b' c' x [E|Hi] Hx; [injection E as <- <-; auto|eauto].
Qed.

(* ---------- trep: the representation invariant of a transaction ---------- *)
Section TRep.
Context {P : nat -> Prop}.
Variable tid : N.

(* the leaf pointer of an inner node *)
Definition plrep (h : heap) (lf : option nat) (ol : option leafrec) : Prop :=
  match lf with
  | None => ol = None
  | Some la => P la /\ exists p l, nth_error h la = Some (CLeaf p l) /\ ol = Some l
  end.

Inductive trep (h : heap) : nat -> node -> list nat -> Prop :=
| tr_leaf a p l : nth_error h a = Some (CLeaf p l) -> P a -> trep h a (Leaf p l) []
| tr_old a kd t p w lf ch ol tch : nth_error h a = Some (CInner kd t p w lf ch) -> t < tid -> P a ->
    plrep h lf ol -> tchs h ch tch [] -> trep h a (Inner kd t p w ol tch) []
| tr_own a kd p w lf ch ol tch F : nth_error h a = Some (CInner kd tid p w lf ch) ->
    plrep h lf ol -> tchs h ch tch F -> ~ In a F -> trep h a (Inner kd tid p w ol tch) (a :: F)
with tchs (h : heap) : list (N * nat) -> children -> list nat -> Prop :=
| tc_nil : tchs h [] CNil []
| tc_cons b c r n tr F1 F2 : trep h c n F1 -> tchs h r tr F2 -> disj F1 F2 ->
    tchs h ((b, c) :: r) (CCons b n tr) (F1 ++ F2).
Scheme trep_mind := Minimality for trep Sort Prop
  with tchs_mind := Minimality for tchs Sort Prop.
Combined Scheme trep_tchs_ind from trep_mind, tchs_mind.

Definition owned_cell (h : heap) (a : nat) : Prop :=
  exists kd p w lf ch, nth_error h a = Some (CInner kd tid p w lf ch).

Lemma plrep_lrep h lf ol : plrep h lf ol -> lrep h lf ol.
Proof. destruct lf as [la|]; cbn [plrep]; [intros (_ & p & l & H & ->); econstructor; eauto|intros ->; constructor]. Qed.

Lemma trep_rep h :
  (forall a t F, trep h a t F -> rep h a t) /\ (forall ch tch F, tchs h ch tch F -> reps h ch tch).
Proof.
  apply trep_tchs_ind.
  - intros; constructor; auto.
  - intros; econstructor; eauto using plrep_lrep.
  - intros; econstructor; eauto using plrep_lrep.
  - constructor.
  - intros; constructor; auto.
Qed.

Lemma trep_F_cell h :
  (forall a t F, trep h a t F -> forall x, In x F -> owned_cell h x) /\
  (forall ch tch F, tchs h ch tch F -> forall x, In x F -> owned_cell h x).
Proof.
  apply trep_tchs_ind.
  - intros a p l _ _ x [].
  - intros a kd t p w lf ch ol tch _ _ _ _ _ _ x [].
  - intros a kd p w lf ch ol tch F Hn _ _ IH _ x [<-|Hx]; [red; eauto 8|auto].
  - intros x [].
  - intros b c r n tr F1 F2 _ IH1 _ IH2 _ x Hx. apply in_app_or in Hx as [Hx|Hx]; auto.
Qed.

Lemma owned_lt h a : owned_cell h a -> (a < length h)%nat.
Proof. intros (kd & p & w & lf & ch & H). eapply nth_error_lt; eauto. Qed.

(* every reachable cell is either owned (in the footprint) or frozen (id below tid, satisfies P) *)
Lemma trep_reach h : 0 < tid ->
  (forall a t F, trep h a t F -> forall x, reach h a x ->
     In x F \/ (P x /\ exists cl, nth_error h x = Some cl /\ cell_tid cl < tid)) /\
  (forall ch tch F, tchs h ch tch F -> forall b c x, In (b, c) ch -> reach h c x ->
     In x F \/ (P x /\ exists cl, nth_error h x = Some cl /\ cell_tid cl < tid)).
Proof.
  intros T0. apply trep_tchs_ind.
  - intros a p l Hn HP x Hx. inversion Hx as [|a' cl c' x' Hn' Hi Hr]; subst; [right; eauto|].
    rewrite Hn in Hn'. injection Hn' as <-. destruct Hi.
  - intros a kd t p w lf ch ol tch Hn Ht HP Hl _ IH x Hx.
    inversion Hx as [|a' cl c' x' Hn' Hi Hr]; subst; [right; split; [auto|eexists; split; [eauto|exact Ht]]|].
    rewrite Hn in Hn'. injection Hn' as <-. apply in_ptrs_inv in Hi as [->|(b & Hi)].
    + cbn [plrep] in Hl. destruct Hl as (Pl & q & l & Hq & _).
      inversion Hr as [|a' cl c'' x' Hn' Hi' Hr']; subst; [right; split; [auto|eexists; split; [eauto|exact T0]]|].
      rewrite Hq in Hn'. injection Hn' as <-. destruct Hi'.
    + eapply IH; eauto.
  - intros a kd p w lf ch ol tch F Hn Hl _ IH Na x Hx.
    inversion Hx as [|a' cl c' x' Hn' Hi Hr]; subst; [left; now left|].
    rewrite Hn in Hn'. injection Hn' as <-. apply in_ptrs_inv in Hi as [->|(b & Hi)].
    + cbn [plrep] in Hl. destruct Hl as (Pl & q & l & Hq & _).
      inversion Hr as [|a' cl c'' x' Hn' Hi' Hr']; subst; [right; split; [auto|eexists; split; [eauto|exact T0]]|].
      rewrite Hq in Hn'. injection Hn' as <-. destruct Hi'.
    + destruct (IH _ _ _ Hi Hr) as [H|H]; [left; now right|right; exact H].
  - intros b c x [].
  - intros b c r n tr F1 F2 _ IH1 _ IH2 _ b' c' x [E|Hi] Hx.
    + injection E as <- <-. destruct (IH1 _ Hx) as [H|H]; [left; apply in_or_app; auto|auto].
    + destruct (IH2 _ _ _ Hi Hx) as [H|H]; [left; apply in_or_app; auto|auto].
Qed.

Lemma trep_F_reach h :
  (forall a t F, trep h a t F -> forall x, In x F -> reach h a x) /\
  (forall ch tch F, tchs h ch tch F -> forall x, In x F -> exists b c, In (b, c) ch /\ reach h c x).
Proof.
  apply trep_tchs_ind.
  - intros a p l _ _ x [].
  - intros a kd t p w lf ch ol tch _ _ _ _ _ _ x [].
  - intros a kd p w lf ch ol tch F Hn _ _ IH _ x [<-|Hx]; [constructor|].
    destruct (IH _ Hx) as (b & c & Hi & Hr). eapply reach_step; [exact Hn|eapply in_ptrs_child; eauto|exact Hr].
  - intros x [].
  - intros b c r n tr F1 F2 _ IH1 _ IH2 _ x Hx. apply in_app_or in Hx as [Hx|Hx].
    + exists b, c. split; [now left|auto].
    + destruct (IH2 _ Hx) as (b' & c' & Hi & Hr). exists b', c'. split; [now right|auto].
Qed.

(* frame: the frozen cells that satisfy P and the footprint are all that matters *)
Lemma trep_frame h h' : 0 < tid ->
  (forall a t F, trep h a t F ->
     (forall x cl, nth_error h x = Some cl -> (P x /\ cell_tid cl < tid) \/ In x F -> nth_error h' x = Some cl) ->
     trep h' a t F) /\
  (forall ch tch F, tchs h ch tch F ->
     (forall x cl, nth_error h x = Some cl -> (P x /\ cell_tid cl < tid) \/ In x F -> nth_error h' x = Some cl) ->
     tchs h' ch tch F).
Proof.
  intros T0.
  assert (PL : forall lf ol, plrep h lf ol ->
     (forall x cl, nth_error h x = Some cl -> P x /\ cell_tid cl < tid -> nth_error h' x = Some cl) -> plrep h' lf ol).
  { intros [la|] ol; cbn [plrep]; [|auto]. intros (Pl & q & l & Hq & ->) Hf. split; [auto|].
    exists q, l. split; [|reflexivity]. apply Hf; [exact Hq|]. split; [exact Pl|exact T0]. }
  apply trep_tchs_ind.
  - intros a p l Hn HP Hf. constructor; [|exact HP]. apply Hf; [exact Hn|]. left. split; [exact HP|exact T0].
  - intros a kd t p w lf ch ol tch Hn Ht HP Hl _ IH Hf. apply (tr_old _ a kd t p w lf ch ol tch).
    + apply Hf; [exact Hn|]. left. split; [exact HP|exact Ht].
    + exact Ht.
    + exact HP.
    + apply PL; [exact Hl|]. intros x cl Hx Hc. apply Hf; auto.
    + apply IH. exact Hf.
  - intros a kd p w lf ch ol tch F Hn Hl _ IH Na Hf. apply (tr_own _ a kd p w lf ch ol tch F).
    + apply Hf; [exact Hn|]. right. now left.
    + apply PL; [exact Hl|]. intros x cl Hx Hc. apply Hf; auto.
    + apply IH. intros x cl Hx [Hc|Hc]; apply Hf; auto. right. now right.
    + exact Na.
  - intros _. constructor.
  - intros b c r n tr F1 F2 _ IH1 _ IH2 D Hf. constructor; auto.
    + apply IH1. intros x cl Hx [Hc|Hc]; apply Hf; auto. right. apply in_or_app. auto.
    + apply IH2. intros x cl Hx [Hc|Hc]; apply Hf; auto. right. apply in_or_app. auto.
Qed.
End TRep.

Arguments trep {P} tid h a t F.
Arguments tchs {P} tid h ch tch F.
Arguments plrep {P} h lf ol.

(* changing the predicate on frozen cells *)
Lemma trep_P_impl (P Q : nat -> Prop) tid h : (forall x cl, nth_error h x = Some cl -> P x -> Q x) ->
  (forall a t F, @trep P tid h a t F -> @trep Q tid h a t F) /\
  (forall ch tch F, @tchs P tid h ch tch F -> @tchs Q tid h ch tch F).
Proof.
  intros PQ.
  assert (PL : forall lf ol, @plrep P h lf ol -> @plrep Q h lf ol).
  { intros [la|] ol; cbn [plrep]; [|auto]. intros (Pl & q & l & Hq & ->). split; [eapply PQ; eauto|eauto]. }
  apply trep_tchs_ind.
  - intros a p l Hn HP. constructor; eauto.
  - intros a kd t p w lf ch ol tch Hn Ht HP Hl _ IH. eapply tr_old; eauto.
  - intros a kd p w lf ch ol tch F Hn Hl _ IH Na. eapply tr_own; eauto.
  - constructor.
  - intros b c r n tr F1 F2 _ IH1 _ IH2 D. constructor; auto.
Qed.

(* the id bump freezes everything *)
Lemma trep_bump (P Q : nat -> Prop) tid tid' h : tid < tid' ->
  (forall x cl, nth_error h x = Some cl -> P x -> Q x) ->
  (forall a t F, @trep P tid h a t F -> (forall x, In x F -> Q x) -> @trep Q tid' h a t []) /\
  (forall ch tch F, @tchs P tid h ch tch F -> (forall x, In x F -> Q x) -> @tchs Q tid' h ch tch []).
Proof.
  intros Ht PQ.
  assert (PL : forall lf ol, @plrep P h lf ol -> @plrep Q h lf ol).
  { intros [la|] ol; cbn [plrep]; [|auto]. intros (Pl & q & l & Hq & ->). split; [eapply PQ; eauto|eauto]. }
  apply trep_tchs_ind.
  - intros a p l Hn HP _. constructor; eauto.
  - intros a kd t p w lf ch ol tch Hn Hlt HP Hl _ IH _. eapply tr_old; eauto; try lia. apply IH. intros x [].
  - intros a kd p w lf ch ol tch F Hn Hl _ IH Na HF. eapply tr_old; eauto.
    + apply HF. now left.
    + apply IH. intros x Hx. apply HF. now right.
  - intros _. constructor.
  - intros b c r n tr F1 F2 _ IH1 _ IH2 D HF. change (@nil nat) with (@nil nat ++ []). constructor.
    + apply IH1. intros x Hx. apply HF. apply in_or_app. auto.
    + apply IH2. intros x Hx. apply HF. apply in_or_app. auto.
    + apply disj_nil_l.
Qed.

(* ---------- heap extension: append, and in-place writes of owned cells to a write set ---------- *)
Section Ext.
Variable tid : N.
Notation owned := (owned_cell tid).

Definition ext (h h' : heap) (W : list nat) : Prop :=
  (length h <= length h')%nat /\
  (forall a cl, nth_error h a = Some cl -> ~ In a W -> nth_error h' a = Some cl) /\
  (forall a, owned h a -> owned h' a).

Lemma ext_refl h W : ext h h W.
Proof. repeat split; auto. Qed.
Lemma ext_trans h h1 h2 W1 W2 : ext h h1 W1 -> ext h1 h2 W2 -> ext h h2 (W1 ++ W2).
Proof.
  intros (L1 & A1 & O1) (L2 & A2 & O2). split; [lia|]. split; [|auto].
  intros a cl Hn Hi. apply A2; [apply A1; auto|]; intros Hx; apply Hi, in_or_app; auto.
Qed.
Lemma ext_weaken h h' W W' : ext h h' W -> incl W W' -> ext h h' W'.
Proof. intros (L & A & O) I. split; [exact L|]. split; [|exact O]. intros a cl Hn Hi. apply A; auto. Qed.
Lemma ext_alloc h cl : ext h (h ++ [cl]) [].
Proof.
  split; [rewrite app_length; simpl; lia|]. split.
  - intros a cl' Hn _. now apply nth_error_app_old.
  - intros a (kd & p & w & lf & ch & Hn). red. eauto 8 using nth_error_app_old.
Qed.
Lemma ext_upd h a kd p w lf ch : (a < length h)%nat -> ext h (upd h a (CInner kd tid p w lf ch)) [a].
Proof.
  intros La. split; [rewrite upd_length; lia|]. split.
  - intros b cl Hn Hi. rewrite nth_error_upd_neq; [exact Hn|]. intros ->. apply Hi. now left.
  - intros b (kd' & p' & w' & lf' & ch' & Hn). destruct (Nat.eq_dec a b) as [<-|Ne].
    + red. rewrite nth_error_upd_eq by exact La. eauto 8.
    + red. rewrite nth_error_upd_neq by exact Ne. eauto 8.
Qed.

End Ext.

Section ExtP.
Context {P : nat -> Prop}.
Variable tid : N.
Notation owned := (owned_cell tid).
Notation ext := (ext tid).

(* frame through an extension whose writes avoid the footprint *)
Lemma trep_ext h h' W : 0 < tid -> ext h h' W -> (forall x, In x W -> owned h x) ->
  (forall a t F, @trep P tid h a t F -> disj W F -> @trep P tid h' a t F) /\
  (forall ch tch F, @tchs P tid h ch tch F -> disj W F -> @tchs P tid h' ch tch F).
Proof.
  intros T0 (L & A & O) HW.
  assert (G : forall F, disj W F -> forall x cl, nth_error h x = Some cl ->
            (P x /\ cell_tid cl < tid) \/ In x F -> nth_error h' x = Some cl).
  { intros F D x cl Hn Hc. apply A; [exact Hn|]. intros Hi. destruct Hc as [(_ & Hc)|Hc]; [|exact (D x Hi Hc)].
    destruct (HW x Hi) as (kd & p & w & lf & ch & Hn'). rewrite Hn in Hn'. injection Hn' as ->. cbn [cell_tid] in Hc. lia. }
  split.
  - intros a t F T D. eapply (proj1 (trep_frame tid h h' T0)); eauto.
  - intros ch tch F T D. eapply (proj2 (trep_frame tid h h' T0)); eauto.
Qed.

Lemma plrep_ext h h' W lf ol : ext h h' W -> (forall x, In x W -> owned h x) ->
  @plrep P h lf ol -> @plrep P h' lf ol.
Proof.
  intros (L & A & O) HW. destruct lf as [la|]; cbn [plrep]; [|auto]. intros (Pl & q & l & Hq & ->).
  split; [exact Pl|]. exists q, l. split; [|reflexivity]. apply A; [exact Hq|]. intros Hi.
  destruct (HW la Hi) as (kd & p & w & lf & ch & Hn'). congruence.
Qed.
End ExtP.
