(* Part/LayoutClauses.v — the slot-wise reading of the well-formedness invariant LWF
   (LayoutProofs.v defines it through canonical forms). *)
From SV Require Import Part.Layout Part.LayoutBase Part.LayoutKeyed Part.Layout48 Part.Layout256 Part.LayoutProofs.
From Coq Require Import ZifyN ZifyNat ZifyBool.
Close Scope N_scope.

Lemma nth_none_tail : forall (l : list (option N)) n i, length l <= i -> nth i (l ++ repeat None n) None = None.
Proof. intros l n i H. rewrite app_nth2 by exact H. apply nth_repeat. Qed.

Lemma pos_in_of_nth : forall ks i, ssorted ks -> i < length ks -> pos_in (nth i ks 0%N) ks = S i.
Proof.
  induction ks as [|x r IH]; intros i HS Hi; cbn [length] in Hi; [lia|].
  destruct HS as [Hx HS]. destruct i as [|i]; cbn [nth pos_in].
  - rewrite N.eqb_refl. reflexivity.
  - assert (Hin : In (nth i r 0%N) r) by (apply nth_In; lia).
    rewrite Forall_forall in Hx. specialize (Hx _ Hin).
    destruct (N.eqb_spec x (nth i r 0%N)); [lia|]. rewrite IH by (auto; lia). reflexivity.
Qed.

Lemma nth_stale : forall m z j, j < m + z -> nth j (stale m z) 0%N = if j <? m then 255%N else 0%N.
Proof.
  intros m z j Hj. unfold stale. destruct (Nat.ltb_spec j m) as [Hlt|Hge].
  - rewrite app_nth1 by (rewrite repeat_length; exact Hlt).
    rewrite (nth_indep _ 0%N 255%N) by (rewrite repeat_length; exact Hlt). apply nth_repeat.
  - rewrite app_nth2 by (rewrite repeat_length; exact Hge). apply nth_repeat.
Qed.

Theorem LWF_clauses : forall l, LWF l ->
  let ks := l_abs l in
  (* the child keys: strictly increasing bytes; size = their number, within the capacity *)
  ssorted ks /\ Forall (fun k => (k < 256)%N) ks /\ l_size l = length ks /\ l_size l <= l_cap l /\
  length (l_children l) = l_cap l /\
  (* node4/16/48: children non-nil exactly in the used slots, in key order *)
  (l_kind l <> 256%N ->
     (forall i, i < l_size l -> child_at (l_children l) i = Some (nth i ks 0%N)) /\
     (forall i, l_size l <= i -> child_at (l_children l) i = None)) /\
  (* node4/16: keys of the used slots; stale slots: 255s (left by remove) before 0s (fresh array) *)
  (l_kind l = 4%N \/ l_kind l = 16%N ->
     length (l_keys l) = l_cap l /\
     (forall i, i < l_size l -> key_at (l_keys l) i = nth i ks 0%N) /\
     exists m, forall i, l_size l <= i < l_cap l -> key_at (l_keys l) i = if i <? l_size l + m then 255%N else 0%N) /\
  (* node48: index[k] = i+1 iff children[i] is the child with key k (other entries 0) *)
  (l_kind l = 48%N ->
     length (l_index l) = 256 /\
     forall k i, (k < 256)%N ->
       (nth (N.to_nat k) (l_index l) 0 = S i <-> i < l_size l /\ child_at (l_children l) i = Some k)) /\
  (* node256: children[k] is the child with key k, or nil *)
  (l_kind l = 256%N ->
     forall k, (k < 256)%N -> child_at (l_children l) (N.to_nat k) = if memb k ks then Some k else None).
Proof.
  intros l H; destruct H as [kd lf ks m z Hkd HG Hcap | lf ks HG HL | lf ks HG]; cbn zeta.
  - rewrite abs_keyed by exact Hkd. destruct HG as [HS HB]. unfold l_cap.
    cbn [l_kind l_size l_keys l_children l_index canon_keyed].
    split; [exact HS|]. split; [exact HB|]. split; [reflexivity|]. split; [lia|].
    split; [rewrite app_length, map_length, repeat_length; lia|].
    split; [intros _; split|].
    + intros i Hi. unfold child_at. apply nth_map_some. exact Hi.
    + intros i Hi. unfold child_at. apply nth_none_tail. rewrite map_length. exact Hi.
    + split; [intros _|split; [intros E|intros E]; destruct Hkd as [-> | ->]; discriminate E].
      split; [rewrite app_length, stale_length; lia|]. split.
      * intros i Hi. unfold key_at. apply app_nth1. exact Hi.
      * exists m. intros i Hi. unfold key_at. rewrite app_nth2 by lia. rewrite nth_stale by lia.
        destruct (Nat.ltb_spec (i - length ks) m), (Nat.ltb_spec i (length ks + m)); try reflexivity; lia.
  - rewrite abs48. destruct HG as [HS HB]. unfold l_cap. cbn [l_kind l_size l_keys l_children l_index canon48].
    change (l_cap_of 48) with 48.
    split; [exact HS|]. split; [exact HB|]. split; [reflexivity|]. split; [lia|].
    split; [rewrite app_length, map_length, repeat_length; lia|].
    split; [intros _; split|].
    + intros i Hi. unfold child_at. apply nth_map_some. exact Hi.
    + intros i Hi. unfold child_at. apply nth_none_tail. rewrite map_length. exact Hi.
    + split; [intros [E|E]; discriminate E|]. split; [intros _|intros E; discriminate E].
      split; [apply index_of_length|]. intros k i Hk. rewrite nth_index_key by exact Hk. split.
      * intros Hp. destruct (pos_in_nth _ _ _ Hp) as [Hi Hn]. split; [exact Hi|].
        unfold child_at. rewrite nth_map_some by exact Hi. rewrite Hn. reflexivity.
      * intros [Hi Hc]. unfold child_at in Hc. rewrite nth_map_some in Hc by exact Hi. inversion Hc as [Hn].
        apply pos_in_of_nth; assumption.
  - rewrite abs256 by exact HG. pose proof (good_length ks HG) as HL. destruct HG as [HS HB]. unfold l_cap.
    cbn [l_kind l_size l_keys l_children l_index canon256]. change (l_cap_of 256) with 256.
    split; [exact HS|]. split; [exact HB|]. split; [reflexivity|]. split; [exact HL|].
    split; [apply slots256_length|].
    split; [intros E; congruence|]. split; [intros [E|E]; discriminate E|]. split; [intros E; discriminate E|].
    intros _ k Hk. unfold child_at. apply nth_slots. exact Hk.
Qed.
