(* Part/PrefixHist.v — the Prefix clause of C12 along whole histories. *)
From SV Require Import Base.Bytes Base.OrdMap Part.Model Part.Sem Part.Insert Part.Delete Part.Query Part.Refine Part.Cow Part.Watch Part.Stable Part.WatchHist Part.PStable.
From Coq Require Import ZifyN ZifyNat ZifyBool.
Open Scope N_scope.

Definition rpgetw (r : option node) (rw : N) (q : bytes) : N := snd (root_prefix r rw q).
Lemma rpgetw_some n rw q : rpgetw (Some n) rw q = pgetw n q rw.
Proof. unfold rpgetw, root_prefix, pgetw. destruct (prefix_node n q rw). reflexivity. Qed.
Lemma rpgetw_none rw q : rpgetw None rw q = rw.
Proof. reflexivity. Qed.

Section HistP.
Variable next0 : N.
Variable F : N -> Prop.
Hypothesis HF : forall b, next0 <= b -> F b.
Variable q : bytes.
Variable a : N.
Hypothesis Ha0 : a <> 0.
Hypothesis HnF : ~ F a.

Definition Jp (x : txn) : Prop := closedish a x \/ rpgetw (t_root x) (t_rw x) q = a.

Lemma nf : ~ F a.
Proof. exact HnF. Qed.

Lemma modify_step_p x md k' v :
  TInv next0 F x -> Jp x ->
  let x' := fst (fst (fst (txn_modify x md k' v))) in
  Jp x' /\ (has_prefix k' q = true -> closedish a x').
Proof.
  intros (Hc0 & Hr & Hn) HJ. unfold txn_modify. cbn zeta.
  destruct (t_root x) as [n|] eqn:Er.
  - destruct Hr as (Hp & Hl & Hm).
    pose proof (proj1 (modify_pstable (txn_ctx x) md k' v F) n (t_st x) k' q (t_rw x) (t_rw x) Hp) as St.
    pose proof (proj1 (modify_visit_gen (txn_ctx x) md k' v F) n (t_st x) k' Hp) as Vg.
    pose proof (proj1 (modify_mono (txn_ctx x) md k' v) n (t_st x) k') as Mo.
    set (r := modify_node (txn_ctx x) md k' v (t_st x) n k') in *.
    cbn [fst]. unfold Jp, closedish in *. cbn [t_root t_st t_rw t_dirty]. rewrite Er, rpgetw_some in HJ. rewrite rpgetw_some.
    split.
    + destruct HJ as [[H|[H _]]|H]; [left; left; auto|left; right; auto|].
      rewrite H in St. destruct St as [E|[E|[E|E]]]; [left; right; auto|right; auto|left; left; auto|].
      exfalso. now apply nf.
    + intros Hq. destruct HJ as [[H|[H _]]|H]; [left; auto|right; auto|].
      destruct (proj1 prefix_watch_visited n q k' (t_rw x) Hq) as [E|[I0 _]].
      * right. split; auto. fold (pgetw n q (t_rw x)) in E. congruence.
      * fold (pgetw n q (t_rw x)) in I0. rewrite H in I0. destruct (Vg a I0 Ha0) as [E|E]; [left; auto|].
        exfalso. now apply nf.
  - destruct (fresh (txn_ctx x) (t_st x)) as [lw s1] eqn:Ef. cbn [fst snd m_node m_st m_old].
    assert (Mo : ws_mono (t_st x) s1) by (pose proof (fresh_mono (txn_ctx x) (t_st x)) as M; now rewrite Ef in M).
    unfold Jp, closedish in *. rewrite Er, rpgetw_none in HJ. cbn [t_root t_st t_rw t_dirty].
    assert (C : In a (s_ws s1) \/ a = t_rw x /\ true = true).
    { destruct HJ as [[H|[H _]]|H]; auto. }
    split; auto.
Qed.

Lemma delete_step_p x k' :
  TInv next0 F x -> Jp x ->
  let x' := fst (txn_delete x k') in
  Jp x' /\ (has_prefix k' q = true -> snd (txn_delete x k') <> None -> closedish a x').
Proof.
  intros HT HJ. pose proof HT as (Hc0 & Hr & Hn). unfold txn_delete. cbn zeta.
  destruct (t_root x) as [n|] eqn:Er.
  2:{ cbn [fst snd]. split; [exact HJ|]. intros _ H. exfalso. apply H. reflexivity. }
  destruct Hr as (Hp & Hl & Hm).
  pose proof (proj1 (delete_mono (txn_ctx x)) n (t_st x) k') as Mo.
  pose proof (proj1 (delete_pstable (txn_ctx x) Hc0 F) n (t_st x) k' q (t_rw x) Hp Hl Hm) as St.
  pose proof (proj1 (delete_visit_gen (txn_ctx x) Hc0 F) n (t_st x) k' Hp Hl Hm) as Vg.
  destruct (del_node (txn_ctx x) (t_st x) n k') as [|old repl s' ip].
  - cbn [fst snd]. split; [exact HJ|]. intros _ H. exfalso. apply H. reflexivity.
  - cbn [fst snd dmono dpstab] in *.
    unfold Jp, closedish in *. rewrite Er, rpgetw_some in HJ. cbn [t_root t_st t_rw t_dirty].
    split.
    + destruct HJ as [[H|[H _]]|H]; [left; left; auto|left; right; auto|].
      destruct repl as [n'|].
      * rewrite rpgetw_some. specialize (St (t_rw x)). rewrite H in St.
        destruct St as [E|[E|[E|E]]]; [left; right; auto|right; auto|left; left; auto|].
        exfalso. now apply nf.
      * rewrite H in St. destruct St as [E|[E|E]]; [left; right; auto|left; left; auto|].
        exfalso. now apply nf.
    + intros Hq _. destruct HJ as [[H|[H _]]|H]; [left; auto|right; auto|].
      destruct (proj1 prefix_watch_visited n q k' (t_rw x) Hq) as [E|[I0 _]].
      * right. split; auto. fold (pgetw n q (t_rw x)) in E. congruence.
      * fold (pgetw n q (t_rw x)) in I0. rewrite H in I0. destruct (Vg a I0 Ha0) as [E|E]; [left; auto|].
        exfalso. now apply nf.
Qed.

(* which operations touch a key with prefix q *)
Definition touches_p (x : txn) (o : wop) : Prop :=
  match o with
  | WIns k' _ | WMod k' _ _ => has_prefix k' q = true
  | WDel k' => has_prefix k' q = true /\ snd (txn_delete x k') <> None
  | WBump => False
  end.
Fixpoint touched_p (x : txn) (ops : list wop) : Prop :=
  match ops with [] => False | o :: r => touches_p x o \/ touched_p (wstep x o) r end.

Lemma wstep_Jp x o : TInv next0 F x -> Jp x -> Jp (wstep x o) /\ (touches_p x o -> closedish a (wstep x o)).
Proof.
  intros HT HJ. destruct o as [k' v|k' v f|k'|]; cbn [wstep touches_p].
  - apply modify_step_p; auto.
  - apply modify_step_p; auto.
  - destruct (delete_step_p x k' HT HJ) as (B & C). split; [exact B|]. intros [E1 E2]. apply C; auto.
  - split; [exact HJ|intros []].
Qed.

Theorem touched_p_closed ops : forall x, TInv next0 F x -> Jp x -> touched_p x ops ->
  In a (snd (txn_notify (fold_left wstep ops x))).
Proof.
  induction ops as [|o ops IH]; intros x HT HJ Ht; cbn [touched_p] in Ht; [destruct Ht|].
  destruct (wstep_Jp x o HT HJ) as (HJ' & Hc). pose proof (wstep_TInv next0 F HF x o HT) as HT'. cbn [fold_left].
  destruct Ht as [Ht|Ht].
  - apply (closedish_run next0 F HF q a Ha0 HnF); auto.
  - apply IH; auto.
Qed.
End HistP.

(* Prefix(q) watch over whole histories *)
Theorem prefix_watch_closed_history t next ops q :
  tree_ids_ok t -> tr_next t <> 0 -> root_tmono (tr_root t) ->
  snd (tree_prefix t q) <> 0 -> snd (tree_prefix t q) < next ->
  touched_p q (tree_txn t next) ops ->
  In (snd (tree_prefix t q)) (snd (txn_notify (fold_left wstep ops (tree_txn t next)))).
Proof.
  intros Hids Hnz Hm Ha0 Hold Ht.
  assert (HnF : ~ Fr next (snd (tree_prefix t q))) by (unfold Fr; lia).
  apply (touched_p_closed next (Fr next) (fun b h => h) q (snd (tree_prefix t q)) Ha0 HnF ops (tree_txn t next)); auto.
  - unfold TInv, tree_txn, root_inv, txn_ctx. cbn [t_tid t_root t_st t_ro s_next c_tid].
    split; auto. split; [|lia]. unfold tree_ids_ok, root_tmono in *. destruct (tr_root t) as [n|]; auto.
    destruct Hids as [H0 Hle]. repeat split; auto.
    + apply (proj1 (privF_of_tids_lt (Fr next) (mkCtx (tr_next t) (tr_ro t)) (tr_next t - 1) ltac:(simpl; lia))). exact Hle.
    + eapply (proj1 tids_le_mono); [|exact Hle]. lia.
  - right. reflexivity.
Qed.
