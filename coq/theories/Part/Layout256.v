(* Part/Layout256.v — node256 (children indexed directly by the key byte): canonical form,
   lookups, insert, remove, promotion 48->256 and the loop of the demotion 256->48. *)
From SV Require Import Part.Layout Part.LayoutBase Part.LayoutKeyed Part.Layout48.
From Coq Require Import ZifyN ZifyNat ZifyBool.
Close Scope N_scope.

Definition slot (ks : list N) (j : nat) : option N :=
  if memb (N.of_nat j) ks then Some (N.of_nat j) else None.
Definition slots256 (ks : list N) : list (option N) := map (slot ks) (seq 0 256).
(* a well-formed node256 holding the sorted keys ks *)
Definition canon256 (lf : bool) (ks : list N) : layout := mkL 256 (length ks) lf [] [] (slots256 ks).

Lemma slots256_length : forall ks, length (slots256 ks) = 256.
Proof. intros; unfold slots256; rewrite map_length, seq_length; reflexivity. Qed.

Lemma slots_ext : forall ks ks', (forall j, j < 256 -> memb (N.of_nat j) ks = memb (N.of_nat j) ks') ->
  slots256 ks = slots256 ks'.
Proof.
  intros ks ks' H. unfold slots256. apply map_ext_in. intros j Hj. apply in_seq in Hj.
  unfold slot. rewrite H by lia. reflexivity.
Qed.

Lemma nth_slots : forall ks k, (k < 256)%N ->
  nth (N.to_nat k) (slots256 ks) None = if memb k ks then Some k else None.
Proof.
  intros ks k Hk. unfold slots256.
  rewrite (nth_indep _ None (slot ks 0)) by (rewrite map_length, seq_length; lia).
  rewrite (map_nth (slot ks) (seq 0 256) 0 (N.to_nat k)), seq_nth by lia.
  unfold slot. cbn [Nat.add]. rewrite N2Nat.id. reflexivity.
Qed.

Lemma cat_some_slots : forall n a ks, ssorted ks ->
  Forall (fun x => (N.of_nat a <= x < N.of_nat (a + n))%N) ks ->
  cat_some (map (slot ks) (seq a n)) = ks.
Proof.
  induction n as [|n IH]; intros a ks HS HB.
  - destruct ks as [|x r]; [reflexivity|]. apply Forall_cons_iff in HB. destruct HB as [Hx _]. lia.
  - cbn [seq map]. destruct ks as [|x r].
    + unfold slot at 1. cbn [memb existsb cat_some]. rewrite (IH (S a) []); auto.
      (* slot [] = slot [] *)
    + destruct HS as [Hxr HS]. apply Forall_cons_iff in HB. destruct HB as [Hx HB].
      destruct (N.eq_dec x (N.of_nat a)) as [->|Hne].
      * unfold slot at 1. cbn [memb existsb]. rewrite N.eqb_refl. cbn [orb cat_some]. f_equal.
        rewrite (map_ext_in _ (slot r)).
        -- apply IH; auto. rewrite Forall_forall in *. intros y Hy. specialize (Hxr _ Hy). specialize (HB _ Hy). lia.
        -- intros j Hj. apply in_seq in Hj. unfold slot. cbn [memb existsb].
           destruct (N.eqb_spec (N.of_nat j) (N.of_nat a)); [lia|reflexivity].
      * unfold slot at 1.
        assert (Hm : memb (N.of_nat a) (x :: r) = false).
        { apply memb_false. intros [E|Hin]; [lia|]. rewrite Forall_forall in Hxr. specialize (Hxr _ Hin). lia. }
        rewrite Hm. cbn [cat_some]. apply IH; [split; assumption|].
        constructor; [lia|]. rewrite Forall_forall in *. intros y Hy. specialize (Hxr _ Hy). specialize (HB _ Hy). lia.
Qed.

Lemma abs256 : forall lf ks, good ks -> l_abs (canon256 lf ks) = ks.
Proof.
  intros lf ks [HS HB]. unfold l_abs, l_children_go. cbn [l_kind l_children canon256 N.eqb Pos.eqb].
  apply cat_some_slots; auto. eapply Forall_impl; [|exact HB]. cbn; intros; lia.
Qed.

(* ---- lookups ---- *)
Lemma find256 : forall lf ks key, (key < 256)%N -> l_find (canon256 lf ks) key = memb key ks.
Proof.
  intros lf ks key Hk. unfold l_find. cbn [l_kind l_children canon256 N.eqb Pos.eqb].
  unfold child_at. rewrite nth_slots by exact Hk. destruct (memb key ks); reflexivity.
Qed.
(* node256.findIndex: found, int(key) — the slot, not the number of smaller keys *)
Lemma findIndex256 : forall lf ks key, (key < 256)%N ->
  l_findIndex (canon256 lf ks) key = (memb key ks, N.to_nat key).
Proof.
  intros lf ks key Hk. unfold l_findIndex. cbn [l_kind l_children canon256 N.eqb Pos.eqb].
  unfold child_at. rewrite nth_slots by exact Hk. destruct (memb key ks); reflexivity.
Qed.

(* ---- insert / remove ---- *)
Lemma set_slot : forall ks k x, (k < 256)%N ->
  set_nth (N.to_nat k) x (slots256 ks) = map (fun j => if j =? N.to_nat k then x else slot ks j) (seq 0 256).
Proof.
  intros ks k x Hk. unfold slots256. rewrite <- (Nat.sub_0_r (N.to_nat k)) at 1.
  apply set_nth_map_seq. lia.
Qed.

Lemma insert256 : forall lf a b k idx, (k < 256)%N ->
  l_insert (canon256 lf (a ++ b)) idx k = canon256 lf (a ++ k :: b).
Proof.
  intros lf a b k idx Hk. unfold l_insert, canon256.
  cbn [l_kind l_size l_leaf l_keys l_index l_children N.eqb Pos.eqb orb]. f_equal.
  - rewrite !app_length. cbn [length]. lia.
  - rewrite set_slot by exact Hk. unfold slots256. apply map_ext_in. intros j Hj. apply in_seq in Hj.
    unfold slot. rewrite !memb_app. cbn [memb existsb].
    destruct (Nat.eqb_spec j (N.to_nat k)) as [->|Hne].
    + rewrite N2Nat.id, N.eqb_refl. cbn [orb]. rewrite orb_true_r. reflexivity.
    + destruct (N.eqb_spec (N.of_nat j) k) as [E|_]; [lia|]. reflexivity.
Qed.

Lemma remove256 : forall lf a b k, (k < 256)%N -> memb k a = false -> memb k b = false ->
  l_remove (canon256 lf (a ++ k :: b)) (N.to_nat k) = canon256 lf (a ++ b).
Proof.
  intros lf a b k Hk Hma Hmb. unfold l_remove, canon256.
  cbn [l_kind l_size l_leaf l_keys l_index l_children N.eqb Pos.eqb orb]. f_equal.
  - rewrite !app_length. cbn [length]. lia.
  - rewrite set_slot by exact Hk. unfold slots256. apply map_ext_in. intros j Hj. apply in_seq in Hj.
    unfold slot. rewrite !memb_app. cbn [memb existsb].
    destruct (Nat.eqb_spec j (N.to_nat k)) as [->|Hne].
    + rewrite N2Nat.id. change (existsb (N.eqb k) b) with (memb k b). rewrite Hma, Hmb. reflexivity.
    + destruct (N.eqb_spec (N.of_nat j) k) as [E|_]; [lia|]. reflexivity.
Qed.

(* ---- promote 48 -> 256 ---- *)
Lemma promote_children256_spec : forall ks acc, Forall (fun x => (x < 256)%N) ks ->
  promote_children256 (map (@Some N) ks) (slots256 acc) = slots256 (acc ++ ks).
Proof.
  induction ks as [|k r IH]; intros acc HB; cbn [map promote_children256].
  - rewrite app_nil_r. reflexivity.
  - apply Forall_cons_iff in HB. destruct HB as [Hk HB]. cbn [child_key].
    replace (set_nth (N.to_nat k) (Some k) (slots256 acc)) with (slots256 (acc ++ [k])).
    + rewrite IH by exact HB. rewrite <- app_assoc. reflexivity.
    + rewrite set_slot by exact Hk. unfold slots256. apply map_ext_in. intros j Hj. apply in_seq in Hj.
      unfold slot. rewrite memb_app. cbn [memb existsb]. rewrite orb_false_r.
      destruct (Nat.eqb_spec j (N.to_nat k)) as [->|Hne].
      * rewrite N2Nat.id, N.eqb_refl, orb_true_r. reflexivity.
      * destruct (N.eqb_spec (N.of_nat j) k) as [E|_]; [lia|]. rewrite orb_false_r. reflexivity.
Qed.

Lemma promote_48 : forall lf ks, good ks -> l_promote (canon48 lf ks) = canon256 lf ks.
Proof.
  intros lf ks [HS HB]. unfold l_promote, canon48, canon256.
  cbn [l_kind l_size l_leaf l_keys l_children N.eqb Pos.eqb]. f_equal.
  rewrite <- (map_length (@Some N) ks) at 1. rewrite firstn_app_exact.
  change (repeat None 256) with (slots256 []). rewrite promote_children256_spec by exact HB. reflexivity.
Qed.

(* ---- the loop of the demotion 256 -> 48 ---- *)
Lemma demote256_loop_spec : forall n a todo dn ix idx sl,
  a + n = 256 -> ssorted todo -> Forall (fun x => (N.of_nat a <= x)%N) todo -> Forall (fun x => (x < 256)%N) todo ->
  length ix = 256 -> memb (N.of_nat idx) todo = false ->
  (forall j, a <= j < a + n -> j <> idx -> sl j = slot todo j) ->
  exists ix', demote256_loop a (map sl (seq a n)) idx ix (map (@Some N) dn) = (ix', map (@Some N) (dn ++ todo)) /\
    length ix' = 256 /\
    forall j, j < 256 -> nth j ix' 0 = match pos_in (N.of_nat j) todo with 0 => nth j ix 0 | S t => length dn + S t end.
Proof.
  induction n as [|n IH]; intros a todo dn ix idx sl Han HS Hlo HB HL Hidx Hsl.
  - destruct todo as [|x r].
    + exists ix. cbn. rewrite app_nil_r. repeat split; auto.
    + apply Forall_cons_iff in Hlo. destruct Hlo as [Hx _]. apply Forall_cons_iff in HB. destruct HB as [Hx' _]. lia.
  - cbn [seq map demote256_loop].
    assert (Hskip : memb (N.of_nat a) todo = false \/ a = idx ->
              negb (a =? idx) && is_some (sl a) = false).
    { intros [Hm| ->]; [|rewrite Nat.eqb_refl; reflexivity].
      destruct (Nat.eqb_spec a idx) as [->|Hne]; [reflexivity|]. rewrite Hsl by lia. unfold slot. rewrite Hm. reflexivity. }
    assert (Hnext : memb (N.of_nat a) todo = false -> Forall (fun x => (N.of_nat (S a) <= x)%N) todo).
    { intros Hm. apply memb_false in Hm. rewrite Forall_forall in *. intros y Hy. specialize (Hlo _ Hy).
      assert (y <> N.of_nat a) by (intros ->; auto). lia. }
    destruct (memb (N.of_nat a) todo) eqn:Em.
    + (* the key a is present: todo = a :: r, and a <> idx *)
      destruct todo as [|x r]; [discriminate|].
      destruct HS as [Hxr HS]. apply Forall_cons_iff in Hlo. destruct Hlo as [Hx Hlo].
      apply Forall_cons_iff in HB. destruct HB as [Hx256 HB].
      assert (Ex : x = N.of_nat a).
      { apply memb_In in Em. destruct Em as [E|Hin]; [auto|]. rewrite Forall_forall in Hxr. specialize (Hxr _ Hin). lia. }
      subst x.
      assert (Hne : a <> idx).
      { intros ->. cbn [memb existsb] in Hidx. rewrite N.eqb_refl in Hidx. discriminate. }
      destruct (Nat.eqb_spec a idx) as [|_]; [contradiction|]. rewrite Hsl by lia.
      assert (Esl : slot (N.of_nat a :: r) a = Some (N.of_nat a)) by (unfold slot; rewrite Em; reflexivity).
      rewrite Esl. cbn [negb is_some andb]. rewrite map_length.
      replace (map Some dn ++ [Some (N.of_nat a)]) with (map (@Some N) (dn ++ [N.of_nat a]))
        by (rewrite map_app; reflexivity).
      destruct (IH (S a) r (dn ++ [N.of_nat a]) (set_nth a (S (length dn)) ix) idx sl) as (ix' & E1 & E2 & E3); auto.
      * lia.
      * rewrite Forall_forall in *. intros y Hy. specialize (Hxr _ Hy). lia.
      * rewrite set_nth_length; exact HL.
      * cbn [memb existsb] in Hidx. apply orb_false_iff in Hidx. apply Hidx.
      * intros j Hj Hji. rewrite Hsl by lia. unfold slot. cbn [memb existsb].
        destruct (N.eqb_spec (N.of_nat j) (N.of_nat a)); [lia|reflexivity].
      * exists ix'. split; [|split; [exact E2|]].
        -- rewrite E1. rewrite <- app_assoc. reflexivity.
        -- intros j Hj. rewrite E3 by exact Hj. cbn [pos_in]. rewrite app_length. cbn [length].
           destruct (N.eqb_spec (N.of_nat a) (N.of_nat j)) as [E|Hne'].
           ++ assert (j = a) by lia. subst j.
              rewrite pos_in_zero by (apply memb_false, ssorted_NoDup_in; exact Hxr).
              rewrite nth_set_nth by lia. rewrite Nat.eqb_refl. lia.
           ++ destruct (pos_in (N.of_nat j) r) as [|t]; [|lia].
              rewrite nth_set_nth by lia. destruct (Nat.eqb_spec j a); [lia|reflexivity].
    + rewrite Hskip by (left; reflexivity).
      destruct (IH (S a) todo dn ix idx sl) as (ix' & E1 & E2 & E3); auto; try lia.
      * intros j Hj Hji. apply Hsl; lia.
      * exists ix'. auto.
Qed.

Lemma demote_256_arrays : forall lf a b k, good (a ++ k :: b) -> length a + length b <= 48 ->
  (let '(ix, acc) := demote256_loop 0 (l_children (canon256 lf (a ++ k :: b))) (N.to_nat k) (repeat 0 256) [] in
   mkL 48 (length (a ++ k :: b) - 1) lf [] ix (copy_into acc (repeat None 48)))
  = canon48 lf (a ++ b).
Proof.
  intros lf a b k HG HL.
  destruct (good_app_inv a k b HG) as (Ha & Hb & Hk & [HSab HBab] & Hma & Hmb).
  unfold canon256. cbn [l_children]. unfold slots256.
  assert (H1 : Forall (fun x => (N.of_nat 0 <= x)%N) (a ++ b)) by (apply Forall_forall; intros; lia).
  assert (H2 : memb (N.of_nat (N.to_nat k)) (a ++ b) = false) by (rewrite N2Nat.id, memb_app, Hma, Hmb; reflexivity).
  assert (H3 : forall j, 0 <= j < 0 + 256 -> j <> N.to_nat k -> slot (a ++ k :: b) j = slot (a ++ b) j).
  { intros j Hj Hne. unfold slot. rewrite !memb_app. cbn [memb existsb].
    destruct (N.eqb_spec (N.of_nat j) k) as [E|_]; [lia|]. reflexivity. }
  destruct (demote256_loop_spec 256 0 (a ++ b) [] (repeat 0 256) (N.to_nat k) (slot (a ++ k :: b))
              eq_refl HSab H1 HBab (repeat_length _ _) H2 H3) as (ix' & E1 & E2 & E3).
  cbn [map app] in E1. rewrite E1. unfold canon48. f_equal.
  - rewrite !app_length. cbn [length]. lia.
  - apply index_ext; [exact E2|]. intros j Hj. rewrite E3 by exact Hj.
    destruct (pos_in (N.of_nat j) (a ++ b)); [apply nth_repeat|reflexivity].
  - rewrite copy_into_repeat by (rewrite map_length, app_length; lia). rewrite map_length. reflexivity.
Qed.
