(* Part/Shape.v — the shape part of the invariant: kind tag vs number of children, and no leafless
   inner node with fewer than two children; preserved by modify and delete. *)
From SV Require Import Base.Bytes Base.OrdMap Part.Model Part.Sem Part.Insert Part.Delete.
From Coq Require Import ZifyN ZifyNat ZifyBool.
Open Scope N_scope.

(* validateTree: node16 has > 4, node48 > 16, node256 > 48 children; capacities bound from above
   (the upper bound of node256 follows from bytes < 256 and is not tracked) *)
Definition kind_ok (kd sz : N) : Prop :=
  (kd = 4 /\ sz <= 4) \/ (kd = 16 /\ 5 <= sz <= 16) \/ (kd = 48 /\ 17 <= sz <= 48) \/ (kd = 256 /\ 49 <= sz).

Fixpoint shape (n : node) : Prop :=
  match n with
  | Leaf _ _ => True
  | Inner kd _ _ _ lf ch => kind_ok kd (ch_len ch) /\ (lf = None -> 2 <= ch_len ch) /\ shape_ch ch
  end
with shape_ch (ch : children) : Prop :=
  match ch with CNil => True | CCons _ x r => shape x /\ shape_ch r end.

Lemma shape_set_prefix n q : shape (set_prefix n q) <-> shape n.
Proof. destruct n; simpl; tauto. Qed.
Lemma ch_len_insert b x : forall ch, ch_len (ch_insert b x ch) = 1 + ch_len ch.
Proof. induction ch as [|b' y r IH]; simpl ch_insert; [reflexivity|]. destruct (b <? b'); cbn [ch_len]; rewrite ?IH; lia. Qed.
Lemma shape_ch_insert b x : forall ch, shape x -> shape_ch ch -> shape_ch (ch_insert b x ch).
Proof. induction ch as [|b' y r IH]; simpl; auto. intros Hx [H1 H2]. destruct (b <? b'); simpl; auto. Qed.
Lemma ch_len_set b x : forall ch, ch_len (ch_set b x ch) = ch_len ch.
Proof. induction ch as [|b' y r IH]; simpl ch_set; [reflexivity|]. destruct (b' =? b); cbn [ch_len]; rewrite ?IH; lia. Qed.
Lemma shape_ch_set b x : forall ch, shape x -> shape_ch ch -> shape_ch (ch_set b x ch).
Proof. induction ch as [|b' y r IH]; simpl; auto. intros Hx [H1 H2]. destruct (b' =? b); simpl; auto. Qed.
Lemma ch_len_remove b : forall ch y, ch_find b ch = Some y -> 1 + ch_len (ch_remove b ch) = ch_len ch.
Proof.
  induction ch as [|b' x r IH]; simpl ch_find; [discriminate|]. intros y Hf. simpl ch_remove.
  destruct (b' =? b); cbn [ch_len]; [lia|]. rewrite <- (IH y Hf). lia.
Qed.
Lemma shape_ch_remove b : forall ch, shape_ch ch -> shape_ch (ch_remove b ch).
Proof. induction ch as [|b' y r IH]; simpl; auto. intros [H1 H2]. destruct (b' =? b); simpl; auto. Qed.
Lemma shape_ch_find b : forall ch x, shape_ch ch -> ch_find b ch = Some x -> shape x.
Proof.
  induction ch as [|b' y r IH]; simpl; [discriminate|]. intros x [H1 H2]. destruct (b' =? b); eauto. intros [= <-]; auto.
Qed.
Lemma shape_ch_other b : forall ch x, shape_ch ch -> ch_other b ch = Some x -> shape x.
Proof.
  induction ch as [|b' y r IH]; simpl; [discriminate|]. intros x [H1 H2]. destruct (b' =? b); eauto. intros [= <-]; auto.
Qed.

Section ShapeMod.
Variable c : ctx.
Variable md : option (N -> N -> N).
Variable fullKey : bytes.
Variable v : N.

Lemma split_shape s this key :
  shape this ->
  (is_leaf this = true /\ key <> node_prefix this) \/ strip (node_prefix this) key = None ->
  shape (m_node (split_node c fullKey v s this key)).
Proof.
  intros Hs Hc. unfold split_node. cbv zeta.
  destruct (common_split key (node_prefix this)) as (k' & p' & Ek & Ep & Hd).
  set (cp := common key (node_prefix this)) in *. clearbody cp.
  destruct (fresh c s) as [lw s1]. destruct (fresh c s1) as [nw s2].
  assert (Sp : skipn (length cp) (node_prefix this) = p') by (rewrite Ep; apply skipn_app_len).
  rewrite Sp. clear Sp.
  assert (Hpp : node_prefix (set_prefix this p') = p') by (destruct this; reflexivity).
  rewrite Hpp. cbn [m_node].
  assert (Hs' : shape (set_prefix this p')) by now apply shape_set_prefix.
  assert (K1 : kind_ok 4 1) by (left; split; [reflexivity|lia]).
  assert (K2 : kind_ok 4 2) by (left; split; [reflexivity|lia]).
  assert (Fin : forall lf ch, shape_ch ch -> (ch_len ch = 1 /\ lf <> None) \/ ch_len ch = 2 ->
                shape (Inner 4 (c_tid c) cp nw lf ch)).
  { intros lf ch Hch HL. cbn [shape]. split; [|split; auto].
    - left. split; [reflexivity|]. destruct HL as [[L _]|L]; rewrite L; lia.
    - intros ->. destruct HL as [[_ Hn]|L]; [congruence|rewrite L; lia]. }
  destruct p' as [|tb p'].
  - destruct Hc as [[Hl Hne]|Hs0].
    2:{ rewrite Ep, Ek, app_nil_r, strip_app in Hs0. discriminate. }
    destruct this as [p l|]; [|discriminate]. apply Fin; [simpl; auto|]. left. split; [reflexivity|simpl; discriminate].
  - destruct (skipn (length cp) key) as [|kb kl].
    + apply Fin; [simpl; auto|]. left. split; [reflexivity|discriminate].
    + destruct (tb <? kb); apply Fin; try (simpl; tauto); right; reflexivity.
Qed.

Definition ch_shape_res (ch : children) (o : option (children * mres)) : Prop :=
  match o with Some (ch', _) => shape_ch ch' /\ ch_len ch' = ch_len ch | None => True end.

Theorem modify_shape :
  (forall n s key, shape n -> shape (m_node (modify_node c md fullKey v s n key))) /\
  (forall ch s b key, shape_ch ch -> ch_shape_res ch (modify_ch c md fullKey v s ch b key)).
Proof.
  apply node_children_ind.
  - intros p l s key _. cbn [modify_node]. destruct (bytes_eqb key p) eqn:E.
    + destruct (clone_leaf c s l). exact I.
    + apply split_shape; [exact I|]. left. split; auto. simpl. now apply bytes_eqb_false.
  - intros kd t p w lf ch IH s key (Hk & Hl & Hc). cbn [modify_node]; fold (modify_ch c md fullKey v).
    destruct (strip p key) as [[|b rest]|] eqn:Es.
    + destruct (clone_hdr c s t w) as [[t' w'] s1].
      destruct lf as [l|]; [destruct (clone_leaf c s1 l)|destruct (fresh c s1)]; simpl; repeat split; auto; discriminate.
    + destruct (clone_hdr c s t w) as [[t' w'] s1] eqn:Ec.
      specialize (IH s1 b (b :: rest) Hc).
      destruct (modify_ch c md fullKey v s1 ch b (b :: rest)) as [[ch' r]|].
      * destruct IH as [S L]. simpl. rewrite L. auto.
      * assert (Sn : forall lw, shape_ch (ch_insert b (Leaf (b :: rest) (mkLeaf fullKey v lw)) ch))
          by (intros; apply shape_ch_insert; simpl; auto).
        destruct (N.ltb_spec kd (ch_len ch + 1)) as [Hlt|Hge].
        -- destruct (fresh_if w (record w s)) as [w2 s2]. destruct (fresh c s2) as [lw s3]. simpl.
           rewrite ch_len_insert. repeat split; auto; [|intros H; specialize (Hl H); lia].
           unfold kind_ok in *.
           destruct Hk as [[-> H]|[[-> H]|[[-> H]|[-> H]]]];
             [change (promote_kind 4) with 16|change (promote_kind 16) with 48
             |change (promote_kind 48) with 256|change (promote_kind 256) with 256]; lia.
        -- destruct (fresh c s1) as [lw s3]. simpl. rewrite ch_len_insert.
           repeat split; auto; [|intros H; specialize (Hl H); lia].
           unfold kind_ok in *. destruct Hk as [[-> H]|[[-> H]|[[-> H]|[-> H]]]]; lia.
    + destruct (clone_hdr c s t w) as [[t' w'] s']. apply split_shape; [simpl; auto|]. right. exact Es.
  - intros; exact I.
  - intros b' x IHx r IHr s b key [Hx Hr]. cbn [modify_ch]; fold (modify_node c md fullKey v); fold (modify_ch c md fullKey v).
    destruct (b' =? b).
    + simpl. repeat split; auto.
    + specialize (IHr s b key Hr). destruct (modify_ch c md fullKey v s r b key) as [[r' res]|]; simpl in *; auto.
      destruct IHr as [S L]. repeat split; auto. cbn [ch_len]. now rewrite L.
Qed.
End ShapeMod.

Lemma ch_other_some acc b : forall ch y, wfk_ch acc ch -> ch_len ch = 2 -> ch_find b ch = Some y -> ch_other b ch <> None.
Proof.
  intros ch y Hw Hl Hf. destruct ch as [|b1 x1 [|b2 x2 [|b3 x3 r]]]; cbn [ch_len] in Hl; try lia.
  simpl in *. destruct Hw as (_ & _ & [Hlt _] & _).
  destruct (N.eqb_spec b1 b) as [->|N1]; [|discriminate].
  destruct (N.eqb_spec b2 b) as [->|N2]; [lia|discriminate].
Qed.

Section ShapeDel.
Variable c : ctx.

Lemma remove_child_shape acc s kd t p w lf ch b y :
  wfk_ch acc ch -> kind_ok kd (ch_len ch) -> (lf = None -> 2 <= ch_len ch) -> shape_ch ch ->
  ch_find b ch = Some y -> shape (fst (fst (remove_child c s kd t p w lf ch b))).
Proof.
  intros Hw Hk Hl Hs Hf. unfold remove_child.
  pose proof (ch_len_remove b ch y Hf) as Lr. pose proof (shape_ch_remove b ch Hs) as Sr.
  assert (Generic : (lf = None -> 3 <= ch_len ch) ->
    shape (fst (fst (
      if ((kd =? 256) && (ch_len ch <=? 49)) || ((kd =? 48) && (ch_len ch <=? 17)) || ((kd =? 16) && (ch_len ch <=? 5))
      then let '(w', s1) := fresh_if w s in
           (Inner (if kd =? 256 then 48 else if kd =? 48 then 16 else 4) (c_tid c) p w' lf (ch_remove b ch), record w s1, false)
      else let '(t', w', s1) := clone_hdr c s t w in (Inner kd t' p w' lf (ch_remove b ch), s1, t =? c_tid c))))).
  { intros H3.
    destruct (_ || _) eqn:Ec.
    - destruct (fresh_if w s) as [w' s1]. cbn [fst shape]. repeat split; auto; [|intros H; specialize (H3 H); lia].
      rewrite !orb_true_iff, !andb_true_iff, !N.eqb_eq, !N.leb_le in Ec. unfold kind_ok in *.
      destruct Ec as [[[-> E]|[-> E]]|[-> E]]; cbn [N.eqb Pos.eqb]; lia.
    - destruct (clone_hdr c s t w) as [[t' w'] s1]. cbn [fst shape]. repeat split; auto; [|intros H; specialize (H3 H); lia].
      rewrite !orb_false_iff, !andb_false_iff, !N.eqb_neq, !N.leb_gt in Ec. unfold kind_ok in *. lia. }
  destruct (ch_len ch =? 2) eqn:E2; [destruct lf as [l|]; [|destruct (ch_other b ch) as [x|] eqn:Eo]|].
  - apply Generic. discriminate.
  - cbn [fst]. apply shape_set_prefix. exact (shape_ch_other b ch x Hs Eo).
  - exfalso. apply N.eqb_eq in E2. eapply ch_other_some; eauto.
  - apply Generic. intros H. specialize (Hl H). apply N.eqb_neq in E2. lia.
Qed.

Definition dres_shape (r : dres) : Prop := match r with DSome _ (Some n') _ _ => shape n' | _ => True end.

Theorem delete_shape :
  (forall n acc s key, wfk acc n -> shape n -> dres_shape (del_node c s n key)) /\
  (forall ch acc s b key, wfk_ch acc ch -> shape_ch ch -> dres_shape (del_ch c s ch b key)).
Proof.
  apply node_children_ind.
  - intros p l acc s key _ _. cbn [del_node]. destruct (bytes_eqb key p); exact I.
  - intros kd t p w lf ch IH acc s key [Hl Hc] (Hk & Hn & Hs). cbn [del_node]; fold (del_ch c).
    destruct (strip p key) as [[|b rest]|]; [| |exact I].
    + destruct lf as [l|]; [|exact I].
      destruct ch as [|b1 x1 [|b2 x2 r]]; [exact I| |].
      * cbn [dres_shape]. apply shape_set_prefix. simpl in Hs. tauto.
      * destruct (clone_hdr c (record (lf_w l) s) t w) as [[t' w'] s2]. cbn [dres_shape shape].
        repeat split; auto; try (simpl in Hs; tauto). intros _. cbn [ch_len]. lia.
    + specialize (IH (acc ++ p) s b (b :: rest) Hc Hs). pose proof (del_ch_find c s b (b :: rest) ch) as Df.
      destruct (del_ch c s ch b (b :: rest)) as [|old [x|] s1 ip]; [exact I| |].
      * cbn [dres_shape] in IH.
        assert (G : forall t' w', shape (Inner kd t' p w' lf (ch_set b x ch))).
        { intros. cbn [shape]. rewrite ch_len_set. repeat split; auto. now apply shape_ch_set. }
        destruct ip; [apply G|]. destruct (clone_hdr c s1 t w) as [[t' w'] s2]. apply G.
      * destruct (ch_find b ch) as [y|] eqn:Ef; [|discriminate].
        pose proof (remove_child_shape (acc ++ p) s1 kd t p w lf ch b y Hc Hk Hn Hs Ef) as R.
        destruct (remove_child c s1 kd t p w lf ch b) as [[n' s2] ip']. exact R.
  - intros; exact I.
  - intros b' x IHx r IHr acc s b key (_ & Hx & _ & Hr) [Sx Sr]. cbn [del_ch]; fold (del_node c); fold (del_ch c).
    destruct (b' =? b); eauto.
Qed.
End ShapeDel.

(* transaction level *)
Definition shape_root (r : option node) : Prop := match r with None => True | Some n => shape n end.

Theorem txn_shape_preserved x md key v :
  match t_root x with None => True | Some n => wfk [] n end -> shape_root (t_root x) ->
  shape_root (t_root (fst (fst (fst (txn_modify x md key v))))) /\ shape_root (t_root (fst (txn_delete x key))).
Proof.
  intros Hw Hs. unfold txn_modify, txn_delete. destruct (t_root x) as [n|] eqn:Er; simpl in *.
  - split; [apply (proj1 (modify_shape (txn_ctx x) md key v)); auto|].
    pose proof (proj1 (delete_shape (txn_ctx x)) n [] (t_st x) key Hw Hs) as D.
    destruct (del_node (txn_ctx x) (t_st x) n key) as [|old [n'|] s ip]; simpl; rewrite ?Er; auto.
  - destruct (fresh (txn_ctx x) (t_st x)). simpl. rewrite Er. simpl. auto.
Qed.
