(* KeyEnc/NetIP.v — the IP-prefix key encoders: index/netip.go NetIPPrefix (17-byte key: the 16-byte form of the
   masked address followed by the prefix length) and lpm/key.go NetIPPrefixToIndexKey (EncodeLPMKey of the
   16-byte form; IPv4 prefix lengths shifted by 96). An address is given as its 4 or 16 bytes; is4 says which. *)
From SV Require Import Base.Bytes KeyEnc.Model.
From Coq Require Import ZArith Lia ZifyN ZifyBool.
Open Scope N_scope.

(* netip.Addr.As16: IPv4 a.b.c.d -> ::ffff:a.b.c.d *)
Definition as16 (is4 : bool) (addr : bytes) : bytes :=
  if is4 then repeat 0 10 ++ [255; 255] ++ addr else addr.

(* netip.Prefix.Masked: the bits beyond `bits` are cleared, within the address's own width *)
Fixpoint mask_bytes (d : bytes) (bits : N) : bytes :=
  match d with
  | [] => []
  | b :: r => (if 8 <=? bits then b else if bits =? 0 then 0 else mask_last b bits) :: mask_bytes r (bits - 8)
  end.

(* index.NetIPPrefix *)
Definition netip_prefix_key (is4 : bool) (addr : bytes) (bits : N) : bytes :=
  as16 is4 (mask_bytes addr bits) ++ [bits].

(* lpm.NetIPPrefixToIndexKey *)
Definition netip_prefix_lpm_key (is4 : bool) (addr : bytes) (bits : N) : option bytes :=
  lpmEncode (as16 is4 addr) (if is4 then bits + 96 else bits).

Lemma mask_bytes_length (d : bytes) : forall bits, length (mask_bytes d bits) = length d.
Proof. induction d as [|b r IH]; intro bits; cbn [mask_bytes length]; [reflexivity|]. rewrite IH. reflexivity. Qed.

Lemma as16_length (is4 : bool) (addr : bytes) : length addr = (if is4 then 4 else 16)%nat -> length (as16 is4 addr) = 16%nat.
Proof. destruct is4; cbn [as16]; intro H; [|exact H]. rewrite !app_length, repeat_length, H. reflexivity. Qed.

(* the index key has constant size 17 *)
Theorem netip_prefix_key_length (is4 : bool) (addr : bytes) (bits : N) : length addr = (if is4 then 4 else 16)%nat ->
  length (netip_prefix_key is4 addr bits) = 17%nat.
Proof.
  intro H. unfold netip_prefix_key. rewrite app_length, as16_length; [reflexivity|]. rewrite mask_bytes_length. exact H.
Qed.

Lemma as16_inj (is4 : bool) (a b : bytes) : as16 is4 a = as16 is4 b -> a = b.
Proof.
  destruct is4; cbn [as16]; intro H; [|exact H].
  apply app_inv_head in H. apply (app_inv_head [255; 255]) in H. exact H.
Qed.

(* equal keys <-> equal masked prefixes (same family): different values give different keys *)
Theorem netip_prefix_key_inj (is4 : bool) (a1 : bytes) (b1 : N) (a2 : bytes) (b2 : N) :
  netip_prefix_key is4 a1 b1 = netip_prefix_key is4 a2 b2 <-> (mask_bytes a1 b1 = mask_bytes a2 b2 /\ b1 = b2).
Proof.
  unfold netip_prefix_key. split.
  - intro H. apply app_inj_tail in H. destruct H as [H1 H2]. split; [exact (as16_inj _ _ _ H1)|exact H2].
  - intros [H1 H2]. rewrite H1, H2. reflexivity.
Qed.

(* keys of the two families never coincide (prefix lengths valid for the family): bytes 10-11 of an IPv4 key are
   ff ff, those of an IPv6 key whose prefix length is at most 32 are zero *)
Lemma mask_bytes_zero_beyond (d : bytes) : forall bits i, bits <= 8 * N.of_nat i -> (i < length d)%nat -> nth i (mask_bytes d bits) 0 = 0.
Proof.
  induction d as [|b r IH]; intros bits i Hb Hi; cbn [length] in Hi; [lia|].
  cbn [mask_bytes]. destruct i as [|i]; cbn [nth].
  - assert (bits = 0) by lia. subst bits. reflexivity.
  - apply IH; lia.
Qed.

Theorem netip_prefix_key_families_disjoint (a4 : bytes) (b4 : N) (a6 : bytes) (b6 : N) : length a4 = 4%nat -> length a6 = 16%nat -> b4 <= 32 -> b6 <= 128 ->
  netip_prefix_key true a4 b4 <> netip_prefix_key false a6 b6.
Proof.
  intros L4 L6 B4 B6 H. unfold netip_prefix_key in H. apply app_inj_tail in H. destruct H as [H1 H2]. subst b6.
  cbn [as16] in H1.
  assert (E : nth 10 (repeat 0 10 ++ [255; 255] ++ mask_bytes a4 b4) 0 = nth 10 (mask_bytes a6 b4) 0) by (rewrite H1; reflexivity).
  rewrite (mask_bytes_zero_beyond a6 b4 10) in E; [|lia|lia]. cbn in E. discriminate.
Qed.

(* masking is idempotent: a key is the key of its own masked prefix (equal values give equal keys) *)
Lemma mask_last_idem (b r : N) : mask_last (mask_last b r) r = mask_last b r.
Proof. unfold mask_last. rewrite N.div_mul; [reflexivity|]. apply N.pow_nonzero. lia. Qed.

Theorem mask_bytes_idem (d : bytes) : forall bits, mask_bytes (mask_bytes d bits) bits = mask_bytes d bits.
Proof.
  induction d as [|b r IH]; intro bits; cbn [mask_bytes]; [reflexivity|]. rewrite IH. f_equal.
  destruct (8 <=? bits); [reflexivity|]. destruct (bits =? 0); [reflexivity|]. apply mask_last_idem.
Qed.

Theorem netip_prefix_key_canonical (is4 : bool) (addr : bytes) (bits : N) :
  netip_prefix_key is4 (mask_bytes addr bits) bits = netip_prefix_key is4 addr bits.
Proof. unfold netip_prefix_key. rewrite mask_bytes_idem. reflexivity. Qed.

Example netip_examples :
  netip_prefix_key true [10; 1; 2; 3] 9 = [0;0;0;0;0;0;0;0;0;0;255;255;10;0;0;0;9] /\
  netip_prefix_key true [10; 129; 2; 3] 9 = [0;0;0;0;0;0;0;0;0;0;255;255;10;128;0;0;9] /\
  netip_prefix_lpm_key true [10; 1; 2; 3] 8 = Some [0;0;0;0;0;0;0;0;0;0;255;255;10;0;104] /\
  netip_prefix_lpm_key false [0;0;0;0;0;0;0;0;0;0;255;255;10;1;2;3] 24 = Some [0;0;0;0;24].
Proof. vm_compute. repeat split. Qed.
