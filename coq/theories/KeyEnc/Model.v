(* KeyEnc/Model.v — executable model of statedb's index-key encodings (L0).
   Go counterparts are named next to each definition. No proofs here. *)
From SV Require Export Base.Bytes.
From Coq Require Import ZArith.
Open Scope N_scope.

(* part_index.go appendEncode: 0x00 -> 01 01, 0x01 -> 01 02 *)
Fixpoint enc (s : bytes) : bytes :=
  match s with
  | [] => []
  | b :: r => if b =? 0 then 1 :: 1 :: enc r
              else if b =? 1 then 1 :: 2 :: enc r
              else b :: enc r
  end.

(* part_index.go encodedLength *)
Fixpoint encodedLength (s : bytes) : N :=
  match s with
  | [] => 0
  | b :: r => (if (b =? 0) || (b =? 1) then 2 else 1) + encodedLength r
  end.

Definition len (s : bytes) : N := N.of_nat (length s).

(* binary.BigEndian.AppendUint16/32/64 of an already-truncated value *)
Definition be16 (n : N) : bytes := [n / 256 mod 256; n mod 256].
Definition be32 (n : N) : bytes := [n / 16777216 mod 256; n / 65536 mod 256; n / 256 mod 256; n mod 256].
Definition be64 (n : N) : bytes := be32 (n / 4294967296 mod 4294967296) ++ be32 (n mod 4294967296).

(* part_index.go encodeNonUniqueKey(primary, secondary); uint16(primaryLen) truncation explicit *)
Definition nuk (p s : bytes) : bytes :=
  enc s ++ [0] ++ enc p ++ be16 (len (enc p) mod 65536).

(* Go slice k[lo:hi]; None = the index-out-of-range panic *)
Definition slice (k : bytes) (lo hi : Z) : option bytes :=
  if ((0 <=? lo) && (lo <=? hi) && (hi <=? Z.of_nat (length k)))%Z
  then Some (firstn (Z.to_nat (hi - lo)) (skipn (Z.to_nat lo) k)) else None.

(* nonUniqueKey.primaryLen *)
Definition primaryLen (k : bytes) : Z :=
  if (length k <=? 3)%nat then 0%Z
  else match skipn (length k - 2) k with
       | [h; l] => Z.of_N (h * 256 + l)
       | _ => 0%Z
       end.

(* nonUniqueKey.secondaryLen  (a Go int: may be negative on malformed keys) *)
Definition secondaryLen (k : bytes) : Z := (Z.of_nat (length k) - primaryLen k - 3)%Z.

(* nonUniqueKey.encodedPrimary / encodedSecondary *)
Definition encodedPrimary (k : bytes) : option bytes :=
  slice k (Z.of_nat (length k) - 2 - primaryLen k) (Z.of_nat (length k) - 2).
Definition encodedSecondary (k : bytes) : option bytes := slice k 0 (secondaryLen k).

(* inverse of enc (not in the code; witnesses that the parts can be recovered) *)
Fixpoint dec (s : bytes) : bytes :=
  match s with
  | [] => []
  | b :: r => if b =? 1 then
                match r with
                | c :: r' => (if c =? 1 then 0 else 1) :: dec r'
                | [] => []
                end
              else b :: dec r
  end.

(* index/int.go: Uint16/32/64 and the signed variants (uintW(n) conversion = mod 2^W) *)
Definition uint16_key (n : N) : bytes := be16 n.
Definition uint32_key (n : N) : bytes := be32 n.
Definition uint64_key (n : N) : bytes := be64 n.
Definition int16_key (z : Z) : bytes := be16 (Z.to_N (z mod 65536)).
Definition int32_key (z : Z) : bytes := be32 (Z.to_N (z mod 4294967296)).
Definition int64_key (z : Z) : bytes := be64 (Z.to_N (z mod 18446744073709551616)).
(* index/bool.go *)
Definition bool_key (b : bool) : bytes := if b then [84] else [70].
(* index/string.go String: the bytes themselves *)
Definition string_key (s : bytes) : bytes := s.

(* lpm/key.go EncodeLPMKey(data, prefixLen); PrefixLen is uint16 so (prefixLen+7) wraps.
   None = the "data too short" panic. *)
Definition lpm_dataLen (plen : N) : N := ((plen + 7) mod 65536) / 8.
Definition mask_last (b rem : N) : N := (* b & (0xff << (8-rem)) on a byte *)
  (b / 2 ^ (8 - rem)) * 2 ^ (8 - rem).
Fixpoint mask_data (d : bytes) (dataLen : nat) (rem : N) : bytes :=
  match dataLen, d with
  | O, _ => []
  | S O, b :: _ => [if rem =? 0 then b else mask_last b rem]
  | S n, b :: r => b :: mask_data r n rem
  | S _, [] => []
  end.
Definition lpmEncode (data : bytes) (plen : N) : option bytes :=
  let dl := lpm_dataLen plen in
  if len data <? dl then None
  else Some (mask_data data (N.to_nat dl) (plen mod 8) ++ be16 plen).

(* lpm/key.go DecodeLPMKey; None = panic *)
Definition lpmDecode (k : bytes) : option (bytes * N) :=
  if (length k <? 2)%nat then None
  else let data := firstn (length k - 2) k in
       match skipn (length k - 2) k with
       | [h; l] => let plen := h * 256 + l in
                   if len data <? lpm_dataLen plen then None else Some (data, plen)
       | _ => None
       end.
