(* KeyEnc/Refuted.v — the guards of nuk_order / nuk_split are necessary: witnesses
   (known findings K1, K2; reproduced on the implementation by the keyenc engine). *)
From SV Require Import Base.Bytes KeyEnc.Model KeyEnc.Proofs.
From Coq Require Import ZArith ZifyN ZifyNat ZifyBool.
Open Scope N_scope.
Ltac Zify.zify_post_hook ::= Z.div_mod_to_equations.

(* K1: escaped primary length >= 256: the composite order is inverted *)
Theorem nuk_order_refuted : exists p1 p2 s,
  lex_lt p1 p2 /\ lex_lt (nuk p2 s) (nuk p1 s).
Proof.
  exists (repeat 97 512), (repeat 97 512 ++ [0]), [5].
  split; apply bytes_ltb_spec; vm_compute; reflexivity.
Qed.

(* K2: escaped primary length = 65536: the uint16 length suffix wraps to 0 and the
   accessors no longer separate the parts *)
Theorem nuk_split_refuted p s : len (enc p) = 65536 ->
  primaryLen (nuk p s) = 0%Z /\ secondaryLen (nuk p s) <> Z.of_nat (length (enc s)).
Proof.
  intros H. assert (Hp : primaryLen (nuk p s) = 0%Z).
  { unfold primaryLen. rewrite nuk_length.
    destruct (Nat.leb_spec (length (enc s) + length (enc p) + 3) 3) as [Hle|Hgt]; [reflexivity|].
    replace (length (enc s) + length (enc p) + 3 - 2)%nat with (length (enc s ++ [0] ++ enc p)).
    2:{ rewrite !app_length; simpl; lia. }
    rewrite nuk_assoc, skipn_app_exact, H. reflexivity. }
  split; [exact Hp|]. unfold secondaryLen. rewrite Hp, nuk_length. unfold len in H. lia.
Qed.
