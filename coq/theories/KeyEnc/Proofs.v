(* KeyEnc/Proofs.v — proofs about the key-encoding model. *)
From SV Require Import Base.Bytes KeyEnc.Model.
From Coq Require Import ZArith ZifyN ZifyNat ZifyBool.
Open Scope N_scope.
Ltac Zify.zify_post_hook ::= Z.div_mod_to_equations.

(* ---------- enc ---------- *)
Lemma enc_no_zero s : ~ In 0 (enc s).
Proof.
  induction s as [|b r IH]; simpl; [tauto|].
  destruct (N.eqb_spec b 0); [simpl; intuition lia|].
  destruct (N.eqb_spec b 1); simpl; intuition lia.
Qed.

Lemma enc_ge1 s : Forall (fun b => 1 <= b) (enc s).
Proof.
  induction s as [|b r IH]; simpl; [constructor|].
  destruct (N.eqb_spec b 0); [repeat constructor; auto; lia|].
  destruct (N.eqb_spec b 1); repeat constructor; auto; lia.
Qed.

Lemma enc_bytes s : is_bytes s -> is_bytes (enc s).
Proof.
  unfold is_bytes, is_byte. induction 1 as [|b r Hb _ IH]; simpl; [constructor|].
  destruct (N.eqb_spec b 0); [repeat constructor; auto; lia|].
  destruct (N.eqb_spec b 1); repeat constructor; auto; lia.
Qed.

Lemma enc_mono a : forall b, lex_lt a b -> lex_lt (enc a) (enc b).
Proof.
  induction a as [|x xs IH]; intros b H; inversion H; subst; simpl.
  - destruct (N.eqb_spec y 0); [constructor|]. destruct (N.eqb_spec y 1); constructor.
  - destruct (N.eqb_spec x 0), (N.eqb_spec y 0), (N.eqb_spec x 1), (N.eqb_spec y 1); subst; try lia;
      try (apply lex_hd; lia); try (apply lex_tl; apply lex_hd; lia).
  - destruct (N.eqb_spec x 0); [do 2 apply lex_tl; auto|].
    destruct (N.eqb_spec x 1); [do 2 apply lex_tl; auto|]. apply lex_tl; auto.
Qed.

Lemma enc_inj a : forall b, enc a = enc b -> a = b.
Proof.
  induction a as [|x xs IH]; intros [|y ys]; simpl; intros H; auto.
  - destruct (N.eqb_spec y 0); [discriminate|]. destruct (N.eqb_spec y 1); discriminate.
  - destruct (N.eqb_spec x 0); [discriminate|]. destruct (N.eqb_spec x 1); discriminate.
  - destruct (N.eqb_spec x 0), (N.eqb_spec y 0), (N.eqb_spec x 1), (N.eqb_spec y 1); subst;
      try lia; injection H; intros; subst; try lia; f_equal; auto.
Qed.

Lemma enc_mono_iff a b : lex_lt a b <-> lex_lt (enc a) (enc b).
Proof.
  split; [apply enc_mono|]. intros H.
  destruct (lex_lt_total a b) as [Hl|[->|Hg]]; auto.
  - exfalso; exact (lex_lt_irrefl _ H).
  - exfalso; exact (lex_lt_asym _ _ H (enc_mono _ _ Hg)).
Qed.

Lemma dec_enc s : dec (enc s) = s.
Proof.
  induction s as [|b r IH]; simpl; auto.
  destruct (N.eqb_spec b 0) as [->|]; [simpl; now rewrite IH|].
  destruct (N.eqb_spec b 1) as [->|]; [simpl; now rewrite IH|].
  simpl. destruct (N.eqb_spec b 1); [lia|]. now rewrite IH.
Qed.

Lemma encodedLength_enc s : encodedLength s = len (enc s).
Proof.
  unfold len. induction s as [|b r IH]; [reflexivity|].
  cbn [encodedLength enc]. rewrite IH.
  destruct (N.eqb_spec b 0), (N.eqb_spec b 1); cbn [orb length]; lia.
Qed.

(* enc a ++ 0 :: x = enc b ++ 0 :: y  splits at the separator *)
Lemma sep_split a : forall b x y, ~ In 0 a -> ~ In 0 b -> a ++ 0 :: x = b ++ 0 :: y -> a = b /\ x = y.
Proof.
  induction a as [|c a IH]; intros [|d b] x y Ha Hb H; simpl in *.
  - injection H; auto.
  - injection H as <- _. tauto.
  - injection H as -> _. tauto.
  - injection H as -> H. destruct (IH b x y) as [-> ->]; auto.
Qed.

Lemma app_inj_tail2 (a b : bytes) x y : length x = length y -> a ++ x = b ++ y -> a = b /\ x = y.
Proof.
  intros Hl H. assert (length a = length b).
  { apply (f_equal (@length N)) in H. rewrite !app_length in H. lia. }
  revert b H H0. induction a as [|c a IH]; intros [|d b] H Hab; simpl in *; try discriminate; auto.
  injection H as -> H. destruct (IH b H) as [-> ->]; auto.
Qed.

(* ---------- non-unique composite key ---------- *)
Theorem nuk_inj p1 s1 p2 s2 : nuk p1 s1 = nuk p2 s2 -> p1 = p2 /\ s1 = s2.
Proof.
  unfold nuk. simpl. intros H.
  apply sep_split in H; auto using enc_no_zero. destruct H as [Hs H].
  apply app_inj_tail2 in H; [|reflexivity]. destruct H as [Hp _].
  split; now apply enc_inj.
Qed.

Lemma lex_lt_app_ge1 a : forall b x y, Forall (fun c => 1 <= c) b ->
  lex_lt a b -> lex_lt (a ++ 0 :: x) (b ++ 0 :: y).
Proof.
  intros b x y Hb H. destruct (lex_lt_cases _ _ H) as [[c [r ->]]|Hd].
  - rewrite <- app_assoc. apply lex_lt_app_l. simpl. apply lex_hd.
    apply Forall_app in Hb. destruct Hb as [_ Hb]. inversion Hb; subst. lia.
  - now apply lex_diverge_app.
Qed.

Definition nuk_lt (p1 s1 p2 s2 : bytes) : Prop := lex_lt s1 s2 \/ (s1 = s2 /\ lex_lt p1 p2).

Lemma be16_small n : n < 256 -> be16 n = [0; n].
Proof. intros H. unfold be16. f_equal; [|f_equal]; lia. Qed.

Lemma nuk_order_fwd p1 s1 p2 s2 :
  len (enc p1) < 256 -> nuk_lt p1 s1 p2 s2 -> lex_lt (nuk p1 s1) (nuk p2 s2).
Proof.
  intros Hl [Hs|[-> Hp]]; unfold nuk.
  - apply lex_lt_app_ge1; [apply enc_ge1|now apply enc_mono].
  - apply lex_lt_app_l. simpl. apply lex_tl.
    rewrite (N.mod_small (len (enc p1))) by lia. rewrite be16_small by lia.
    apply enc_mono in Hp. destruct (lex_lt_cases _ _ Hp) as [[c [r Hr]]|Hd].
    + rewrite Hr, <- app_assoc. apply lex_lt_app_l. simpl. apply lex_hd.
      pose proof (enc_ge1 p2) as Hg. rewrite Hr in Hg. apply Forall_app in Hg.
      destruct Hg as [_ Hg]. inversion Hg; subst. lia.
    + now apply lex_diverge_app.
Qed.

Theorem nuk_order p1 s1 p2 s2 :
  len (enc p1) < 256 -> len (enc p2) < 256 ->
  (lex_lt (nuk p1 s1) (nuk p2 s2) <-> nuk_lt p1 s1 p2 s2).
Proof.
  intros H1 H2. split; [|now apply nuk_order_fwd].
  intros H. unfold nuk_lt.
  destruct (lex_lt_total s1 s2) as [Hs|[->|Hs]]; auto.
  - destruct (lex_lt_total p1 p2) as [Hp|[->|Hp]]; auto.
    + exfalso; exact (lex_lt_irrefl _ H).
    + exfalso. apply (lex_lt_asym _ _ H). apply nuk_order_fwd; auto. right; auto.
  - exfalso. apply (lex_lt_asym _ _ H). apply nuk_order_fwd; auto. left; auto.
Qed.

(* separation of the two parts *)
Lemma skipn_app_exact {A} (a b : list A) : skipn (length a) (a ++ b) = b.
Proof. induction a; simpl; auto. Qed.
Lemma firstn_app_exact {A} (a b : list A) : firstn (length a) (a ++ b) = a.
Proof. induction a; simpl; f_equal; auto. Qed.

Lemma be16_decode n : n < 65536 -> (n / 256 mod 256) * 256 + n mod 256 = n.
Proof. lia. Qed.

Lemma nuk_length p s : length (nuk p s) = (length (enc s) + length (enc p) + 3)%nat.
Proof. unfold nuk, be16. rewrite !app_length. cbn [length]. lia. Qed.

Lemma nuk_assoc p s : nuk p s = (enc s ++ [0] ++ enc p) ++ be16 (len (enc p) mod 65536).
Proof. unfold nuk. now rewrite <- !app_assoc. Qed.

Lemma primaryLen_nuk p s : len (enc p) < 65536 -> primaryLen (nuk p s) = Z.of_nat (length (enc p)).
Proof.
  intros H. unfold primaryLen. rewrite nuk_length.
  destruct (Nat.leb_spec (length (enc s) + length (enc p) + 3) 3) as [Hle|Hgt].
  - lia.
  - replace (length (enc s) + length (enc p) + 3 - 2)%nat with (length (enc s ++ [0] ++ enc p)).
    2:{ rewrite !app_length; simpl; lia. }
    rewrite nuk_assoc. rewrite skipn_app_exact. unfold be16.
    unfold len in *. lia.
Qed.

Lemma slice_ok k lo hi : (0 <= lo)%Z -> (lo <= hi)%Z -> (hi <= Z.of_nat (length k))%Z ->
  slice k lo hi = Some (firstn (Z.to_nat (hi - lo)) (skipn (Z.to_nat lo) k)).
Proof.
  intros H1 H2 H3. unfold slice.
  destruct (Z.leb_spec 0 lo), (Z.leb_spec lo hi), (Z.leb_spec hi (Z.of_nat (length k))); try lia. reflexivity.
Qed.

Theorem nuk_split p s : len (enc p) < 65536 ->
  encodedSecondary (nuk p s) = Some (enc s) /\ encodedPrimary (nuk p s) = Some (enc p) /\
  secondaryLen (nuk p s) = Z.of_nat (length (enc s)).
Proof.
  intros H. unfold encodedSecondary, encodedPrimary, secondaryLen.
  rewrite primaryLen_nuk by assumption. rewrite nuk_length.
  repeat split.
  - rewrite slice_ok by (rewrite ?nuk_length; lia). change (Z.to_nat 0) with O. cbn [skipn].
    match goal with |- context [firstn ?n _] => replace n with (length (enc s)) by lia end.
    unfold nuk. now rewrite firstn_app_exact.
  - rewrite slice_ok by (rewrite ?nuk_length; lia).
    match goal with |- context [skipn ?n _] => replace n with (length (enc s ++ [0])) by (rewrite app_length; simpl; lia) end.
    match goal with |- context [firstn ?n _] => replace n with (length (enc p)) by lia end.
    unfold nuk. rewrite (app_assoc (enc s)). rewrite skipn_app_exact. now rewrite firstn_app_exact.
  - lia.
Qed.

(* ---------- fixed-width encoders ---------- *)
Lemma be16_inj a b : a < 65536 -> b < 65536 -> be16 a = be16 b -> a = b.
Proof. unfold be16. intros Ha Hb H. injection H. lia. Qed.

Lemma be32_inj a b : a < 4294967296 -> b < 4294967296 -> be32 a = be32 b -> a = b.
Proof. unfold be32. intros Ha Hb H. injection H. lia. Qed.

Lemma be64_inj a b : a < 18446744073709551616 -> b < 18446744073709551616 -> be64 a = be64 b -> a = b.
Proof.
  unfold be64. intros Ha Hb H. apply app_inj_tail2 in H; [|reflexivity]. destruct H as [H1 H2].
  apply be32_inj in H1; [|lia|lia]. apply be32_inj in H2; [|lia|lia]. lia.
Qed.

Lemma lex2 a b c d : lex_lt [a; b] [c; d] <-> a < c \/ (a = c /\ b < d).
Proof.
  split.
  - inversion 1; subst; auto. match goal with H : lex_lt [_] [_] |- _ => inversion H; subst end; auto.
    match goal with H : lex_lt [] [] |- _ => inversion H end.
  - intros [H|[-> H]]; [now apply lex_hd|apply lex_tl; now apply lex_hd].
Qed.

Lemma be16_mono a b : a < 65536 -> b < 65536 -> (a < b <-> lex_lt (be16 a) (be16 b)).
Proof. intros Ha Hb. unfold be16. rewrite lex2. lia. Qed.

Lemma lex4 a b c d a' b' c' d' : lex_lt [a; b; c; d] [a'; b'; c'; d'] <->
  a < a' \/ (a = a' /\ (b < b' \/ (b = b' /\ (c < c' \/ (c = c' /\ d < d'))))).
Proof.
  split.
  - intros H. inversion H; subst; auto. right; split; auto.
    match goal with H : lex_lt [b; c; d] _ |- _ => inversion H; subst end; auto. right; split; auto.
    match goal with H : lex_lt [c; d] _ |- _ => apply lex2 in H end. tauto.
  - intros [H|[-> [H|[-> H]]]]; [now apply lex_hd|apply lex_tl; now apply lex_hd|].
    do 2 apply lex_tl. apply lex2. tauto.
Qed.

Lemma be32_mono a b : a < 4294967296 -> b < 4294967296 -> (a < b <-> lex_lt (be32 a) (be32 b)).
Proof. intros Ha Hb. unfold be32. rewrite lex4. lia. Qed.

Lemma lex_lt_app_same_len x : forall y a b, length x = length y ->
  (lex_lt (x ++ a) (y ++ b) <-> lex_lt x y \/ (x = y /\ lex_lt a b)).
Proof.
  induction x as [|c x IH]; intros [|d y] a b Hl; simpl in *; try discriminate.
  - split; [auto|]. intros [H|[_ H]]; auto. inversion H.
  - injection Hl as Hl. split.
    + inversion 1; subst; [left; now apply lex_hd|].
      match goal with H : lex_lt (x ++ a) _ |- _ => apply IH in H; auto;
        destruct H as [H1|[-> H1]]; [left; now apply lex_tl|right; auto] end.
    + intros [H|[H1 H2]].
      * inversion H; subst; [now apply lex_hd|apply lex_tl; apply IH; auto].
      * injection H1 as -> ->. apply lex_tl. apply IH; auto.
Qed.

Lemma be64_mono a b : a < 18446744073709551616 -> b < 18446744073709551616 ->
  (a < b <-> lex_lt (be64 a) (be64 b)).
Proof.
  intros Ha Hb. unfold be64. rewrite lex_lt_app_same_len by reflexivity.
  rewrite <- !be32_mono by lia. split.
  - intros H. destruct (N.lt_trichotomy (a / 4294967296 mod 4294967296) (b / 4294967296 mod 4294967296)) as [Hl|[He|Hg]];
      [auto|right; split; [now rewrite He|lia]|lia].
  - intros [H|[H1 H2]]; [lia|]. apply be32_inj in H1; lia.
Qed.

Theorem uint_keys_inj_mono :
  (forall a b, a < 65536 -> b < 65536 -> (uint16_key a = uint16_key b -> a = b) /\ (a < b <-> lex_lt (uint16_key a) (uint16_key b))) /\
  (forall a b, a < 4294967296 -> b < 4294967296 -> (uint32_key a = uint32_key b -> a = b) /\ (a < b <-> lex_lt (uint32_key a) (uint32_key b))) /\
  (forall a b, a < 18446744073709551616 -> b < 18446744073709551616 -> (uint64_key a = uint64_key b -> a = b) /\ (a < b <-> lex_lt (uint64_key a) (uint64_key b))).
Proof.
  unfold uint16_key, uint32_key, uint64_key.
  split; [|split]; intros a b Ha Hb; (split; [intros H|]).
  - now apply be16_inj.
  - now apply be16_mono.
  - now apply be32_inj.
  - now apply be32_mono.
  - now apply be64_inj.
  - now apply be64_mono.
Qed.

Open Scope Z_scope.
Theorem int_keys_inj :
  (forall a b, -32768 <= a < 32768 -> -32768 <= b < 32768 -> int16_key a = int16_key b -> a = b) /\
  (forall a b, -2147483648 <= a < 2147483648 -> -2147483648 <= b < 2147483648 -> int32_key a = int32_key b -> a = b) /\
  (forall a b, -9223372036854775808 <= a < 9223372036854775808 -> -9223372036854775808 <= b < 9223372036854775808 -> int64_key a = int64_key b -> a = b).
Proof.
  repeat split; intros a b Ha Hb H.
  - apply be16_inj in H; lia.
  - apply be32_inj in H; lia.
  - apply be64_inj in H; lia.
Qed.
Close Scope Z_scope.

Theorem bool_string_keys :
  (forall a b, bool_key a = bool_key b -> a = b) /\
  (forall a b, string_key a = string_key b -> a = b) /\
  (forall a b, lex_lt a b <-> lex_lt (string_key a) (string_key b)).
Proof. repeat split; auto. intros [|] [|]; simpl; congruence. Qed.

(* ---------- LPM keys ---------- *)
(* the data masked to plen bits, truncated to ceil(plen/8) bytes *)
Definition lpm_masked (data : bytes) (plen : N) : bytes :=
  mask_data data (N.to_nat ((plen + 7) / 8)) (plen mod 8).

Lemma mask_data_length d : forall n r, (n <= length d)%nat -> length (mask_data d n r) = n.
Proof.
  induction d as [|b d IH]; intros [|n] r H; simpl in *; auto; try lia.
  destruct n; simpl; auto. rewrite IH; simpl; auto; lia.
Qed.

Theorem lpm_roundtrip data plen : plen + 7 < 65536 -> (plen + 7) / 8 <= len data ->
  exists k, lpmEncode data plen = Some k /\ lpmDecode k = Some (lpm_masked data plen, plen).
Proof.
  intros Hp Hd. unfold lpmEncode, lpm_dataLen. rewrite N.mod_small by lia.
  destruct (N.ltb_spec (len data) ((plen + 7) / 8)); [lia|].
  eexists; split; [reflexivity|]. unfold lpmDecode.
  set (m := mask_data data _ _).
  assert (Hm : length m = N.to_nat ((plen + 7) / 8)) by (apply mask_data_length; unfold len in *; lia).
  rewrite app_length. simpl length.
  destruct (Nat.ltb_spec (length m + 2) 2); [lia|].
  replace (length m + 2 - 2)%nat with (length m) by lia.
  rewrite firstn_app_exact, skipn_app_exact. unfold be16.
  rewrite be16_decode by lia. unfold lpm_dataLen. rewrite N.mod_small by lia.
  unfold len. rewrite Hm. destruct (N.ltb_spec (N.of_nat (N.to_nat ((plen + 7) / 8))) ((plen + 7) / 8)); [lia|].
  reflexivity.
Qed.

(* masking really clears the bits below the prefix length and keeps those above *)
Lemma mask_last_spec b rem : 0 < rem < 8 -> b < 256 ->
  mask_last b rem mod 2 ^ (8 - rem) = 0 /\ mask_last b rem / 2 ^ (8 - rem) = b / 2 ^ (8 - rem).
Proof.
  intros Hr Hb. unfold mask_last.
  assert (2 ^ (8 - rem) <> 0) by (apply N.pow_nonzero; lia).
  split; [apply N.mod_mul; auto|apply N.div_mul; auto].
Qed.
