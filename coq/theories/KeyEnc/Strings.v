(* KeyEnc/Strings.v — the query-string variants of the integer encoders (index/int.go Uint16String ... Int64String,
   IntString: strconv.ParseUint / ParseInt with base 10 and the given bit size, then the fixed-width encoder),
   index/netip.go NetIP (net.IP in its 4- or 16-byte form -> the 16-byte form) and lpm/key.go
   NetIPPrefix4ToIndexKey (EncodeLPMKey of the 4 address bytes). Model and proofs (small). *)
From SV Require Import Base.Bytes KeyEnc.Model KeyEnc.NetIP KeyEnc.Proofs.
From Coq Require Import ZArith Lia ZifyN ZifyBool.
Open Scope N_scope.

(* strconv: base 10 given explicitly: only the digits '0'..'9' (no underscores, no base prefix); Horner evaluation.
   The real code stops with ErrRange at the first overflow of the bit size; on unbounded N the comparison is made
   at the end - the same set of accepted strings and the same values *)
Fixpoint digits_val (s : bytes) (acc : N) : option N :=
  match s with
  | [] => Some acc
  | c :: r => if (48 <=? c) && (c <=? 57) then digits_val r (acc * 10 + (c - 48)) else None
  end.

(* strconv.ParseUint(s, 10, bits): non-empty, no sign *)
Definition parse_uint (s : bytes) (bits : N) : option N :=
  match s with
  | [] => None
  | _ => match digits_val s 0 with
         | Some v => if v <? 2 ^ bits then Some v else None
         | None => None
         end
  end.

(* strconv.ParseInt(s, 10, bits): optional '+' or '-', then as above; range [-2^(bits-1), 2^(bits-1)-1] *)
Definition parse_int (s : bytes) (bits : N) : option Z :=
  match s with
  | [] => None
  | c :: r =>
    let neg := c =? 45 in
    let ds := if (c =? 45) || (c =? 43) then r else s in
    match ds with
    | [] => None
    | _ => match digits_val ds 0 with
           | Some v => if neg then (if v <=? 2 ^ (bits - 1) then Some (- Z.of_N v)%Z else None)
                       else (if v <? 2 ^ (bits - 1) then Some (Z.of_N v) else None)
           | None => None
           end
    end
  end.

(* index/int.go *)
Definition uint16_string_key (s : bytes) : option bytes := option_map uint16_key (parse_uint s 16).
Definition uint32_string_key (s : bytes) : option bytes := option_map uint32_key (parse_uint s 32).
Definition uint64_string_key (s : bytes) : option bytes := option_map uint64_key (parse_uint s 64).
Definition int16_string_key (s : bytes) : option bytes := option_map int16_key (parse_int s 16).
Definition int32_string_key (s : bytes) : option bytes := option_map int32_key (parse_int s 32).   (* also IntString *)
Definition int64_string_key (s : bytes) : option bytes := option_map int64_key (parse_int s 64).

(* index/netip.go NetIP: bytes.Clone(ip.To16()); To16 of a 4-byte slice is the IPv4-mapped form, of a 16-byte
   slice the slice itself, nil otherwise *)
Definition netip_key (ip : bytes) : bytes :=
  if (N.of_nat (length ip) =? 4) then as16 true ip else if (N.of_nat (length ip) =? 16) then ip else [].

(* lpm/key.go NetIPPrefix4ToIndexKey: EncodeLPMKey(addr.As4(), bits) *)
Definition netip_prefix4_lpm_key (addr : bytes) (bits : N) : option bytes := lpmEncode addr bits.

(* ------------------------------------------------------------------ proofs *)
Lemma digits_val_acc s : forall a v, digits_val s a = Some v -> a <= v.
Proof.
  induction s as [|c r IH]; intros a v H; cbn [digits_val] in H; [inversion H; lia|].
  destruct ((48 <=? c) && (c <=? 57)) eqn:E; [|discriminate]. apply IH in H. lia.
Qed.

(* leading zeros do not matter: "010" is ten, not eight *)
Lemma parse_uint_leading_zero r bits : r <> [] -> parse_uint (48 :: r) bits = parse_uint r bits.
Proof.
  intros Hr. unfold parse_uint. cbn [digits_val]. replace ((48 <=? 48) && (48 <=? 57)) with true by reflexivity.
  replace (0 * 10 + (48 - 48)) with 0 by reflexivity. destruct r; [contradiction|reflexivity].
Qed.

Lemma parse_uint_range s bits v : parse_uint s bits = Some v -> v < 2 ^ bits.
Proof.
  unfold parse_uint. destruct s; [discriminate|]. destruct (digits_val (n :: s) 0) as [w|]; [|discriminate].
  destruct (w <? 2 ^ bits) eqn:E; [|discriminate]. intros H; inversion H; subst. lia.
Qed.

Lemma parse_int_range s bits v : 1 <= bits -> parse_int s bits = Some v ->
  (- Z.of_N (2 ^ (bits - 1)) <= v < Z.of_N (2 ^ (bits - 1)))%Z.
Proof.
  intros Hb. unfold parse_int. destruct s as [|c r]; [discriminate|].
  destruct (if (c =? 45) || (c =? 43) then r else c :: r) as [|d ds]; [discriminate|].
  destruct (digits_val (d :: ds) 0) as [w|]; [|discriminate].
  destruct (c =? 45).
  - destruct (w <=? 2 ^ (bits - 1)) eqn:E; [|discriminate]. intros H; inversion H; subst. lia.
  - destruct (w <? 2 ^ (bits - 1)) eqn:E; [|discriminate]. intros H; inversion H; subst. lia.
Qed.

(* two strings give the same key iff they denote the same number; the keys of the string variants are the keys of
   the value variants (so Uint16String "010" = Uint16 10), unsigned keys order numerically *)
Theorem uint_string_keys : forall s1 s2 v1 v2,
  (parse_uint s1 16 = Some v1 -> parse_uint s2 16 = Some v2 ->
     uint16_string_key s1 = Some (uint16_key v1) /\ (uint16_string_key s1 = uint16_string_key s2 <-> v1 = v2) /\
     (v1 < v2 <-> lex_lt (uint16_key v1) (uint16_key v2))) /\
  (parse_uint s1 32 = Some v1 -> parse_uint s2 32 = Some v2 ->
     uint32_string_key s1 = Some (uint32_key v1) /\ (uint32_string_key s1 = uint32_string_key s2 <-> v1 = v2) /\
     (v1 < v2 <-> lex_lt (uint32_key v1) (uint32_key v2))) /\
  (parse_uint s1 64 = Some v1 -> parse_uint s2 64 = Some v2 ->
     uint64_string_key s1 = Some (uint64_key v1) /\ (uint64_string_key s1 = uint64_string_key s2 <-> v1 = v2) /\
     (v1 < v2 <-> lex_lt (uint64_key v1) (uint64_key v2))).
Proof.
  intros s1 s2 v1 v2. destruct uint_keys_inj_mono as [K16 [K32 K64]].
  split; [|split]; intros H1 H2; pose proof (parse_uint_range _ _ _ H1) as R1; pose proof (parse_uint_range _ _ _ H2) as R2.
  - unfold uint16_string_key. rewrite H1, H2. cbn [option_map]. change (2 ^ 16) with 65536 in *.
    destruct (K16 v1 v2 R1 R2) as [Ki Km]. split; [reflexivity|]. split; [|exact Km].
    split; [intros E; apply Ki; congruence|intros ->; reflexivity].
  - unfold uint32_string_key. rewrite H1, H2. cbn [option_map]. change (2 ^ 32) with 4294967296 in *.
    destruct (K32 v1 v2 R1 R2) as [Ki Km]. split; [reflexivity|]. split; [|exact Km].
    split; [intros E; apply Ki; congruence|intros ->; reflexivity].
  - unfold uint64_string_key. rewrite H1, H2. cbn [option_map]. change (2 ^ 64) with 18446744073709551616 in *.
    destruct (K64 v1 v2 R1 R2) as [Ki Km]. split; [reflexivity|]. split; [|exact Km].
    split; [intros E; apply Ki; congruence|intros ->; reflexivity].
Qed.

Theorem int_string_keys : forall s1 s2 v1 v2,
  (parse_int s1 16 = Some v1 -> parse_int s2 16 = Some v2 -> (int16_string_key s1 = int16_string_key s2 <-> v1 = v2)) /\
  (parse_int s1 32 = Some v1 -> parse_int s2 32 = Some v2 -> (int32_string_key s1 = int32_string_key s2 <-> v1 = v2)) /\
  (parse_int s1 64 = Some v1 -> parse_int s2 64 = Some v2 -> (int64_string_key s1 = int64_string_key s2 <-> v1 = v2)).
Proof.
  intros s1 s2 v1 v2. destruct int_keys_inj as [K16 [K32 K64]].
  split; [|split]; intros H1 H2.
  - pose proof (parse_int_range _ 16 _ ltac:(lia) H1) as R1. pose proof (parse_int_range _ 16 _ ltac:(lia) H2) as R2.
    unfold int16_string_key. rewrite H1, H2. cbn [option_map]. change (2 ^ (16 - 1)) with 32768 in *.
    split; [intros E; apply K16; [lia|lia|congruence]|intros ->; reflexivity].
  - pose proof (parse_int_range _ 32 _ ltac:(lia) H1) as R1. pose proof (parse_int_range _ 32 _ ltac:(lia) H2) as R2.
    unfold int32_string_key. rewrite H1, H2. cbn [option_map]. change (2 ^ (32 - 1)) with 2147483648 in *.
    split; [intros E; apply K32; [lia|lia|congruence]|intros ->; reflexivity].
  - pose proof (parse_int_range _ 64 _ ltac:(lia) H1) as R1. pose proof (parse_int_range _ 64 _ ltac:(lia) H2) as R2.
    unfold int64_string_key. rewrite H1, H2. cbn [option_map]. change (2 ^ (64 - 1)) with 9223372036854775808 in *.
    split; [intros E; apply K64; [lia|lia|congruence]|intros ->; reflexivity].
Qed.

(* NetIP: the 4-byte form and the IPv4-mapped 16-byte form of an address give the same 16-byte key; keys of
   16-byte addresses are the addresses; the key is injective on each form *)
Theorem netip_key_forms : forall a4, length a4 = 4%nat ->
  netip_key a4 = netip_key (as16 true a4) /\ length (netip_key a4) = 16%nat /\
  (forall b4, length b4 = 4%nat -> netip_key a4 = netip_key b4 -> a4 = b4) /\
  (forall a16, length a16 = 16%nat -> netip_key a16 = a16).
Proof.
  intros a4 H4. unfold netip_key. rewrite H4. cbn [N.of_nat N.eqb Pos.of_succ_nat Pos.succ Pos.eqb].
  pose proof (as16_length true a4 H4) as L16. rewrite L16.
  cbn [N.of_nat N.eqb Pos.of_succ_nat Pos.succ Pos.eqb].
  split; [reflexivity|]. split; [reflexivity|]. split.
  - intros b4 Hb. rewrite Hb. cbn [N.of_nat N.eqb Pos.of_succ_nat Pos.succ Pos.eqb]. unfold as16.
    intros E. apply app_inv_head in E. apply app_inv_head in E. exact E.
  - intros a16 H16. rewrite H16. reflexivity.
Qed.

(* NetIPPrefix4ToIndexKey round-trips with the data masked to the prefix length: it IS EncodeLPMKey *)
Theorem netip_prefix4_is_encode : forall addr bits, netip_prefix4_lpm_key addr bits = lpmEncode addr bits.
Proof. reflexivity. Qed.
