(* sched_drv.ml — replays sched-engine ops on the extracted DB/Model.v; one line per op.
   ops:  tables <n> | actor <name> w <tabs> <writes> commit|abort <reg> <done> | actor <name> reg
         actor <name> close <tab> | actor <name> gc <tabs>
         watch <tab> | iwatch <tab> | step <name>
   Actors must be declared before the first step; `tables` first. *)
let pc_s = function
  | PStart -> "start" | PBeforeLock -> "wtxn-before-lock"
  | PLocking k -> "locking:" ^ string_of_int (int_of_nat k) | PLocked k -> "locked:" ^ string_of_int (int_of_nat k)
  | PWLocked -> "wtxn-locked" | PRootLoaded -> "wtxn-root-loaded" | PCommitIdx -> "commit-indexes"
  | PRootLocked -> "commit-root-locked" | PCommitLoaded -> "commit-root-loaded" | PRegLoaded -> "register-root-loaded" | PRootStored -> "commit-root-stored" | PRootUnlocked -> "commit-root-unlocked"
  | PNotified -> "commit-notified" | PTabsUnlocked -> "commit-tables-unlocked" | PInitClosed -> "commit-init-closed"
  | PAbortBefore -> "abort-before-unlock" | PAbortUnlocked -> "abort-unlocked"
  | PRegBefore -> "register-before-lock" | PRegLocked -> "register-locked" | PRegStored -> "register-stored"
  | PRegUnlocked -> "register-unlocked" | PDone -> "done"
let parse_nats s = if s = "-" then [] else List.map (fun x -> nat_of_int (int_of_string x)) (String.split_on_char ',' s)
let parse_pairs s = if s = "-" then [] else
  List.map (fun x -> match String.split_on_char ':' x with
    | [t; n] -> (nat_of_int (int_of_string t), n_of_int (int_of_string n)) | _ -> failwith "pair") (String.split_on_char ',' s)
let ids_s l = "{" ^ String.concat "," (List.map (fun x -> string_of_int (int_of_n x)) l) ^ "}"
let vers_s (l : tver list) = String.concat ";" (List.map (fun v -> ids_s v.tv_ids) l)
let () =
  let ntab = ref 0 in
  let actors = ref [] (* (name, (id, kind)) in declaration order *) in
  let st = ref None in
  let watches = ref [] (* model watch ids in registration order; -1 = static closed channel *) in
  let eager = ref [] (* indexes of actors forced into a held lock *) in
  let bare = ref [] (* actors whose transaction is internal to the implementation (close, gc) *) in
  let get_st () = match !st with
    | Some s -> s
    | None -> let s = init_st (nat_of_int !ntab) (List.map snd !actors) in st := Some s; s in
  let index_of name = let rec go i = function [] -> -1 | (n, _) :: r -> if n = name then i else go (i + 1) r in go 0 !actors in
  let obs s =
    let closed w = w < 0 || List.exists (fun c -> int_of_n c = w) s.s_closed in
    let wbits = String.concat "" (List.map (fun w -> if closed w then "1" else "0") !watches) in
    let en = String.concat "," (List.filter_map (fun (n, _) -> if enabled s (nat_of_int (index_of n)) then Some n else None) !actors) in
    Printf.sprintf "root=[%s] w=%s en=[%s]" (vers_s s.s_root) wbits en in
  read_lines_iter (fun line ->
    match split_ws line with
    | [] -> ()
    | "#case" :: _ -> print_endline line; ntab := 0; actors := []; st := None; watches := []; eager := []; bare := []
    | ["tables"; n] -> ntab := int_of_string n; print_endline "ok"
    | ["actor"; name; "w"; tabs; writes; ca; reg; dn] ->
      let id = n_of_int (List.length !actors + 1) in
      actors := !actors @ [(name, (id, KWriter (parse_nats tabs, parse_nats writes, (ca = "commit"), parse_pairs reg, parse_pairs dn)))];
      print_endline "ok"
    | ["actor"; name; ("close" | "gc"); tabs] ->
      (* ChangeIterator.Close and the graveyard worker go through WriteTxn(tabs) ... Commit without writing any
         index a reader can see: a writer with an empty write set whose txn view / returned snapshot the harness
         cannot observe *)
      if List.exists (fun t -> int_of_nat t >= !ntab) (parse_nats tabs) then print_endline "E bad table" else begin
      let id = n_of_int (List.length !actors + 1) in
      actors := !actors @ [(name, (id, KWriter (parse_nats tabs, [], true, [], [])))];
      bare := name :: !bare;
      print_endline "ok" end
    | ["actor"; name; "reg"] ->
      let id = n_of_int (List.length !actors + 1) in
      actors := !actors @ [(name, (id, KRegistrar))]; print_endline "ok"
    | [("watch" | "lwatch"); tab] ->   (* an LPM-index query watch closes in the same notify step as the table-wide one *)
      let s = get_st () in
      (match List.nth_opt s.s_root (int_of_string tab) with
       | Some v -> watches := !watches @ [int_of_n v.tv_watch]; print_endline (obs s)
       | None -> print_endline "n/a")
    | ["iwatch"; tab] ->
      let s = get_st () in
      (match List.nth_opt s.s_root (int_of_string tab) with
       | Some v -> (match v.tv_init with
                    | Some (w, _ :: _) -> watches := !watches @ [int_of_n w]
                    | _ -> watches := !watches @ [-1]);
                   print_endline (obs s)
       | None -> print_endline "n/a")
    | ["force"; name] ->
      (* the actor is released into a held lock: it will take its lock step as soon as the lock is free *)
      let s = get_st () in
      let i = index_of name in
      let awaited j = let a = List.nth s.s_actors j in
        (match a.a_pc with
         | PLocking k -> (match List.nth_opt a.a_locks (int_of_nat k) with Some t -> "t" ^ string_of_int (int_of_nat t) | None -> "")
         | PCommitIdx | PRegBefore -> "root"
         | _ -> "") in
      if i < 0 || enabled s (nat_of_int i) || List.mem i !eager || awaited i = ""
         || List.exists (fun j -> awaited j = awaited i) !eager
      then print_endline ("n/a " ^ obs s)
      else begin eager := !eager @ [i]; Printf.printf "forced:%s %s\n" name (obs s) end
    | ["step"; name] ->
      let s = get_st () in
      let i = index_of name in
      if i < 0 || List.mem i !eager || not (enabled s (nat_of_int i)) then print_endline ("n/a " ^ obs s)
      else begin
        let s' = step s (nat_of_int i) in
        (* forced actors proceed as soon as their lock is free, in declaration order *)
        let suffix = ref "" in
        let cur = ref s' in
        let continue = ref true in
        while !continue do
          (match List.find_opt (fun j -> enabled !cur (nat_of_int j)) (List.sort compare !eager) with
           | Some j -> cur := step !cur (nat_of_int j);
                       eager := List.filter (fun x -> x <> j) !eager;
                       let aj = List.nth !cur.s_actors j in
                       suffix := !suffix ^ Printf.sprintf " +%s:%s" (fst (List.nth !actors j)) (pc_s aj.a_pc)
           | None -> continue := false)
        done;
        let obs_now = obs !cur in
        let s' = s' in
        st := Some !cur;
        let a = List.nth s'.s_actors i in
        let extra = match a.a_pc, a.a_kind with
          | _ when List.mem name !bare -> ""
          | (PCommitIdx | PAbortBefore), KWriter _ ->
            let rec take n l = if n = 0 then [] else match l with [] -> [] | x :: r -> x :: take (n - 1) r in
            let ini v = match v.tv_init with
              | Some (_, (_ :: _ as p)) -> "!" ^ String.concat "," (List.map (fun x -> string_of_int (int_of_n x)) p)
              | _ -> "" in
            " view=[" ^ String.concat ";" (List.map (fun v -> ids_s v.tv_ids ^ ini v) (take !ntab a.a_entries)) ^ "]"
          | PDone, KWriter (_, _, true, _, _) -> " ret=[" ^ vers_s a.a_entries ^ "]"
          | _ -> "" in
        Printf.printf "%s:%s %s%s%s\n" name (pc_s a.a_pc) obs_now extra !suffix
      end
    | _ -> Printf.printf "E unknown op: %s\n" line)
