(* reconciler_drv.ml — replays reconciler ops on the extracted model; one output line per op. *)
let sfuel = nat_of_int 400      (* rounds per quiescence *)
let afuel = nat_of_int 400      (* timer events per sleep *)
let default_cfg = { cf_batch = false; cf_rs = n_of_int 2; cf_min = n_of_int 10; cf_max = n_of_int 40;
                    cf_prunei = N0; cf_init = false }
let cf = ref default_cfg
let started = ref false
let e = ref (env0 default_cfg)
let s = ref (rstate0 default_cfg)
(* faults/hooks registered before the start are kept in the env: env0 is created at #case *)
let reset () = cf := default_cfg; started := false; e := env0 default_cfg; s := rstate0 default_cfg
let quiesce () = let (e', s') = settle sfuel !cf !e !s in e := e'; s := s'
let start () =
  if not !started then begin
    started := true;
    let e0 = env0 !cf in
    (* keep registrations made before the start *)
    e := { e0 with e_faults = !e.e_faults; e_hooks = !e.e_hooks };
    s := rstate0 !cf;
    quiesce ()
  end
let opname = function 0 -> "U" | 1 -> "D" | 2 -> "UB" | 3 -> "DB" | _ -> "P"
let calls_str () =
  let cs = !e.e_calls in
  e := clear_calls !e;
  let key c = (int_of_n c.cl_t, if int_of_n c.cl_op = 4 then max_int else int_of_n c.cl_pk) in
  let cs = List.stable_sort (fun a b -> compare (key a) (key b)) cs in
  let one c =
    let op = int_of_n c.cl_op in
    if op = 4 then
      let l = List.sort compare (List.map (fun (k, v) -> (int_of_n k, int_of_n v)) c.cl_prune) in
      let p = String.concat "," (List.map (fun (k, v) -> Printf.sprintf "%d=%d" k v) l) in
      Printf.sprintf "%d:P:%s" (int_of_n c.cl_t) (if p = "" then "-" else p)
    else
      Printf.sprintf "%d:%s:k%d:v%d:%s:%s:%s" (int_of_n c.cl_t) (opname op) (int_of_n c.cl_pk) (int_of_n c.cl_ver)
        (if c.cl_exact then string_of_int (int_of_n c.cl_rev) else "s") (if c.cl_cur then "c" else "o")
        (if c.cl_ok then "ok" else "fail") in
  "[" ^ String.concat " " (List.map one cs) ^ "]"
let wkind = function "put" -> 0 | "del" -> 1 | "reins" -> 2 | "stat" -> 3 | "statx" -> 4 | "ref" -> 5 | "pend" -> 6
  | k -> failwith ("bad write kind " ^ k)
let trev () = int_of_n !e.e_tab.t_rev
let live () =
  List.sort compare (List.map (fun ((k, v), c) -> (int_of_n k, int_of_n v, int_of_n c)) (live_objs !e.e_tab))
let live_aux () =
  List.sort compare (List.map (fun (((k, v), c), a) -> (int_of_n k, int_of_n v, int_of_n c, int_of_n a)) (live_objs_aux !e.e_tab))
let () = read_lines_iter (fun line ->
  match split_ws line with
  | [] -> ()
  | "#case" :: _ -> print_endline line; reset ()
  | "cfg" :: m :: rs :: mn :: mx :: pi :: ini :: ([] | [_]) when not !started ->
    cf := { cf_batch = (m = "b"); cf_rs = n_of_int (int_of_string rs); cf_min = n_of_int (int_of_string mn);
            cf_max = n_of_int (int_of_string mx); cf_prunei = n_of_int (int_of_string pi); cf_init = (ini = "1") };
    start ();
    Printf.printf "cfg rev=%d calls=%s\n" (trev ()) (calls_str ())
  | "cfg" :: _ -> print_endline "E cfg"
  | ["probe"; _] -> print_endline "probe ok"
  | ["backoff"; mn; mx; n] ->
    (* bounds up to MaxInt64: decimal strings, not OCaml ints (63 bits) *)
    Printf.printf "backoff=%s\n" (decimal_of_n (duration (pos_of_decimal mn) (pos_of_decimal mx) (n_of_int (int_of_string n))))
  | "backoff" :: _ -> print_endline "E backoff"
  | ["fail"; k; n] -> e := add_fault !e (n_of_int (int_of_string k)) (n_of_int (int_of_string n)); print_endline "ok"
  | [("hook" | "hookf") as h; k; n; wk; k2] ->
    e := add_hook !e (n_of_int (2 * int_of_string k + (if h = "hookf" then 1 else 0))) (n_of_int (int_of_string n)) (n_of_int (wkind wk)) (n_of_int (int_of_string k2));
    print_endline "ok"
  | ["w"; wk; k] ->
    start ();
    e := do_write !e (n_of_int (wkind wk)) (n_of_int (int_of_string k));
    quiesce ();
    Printf.printf "rev=%d calls=%s\n" (trev ()) (calls_str ())
  | "wmany" :: ws ->
    start ();
    List.iter (fun a -> match String.split_on_char ':' a with
      | [wk; k] -> e := do_write !e (n_of_int (wkind wk)) (n_of_int (int_of_string k))
      | _ -> failwith "wmany") ws;
    quiesce ();
    Printf.printf "rev=%d calls=%s\n" (trev ()) (calls_str ())
  | ["sleep"; d] ->
    start ();
    let until = n_of_int (int_of_n !e.e_now + int_of_string d) in
    let (e', s') = advance afuel sfuel !cf !e !s until in e := e'; s := s';
    quiesce ();
    Printf.printf "t=%d calls=%s\n" (int_of_n !e.e_now) (calls_str ())
  | ["prune"] -> start (); s := ext_prune !s; quiesce (); Printf.printf "calls=%s\n" (calls_str ())
  | ["initdone"] -> start (); e := mark_init !e; quiesce (); Printf.printf "calls=%s\n" (calls_str ())
  | ["dump"] ->
    start (); quiesce ();
    let ks = function 0 -> "P" | 1 -> "R" | 2 -> "D" | _ -> "E" in
    Printf.printf "rev=%d [%s]\n" (trev ())
      (String.concat " " (List.map (fun (k, v, c, a) -> Printf.sprintf "k%d:v%d:%s:a%d" k v (ks c) a) (live_aux ())))
  | ["wur"; x] ->
    start ();
    let cur = trev () in
    let n = String.length x in
    let req =
      if x = "cur" then cur
      else if n > 4 && String.sub x 0 4 = "cur+" then cur + int_of_string (String.sub x 4 (n - 4))
      else if n > 4 && String.sub x 0 4 = "cur-" then max 0 (cur - int_of_string (String.sub x 4 (n - 4)))
      else int_of_string x in
    let ((prev, lwm), ok) = wur !s (n_of_int req) in
    Printf.printf "wur req=%d rev=%d lwm=%d %s\n" req (int_of_n prev) (int_of_n lwm) (if ok then "ok" else "canceled")
  | ["final"] ->
    start ();
    e := faults_off !e;
    for _ = 1 to 3 do
      let until = n_of_int (int_of_n !e.e_now + int_of_n !cf.cf_max) in
      let (e', s') = advance afuel sfuel !cf !e !s until in e := e'; s := s';
      quiesce ()
    done;
    e := clear_calls !e;
    let lv = live () in
    let tgt = List.sort compare (List.map (fun (k, v) -> (int_of_n k, int_of_n v)) !e.e_target) in
    let conv = List.for_all (fun (_, _, c) -> c = 2) lv && tgt = List.map (fun (k, v, _) -> (k, v)) lv in
    Printf.printf "final %s live=[%s]\n" (if conv then "converged" else "NOT-converged")
      (String.concat " " (List.map (fun (k, v, _) -> Printf.sprintf "k%d:v%d" k v) lv))
  | _ -> print_endline "E unknown op")
