(* part_drv.ml — replays part ops on the extracted model (Part/Model.v); one output line per op.
   Mirrors harness/cmd/part/main.go (state layout, op semantics, printing). *)
let hmod = 1000000007
let digest_hash (l : (n list * n) list) : int =
  List.fold_left (fun h (k, v) ->
    let h = List.fold_left (fun h b -> (h * 131 + int_of_n b + 1) mod hmod) h k in
    let h = (h * 131 + 257) mod hmod in
    (h * 1000003 + int_of_n v) mod hmod) 7 l
let digest l =
  let n = List.length l in
  let base = Printf.sprintf "n=%d h=%d" n (digest_hash l) in
  if n <= 16 then
    base ^ " [" ^ String.concat " " (List.map (fun (k, v) -> hex_of_bytes k ^ ":" ^ string_of_int (int_of_n v)) l) ^ "]"
  else base
let short l = Printf.sprintf "%d:%d" (List.length l) (digest_hash l)
let vopt = function None -> "-" | Some v -> string_of_int (int_of_n v)

let next = ref (n_of_int 1)
let versions : (string, tree) Hashtbl.t = Hashtbl.create 16
let vorder = ref []
let clones : (string, tree) Hashtbl.t = Hashtbl.create 16
let corder = ref []
let iters : (string, iter ref) Hashtbl.t = Hashtbl.create 16
let iorder = ref []
let handles = ref []            (* (name, chan id), reverse order of hand-out *)
let closed : (int, unit) Hashtbl.t = Hashtbl.create 64
let wnum : (int, int) Hashtbl.t = Hashtbl.create 64
let live : txn option ref = ref None
let pending : txn option ref = ref None
let head = ref "0"
let live_fh = ref false
let pend_fh = ref false
let pend_ver = ref ""

let reset () =
  next := n_of_int 1; Hashtbl.reset versions; vorder := []; Hashtbl.reset clones; corder := [];
  Hashtbl.reset iters; iorder := []; handles := []; Hashtbl.reset closed; Hashtbl.reset wnum;
  live := None; pending := None; head := "0"; live_fh := false; pend_fh := false

let add_handle h (w : n) =
  let w = int_of_n w in
  if w <> 0 && not (Hashtbl.mem wnum w) then Hashtbl.replace wnum w (Hashtbl.length wnum + 1);
  handles := (h, w) :: List.filter (fun (h', _) -> h' <> h) !handles
let add_iter name it =
  if not (Hashtbl.mem iters name) then iorder := name :: !iorder;
  Hashtbl.replace iters name (ref it)
let sync_next (x : txn) = next := x.t_st.s_next
let close_all l = List.iter (fun w -> Hashtbl.replace closed (int_of_n w) ()) l

type target = TTxn of txn | TTree of tree | TNone
let target s =
  if s = "t" then (match !live with Some x -> TTxn x | None -> TNone)
  else if String.length s > 1 && s.[0] = 'c' then
    (match Hashtbl.find_opt clones (String.sub s 1 (String.length s - 1)) with Some t -> TTree t | None -> TNone)
  else if String.length s > 1 && s.[0] = 'v' then
    (match Hashtbl.find_opt versions (String.sub s 1 (String.length s - 1)) with Some t -> TTree t | None -> TNone)
  else TNone

let e () = print_endline "E badref"
let add_version v t =
  if not (Hashtbl.mem versions v) then vorder := v :: !vorder;
  Hashtbl.replace versions v t

let () = read_lines_iter (fun line ->
  match split_ws line with
  | [] -> ()
  | "#case" :: _ -> reset (); print_endline line
  | ["new"; ro] ->
    reset ();
    let (t, nx) = tree_new (ro = "1") !next in
    next := nx; add_version "0" t; print_endline "ok"
  | ["begin"; v] ->
    let base = match Hashtbl.find_opt versions v with
      | Some t -> Some t
      | None -> if String.length v > 1 && v.[0] = 'c' then Hashtbl.find_opt clones (String.sub v 1 (String.length v - 1)) else None in
    (match base, !live with
     | Some t, None -> pending := None; live_fh := (v = !head); live := Some (tree_txn t !next); print_endline "ok"
     | _ -> e ())
  | ("ins" | "mod") :: k :: v :: rest when List.length rest <= 2 ->
    (match !live with
     | None -> e ()
     | Some x ->
       let ismod = List.hd (split_ws line) = "mod" in
       let (((x', old), nv), w) = txn_modify x (if ismod then Some mod_fun else None) (bytes_of_hex k) (n_of_int (int_of_string v)) in
       live := Some x'; sync_next x';
       (match rest with h :: _ when h <> "-" -> add_handle h w | _ -> ());
       if ismod then Printf.printf "old=%s new=%d\n" (vopt old) (int_of_n nv)
       else Printf.printf "old=%s\n" (vopt old))
  | [("tins" | "tmod" | "tdel" as w); k; v; nv] ->
    (* Tree.Insert / Modify / Delete: tree_txn on the head version, one write, commit and notify *)
    (match Hashtbl.find_opt versions !head, !live with
     | Some t, None ->
       pending := None;
       let x = tree_txn t !next in
       let (x1, old) =
         if w = "tdel" then txn_delete x (bytes_of_hex k)
         else (let (((x', old), _), _) = txn_modify x (if w = "tmod" then Some mod_fun else None) (bytes_of_hex k) (n_of_int (int_of_string v)) in (x', old)) in
       sync_next x1;
       let ((x2, t'), cl) = txn_commit_notify x1 in
       sync_next x2; close_all cl; live := None; pending := None; head := nv; add_version nv t';
       Printf.printf "old=%s\n" (vopt old)
     | _ -> e ())
  | ["del"; k] ->
    (match !live with
     | None -> e ()
     | Some x ->
       let (x', old) = txn_delete x (bytes_of_hex k) in
       live := Some x'; sync_next x'; Printf.printf "old=%s\n" (vopt old))
  | "get" :: tg :: k :: rest ->
    let r = (match target tg with
        | TTxn x -> Some (txn_get x (bytes_of_hex k))
        | TTree t -> Some (tree_get t (bytes_of_hex k))
        | TNone -> None) in
    (match r with
     | None -> e ()
     | Some (v, w) ->
       (match rest with h :: _ when h <> "-" -> add_handle h w | _ -> ());
       Printf.printf "val=%s\n" (vopt v))
  | ["len"; tg] ->
    (match target tg with
     | TTxn x -> Printf.printf "len=%d\n" (int_of_n x.t_size)
     | TTree t -> Printf.printf "len=%d\n" (int_of_n t.tr_size)
     | TNone -> e ())
  | ["all"; tg] ->
    (match target tg with
     | TTxn x -> let (x', l) = txn_all x in live := Some x'; print_endline (digest l)
     | TTree t -> print_endline (digest (iter_all (tree_iterator t)))
     | TNone -> e ())
  | ["allins"; k; v] ->
    (match !live with
     | None -> e ()
     | Some x ->
       let (x', l) = txn_all x in
       if l = [] then (live := Some x'; Printf.printf "%s old=-\n" (digest l))
       else begin
         let (((x'', old), _), _) = txn_modify x' None (bytes_of_hex k) (n_of_int (int_of_string v)) in
         live := Some x''; sync_next x'';
         Printf.printf "%s old=%s\n" (digest l) (vopt old)
       end)
  | ["iter"; tg; name] ->
    (match target tg with
     | TTxn x -> let (x', it) = txn_iterator x in live := Some x'; add_iter name it; print_endline "ok"
     | TTree t -> add_iter name (tree_iterator t); print_endline "ok"
     | TNone -> e ())
  | ["pfx"; tg; p; h; itn] ->
    let r = (match target tg with
        | TTxn x -> let (x', r) = txn_prefix x (bytes_of_hex p) in live := Some x'; Some r
        | TTree t -> Some (tree_prefix t (bytes_of_hex p))
        | TNone -> None) in
    (match r with
     | None -> e ()
     | Some (it, w) ->
       if h <> "-" then add_handle h w;
       if itn <> "-" then add_iter itn it;
       print_endline (digest (iter_all it)))
  | ["lb"; tg; k; itn] ->
    let r = (match target tg with
        | TTxn x -> let (x', r) = txn_lowerbound x (bytes_of_hex k) in live := Some x'; Some r
        | TTree t -> Some (tree_lowerbound t (bytes_of_hex k))
        | TNone -> None) in
    (match r with
     | None -> e ()
     | Some it ->
       if itn <> "-" then add_iter itn it;
       print_endline (digest (iter_all it)))
  | ["next"; name] ->
    (match Hashtbl.find_opt iters name with
     | None -> e ()
     | Some r ->
       let (kv, it') = iter_next !r in
       r := it';
       (match kv with
        | None -> print_endline "end"
        | Some (k, v) -> Printf.printf "kv=%s:%d\n" (hex_of_bytes k) (int_of_n v)))
  | ["rest"; name] ->
    (match Hashtbl.find_opt iters name with
     | None -> e ()
     | Some r -> print_endline (digest (iter_all !r)))
  | ["clone"; name] ->
    (match !live with
     | None -> e ()
     | Some x ->
       let (x', t) = txn_clone x in
       live := Some x';
       if not (Hashtbl.mem clones name) then corder := name :: !corder;
       Hashtbl.replace clones name t; print_endline "ok")
  | ["rootw"; tg; h] ->
    (match target tg with
     | TTxn x -> add_handle h x.t_rw; print_endline "ok"
     | TTree t -> add_handle h t.tr_rw; print_endline "ok"
     | TNone -> e ())
  | ["commit"; v] ->
    (match !live with
     | None -> e ()
     | Some x ->
       let (x', t) = txn_commit x in
       sync_next x'; live := None; pending := Some x'; pend_fh := !live_fh; pend_ver := v; add_version v t; print_endline "ok")
  | ["notify"] ->
    (match !pending with
     | Some x when !pend_fh ->
       let (_, cl) = txn_notify x in
       close_all cl; pending := None; head := !pend_ver; print_endline "ok"
     | _ -> e ())
  | ["cnotify"; v] ->
    (match !live with
     | Some x when !live_fh ->
       let ((x', t), cl) = txn_commit_notify x in
       sync_next x'; close_all cl; live := None; pending := None; head := v; add_version v t; print_endline "ok"
     | _ -> e ())
  | ["abandon"] ->
    (match !live with
     | None -> e ()
     | Some x -> sync_next x; live := None; print_endline "ok")
  | ["chk"] ->
    let hs = List.rev !handles in
    print_endline ("chk" ^ String.concat "" (List.map (fun (h, w) ->
      if w = 0 then Printf.sprintf " %s=nil" h
      else Printf.sprintf " %s=w%d:%s" h (Hashtbl.find wnum w) (if Hashtbl.mem closed w then "1" else "0")) hs))
  | ["pers"] ->
    let b = Buffer.create 256 in
    Buffer.add_string b "pers";
    List.iter (fun v -> Buffer.add_string b (Printf.sprintf " v%s=%s" v (short (iter_all (tree_iterator (Hashtbl.find versions v)))))) (List.rev !vorder);
    List.iter (fun c -> Buffer.add_string b (Printf.sprintf " c%s=%s" c (short (iter_all (tree_iterator (Hashtbl.find clones c)))))) (List.rev !corder);
    List.iter (fun i -> Buffer.add_string b (Printf.sprintf " i%s=%s" i (short (iter_all !(Hashtbl.find iters i))))) (List.rev !iorder);
    print_endline (Buffer.contents b)
  | _ -> Printf.printf "E unknown op: %s\n" line)
