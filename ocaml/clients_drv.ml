(* clients_drv.ml — replays clients-engine ops on the extracted Table/Clients.v (over Table/Model.v); one line per op. *)
let nat s = nat_of_int (int_of_string s)
let nn s = n_of_int (int_of_string s)
let bs b = if b then "true" else "false"
let parse_tabs s = if s = "-" then [] else List.map nat (String.split_on_char ',' s)
let payload id v = { p_id = bytes_of_hex id; p_val = nn v; p_u = []; p_n = []; p_lu = []; p_ln = [] }
let obj_s (o : object0) = Printf.sprintf "%s/%d@%d" (hex_of_bytes o.o_data.p_id) (int_of_n o.o_data.p_val) (int_of_n o.o_rev)
let old_s (o : object0) = Printf.sprintf "%s/%d" (hex_of_bytes o.o_data.p_id) (int_of_n o.o_data.p_val)
let err_s = function EOk -> "ok" | ENotFound -> "notfound" | ERevMismatch -> "revmismatch" | ENotLocked -> "notlocked" | EClosed -> "closed"
let out_s = function
  | OutNone -> "n/a"
  | OutUnit -> "ok"
  | OutWrite (old, e) -> Printf.sprintf "old=%s err=%s" (match old with None -> "none" | Some o -> old_s o) (err_s e)
  | OutErr e -> "err=" ^ err_s e
  | OutObjs l -> "[" ^ String.concat " " (List.map obj_s l) ^ "]"
  | OutGet None -> "none"
  | OutGet (Some o) -> obj_s o
  | OutNum n -> string_of_int (int_of_n n)
  | OutInit (i, p, w) -> Printf.sprintf "init=%s pending=[%s] wclosed=%s" (bs i)
      (String.concat "," (List.map (fun x -> string_of_int (int_of_n x)) p)) (bs w)
  | OutChanges (l, w) -> Printf.sprintf "[%s] wclosed=%s"
      (String.concat " " (List.map (fun (o, d) -> obj_s o ^ (if d then "-" else "+")) l)) (bs w)
  | OutBool b -> bs b
  | OutPanic -> "panic"
let cout_s = function
  | CoOut o -> out_s o
  | CoRan (ran, ready) -> Printf.sprintf "ran=%s ready=%s" (bs ran) (bs ready)
  | CoDelivered (ran, c, ready) -> Printf.sprintf "ran=%s got=%s ready=%s" (bs ran)
      (match c with None -> "none" | Some (o, d) -> obj_s o ^ (if d then "-" else "+")) (bs ready)
  | CoStat ready -> "ready=" ^ bs ready
let parse_cop (f : string list) : cop =
  match f with
  | ["begin"; tabs] -> CUser (OBegin (parse_tabs tabs))
  | ["commit"] -> CUser (OCommit (n_of_int 1))
  | ["abort"] -> CUser OAbort
  | ["insert"; t; id; v] -> CUser (OInsert (nat t, payload id v))
  | ["delete"; t; id] -> CUser (ODelete (nat t, bytes_of_hex id))
  | ["reginit"; t; name] -> CUser (ORegInit (nat t, nn name))
  | ["initdone"; t; name] -> CUser (OInitDone (nat t, nn name))
  | ["q"; t; "all"] -> CUser (OQuery (SFresh, nat t, QAll))
  | ["q"; t; "rev"] -> CUser (OQuery (SFresh, nat t, QRev))
  | ["q"; t; "init"] -> CUser (OQuery (SFresh, nat t, QInit))
  | ["dstart"] -> CDeriveStart (nat "0", nat "1")
  | ["dgo"] -> CDeriveGo
  | ["dstat"] -> CDeriveStat
  | ["ostart"; t] -> CObserveStart (nat t)
  | ["ogo"] -> CObserveGo
  | ["ocancel"] -> CObserveCancel
  | ["ostat"] -> CObserveStat
  | _ -> failwith "unknown op"
let () =
  let s = ref (init_csys (nat_of_int 2) N0) in
  (* `dgoinj k n`: the next n op lines are a harness transaction on the input table that commits inside the
     leg's k-th transform call. It touches only the input table, the leg locks only the derived table and reads the
     input table from the root it started with: the outcome is that of the leg followed by the transaction. *)
  let collect = ref 0 in
  let held = ref [] in
  (* done-functions the harness holds: one per successful reginit line (a shrunk case may lack the reginit of an initdone) *)
  let regd : (string, unit) Hashtbl.t = Hashtbl.create 8 in
  let run_line line f =
    (match f with
     | ["initdone"; t; name] when not (Hashtbl.mem regd (t ^ "/" ^ name)) -> print_endline "n/a"
     | _ ->
    (match (try Some (parse_cop f) with _ -> None) with
     | None -> Printf.printf "E unknown op: %s\n" line
     | Some c -> let ((s', out), _) = cstep !s c in s := s';
                 (match f, out with
                  | ["reginit"; t; name], CoOut OutUnit -> Hashtbl.replace regd (t ^ "/" ^ name) ()
                  | _ -> ());
                 print_endline (cout_s out))) in
  let leg () =
    let ((s', out), _) = cstep !s CDeriveGo in s := s';
    (match out with CoRan (ran, _) -> Printf.printf "ran=%s\n" (bs ran) | o -> print_endline (cout_s o));
    List.iter (fun l -> match split_ws l with
        | ("begin" | "insert" | "delete" | "reginit" | "initdone" | "commit" | "abort") :: _ as f -> run_line l f
        | _ -> print_endline "n/a") (List.rev !held);
    held := [] in
  read_lines_iter (fun line ->
    match split_ws line with
    | [] -> ()
    | "#case" :: _ -> print_endline line; s := init_csys (nat_of_int 2) N0; collect := 0; held := []; Hashtbl.reset regd
    | _ when !collect > 0 -> held := line :: !held; decr collect; if !collect = 0 then leg ()
    | ["dgoinj"; _; n] -> collect := int_of_string n; held := []; if !collect = 0 then leg ()
    | ["mode"; m] -> s := init_csys (nat_of_int 2) (nn m); print_endline "ok"
    | f -> run_line line f)
