(* watchset_drv.ml — replays watchset ops on the extracted model; one output line per op.
   State of a case: named member sets and the set of channels closed so far (channels closed
   by earlier ops of the case are "close c @ 0" events of a later wait). Trusted glue. *)
let sets : (int, nat list) Hashtbl.t = Hashtbl.create 7
let closed : int list ref = ref []
let get s = try Hashtbl.find sets s with Not_found -> []
let ints l = List.sort compare (List.map int_of_nat l)
let csv l = if l = [] then "-" else String.concat "," (List.map string_of_int l)
let mem s = csv (ints (get s))
let ids l = List.map (fun x -> nat_of_int (int_of_string x)) l
let err_s = function None -> "nil" | Some Deadline -> "deadline" | Some Canceled -> "canceled"
let parse_ctx c =
  if c = "none" then [] else
  let t = nat_of_int (int_of_string (String.sub c 1 (String.length c - 1))) in
  (* D<t> / C<t>: the same context kinds created with a custom cause; ctx.Err() is unchanged *)
  [Cancel ((if c.[0] = 'd' || c.[0] = 'D' then Deadline else Canceled), t)]
let parse_ev e = match String.split_on_char '@' e with
  | [c; t] -> (int_of_string c, int_of_string t)
  | _ -> failwith "bad event"
(* canonical outcomes: (sorted returned, error, time, sorted remaining), sorted, without repeats *)
let outcomes s call settle ctx evs =
  let pe = List.map parse_ev evs in
  let tl = List.map (fun c -> Close (nat_of_int c, O)) !closed
           @ List.map (fun (c, t) -> Close (nat_of_int c, nat_of_int t)) pe @ parse_ctx ctx in
  let os = wait_outcomes tl (nat_of_int call) (nat_of_int settle) (get s) in
  List.iter (fun (c, _) -> if not (List.mem c !closed) then closed := c :: !closed) pe;
  List.sort_uniq compare (List.map (fun o -> (ints o.o_ret, err_s o.o_err, int_of_nat o.o_time, ints o.o_rem)) os)
let () = read_lines_iter (fun line ->
  match split_ws line with
  | [] -> ()
  | "#case" :: _ -> Hashtbl.reset sets; closed := []; print_endline line
  | "add" :: s :: l -> let s = int_of_string s in
    Hashtbl.replace sets s (ws_add (get s) (ids l)); Printf.printf "mem=%s\n" (mem s)
  | ["merge"; s; o] -> let s = int_of_string s and o = int_of_string o in
    Hashtbl.replace sets s (ws_merge (get s) (get o)); Printf.printf "mem=%s other=%s\n" (mem s) (mem o)
  | ["clear"; s] -> let s = int_of_string s in
    Hashtbl.replace sets s (ws_clear (get s)); Printf.printf "mem=%s\n" (mem s)
  | ["has"; s; c] -> Printf.printf "has=%s\n" (b2s (ws_has (get (int_of_string s)) (nat_of_int (int_of_string c))))
  | "hasany" :: s :: l -> Printf.printf "any=%s\n" (b2s (ws_hasany (get (int_of_string s)) (ids l)))
  | ("wait" | "waitnd") :: s :: call :: settle :: ctx :: _horizon :: evs -> let s = int_of_string s in
    (match outcomes s (int_of_string call) (int_of_string settle) ctx evs with
     | [] -> Printf.printf "blocked mem=%s\n" (mem s)
     | [(r, e, t, rem)] ->
       Hashtbl.replace sets s (List.map nat_of_int rem);
       Printf.printf "ret=%s err=%s t=%d mem=%s\n" (csv r) e t (csv rem)
     | l ->
       (* several allowed outcomes: print the canonical list; the harness adds the returned
          channels back afterwards, so the set is unchanged *)
       Printf.printf "allowed=[%s] mem=%s\n"
         (String.concat ";" (List.map (fun (r, e, t, _) -> Printf.sprintf "%s/%s/%d" (csv r) e t) l)) (mem s))
  | ["probe"; _] -> print_endline "probe ok"   (* implementation-only directed scenario *)
  | _ -> Printf.printf "E unknown op: %s\n" line)
