(* keyenc_drv.ml — replays keyenc ops on the extracted model; one output line per op. *)
let cmp a b = if bytes_ltb a b then -1 else if bytes_eqb a b then 0 else 1
let () = read_lines_iter (fun line ->
  match split_ws line with
  | [] -> ()
  | "#case" :: _ -> print_endline line
  | ["adapters"; _] -> print_endline "ok"   (* implementation-only: the KeySet builders agree with NewKeySet *)
  | ["nuk"; p; s] ->
    let k = nuk (bytes_of_hex p) (bytes_of_hex s) in
    Printf.printf "nuk=%s plen=%d slen=%d ep=%s es=%s\n" (hex_of_bytes k) (int_of_z (primaryLen k))
      (int_of_z (secondaryLen k)) (hex_opt (encodedPrimary k)) (hex_opt (encodedSecondary k))
  | ["cmp"; p1; s1; p2; s2] ->
    Printf.printf "cmp=%d\n" (cmp (nuk (bytes_of_hex p1) (bytes_of_hex s1)) (nuk (bytes_of_hex p2) (bytes_of_hex s2)))
  | ["acc"; k] -> let k = bytes_of_hex k in
    Printf.printf "plen=%d slen=%d ep=%s es=%s\n" (int_of_z (primaryLen k))
      (int_of_z (secondaryLen k)) (hex_opt (encodedPrimary k)) (hex_opt (encodedSecondary k))
  | ["u16"; v] -> Printf.printf "%s\n" (hex_of_bytes (uint16_key (pos_of_decimal v)))
  | ["u32"; v] -> Printf.printf "%s\n" (hex_of_bytes (uint32_key (pos_of_decimal v)))
  | ["u64"; v] -> Printf.printf "%s\n" (hex_of_bytes (uint64_key (pos_of_decimal v)))
  | ["i16"; v] -> Printf.printf "%s\n" (hex_of_bytes (int16_key (z_of_decimal v)))
  | ["i32"; v] -> Printf.printf "%s\n" (hex_of_bytes (int32_key (z_of_decimal v)))
  | ["i64"; v] -> Printf.printf "%s\n" (hex_of_bytes (int64_key (z_of_decimal v)))
  | ["bool"; v] -> Printf.printf "%s\n" (hex_of_bytes (bool_key (v = "1")))
  | ["str"; v] -> Printf.printf "%s\n" (hex_of_bytes (string_key (bytes_of_hex v)))
  | ["lpmenc"; d; pl] ->
    (match lpmEncode (bytes_of_hex d) (n_of_int (int_of_string pl)) with
     | None -> print_endline "panic"
     | Some k -> Printf.printf "%s\n" (hex_of_bytes k))
  | ["lpmdec"; k] ->
    (match lpmDecode (bytes_of_hex k) with
     | None -> print_endline "panic"
     | Some (d, pl) -> Printf.printf "%s %d\n" (hex_of_bytes d) (int_of_n pl))
  | ["nipp"; fam; a; bits] ->
    let is4 = (fam = "v4") in
    let b = n_of_int (int_of_string bits) in
    let addr = bytes_of_hex a in
    Printf.printf "idx=%s lpm=%s\n" (hex_of_bytes (netip_prefix_key is4 addr b))
      (match netip_prefix_lpm_key is4 addr b with None -> "panic" | Some k -> hex_of_bytes k)
  | ["u16s"; v] -> print_endline (match uint16_string_key (bytes_of_hex v) with None -> "err" | Some k -> hex_of_bytes k)
  | ["u32s"; v] -> print_endline (match uint32_string_key (bytes_of_hex v) with None -> "err" | Some k -> hex_of_bytes k)
  | ["u64s"; v] -> print_endline (match uint64_string_key (bytes_of_hex v) with None -> "err" | Some k -> hex_of_bytes k)
  | ["i16s"; v] -> print_endline (match int16_string_key (bytes_of_hex v) with None -> "err" | Some k -> hex_of_bytes k)
  | ["i32s"; v] -> print_endline (match int32_string_key (bytes_of_hex v) with None -> "err" | Some k -> hex_of_bytes k)
  | ["i64s"; v] -> print_endline (match int64_string_key (bytes_of_hex v) with None -> "err" | Some k -> hex_of_bytes k)
  | ["nip"; a] -> print_endline (hex_of_bytes (netip_key (bytes_of_hex a)))
  | ["nipp4"; a; bits] ->
    print_endline (match netip_prefix4_lpm_key (bytes_of_hex a) (n_of_int (int_of_string bits)) with None -> "panic" | Some k -> hex_of_bytes k)
  | _ -> Printf.printf "E unknown op: %s\n" line)
