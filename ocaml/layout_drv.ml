(* layout_drv.ml — replays layout ops on the extracted model (Part/Layout.v); one output line per op.
   Mirrors harness/cmd/layout/main.go: state = (committed root, root of the live txn). *)
let committed = ref RNil
let cur = ref RNil

let hex2 (k : n) = Printf.sprintf "%02x" (int_of_n k)
let show_layout (l : layout) : string =
  let b = Buffer.create 600 in
  Buffer.add_string b (Printf.sprintf "node k%d s%d l%s keys=" (int_of_n l.l_kind) (int_of_nat l.l_size) (b2s l.l_leaf));
  List.iter (fun k -> Buffer.add_string b (hex2 k)) l.l_keys;
  Buffer.add_string b " ch=";
  List.iter (fun c -> Buffer.add_string b (match c with None -> "--" | Some k -> hex2 k)) l.l_children;
  Buffer.add_string b " idx=";
  let first = ref true in
  List.iteri (fun k i ->
    let i = int_of_nat i in
    if i <> 0 then begin
      if not !first then Buffer.add_char b ',';
      first := false;
      Buffer.add_string b (Printf.sprintf "%02x:%d" k i)
    end) l.l_index;
  Buffer.contents b
let show (r : lroot) : string =
  match r with
  | RNil -> "nil"
  | RLeaf None -> "leaf -"
  | RLeaf (Some k) -> "leaf " ^ hex2 k
  | RNode l -> show_layout l

let () = read_lines_iter (fun line ->
  match split_ws line with
  | [] -> ()
  | "#case" :: _ -> committed := RNil; cur := RNil; print_endline line
  | ["new"; _] -> committed := RNil; cur := RNil; print_endline (show !cur)
  | ["txn"] -> cur := !committed; print_endline (show !cur)
  | ["commit"] -> committed := !cur; print_endline (show !cur)
  | ["add"; k] -> cur := r_add !cur (n_of_int (int_of_string k)); print_endline (show !cur)
  | ["del"; k] -> cur := r_del !cur (n_of_int (int_of_string k)); print_endline (show !cur)
  | ["addleaf"] -> cur := r_addleaf !cur; print_endline (show !cur)
  | ["delleaf"] -> cur := r_delleaf !cur; print_endline (show !cur)
  | ["find"; k] -> Printf.printf "find=%s\n" (b2s (r_find !cur (n_of_int (int_of_string k))))
  | ["fidx"; k] ->
    let (f, i) = r_findIndex !cur (n_of_int (int_of_string k)) in
    Printf.printf "fidx=%s,%d\n" (b2s f) (int_of_nat i)
  | ["layout"] -> print_endline (show !cur)
  | ["tlayout"] -> print_endline (show !committed)
  | _ -> Printf.printf "E unknown op: %s\n" line)
