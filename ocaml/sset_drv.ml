(* sset_drv.ml — replays sset ops (reconciler.StatusSet) on the extracted model; one output line per op. *)
let kind_s = function Pending -> "p" | Refreshing -> "r" | Done -> "d" | Error -> "e"
let kind_of = function "p" -> Pending | "r" -> Refreshing | "d" -> Done | _ -> Error
let st_s st = Printf.sprintf "%s:%d" (kind_s st.st_kind) (int_of_n st.st_id)
let val_s s =
  Printf.sprintf "id=%d[%s]" (int_of_n (ss_id s))
    (String.concat "," (List.map (fun (n, st) -> hex_of_bytes n ^ ":" ^ st_s st) (ss_all s)))
let m = ref sm_init
let dump () = print_endline (String.concat " " (List.map val_s (sm_vals !m)))
let nvals () = List.length (sm_vals !m)
let ok i = i >= 0 && i < nvals ()
let () = read_lines_iter (fun line ->
  match split_ws line with
  | [] -> ()
  | "#case" :: _ -> m := sm_init; print_endline line
  | ["new"] -> m := sm_new !m; dump ()
  | ["pend"; i] when ok (int_of_string i) -> m := sm_pending !m (nat_of_int (int_of_string i)); dump ()
  | ["set"; i; n; k] when ok (int_of_string i) ->
    m := sm_set !m (nat_of_int (int_of_string i)) (bytes_of_hex n) (kind_of k); dump ()
  | ["get"; i; n] when ok (int_of_string i) ->
    print_endline (st_s (ss_get (sm_val !m (nat_of_int (int_of_string i))) (bytes_of_hex n)))
  | ["dump"] -> dump ()
  | _ -> Printf.printf "E bad op: %s\n" line)
