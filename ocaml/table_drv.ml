(* table_drv.ml — replays table-engine ops on the extracted Table/Model.v; one line per op. *)
let parse_list (s : string) : n list list =
  (* "[k1,k2]" with hex keys, "-" = empty key, "[]" = empty list *)
  let inner = String.sub s 1 (String.length s - 2) in
  if inner = "" then [] else List.map bytes_of_hex (String.split_on_char ',' inner)
let parse_tabs s = if s = "-" then [] else List.map (fun x -> nat_of_int (int_of_string x)) (String.split_on_char ',' s)
let nat s = nat_of_int (int_of_string s)
let nn s = n_of_int (int_of_string s)
let lkey_of (s : string) : bool list =
  (* "<datahex>:<plen>" *)
  match String.split_on_char ':' s with
  | [d; pl] -> key_bits (bytes_of_hex d) (nn pl)
  | _ -> failwith "lkey"
let parse_lkeys (s : string) : bool list list =
  let inner = String.sub s 1 (String.length s - 2) in
  if inner = "" then [] else List.map lkey_of (String.split_on_char ',' inner)
let payload id v u n lu ln = { p_id = bytes_of_hex id; p_val = nn v; p_u = parse_list u; p_n = parse_list n;
                               p_lu = parse_lkeys lu; p_ln = parse_lkeys ln }
let src = function
  | "txn" -> STxn | "fresh" -> SFresh
  | s -> SSnap (nn (String.sub s 1 (String.length s - 1)))
let kind = function "id" -> IPrimary | "rev" -> IRevision | "u" -> IU | "n" -> INn | s -> failwith ("kind " ^ s)
let take = function "all" -> None | s -> Some (nat s)
let obj_s (o : object0) = Printf.sprintf "%s/%d@%d" (hex_of_bytes o.o_data.p_id) (int_of_n o.o_data.p_val) (int_of_n o.o_rev)
let err_s = function EOk -> "ok" | ENotFound -> "notfound" | ERevMismatch -> "revmismatch" | ENotLocked -> "notlocked" | EClosed -> "closed"
let out_s = function
  | OutNone -> "n/a"
  | OutUnit -> "ok"
  | OutWrite (old, e) -> Printf.sprintf "old=%s err=%s" (match old with None -> "none" | Some o -> obj_s o) (err_s e)
  | OutErr e -> "err=" ^ err_s e
  | OutObjs l -> "[" ^ String.concat " " (List.map obj_s l) ^ "]"
  | OutGet None -> "none"
  | OutGet (Some o) -> obj_s o
  | OutNum n -> string_of_int (int_of_n n)
  | OutInit (i, p, w) -> Printf.sprintf "init=%s pending=[%s] wclosed=%s" (b2s i)
      (String.concat "," (List.map (fun x -> string_of_int (int_of_n x)) p)) (b2s w)
  | OutChanges (l, w) -> Printf.sprintf "[%s] wclosed=%s"
      (String.concat " " (List.map (fun (o, d) -> obj_s o ^ (if d then "-" else "+")) l)) (b2s w)
  | OutBool b -> b2s b
  | OutPanic -> "panic"
let rec parse_op (f : string list) : op =
  match f with
  | ["begin"; tabs] -> OBegin (parse_tabs tabs)
  | ["insert"; t; id; v; u; n; lu; ln] -> OInsert (nat t, payload id v u n lu ln)
  | ["modify"; t; id; v; u; n; lu; ln] -> OModify (nat t, payload id v u n lu ln)
  | ["cas"; t; g; id; v; u; n; lu; ln] -> OCas (nat t, nn g, payload id v u n lu ln)
  | ["delete"; t; id] -> ODelete (nat t, bytes_of_hex id)
  | ["cad"; t; g; id] -> OCad (nat t, nn g, bytes_of_hex id)
  | ["deleteall"; t] -> ODeleteAll (nat t)
  | ["commit"; sid] -> OCommit (nn sid)
  | ["abort"] -> OAbort
  | ["snap"; sid] -> OSnap (nn sid)
  | ["q"; s; t; "get"; ("lu" | "ln" as k); key] -> OQuery (src s, nat t, QLGet (k = "lu", lkey_of key))
  | ["q"; s; t; "list"; ("lu" | "ln" as k); key] -> OQuery (src s, nat t, QLList (k = "lu", lkey_of key))
  | ["q"; s; t; "prefix"; ("lu" | "ln" as k); key] -> OQuery (src s, nat t, QLPrefix (k = "lu", lkey_of key))
  | ["q"; s; t; "lb"; ("lu" | "ln" as k); key] -> OQuery (src s, nat t, QLLowerBound (k = "lu", lkey_of key))
  | ["q"; s; t; "get"; k; key] -> OQuery (src s, nat t, QGet (kind k, bytes_of_hex key))
  | ["q"; s; t; "list"; k; key] -> OQuery (src s, nat t, QList (kind k, bytes_of_hex key))
  | ["q"; s; t; "prefix"; k; key] -> OQuery (src s, nat t, QPrefix (kind k, bytes_of_hex key))
  | ["q"; s; t; "lb"; k; key] -> OQuery (src s, nat t, QLowerBound (kind k, bytes_of_hex key))
  | ["q"; s; t; "all"] -> OQuery (src s, nat t, QAll)
  | ["q"; s; t; "num"] -> OQuery (src s, nat t, QNum)
  | ["q"; s; t; "rev"] -> OQuery (src s, nat t, QRev)
  | ["q"; s; t; "gnum"] -> OQuery (src s, nat t, QGraveNum)
  | ["q"; s; t; "init"] -> OQuery (src s, nat t, QInit)
  | "wq" :: rest -> parse_op ("q" :: rest)
  | "aq" :: rest -> parse_op ("q" :: rest)   (* the same query through the untyped string-keyed API *)
  | "insertw" :: rest -> parse_op ("insert" :: rest)
  | "ainsert" :: rest -> parse_op ("insert" :: rest)   (* AnyTable.Insert / Delete *)
  | "adelete" :: rest -> parse_op ("delete" :: rest)
  | ["changes"; iid; t] -> OChanges (nn iid, nat t)
  | ["next"; iid; s; tk] -> ONext (nn iid, src s, take tk)
  | ["resume"; iid; tk] -> OResume (nn iid, take tk)
  | ["close"; iid] -> OClose (nn iid)
  | ["gcscan"] -> OGcScan
  | ["gcapply"] -> OGcApply
  | ["reginit"; t; name] -> ORegInit (nat t, nn name)
  | ["initdone"; t; name] -> OInitDone (nat t, nn name)
  | _ -> failwith "unknown op"
let () =
  let d = ref (init_db (nat_of_int 2)) in
  read_lines_iter (fun line ->
    match split_ws line with
    | [] -> ()
    | "#case" :: _ -> print_endline line; d := init_db (nat_of_int 2)
    | ["probe"; _] -> print_endline "probe ok"       (* implementation-only directed scenario (harness/cmd/table/probe.go) *)
    | ["regdup"] -> print_endline "err=duplicate"   (* rejected registration: no state change *)
    | ["late"; _] -> print_endline "ok"   (* Abort / Commit on finished transaction handles: no effect *)
    | "at" :: _ -> print_endline "ok"   (* `at <point> <k>`: the next k ops run inside the following op at a hook point
                                            that precedes any of its effects: same as running them first *)
    | f ->
      (match (try Some (parse_op f) with _ -> None) with
       | None -> Printf.printf "E unknown op: %s\n" line
       | Some o -> let (d', out) = step !d o in d := d'; print_endline (out_s out)))
