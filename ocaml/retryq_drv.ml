(* retryq_drv.ml — replays retryq ops on the extracted model (Reconciler/Heap.v); one output line per op. *)
let hs = ref (hq_new (n_of_int 10) (n_of_int 40))
let now = ref 0
let iz z = int_of_z z
let dump () =
  let st = !hs.hs_store in
  let ent pk = let it = st_getd pk st in Printf.sprintf "%d:%d:%d" (int_of_n pk) (iz it.hi_index) (iz it.hi_revIndex) in
  let items = List.sort compare (List.map (fun it -> (int_of_n (hi_pk it), iz it.hi_index, iz it.hi_revIndex, int_of_n it.hi_n)) st) in
  Printf.sprintf "q=[%s] r=[%s] items=[%s]"
    (String.concat " " (List.map ent !hs.hs_q)) (String.concat " " (List.map ent !hs.hs_r))
    (String.concat " " (List.map (fun (k, i, r, n) -> Printf.sprintf "%d:%d:%d:%d" k i r n) items))
let ni s = n_of_int (int_of_string s)
let positions k =
  match List.filter (fun it -> int_of_n (hi_pk it) = k) !hs.hs_store with
  | it :: _ -> Printf.sprintf "i=%d r=%d" (iz it.hi_index) (iz it.hi_revIndex)
  | [] -> "i=- r=-"
let () = read_lines_iter (fun line ->
  match split_ws line with
  | [] -> ()
  | "#case" :: _ -> print_endline line; hs := hq_new (n_of_int 10) (n_of_int 40); now := 0
  | ["new"; mn; mx] -> hs := hq_new (ni mn) (ni mx); print_endline "ok"
  | ["add"; k; rev; orig; del] ->
    hs := hq_add !hs { o_pk = ni k; o_ver = N0; o_kind = Pending; o_sid = N0; o_aux = N0 } (ni rev) (ni orig) (del = "1") (n_of_int !now);
    Printf.printf "ok %s\n" (positions (int_of_string k))
  | ["pop"] ->
    (match hq_pop !hs with
     | None -> print_endline "panic"
     | Some h ->
       let key = match hq_top !hs with Some it -> int_of_n (hi_pk it) | None -> -1 in
       hs := h; Printf.printf "ok key=%d\n" key)
  | ["top"] ->
    (match hq_top !hs with
     | None -> print_endline "top=none"
     | Some it ->
       let at = int_of_n it.hi_at in
       let cnt = List.length (List.filter (fun j -> iz j.hi_index >= 0 && int_of_n j.hi_at = at) !hs.hs_store) in
       if cnt = 1 then
         Printf.printf "top at=%d n=%d key=%d rev=%d orig=%d del=%s\n" at (int_of_n it.hi_n) (int_of_n (hi_pk it))
           (int_of_n it.hi_rev) (int_of_n it.hi_orig) (b2s it.hi_del)
       else Printf.printf "top at=%d n=%d key=~ rev=~ orig=~ del=~\n" at (int_of_n it.hi_n))
  | ["clear"; k] -> let p = positions (int_of_string k) in hs := hq_clear !hs (ni k); Printf.printf "ok %s\n" p
  | ["lwm"] ->
    let ((v, h), _) = hq_low_watermark !hs in
    hs := h; Printf.printf "lwm=%d\n" (int_of_n v)
  | ["sleep"; d] -> now := !now + int_of_string d; Printf.printf "t=%d\n" !now
  | ["woken"] -> Printf.printf "woken=%s\n" (b2s (hq_fired !hs (n_of_int !now)))
  | ["dump"] -> print_endline (dump ())
  | _ -> print_endline "E unknown op")
