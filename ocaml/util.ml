(* util.ml — glue between OCaml ints/strings and the extracted Coq datatypes.
   Concatenated after <engine>_model.ml, so constructors are in scope. Trusted. *)
let rec pos_of_int (i : int) : positive =
  if i <= 1 then XH else if i land 1 = 0 then XO (pos_of_int (i lsr 1)) else XI (pos_of_int (i lsr 1))
let rec int_of_pos = function XH -> 1 | XO p -> 2 * int_of_pos p | XI p -> 2 * int_of_pos p + 1
let n_of_int i = if i = 0 then N0 else Npos (pos_of_int i)
let int_of_n = function N0 -> 0 | Npos p -> int_of_pos p
let z_of_int i = if i = 0 then Z0 else if i > 0 then Zpos (pos_of_int i) else Zneg (pos_of_int (-i))
let int_of_z = function Z0 -> 0 | Zpos p -> int_of_pos p | Zneg p -> - (int_of_pos p)
let rec nat_of_int i = if i <= 0 then O else S (nat_of_int (i - 1))
let rec int_of_nat = function O -> 0 | S n -> 1 + int_of_nat n
(* arbitrary-size decimal <-> positive (for 64-bit values: OCaml int is 63-bit) *)
let pos_of_decimal (s : string) : n =
  (* repeated division of a decimal string by 2 *)
  let digits = ref (List.init (String.length s) (fun i -> Char.code s.[i] - 48)) in
  let bits = ref [] in
  let is_zero l = List.for_all (fun d -> d = 0) l in
  while not (is_zero !digits) do
    let rem = ref 0 in
    digits := List.map (fun d -> let v = !rem * 10 + d in rem := v mod 2; v / 2) !digits;
    bits := !rem :: !bits
  done;
  (* bits: most significant first *)
  match !bits with
  | [] -> N0
  | _ :: rest -> Npos (List.fold_left (fun acc b -> if b = 1 then XI acc else XO acc) XH rest)
let decimal_of_n (x : n) : string =
  let rec bits_of = function XH -> [1] | XO p -> 0 :: bits_of p | XI p -> 1 :: bits_of p in
  match x with
  | N0 -> "0"
  | Npos p ->
    let bits = List.rev (bits_of p) in
    (* decimal digits, least significant first *)
    let digits = ref [0] in
    List.iter (fun b ->
      let carry = ref b in
      digits := List.map (fun d -> let v = d * 2 + !carry in carry := v / 10; v mod 10) !digits;
      if !carry > 0 then digits := !digits @ [!carry]) bits;
    String.concat "" (List.rev_map string_of_int !digits)
let z_of_decimal s =
  if String.length s > 0 && s.[0] = '-' then
    (match pos_of_decimal (String.sub s 1 (String.length s - 1)) with N0 -> Z0 | Npos p -> Zneg p)
  else (match pos_of_decimal s with N0 -> Z0 | Npos p -> Zpos p)
let decimal_of_z = function Z0 -> "0" | Zpos p -> decimal_of_n (Npos p) | Zneg p -> "-" ^ decimal_of_n (Npos p)
(* hex: "-" denotes the empty string *)
let bytes_of_hex (s : string) : n list =
  if s = "-" then [] else
  List.init (String.length s / 2) (fun i -> n_of_int (int_of_string ("0x" ^ String.sub s (2 * i) 2)))
let hex_of_bytes (l : n list) : string =
  if l = [] then "-" else String.concat "" (List.map (fun b -> Printf.sprintf "%02x" (int_of_n b)) l)
let hex_opt = function None -> "panic" | Some b -> hex_of_bytes b
let split_ws (s : string) : string list = List.filter (fun x -> x <> "") (String.split_on_char ' ' s)
let read_lines_iter (f : string -> unit) =
  try while true do f (input_line stdin) done with End_of_file -> ()
let b2s b = if b then "1" else "0"
