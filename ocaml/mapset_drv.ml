(* mapset_drv.ml — replays mapset ops on the extracted register machine (MapSet/Model.v);
   one output line per op: "<result> | <dump of every register>". *)
let st = ref st0
let nid s = n_of_int (int_of_string s)
let hx = hex_of_bytes
let kvs l = String.concat "," (List.map (fun (k, v) -> hx k ^ ":" ^ string_of_int (int_of_n v)) l)
let optv = function None -> "-" | Some v -> string_of_int (int_of_n v)
let sorted r = List.sort (fun (a, _) (b, _) -> compare (int_of_n a) (int_of_n b)) r
let rec pairs = function
  | k :: v :: r -> (bytes_of_hex k, n_of_int (int_of_string v)) :: pairs r
  | _ -> []
(* consumer breaking after lim elements; lim = 0: no break *)
let lim_take lim l = if lim <= 0 then l else take (nat_of_int lim) l

let dump probe =
  let b = Buffer.create 256 in
  List.iter (fun (i, m) ->
    Buffer.add_string b (Printf.sprintf " m%d=%d[%s]g%s" (int_of_n i) (int_of_n (mlen m)) (kvs (mall m)) (optv (mget m probe))))
    (sorted !st.maps);
  List.iter (fun (i, s) ->
    Buffer.add_string b (Printf.sprintf " s%d=%d[%s]h%s" (int_of_n i) (int_of_n (slen s)) (kvs (sall s)) (b2s (shas s probe))))
    (sorted !st.sets);
  List.iter (fun (i, t) ->
    Buffer.add_string b (Printf.sprintf " t%d=%d[%s]g%s" (int_of_n i) (int_of_n (tlen t)) (kvs (tall t)) (optv (tget t probe))))
    (sorted !st.txns);
  Buffer.contents b

let out res probe = Printf.printf "%s |%s\n" res (dump probe)

(* destination-creating op on maps / sets / txns *)
let mk_m d o probe =
  match rget !st.maps (nid d) with
  | Some _ -> out "dup" probe
  | None -> st := step !st o; out "ok" probe
let mk_s d o probe =
  match rget !st.sets (nid d) with
  | Some _ -> out "dup" probe
  | None -> st := step !st o; out "ok" probe
let with_t t f probe =
  match rget !st.txns (nid t) with
  | None -> out "notxn" probe
  | Some x -> f x
let first_key = function k :: _ -> bytes_of_hex k | [] -> []

let eqall () =
  let ms = sorted !st.maps and ss = sorted !st.sets in
  let b = Buffer.create 256 in
  List.iter (fun (i, a) -> List.iter (fun (j, c) ->
    Buffer.add_string b (Printf.sprintf " m%d~m%d:%s%s" (int_of_n i) (int_of_n j) (b2s (mequalKeys a c)) (b2s (mslowEqual a c)))) ms) ms;
  List.iter (fun (i, a) -> List.iter (fun (j, c) ->
    Buffer.add_string b (Printf.sprintf " s%d~s%d:%s" (int_of_n i) (int_of_n j) (b2s (sequal a c)))) ss) ss;
  "eq" ^ Buffer.contents b

let () = read_lines_iter (fun line ->
  match split_ws line with
  | [] -> ()
  | "#case" :: _ -> st := st0; print_endline line
  | ["mset"; d; s; k; v] -> let k = bytes_of_hex k in mk_m d (OMSet (nid d, nid s, k, nid v)) k
  | ["mdel"; d; s; k] -> let k = bytes_of_hex k in mk_m d (OMDel (nid d, nid s, k)) k
  | "mfrom" :: d :: s :: r -> mk_m d (OMFrom (nid d, nid s, pairs r)) (first_key r)
  | ["mtxn"; t; s] ->
    (match rget !st.txns (nid t) with
     | Some _ -> out "dup" []
     | None -> st := step !st (OMTxn (nid t, nid s)); out "ok" [])
  | ["tset"; t; k; v] -> let k = bytes_of_hex k in
    with_t t (fun _ -> st := step !st (OTSet (nid t, k, nid v)); out "ok" k) k
  | ["tdel"; t; k] -> let k = bytes_of_hex k in
    with_t t (fun x -> let (_, found) = tdelete x k in
               st := step !st (OTDel (nid t, k)); out ("found=" ^ b2s found) k) k
  | ["tcommit"; d; t] ->
    with_t t (fun _ -> mk_m d (OTCommit (nid d, nid t)) []) []
  | ["tall"; t; lim] ->
    with_t t (fun x -> out ("it[" ^ kvs (lim_take (int_of_string lim) (tall x)) ^ "]") []) []
  | ["tpre"; t; k; lim] -> let k = bytes_of_hex k in
    with_t t (fun x -> out ("it[" ^ kvs (lim_take (int_of_string lim) (tprefix x k)) ^ "]") k) k
  | ["tlb"; t; k; lim] -> let k = bytes_of_hex k in
    with_t t (fun x -> out ("it[" ^ kvs (lim_take (int_of_string lim) (tlower x k)) ^ "]") k) k
  | ["mall"; s; lim] -> out ("it[" ^ kvs (lim_take (int_of_string lim) (mall (getm !st (nid s)))) ^ "]") []
  | ["mpre"; s; k; lim] -> let k = bytes_of_hex k in
    out ("it[" ^ kvs (lim_take (int_of_string lim) (mprefix (getm !st (nid s)) k)) ^ "]") k
  | ["mlb"; s; k; lim] -> let k = bytes_of_hex k in
    out ("it[" ^ kvs (lim_take (int_of_string lim) (mlower (getm !st (nid s)) k)) ^ "]") k
  | ["mjson"; d; s] -> mk_m d (OMJson (nid d, nid s)) []
  | ["myaml"; d; s] -> mk_m d (OMYaml (nid d, nid s)) []
  | "mdecj" :: d :: r -> mk_m d (OMDecJ (nid d, pairs r)) (first_key r)
  | "mdecy" :: d :: r -> mk_m d (OMDecY (nid d, pairs r)) (first_key r)
  | "snew" :: d :: r -> mk_s d (OSNew (nid d, pairs r)) (first_key r)
  | ["sset"; d; s; k; v] -> let k = bytes_of_hex k in mk_s d (OSSet (nid d, nid s, k, nid v)) k
  | ["sdel"; d; s; k] -> let k = bytes_of_hex k in mk_s d (OSDel (nid d, nid s, k)) k
  | ["sunion"; d; a; b] -> mk_s d (OSUnion (nid d, nid a, nid b)) []
  | ["sdiff"; d; a; b] -> mk_s d (OSDiff (nid d, nid a, nid b)) []
  | ["sjson"; d; s] -> mk_s d (OSJson (nid d, nid s)) []
  | ["syaml"; d; s] -> mk_s d (OSYaml (nid d, nid s)) []
  | "sdecj" :: d :: r -> mk_s d (OSDecJ (nid d, pairs r)) (first_key r)
  | "sdecy" :: d :: r -> mk_s d (OSDecY (nid d, pairs r)) (first_key r)
  | ["sall"; s; lim] -> out ("it[" ^ kvs (lim_take (int_of_string lim) (sall (gets !st (nid s)))) ^ "]") []
  | ["stbf"; s] -> out ("tbf=" ^ b2s (stbf (gets !st (nid s)))) []
  | "vrt" :: codec :: _vtype :: r ->
    (* round trip of a freshly built map whose values are opaque items (non-scalar on the Go side) *)
    let m = List.fold_left (fun m (k, v) -> mset m k v) MEmpty (pairs r) in
    let d = if codec = "j" then mdecode_json (mencode m) else mdecode_yaml (mencode m) in
    out ("rt[" ^ kvs (mall d) ^ "]") (first_key r)
  | ["eqall"] -> out (eqall ()) []
  | _ -> Printf.printf "E unknown op: %s\n" line)
