(* lpm_drv.ml — replays lpm ops (C13) on the extracted model; one output line per op.
   Objects: committed tries t<i> (t0 = New()), transactions x<i>, iterators i<i>. *)
let tries : (int, trie) Hashtbl.t = Hashtbl.create 16
let txns : (int, txn) Hashtbl.t = Hashtbl.create 16
let iters : (int, node list) Hashtbl.t = Hashtbl.create 16
let committed : (int, bool) Hashtbl.t = Hashtbl.create 16
exception Committed
let reset () = Hashtbl.reset tries; Hashtbl.reset txns; Hashtbl.reset iters; Hashtbl.reset committed;
  Hashtbl.replace tries 0 trie_new
(* a live transaction: committed ones must be reused (or cleared) first *)
let live x = let t = Hashtbl.find txns x in if Hashtbl.mem committed x then raise Committed else t
let num s = int_of_string (String.sub s 1 (String.length s - 1))
(* hex of the undecoded key -> DecodeLPMKey *)
let key_of_hex h =
  let b = bytes_of_hex h in
  let n = List.length b in
  let data = List.filteri (fun i _ -> i < n - 2) b in
  let hi = int_of_n (List.nth b (n - 2)) and lo = int_of_n (List.nth b (n - 1)) in
  (data, n_of_int (hi * 256 + lo))
let hex_of_key (d, pl) = let p = int_of_n pl in
  hex_of_bytes (d @ [n_of_int (p / 256); n_of_int (p mod 256)])
let str_entries l = if l = [] then "-" else
  String.concat " " (List.map (fun (k, v) -> hex_of_key k ^ "=" ^ decimal_of_n v) l)
let str_res (v, f) = Printf.sprintf "%s %s" (b2s f) (decimal_of_n v)
let rec dump = function
  | Nil -> "."
  | Node (k, v, i, t, c0, c1) ->
    Printf.sprintf "(%s%s=%s@%s %s %s)" (hex_of_key k) (if i then "*" else "") (decimal_of_n v) (decimal_of_n t) (dump c0) (dump c1)
let root_of tgt = if tgt.[0] = 't' then (Hashtbl.find tries (num tgt)).r_root else (live (num tgt)).t_root
let is_txn tgt = tgt.[0] = 'x'
(* iterator-producing calls: on a txn they bump the txn id *)
let mk_iter tgt it f_txn f_root =
  let st = if is_txn tgt then begin
      let x = live (num tgt) in
      let (x', st) = f_txn x in Hashtbl.replace txns (num tgt) x'; st end
    else f_root (root_of tgt) in
  Hashtbl.replace iters (num it) st;
  Printf.printf "%s\n" (str_entries (it_entries st))
let () = reset (); read_lines_iter (fun line ->
  try match split_ws line with
  | [] -> ()
  | "#case" :: _ -> reset (); print_endline line
  | ["txn"; x; t] -> Hashtbl.replace txns (num x) (trie_txn (Hashtbl.find tries (num t))); print_endline "ok"
  | ["reuse"; x; t] -> Hashtbl.replace txns (num x) (txn_reuse (Hashtbl.find txns (num x)) (Hashtbl.find tries (num t)));
    Hashtbl.remove committed (num x); print_endline "ok"
  | ["clear"; x] -> Hashtbl.replace txns (num x) (txn_clear (Hashtbl.find txns (num x)));
    Hashtbl.remove committed (num x); print_endline "ok"
  | ["commit"; x; t] -> Hashtbl.replace tries (num t) (txn_commit (live (num x)));
    Hashtbl.replace committed (num x) true; print_endline "ok"
  | ["ins"; x; k; v] ->
    let x' = txn_insert (live (num x)) (key_of_hex k) (pos_of_decimal v) in
    Hashtbl.replace txns (num x) x'; Printf.printf "ok len=%d\n" (int_of_n (txn_len x'))
  | ["del"; x; k] ->
    let (x', r) = txn_delete (live (num x)) (key_of_hex k) in
    Hashtbl.replace txns (num x) x'; Printf.printf "%s len=%d\n" (str_res r) (int_of_n (txn_len x'))
  | ["get"; tgt; k] -> print_endline (str_res (lookup (root_of tgt) (key_of_hex k)))
  | ["getx"; tgt; k] -> print_endline (str_res (lookupExact (root_of tgt) (key_of_hex k)))
  | ["len"; tgt] ->
    Printf.printf "len=%d\n" (int_of_n (if is_txn tgt then txn_len (live (num tgt)) else trie_len (Hashtbl.find tries (num tgt))))
  | ["all"; tgt; it] -> mk_iter tgt it txn_all all
  | ["pfx"; tgt; k; it] -> let k = key_of_hex k in mk_iter tgt it (fun x -> txn_prefix x k) (fun r -> prefix r k)
  | ["lb"; tgt; k; it] -> let k = key_of_hex k in mk_iter tgt it (fun x -> txn_lowerBound x k) (fun r -> lowerBound r k)
  | ["it"; it] -> print_endline (str_entries (it_entries (Hashtbl.find iters (num it))))
  | ["next"; it] ->
    let st = Hashtbl.find iters (num it) in
    (match it_next (it_fuel st) st with
     | (None, st') -> Hashtbl.replace iters (num it) st'; print_endline "end"
     | (Some (k, v), st') -> Hashtbl.replace iters (num it) st'; Printf.printf "%s=%s\n" (hex_of_key k) (decimal_of_n v))
  | ["snap"] ->
    let ids h = List.sort compare (Hashtbl.fold (fun k _ a -> k :: a) h []) in
    let ts = List.map (fun i -> let t = Hashtbl.find tries i in
      Printf.sprintf "t%d=%d[%s]" i (int_of_n (trie_len t)) (str_entries (it_entries (all t.r_root)))) (ids tries) in
    let is = List.map (fun i -> Printf.sprintf "i%d[%s]" i (str_entries (it_entries (Hashtbl.find iters i)))) (ids iters) in
    print_endline (String.concat " " (ts @ is))
  | ["dump"; tgt] ->
    let id = if is_txn tgt then (live (num tgt)).t_id else (Hashtbl.find tries (num tgt)).r_prev in
    Printf.printf "id=%s %s\n" (decimal_of_n id) (dump (root_of tgt))
  | _ -> Printf.printf "E unknown op: %s\n" line
  with Not_found -> print_endline "noobj" | Committed -> print_endline "committed")
